"""C09 - blocking calls always end on cancellation or close; close is clean.
Spec: specs/cancel/Cancel.tla. Part 1 models every blocking client call as a path of waits, each a select over
the contexts the code's select lists (Sel, read from the code); part 2 models the close protocol (Close = cancel
context + once-guarded socket close; the reader loop / the server's close function run shutdown = pop the
on-close list under the mutex, run it, complete done) with several closers and shutters. TLC proves under weak
fairness of the call's and the connection's own goroutines only (the peer owes nothing): Ends, CloseCompletes,
OnceEach, SockOnce - and shows that the pinned Ping select (no connection context) and a non-atomic pop break
them (vacuity guards). The spec's Tuples (operation x point x kind) x noise are executed on REAL udp and tcp
client connections (in-memory transports, the driver is the peer), discovery on a real udp server, and real
udp / tcp / dtls / tls servers with requests in flight are stopped from several goroutines; TLC (RecC09) judges."""
import json
import os

import vf

ACCEPTED_WHY = set()      # the spec's tuples are per transport: every one of them must be steerable


def run(ctx):
    thorough = ctx.tier == "thorough"
    vf.build_driver(ctx)
    if thorough:
        vf.build_driver(ctx, race=True)
    # ---- design level ----------------------------------------------------------------------------------
    tuples = None
    # (config, expected violation): the last three are vacuity guards - the pinned Ping select, a refused write that
    # keeps the NSTART slot, a non-atomic pop must each break the property they exist for
    design = [("MC_Cancel_calls2_dg.cfg", None), ("MC_Cancel_calls2_st.cfg", None), ("MC_Cancel_calls2_srv.cfg", None),
              ("MC_Cancel_close_rd.cfg", None), ("MC_Cancel_close_sh.cfg", None),
              ("MC_Cancel_mut_pinned.cfg", "EndsButD22"), ("MC_Cancel_mut_pop.cfg", "OnceEach"), ("MC_Cancel_mut_park.cfg", "CloseCompletes"),
              # a write parked on a stalled stream peer: the pinned tree (woken by the socket's close only) and a Close that waits for
              # the write lock break Ends; finding D22 (a ping is written under the connection's context) breaks the unrestricted Ends
              ("MC_Cancel_mut_wpark.cfg", "EndsButD22"), ("MC_Cancel_mut_closelock.cfg", "EndsButD22"), ("MC_Cancel_find_d22.cfg", "Ends")]
    if thorough:
        design += [("MC_Cancel_calls_dg.cfg", None), ("MC_Cancel_calls_st.cfg", None), ("MC_Cancel_calls_srv.cfg", None),
                   ("MC_Cancel_mut_leak.cfg", "Ends")]
    for cfg, expect in design:
        r = vf.run_tlc(ctx, "cancel", "MC_Cancel", cfg, workers=8 if thorough else 4, timeout=3600, cont=False)
        if expect is None:
            vf.tlc_must_finish(r, cfg)
            if r.inv or r.props:
                raise vf.Machinery("design-level property failed in %s (spec bug): %s" % (cfg, r.inv + r.props))
            if tuples is None:
                tuples = os.path.join(r.dir, "tuples.json")
        else:
            got = r.inv + r.props
            if expect not in got:
                raise vf.Machinery("vacuity guard: %s should violate %s, TLC reported %s" % (cfg, expect, got))
        ctx.add("states", r.distinct)
        ctx.add("transitions", r.generated)
    ts = json.load(open(tuples))
    ctx.cov["spec_tuples"] = len(ts)
    # ---- the real code ---------------------------------------------------------------------------------
    recs = []
    rounds = 12 if thorough else 2
    for k in range(rounds):
        out = os.path.join(ctx.work, "ops-%d.ndjson" % k)
        race = thorough and k == 0
        vf.drv(ctx, ["c09", tuples, out], timeout=1800, race=race)
        recs += vf.read_ndjson(out)
    out = os.path.join(ctx.work, "srv.ndjson")
    vf.drv(ctx, ["c09srv", out, str(12 if thorough else 3)], timeout=1800)
    srv = vf.read_ndjson(out)
    allrecs = recs + srv
    bad, gen, dist = vf.judge_records(ctx, "cancel", "RecC09", "RecC09.cfg", allrecs, shards=4, timeout=900)
    ctx.add("states", dist)
    ctx.add("transitions", gen)
    ctx.add("traces_validated_against_impl", len(allrecs))
    floods = [s for s in srv if "flood" in s]
    srv = [s for s in srv if "flood" not in s]
    ctx.cov["close_with_full_queue_scenarios"] = len(floods)
    if floods and sum(1 for f in floods if f["busy"]) * 10 < len(floods) * 9:
        raise vf.Machinery("flood scenarios not steered: %s" % floods[:2])
    reached = [r for r in recs if r["reached"]]
    ctx.cov["interruptions_run"] = len(recs)
    ctx.cov["interruptions_steered_to_the_point"] = len(reached)
    ctx.cov["server_stop_scenarios"] = len(srv)
    ctx.cov["server_stop_scenarios_steered"] = sum(1 for s in srv if s["inflight"] == s["clients"] == s["conns"])
    by = {}
    for r in reached:
        k = "%s:%s@%s" % (r["transport"], r["op"], r["pt"])
        by.setdefault(k, set()).add(r["kind"] + "/" + r["noise"])
    ctx.cov["reached_by_transport_op_point"] = {k: len(v) for k, v in sorted(by.items())}
    odd = [r for r in recs if not r["reached"] and r["why"] not in ACCEPTED_WHY]
    if odd:
        ctx.drift.append({"clause": "steering", "records": len(odd),
                          "first": [[r["transport"], r["op"], r["pt"], r["kind"], r["noise"], r["why"]] for r in odd[:6]]})
        if len(odd) * 20 > len(recs):
            raise vf.Machinery("the driver failed to steer %d of %d interruptions: %s" % (len(odd), len(recs), odd[0]))
    if ctx.cov["server_stop_scenarios_steered"] * 10 < len(srv) * 9:
        raise vf.Machinery("server scenarios not steered: %s" % [s for s in srv if s["inflight"] != s["clients"]][:2])
    # every spec tuple must have been reached on some transport
    want = set((t["op"], t["pt"], t["kind"], t["noise"], t["datagram"]) for t in ts)
    have = set((r["op"], r["pt"], r["kind"], r["noise"], r["transport"] != "tcp") for r in reached)
    miss = sorted(want - have)
    ctx.cov["spec_tuples_reached_on_real_code"] = len(want & have)
    ctx.cov["spec_tuples_unreachable"] = ["/".join(str(x) for x in m) for m in miss]
    for clause, idxs in sorted(bad.items()):
        rs = [allrecs[i] for i in idxs]
        if clause.startswith("K09"):
            ctx.drift.append({"clause": clause, "records": len(rs), "first": rs[0]})
            continue
        groups = {}
        for r in rs:
            if "flood" in r:
                sig = {"transport": r["transport"], "flood": r["flood"]}
            elif "op" in r:
                sig = {"transport": r["transport"], "op": r["op"], "pt": r["pt"], "kind": r["kind"]}
            else:
                sig = {"transport": r["transport"], "order": r["order"]}
            groups.setdefault(json.dumps(sig, sort_keys=True), []).append(r)
        for s, g in sorted(groups.items()):
            vf.report(ctx, clause, json.loads(s), "%d record(s); first: %s" % (len(g), json.dumps(g[0])),
                      {"record": g[0], "cmd": "bin/check C09 --tier %s" % ctx.tier})

    def mutate(r, rng):
        if "op" not in r or not r["reached"]:
            return None
        r = dict(r)
        r["returned"] = False
        return r
    vf.negative_control(ctx, "cancel", "RecC09", "RecC09.cfg", allrecs, mutate)

    def mutate2(r, rng):
        if "op" not in r or not r["reached"] or not r["closing"] or r["transport"] == "udpserver":
            return None
        r = dict(r)
        r["onclose"] = [1, 2, 1]
        return r
    vf.negative_control(ctx, "cancel", "RecC09", "RecC09.cfg", allrecs, mutate2)
    ctx.sample({"op_record": reached[len(reached) // 2], "server_record": srv[-1], "flood_record": floods[-1] if floods else None})
    ctx.assumptions += ["'bounded delay' is a 2 s watchdog per call (the calls return within milliseconds on the unchanged tree)",
                        "client operations run on in-memory transports that refuse writes under a finished context exactly as net.UDPConn / net.Conn do; server stop and discovery run on real loopback sockets",
                        "dtls/tls clients are covered by the server-stop scenarios only (their blocking calls are the udp/tcp client code)"]
    return vf.finish(ctx, extra_cov={"exhaustive": False})
