"""C01 - wire codecs are exact inverses on every well-formed message (UDP and TCP).
Spec: specs/wire/CoapWire.tla (RFC 7252 s3 / RFC 8323 s3 as operators; MC_CoapWire proves parse(enc(m)) = m
on bounded messages). Records of the real Size/Encode/Decode (raw coders and pooled API) are judged by TLC."""
import vf


def key(r):
    m = r["m"]
    return "%s/%s type=%s mid=%s code=%s tkl=%d opts=%s paylen=%d" % (
        r["tr"], r["api"], m["type"], m["mid"], m["code"], len(m["tok"]),
        [(o["id"], len(o["val"])) for o in m["opts"]][:6], len(m["pay"]))


def group(clause, r):
    m = r["m"]
    if clause == "C01_Refuse":
        why = []
        if len(m["tok"]) > 8:
            why.append("token>8")
        if r["tr"] == "udp" and 4 <= m["type"] <= 255:
            why.append("type4-255")
        elif r["tr"] == "udp" and not (0 <= m["type"] <= 3):
            why.append("type-out-of-uint8")
        if r["tr"] == "udp" and not (0 <= m["mid"] <= 65535):
            why.append("mid")
        return r["tr"] + ":" + r["api"] + ":" + "+".join(why)
    return r["tr"] + ":" + r["api"]


def mutate(rec, rng):
    if rec["op"] == "enc" and not rec["enc"]["err"] and rec["enc"].get("bytes") and len(rec["enc"]["bytes"]) < 200 \
            and 0 <= rec["m"]["type"] <= 3 and len(rec["m"]["tok"]) <= 8:
        b = list(rec["enc"]["bytes"])
        k = rng.randrange(len(b))
        b[k] = (b[k] + 1 + rng.randrange(200)) % 256
        rec["enc"] = dict(rec["enc"], bytes=b)
        return rec
    return None


def run(ctx):
    thorough = ctx.tier == "thorough"
    recs, bad = vf.record_property(
        ctx, "wire", [("MC_CoapWire", "MC_CoapWire_thorough.cfg" if thorough else "MC_CoapWire.cfg")],
        ["c01", "<out>"], "RecC01", "RecC01.cfg", key, mutate, "RFC 7252 s3 / RFC 8323 s3.2 (CoapWire.tla)",
        shards=8, conformance_only=("K01_Bytes",), group=group, tlc_timeout=2400, drv_timeout=1800)
    ctx.assumptions += ["'without touching memory beyond the buffer' is observed through canary bytes behind the destination slice (tested, not proved)",
                        "messages outside the preconditions other than the three named refusals are not exercised"]
    return vf.finish(ctx, extra_cov={"exhaustive": False})
