"""C11 - each received message is processed once; handlers may call back.
Spec: specs/reader/Reader.tla (loop / TryToReplaceLoop line by line; Go's random select as separately enabled
actions; state as one record). TLC explores all interleavings of the repaired design (AtMostOnce, InOrder,
NoDrop, NoStall) and, in generator mode over the UNREPAIRED variant (a superset of behaviours, including a
replaced loop that keeps dequeuing), emits random walks of push/start/ret/replace/close events. The driver
replays them on the real ReceivedMessageReader with a driver-owned client, the verif gate between dequeue and
dispatch and handler goroutines that call TryToReplaceLoop like a nested request does; steps the real code does
not offer are skipped. A second part runs nested blocking requests (depth 1-3, queue sizes 0/1/16) inside
handlers of real udp/tcp connections. TLC (RecC11) judges the recorded observations and tracks conformance."""
import json
import os

import vf


def cfg(nmsgs, qcap, loops, exitw, walks, maxev, invs):
    return ("INIT Init\nNEXT Next\n%sCONSTANTS\n  NMsgs = %d\n  QCap = %d\n  MaxLoops = %d\n  ExitWhenReplaced = %s\n  Walks = %d\n  MaxEvents = %d\nINVARIANTS %s\n"
            % ("" if walks else "VIEW View\n", nmsgs, qcap, loops, exitw, walks, maxev, invs))


def run(ctx):
    thorough = ctx.tier == "thorough"
    vf.build_driver(ctx)
    cdir = ctx.subdir("cfg")
    # (a) design: every interleaving of the repaired reader
    for nm, qc, lp in ([(4, 1, 4), (4, 2, 4)] + ([(5, 2, 5)] if thorough else [])):
        p = os.path.join(cdir, "MC_Reader_%d_%d.cfg" % (nm, qc))
        with open(p, "w") as f:
            f.write(cfg(nm, qc, lp, "TRUE", 0, 0, "Inv_AtMostOnce Inv_InOrder Inv_NoDrop Inv_NoStall"))
        r = vf.run_tlc(ctx, "reader", "MC_Reader", os.path.basename(p), files=[p], timeout=2400, cont=False)
        vf.tlc_must_finish(r, "MC_Reader")
        if r.inv:
            raise vf.Machinery("design-level invariant failed (spec bug, not a code verdict): %s" % r.inv)
        ctx.add("states", r.distinct)
        ctx.add("transitions", r.generated)
    # (b) generator: walks over the unrepaired variant (superset of behaviours)
    stim = []
    for qc in (1, 2):
        p = os.path.join(cdir, "MC_Reader_gen_%d.cfg" % qc)
        with open(p, "w") as f:
            f.write(cfg(6, qc, 7, "FALSE", 400 if thorough else 120, 20, "Emit"))
        g = vf.run_tlc(ctx, "reader", "MC_Reader", os.path.basename(p), files=[p], workers=1, seed=ctx.seed * 13 + qc, timeout=900, cont=False)
        vf.tlc_must_finish(g, "MC_Reader gen")
        for line in g.out.splitlines():
            if line.startswith('<<"HIST", '):
                steps = json.loads(json.loads(line[len('<<"HIST", '):-2]))
                for rep in range(3 if thorough else 2):      # the runtime's select is random: repeat
                    stim.append({"t": len(stim) + 1, "qcap": qc, "steps": steps})
    if not stim:
        raise vf.Machinery("no behaviours generated")
    # directed histories with overlapping (non-LIFO) handlers that call back, predicted by the model (queue capacity 2)
    directed = json.load(open(os.path.join(g.dir, "directed.json")))
    for steps in directed:
        for rep in range(6 if thorough else 3):
            stim.append({"t": len(stim) + 1, "qcap": 2, "steps": steps})
    ctx.cov["directed_histories"] = len(directed)
    spath = os.path.join(ctx.work, "stimuli.ndjson")
    vf.write_ndjson(spath, stim)
    out = os.path.join(ctx.work, "traces.ndjson")
    vf.drv(ctx, ["c11", spath, out], timeout=1800)
    out2 = os.path.join(ctx.work, "nested.ndjson")
    vf.drv(ctx, ["c11nested", out2], timeout=1800)
    traces = vf.read_ndjson(out)
    nested = vf.read_ndjson(out2)
    allt = traces + nested
    bad, gen, dist = vf.judge_records(ctx, "reader", "RecC11", "RecC11.cfg", allt, shards=8, timeout=2400)
    ctx.add("states", dist)
    ctx.add("transitions", gen)
    ctx.add("traces_validated_against_impl", len(allt))
    ctx.cov["behaviours_generated"] = len(stim)
    ctx.cov["events_validated"] = sum(len(t["ev"]) for t in traces)
    ctx.cov["steps_not_offered_by_the_code"] = sum(1 for t in traces for e in t["ev"] if not e["applied"])
    ctx.cov["nested_scenarios"] = len(nested)
    for clause, idxs in sorted(bad.items()):
        ts = [allt[i] for i in idxs]
        if clause == "K11_Conforms":
            ctx.drift.append({"clause": clause, "traces": len(ts), "first": [e["act"] for e in ts[0]["ev"]][:20]})
            continue
        t0 = min(ts, key=lambda t: len(t["ev"]))
        if t0["op"] == "reader":
            sig = {"op": "reader", "qcap": t0["qcap"], "event_kinds": sorted(set(e["act"]["a"] for e in t0["ev"]))}
            what = "%d recorded reader history(ies) violate the clause; e.g. events %s -> started %s" % (
                len(ts), json.dumps([[e["act"]["a"], e["act"]["m"]] for e in t0["ev"] if e["applied"]]), t0["final"]["started"])
        else:
            sig = {"op": "nested", "transport": t0["transport"], "depth": t0["depth"], "qsize": t0["qsize"]}
            what = "%d nested-request scenario(s) did not complete / dispatched a message twice; e.g. %s depth %d queue %d: %s" % (
                len(ts), t0["transport"], t0["depth"], t0["qsize"], t0["log"])
        vf.report(ctx, clause, sig, what, {"trace": t0, "cmd": "bin/check C11 --tier %s" % ctx.tier})

    def mutate(t, rng):
        if t["op"] == "reader" and len(t["final"]["started"]) >= 2 and not t["closed"]:
            f = dict(t["final"])
            f["started"] = list(f["started"][:-1]) + [f["started"][0]]
            t["final"] = f
            return t
        return None
    vf.negative_control(ctx, "reader", "RecC11", "RecC11.cfg", traces, mutate)
    t0 = traces[0]
    ctx.sample({"qcap": t0["qcap"], "events": [[e["act"]["a"], e["act"]["m"], e["applied"], e["st"]["gated"], e["st"]["busy"], e["st"]["started"]] for e in t0["ev"]][:10]})
    ctx.sample(nested[0])
    ctx.assumptions += ["arrival-order is claimed for runs in which the loop is replaced only from inside a running handler or while nothing is in flight (an outside TryToReplaceLoop while a message sits between dequeue and dispatch hands two messages to two goroutines by design)",
                        "Go's select cannot be gated: branches the runtime did not take are skipped (counted as steps_not_offered_by_the_code), walks are repeated",
                        "quiescence: observed state equals a predicted one, or unchanged for 3 ms"]
    return vf.finish(ctx, extra_cov={"exhaustive": False})
