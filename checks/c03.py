"""C03 - every response reaches exactly the request that carries its token.
Spec: specs/udp/Exchange.tla (token table: register-or-reject, deliver = load-and-delete, answer styles
piggybacked / ACK-then-separate / response without ACK / duplicate, cancel). TLC explores all histories for 4
callers (two sharing a token) on the design and generates random walks; the driver replays each walk on a real
udp/client.Conn (in-memory session, NSTART raised) and a real tcp/client.Conn (scripted stream) with one
goroutine per caller, and records what every call returned after each event; TLC (RecC03) judges."""
import json
import os

import vf

TOK = [1, 2, 1, 3]


def run(ctx):
    thorough = ctx.tier == "thorough"
    vf.build_driver(ctx)
    r = vf.run_tlc(ctx, "udp", "MC_Exchange", "MC_Exchange.cfg", timeout=1200, cont=False)
    vf.tlc_must_finish(r, "MC_Exchange")
    if r.inv:
        raise vf.Machinery("design-level invariant failed (spec bug): %s" % r.inv)
    ctx.add("states", r.distinct)
    ctx.add("transitions", r.generated)
    stim = []
    for k in range(5 if thorough else 1):
        g = vf.run_tlc(ctx, "udp", "MC_Exchange", "MC_Exchange_gen.cfg", workers=1, seed=ctx.seed * 23 + k, timeout=900, cont=False)
        vf.tlc_must_finish(g, "MC_Exchange gen")
        for line in g.out.splitlines():
            if line.startswith('<<"HIST", '):
                steps = json.loads(json.loads(line[len('<<"HIST", '):-2]))
                stim.append({"t": len(stim) + 1, "tok": TOK, "steps": steps})
    if not stim:
        raise vf.Machinery("no behaviours generated")
    spath = os.path.join(ctx.work, "stimuli.ndjson")
    vf.write_ndjson(spath, stim)
    out = os.path.join(ctx.work, "traces.ndjson")
    vf.drv(ctx, ["c03", spath, out], timeout=1800)
    traces = vf.read_ndjson(out)
    # free-running callers that release their responses at once (the hand-over / hijack path under real concurrency)
    out2 = os.path.join(ctx.work, "stress.ndjson")
    vf.drv(ctx, ["c03stress", out2, str(40 if thorough else 8)], timeout=1800)
    stress = vf.read_ndjson(out2)
    ctx.cov["stress_bursts"] = len(stress)
    ctx.cov["stress_calls"] = sum(s["calls"] for s in stress)
    ctx.cov["stress_calls_by_transport"] = {tp: sum(x["calls"] for x in stress if x.get("transport") == tp) for tp in sorted(set(x.get("transport", "udp") for x in stress))}
    dead = [x for x in stress if x["calls"] - x["failed"] < (2 if x.get("transport", "").startswith("udp-token-reuse") else 20)]
    if dead:
        raise vf.Machinery("stress bursts that did not run: %s" % dead[:2])
    ctx.cov["stress_calls_failed"] = sum(s["failed"] for s in stress)
    hist = traces
    traces = traces + stress
    bad, gen, dist = vf.judge_records(ctx, "udp", "RecC03", "RecC03.cfg", traces, shards=4, timeout=1800)
    bad_stress = {k: [i for i in v if i >= len(hist)] for k, v in bad.items()}
    bad = {k: [i for i in v if i < len(hist)] for k, v in bad.items()}
    bad = {k: v for k, v in bad.items() if v}
    for clause, idxs in sorted(bad_stress.items()):
        if idxs:
            ss = [traces[i] for i in idxs]
            vf.report(ctx, clause, {"mode": "stress"}, "%d burst(s) of concurrent callers returned a foreign response to a caller; e.g. %s (of %d calls %d wrong)" % (
                len(ss), ss[0]["first"], ss[0]["calls"], ss[0]["wrong"]), {"record": ss[0], "cmd": "bin/check C03 --tier %s" % ctx.tier})
    traces = hist
    ctx.add("states", dist)
    ctx.add("transitions", gen)
    ctx.add("traces_validated_against_impl", len(traces))
    ctx.cov["behaviours_generated"] = len(stim)
    ctx.cov["events_validated"] = sum(len(t["ev"]) for t in traces)
    ctx.cov["calls_ok"] = sum(1 for t in traces for x in t["ev"][-1]["res"] if x["pc"] == "ok")
    ctx.cov["calls_rejected"] = sum(1 for t in traces for x in t["ev"][-1]["res"] if x["pc"] == "rejected")
    for clause, idxs in sorted(bad.items()):
        ts = [traces[i] for i in idxs]
        t0 = min(ts, key=lambda t: len(t["ev"]))
        acts = [[e["act"]["a"], e["act"]["c"], e["act"]["y"]] for e in t0["ev"] if e["applied"]]
        vf.report(ctx, clause, {"transport": t0["transport"], "styles": sorted(set(a[2] for a in acts if a[0] == "answer"))},
                  "%d recorded history(ies) on %s violate the clause; shortest: %s -> %s" % (
                      len(ts), t0["transport"], json.dumps(acts), json.dumps([[x["pc"], x["forc"], x["serial"]] for x in t0["ev"][-1]["res"]])),
                  {"trace": t0, "cmd": "bin/check C03 --tier %s" % ctx.tier})

    def mutate(t, rng):
        ev = [dict(e) for e in t["ev"]]
        res = [dict(x) for x in ev[-1]["res"]]
        for x in res:
            if x["pc"] == "ok":
                x["forc"] = x["forc"] % 4 + 1
                ev[-1]["res"] = res
                t["ev"] = ev
                return t
        return None
    vf.negative_control(ctx, "udp", "RecC03", "RecC03.cfg", traces, mutate)
    t0 = traces[0]
    ctx.sample({"transport": t0["transport"], "events": [[e["act"]["a"], e["act"]["c"], e["act"]["y"], [x["pc"] for x in e["res"]]] for e in t0["ev"]][:10]})
    ctx.assumptions += ["in-memory transports (udp session / scripted stream); real loopback DTLS/TLS are exercised by C09/C10",
                        "an answer is injected only while its request is outstanding (a stale answer that meets a re-used token is the application's token-reuse problem, not the library's)",
                        "token values are abstract bytes; collisions of the 64-bit token hash between different tokens are outside the model"]
    return vf.finish(ctx, extra_cov={"exhaustive": False})
