"""C12 - a pooled message has one owner at a time.
Spec: specs/pool/Lifecycle.tla (per-object automaton: handed out / held by the application / released; release,
application release, re-acquire, hold, unhold, content-changed events). TLC explores the automaton (sanity
theorems) and, via specs/leak, generates the exchange histories. The driver records the pool's verif-hook events
plus its own hold / release marks while real udp connections run (a) those histories one exchange at a time and
(b) many exchanges concurrently between two joined connections with the housekeeping sweep alongside - each with
a pool of size 0 (released messages are quarantined: a later write is visible) and a normal pool (re-acquisition is
visible), the concurrent part also under the race detector; TLC (RecC12) runs every object's events through the
automaton."""
import json
import os

import vf


def run(ctx):
    thorough = ctx.tier == "thorough"
    vf.build_driver(ctx)
    vf.build_driver(ctx, race=True)
    r = vf.run_tlc(ctx, "pool", "MC_Lifecycle", "MC_Lifecycle.cfg", timeout=600, cont=False)
    vf.tlc_must_finish(r, "MC_Lifecycle")
    if r.inv:
        raise vf.Machinery("automaton theorem failed (spec bug): %s" % r.inv)
    ctx.add("states", r.distinct)
    ctx.add("transitions", r.generated)
    cdir = ctx.subdir("cfg")
    p2 = os.path.join(cdir, "MC_Leak_gen.cfg")
    with open(p2, "w") as f:
        f.write("INIT Init\nNEXT Next\nCONSTANTS\n  MaxObs = 2\n  Walks = %d\n  MaxEvents = %d\nINVARIANTS Emit\n" % (150 if thorough else 40, 30 if thorough else 20))
    g = vf.run_tlc(ctx, "leak", "MC_Leak", os.path.basename(p2), files=[p2], workers=1, seed=ctx.seed * 43, timeout=900, cont=False)
    vf.tlc_must_finish(g, "MC_Leak gen")
    ctx.add("states", g.distinct)
    ctx.add("transitions", g.generated)
    stim = []
    for line in g.out.splitlines():
        if line.startswith('<<"HIST", '):
            stim.append({"kinds": json.loads(json.loads(line[len('<<"HIST", '):-2]))})
    all_kinds = ["plainOK", "plainSepCon", "plainCancel", "plainExpire", "plainRst", "plainBodyFail", "kaMissed", "dupToken", "bwUpOK", "bwUpCancel", "bwUpRefused", "bwDownOK", "bwDownAbandon", "bwDownStall", "obsOK", "obsCancel",
                 "obsFail", "obsSilentCancel", "pingOK", "pingCancel", "pingAsyncOK", "oneWay", "srvReq", "srvReqNon", "srvReqNoResp", "srvReqHijack", "srvBwUpAbandon", "srvBwDownAbandon", "srvBwDownRetry", "tickEarly", "tickBw", "tickLate"]
    stim.append({"kinds": all_kinds})
    spath = os.path.join(ctx.work, "stimuli.ndjson")
    vf.write_ndjson(spath, stim)
    out = os.path.join(ctx.work, "traces.ndjson")
    vf.drv(ctx, ["c12", spath, out], timeout=2400)
    traces = vf.read_ndjson(out)
    # the concurrent part once more under the race detector (data races on message objects = concurrent owners)
    one = os.path.join(ctx.work, "one.ndjson")
    vf.write_ndjson(one, [{"kinds": all_kinds}])
    out2 = os.path.join(ctx.work, "traces-race.ndjson")
    # (no tracker in this pass - its mutex would order the very accesses the detector looks for - and the application
    #  releases every response at once)
    vf.write_ndjson(one, [{"kinds": all_kinds}] * (6 if thorough else 2))
    rc, so, se = vf.drv(ctx, ["c12", one, out2], timeout=2400, race=True, ok_codes=(0, 66), env_extra={"VERIF_NOTRACK": "1", "GORACE": "halt_on_error=0 exitcode=66"})
    if rc == 66 or "DATA RACE" in se:
        first = [l.strip() for l in se[se.find("DATA RACE"):].splitlines()[1:12] if "/repo/" in l][:4]
        vf.report(ctx, "C12_RaceFree", {"detector": "go -race", "frames": first},
                  "the Go race detector reported a data race while pooled messages were in use concurrently: %s" % first,
                  {"stderr": se[:8000], "cmd": "bin/check C12"})
    nrace = len(vf.read_ndjson(out2)) if os.path.exists(out2) else 0       # (no pool events in that pass: nothing for TLC there)
    ctx.cov["runs_under_race_detector"] = nrace
    bad, gen, dist = vf.judge_records(ctx, "pool", "RecC12", "RecC12.cfg", traces, shards=8, timeout=2400)
    ctx.add("states", dist)
    ctx.add("transitions", gen)
    ctx.add("traces_validated_against_impl", len(traces))
    ctx.cov["pool_events_validated"] = sum(len(t["log"]) for t in traces)
    ctx.cov["objects_tracked"] = sum(len(set(e["o"] for e in t["log"])) for t in traces)
    ctx.cov["concurrent_calls"] = sum(t["calls"] for t in traces)
    ctx.cov["traces_by_mode"] = {m: sum(1 for t in traces if t["mode"] == m) for m in ("history", "stress", "retx", "tcpbw", "dupcache", "bwpark", "sweeprace")}
    for clause, idxs in sorted(bad.items()):
        ts = [traces[i] for i in idxs]
        t0 = min(ts, key=lambda t: len(t["log"]))
        # which object and which events
        byobj = {}
        for e in t0["log"]:
            byobj.setdefault(e["o"], []).append(e["ev"])
        susp = [v for v in byobj.values() if any(x.startswith("changed") for x in v) or v.count("release") + v.count("apprelease") > v.count("acquire") + 1 or ("hold" in v and "release" in v)]
        if t0["mode"] == "bwpark":
            vf.report(ctx, clause, {"mode": "bwpark"},
                      "%d run(s): a block-wise upload whose context ended while the receive path was cutting the next block out of the request - the request call returned and the library accessed the request's body %d more time(s) afterwards" % (len(ts), t0["garbled"]),
                      {"trace": {k: t0[k] for k in t0 if k != "log"}, "cmd": "bin/check C12 --tier %s" % ctx.tier})
            continue
        vf.report(ctx, clause, {"mode": t0["mode"], "poolSize": t0["poolSize"], "kinds": t0["kinds"][:6]},
                  "%d run(s) [%s, pool size %d] break the ownership automaton; e.g. history %s, event sequences of suspicious objects: %s" % (
                      len(ts), t0["mode"], t0["poolSize"], t0["kinds"][:10], json.dumps(susp[:3])[:400]),
                  {"trace": {k: t0[k] for k in t0 if k != "log"}, "log": t0["log"][:400], "cmd": "bin/check C12 --tier %s" % ctx.tier})

    def mutate(t, rng):
        rel = [e for e in t["log"] if e["ev"] == "release"]
        if not rel:
            return None
        lg = list(t["log"])
        e = dict(rel[len(rel) // 2])
        e["seq"] = len(lg) + 1
        lg.append(e)   # a second release of the same object at the end
        acq_after = False
        t["log"] = lg
        # only valid if that object was not re-acquired after its release
        evs = [x["ev"] for x in lg if x["o"] == e["o"]]
        if evs[-2] in ("release", "apprelease"):
            return t
        return None
    vf.negative_control(ctx, "pool", "RecC12", "RecC12.cfg", traces, mutate)
    t0 = traces[0]
    ctx.sample({"mode": t0["mode"], "poolSize": t0["poolSize"], "kinds": t0["kinds"][:8], "log_head": [[e["o"], e["ev"]] for e in t0["log"][:30]]})
    ctx.assumptions += ["reads after release are invisible to the snapshot comparison; they are caught only when the race detector sees them against a concurrent owner",
                        "a message first appears in the log when it is first released / held (fresh allocations have no hook)"]
    return vf.finish(ctx, extra_cov={"exhaustive": False})
