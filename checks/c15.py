"""C15 - option list and message builder behave like a sorted multiset model.
Spec: specs/msg/Options.tla (reference list + queries). MC_Options is the model as a state machine; TLC
(a) checks the model's own invariants, (b) GENERATES the edit histories: every transition of the exhaustive
small-alphabet configuration (replayed as a path cover) and random walks over a large alphabet (values around
the 256-byte inline buffer, 255/256-byte path segments). The Go driver replays them on the real
message.Options (capacities 0/1/16, exact and too-small caller buffers) and on pool.Message (fresh and
recycled), recording the whole list and all query answers after every step; TraceOptions (TLC) judges."""
import json
import os
import re

import vf


def edges(out):
    for line in out.splitlines():
        if line.startswith('<<"EDGE", '):
            yield json.loads(json.loads(line[len('<<"EDGE", '):-2]))


def hists(out):
    for line in out.splitlines():
        if line.startswith('<<"HIST", '):
            yield json.loads(json.loads(line[len('<<"HIST", '):-2]))


def run(ctx):
    thorough = ctx.tier == "thorough"
    vf.build_driver(ctx)
    # (a)+(b) exhaustive model run: invariants of the model + edge dump
    r = vf.run_tlc(ctx, "msg", "MC_Options", "MC_Options_thorough.cfg" if thorough else "MC_Options.cfg", workers=1, timeout=3000)
    vf.tlc_must_finish(r, "MC_Options")
    if r.inv:
        raise vf.Machinery("model invariant failed (spec bug): %s" % r.inv)
    ctx.add("states", r.distinct)
    ctx.add("transitions", r.generated)
    parent = {}
    stim = []
    nedges = 0
    for e in edges(r.out):
        nedges += 1
        src = (json.dumps(e["from"]), e["k"])
        dst = (json.dumps(e["to"]), e["k"] + 1)
        if dst not in parent:
            parent[dst] = (src, e["act"])
        path = [e["act"]]
        cur = src
        while cur in parent:
            cur, a = parent[cur]
            path.append(a)
        if cur[1] != 0:
            raise vf.Machinery("edge dump: no path to the initial state")
        stim.append(list(reversed(path)))
    if nedges == 0:
        raise vf.Machinery("no edges generated")
    # random walks over the large alphabet
    nwalk_runs = 6 if thorough else 1
    walks = []
    for k in range(nwalk_runs):
        rs = vf.run_tlc(ctx, "msg", "MC_Options", "MC_Options_sim.cfg", workers=1, seed=ctx.seed * 100 + k, timeout=900)
        vf.tlc_must_finish(rs, "MC_Options(sim)")
        if rs.inv:
            raise vf.Machinery("model invariant failed (spec bug): %s" % rs.inv)
        ctx.add("states", rs.distinct)
        ctx.add("transitions", rs.generated)
        walks += list(hists(rs.out))
    if not walks:
        raise vf.Machinery("no random walks generated")
    # prefixes of walks make the traces shorter to judge and vary the end point
    for wk in walks:
        stim.append(wk)
    spath = os.path.join(ctx.work, "stimuli.ndjson")
    vf.write_ndjson(spath, [{"t": i + 1, "ops": ops} for i, ops in enumerate(stim)])
    out = os.path.join(ctx.work, "traces.ndjson")
    vf.drv(ctx, ["c15", spath, out], timeout=1800)
    traces = vf.read_ndjson(out)
    bad, gen, dist = vf.judge_records(ctx, "msg", "TraceOptions", "TraceOptions.cfg", traces, shards=8, timeout=2400)
    ctx.add("states", dist)
    ctx.add("transitions", gen)
    ctx.add("traces_validated_against_impl", len(traces))
    ctx.cov["behaviours_generated"] = len(stim)
    ctx.cov["edges_of_exhaustive_config"] = nedges
    ctx.cov["random_walks"] = len(walks)
    ctx.cov["events_validated"] = sum(len(t["ev"]) for t in traces)
    for clause, idxs in sorted(bad.items()):
        groups = {}
        for i in idxs:
            t = traces[i]
            last = t["ev"][-1]["op"]
            # signature: API variant + the kinds of edits in the shortest failing history of that variant
            groups.setdefault(t["api"], []).append(t)
        for api, ts in sorted(groups.items()):
            ts.sort(key=lambda t: len(t["ev"]))
            t0 = ts[0]
            kinds = [e["op"]["op"] for e in t0["ev"]]
            vf.report(ctx, clause, {"api": api, "shortest_history_ops": kinds},
                      "%d recorded history(ies) on %s diverge from the list model; shortest: %s" % (len(ts), api, json.dumps([e["op"] for e in t0["ev"]])[:300]),
                      {"trace": t0, "stimulus": [e["op"] for e in t0["ev"]], "cmd": "bin/check C15 --tier %s" % ctx.tier})

    def mutate(t, rng):
        if len(t["ev"]) >= 1 and t["ev"][-1]["list"]:
            ev = [dict(e) for e in t["ev"]]
            lst = [dict(o) for o in ev[-1]["list"]]
            k = rng.randrange(len(lst))
            lst[k] = dict(lst[k], val=list(lst[k]["val"]) + [7])
            ev[-1]["list"] = lst
            t["ev"] = ev
            return t
        return None
    vf.negative_control(ctx, "msg", "TraceOptions", "TraceOptions.cfg", traces, mutate)
    apis = {}
    for t in traces:
        apis[t["api"]] = apis.get(t["api"], 0) + 1
    ctx.cov["traces_by_api"] = apis
    short = [t for t in traces if len(t["ev"]) <= 3][:2]
    for t in short:
        ctx.sample({"api": t["api"], "ops": [e["op"] for e in t["ev"]], "final_list": t["ev"][-1]["list"]})
    ctx.assumptions += ["exhaustive over all histories of <= %d edits on a 4-id/3-value alphabet (36 operations); longer histories are TLC random walks" % (4 if thorough else 3),
                        "location-path and caller-buffer refusals are exercised on the raw API only (the pooled builder has no such entry points)"]
    return vf.finish(ctx, extra_cov={"exhaustive": False})
