"""C16 - parallel-request limits are never exceeded and never leak.
Spec: specs/limiter/Limiter.tla (one action per critical section / blocking point of LimitParallelRequests.Do,
state as one record). TLC (MC_Limiter) explores every order of arrive/cancel/finish and of the library's own
steps for several (requests, paths, limits) configurations and checks Total, PerPath, FIFO, IdleAtEnd,
NoLostSlot on the design; in generator mode it emits random walks at quiescence granularity together with the
predicted observable state. The driver replays them on the real limiter (driver-owned do function with
in-flight gauges) and records the observed state after every event; TLC (RecC16) judges every event."""
import json
import os

import vf

CONFIGS = [  # (cfg name suffix, Reqs, PathOf op, EL, L)
    ("a", "{1, 2, 3, 4}", "QPath", 1, 2),
    ("b", "{1, 2, 3, 4}", "QPath", 2, 1),
    ("c", "{1, 2, 3, 4}", "QPath", 1, 1),
    ("d", "{1, 2, 3, 4}", "QPath", 2, 2),
    ("f", "{1, 2, 3, 4}", "QPath1", 1, 2),
    ("e", "{1, 2, 3, 4, 5}", "QPath5", 1, 2),
]
PATHS = {"QPath": [1, 1, 2, 1], "QPath1": [1, 1, 1, 1], "QPath5": [1, 2, 1, 1, 2]}


def cfgtext(reqs, pathop, el, l, walks, maxev):
    inv = "Inv_Total Inv_PerPath Inv_FIFO Inv_IdleAtEnd Inv_NoLostSlot"
    if walks:
        inv = "Emit " + inv
    return ("INIT Init\nNEXT Next\n%sCONSTANTS\n  Reqs = %s\n  PathOf <- %s\n  EL = %d\n  L = %d\n  OwnWaiter = TRUE\n  Walks = %d\n  MaxEvents = %d\nINVARIANTS %s\n"
            % ("" if walks else "VIEW View\n", reqs, pathop, el, l, walks, maxev, inv))


def run(ctx):
    thorough = ctx.tier == "thorough"
    vf.build_driver(ctx)
    stim = []
    cdir = ctx.subdir("cfg")
    for name, reqs, pathop, el, l in CONFIGS:
        if name == "e" and not thorough:
            continue
        # (a) exhaustive design check
        p = os.path.join(cdir, "MC_Limiter_%s.cfg" % name)
        with open(p, "w") as f:
            f.write(cfgtext(reqs, pathop, el, l, 0, 0))
        r = vf.run_tlc(ctx, "limiter", "MC_Limiter", os.path.basename(p), files=[p], timeout=2400, cont=False)
        vf.tlc_must_finish(r, "MC_Limiter " + name)
        if r.inv:
            raise vf.Machinery("design-level invariant failed for config %s (spec bug, not a code verdict): %s" % (name, r.inv))
        ctx.add("states", r.distinct)
        ctx.add("transitions", r.generated)
        # (b) behaviours at quiescence granularity with predicted observable states
        walks = 600 if thorough else 120
        p2 = os.path.join(cdir, "MC_Limiter_gen_%s.cfg" % name)
        with open(p2, "w") as f:
            f.write(cfgtext(reqs, pathop, el, l, walks, 14 if thorough else 12))
        g = vf.run_tlc(ctx, "limiter", "MC_Limiter", os.path.basename(p2), files=[p2], workers=1, seed=ctx.seed * 17 + len(stim), timeout=900, cont=False)
        vf.tlc_must_finish(g, "MC_Limiter gen " + name)
        n0 = len(stim)
        for line in g.out.splitlines():
            if line.startswith('<<"HIST", '):
                steps = json.loads(json.loads(line[len('<<"HIST", '):-2]))
                stim.append({"t": len(stim) + 1, "el": el, "l": l, "pathOf": PATHS[pathop], "steps": steps})
        if len(stim) == n0:
            raise vf.Machinery("no behaviours generated for config " + name)
        # directed: every arrival order, then finished in that order (FIFO hand-over with up to three waiters)
        directed = json.load(open(os.path.join(g.dir, "directed.json")))
        if name == "f":         # one path, endpoint limit 1: every step of the directed histories is applicable
            for steps in directed:
                stim.append({"t": len(stim) + 1, "el": el, "l": l, "pathOf": PATHS[pathop], "steps": steps})
            ctx.cov["directed_histories"] = ctx.cov.get("directed_histories", 0) + len(directed)
    spath = os.path.join(ctx.work, "stimuli.ndjson")
    vf.write_ndjson(spath, stim)
    out = os.path.join(ctx.work, "traces.ndjson")
    vf.drv(ctx, ["c16", spath, out], timeout=1800)
    traces = vf.read_ndjson(out)
    bad, gen, dist = vf.judge_records(ctx, "limiter", "RecC16", "RecC16.cfg", traces, shards=4, timeout=1800)
    ctx.add("states", dist)
    ctx.add("transitions", gen)
    ctx.add("traces_validated_against_impl", len(traces))
    hist = [t for t in traces if t.get("op") != "conn"]
    connrecs = [t for t in traces if t.get("op") == "conn"]
    ctx.cov["behaviours_generated"] = len(stim)
    ctx.cov["events_validated"] = sum(len(t["ev"]) for t in hist)
    ctx.cov["events_settled_as_predicted"] = sum(1 for t in hist for e in t["ev"] if e["settled"])
    ctx.cov["cancellation_storm_rounds"] = sum(c.get("rounds", 0) for c in connrecs)
    ctx.cov["connection_configurations"] = [[c["transport"], c["l"], c["el"], c["maxTotal"], c["maxPerPath"]] for c in connrecs]
    for clause, idxs in sorted(bad.items()):
        ts = [traces[i] for i in idxs]
        if clause in ("C16_ConnLimits", "C16_ConnIdleAtEnd"):
            for c in ts:
                vf.report(ctx, clause, {"transport": c["transport"], "l": c["l"], "el": c["el"]},
                          "a real %s client connection configured with total limit %d / per-endpoint limit %d had %d requests on the wire at once (%d for one path), all calls returned: %s, limiter idle afterwards (table empty, fresh requests admitted at once): %s" % (
                              c["transport"], c["l"], c["el"], c["maxTotal"], c["maxPerPath"], c["allReturned"], c["idle"]), {"record": c, "cmd": "bin/check C16 --tier %s" % ctx.tier})
            continue
        if clause == "K16_Conforms":
            ctx.drift.append({"clause": clause, "traces": len(ts), "first": [e["act"] for e in ts[0]["ev"]][:14]})
            continue
        groups = {}
        for t in ts:
            groups.setdefault((t["el"], t["l"]), []).append(t)
        for (el, l), xs in sorted(groups.items()):
            t0 = min(xs, key=lambda t: len(t["ev"]))
            kinds = sorted(set(e["act"]["a"] for e in t0["ev"]))
            vf.report(ctx, clause, {"el": el, "l": l, "event_kinds": kinds},
                      "%d recorded history(ies) with endpoint limit %d / total limit %d violate the clause; e.g. events %s (max in do: %d total, %d per path)"
                      % (len(xs), el, l, json.dumps([[e["act"]["a"], e["act"]["r"]] for e in t0["ev"]]), t0["ev"][-1]["maxTotal"], t0["ev"][-1]["maxPerPath"]),
                      {"trace": t0, "cmd": "bin/check C16 --tier %s" % ctx.tier})

    def mutate(t, rng):
        if t.get("op") == "conn":
            return None
        ev = [dict(e) for e in t["ev"]]
        ev[-1] = dict(ev[-1], maxPerPath=t["el"] + 1)
        t["ev"] = ev
        return t
    vf.negative_control(ctx, "limiter", "RecC16", "RecC16.cfg", traces, mutate)
    t0 = hist[0]
    ctx.sample({"el": t0["el"], "l": t0["l"], "pathOf": t0["pathOf"], "events": [[e["act"]["a"], e["act"]["r"], e["st"]["inDo"], e["st"]["ret"]] for e in t0["ev"]][:8]})
    ctx.assumptions += ["requests are driven one event at a time with a wait for quiescence (observed state equals the state M predicts and stays so for 2 ms); the gauges inside do are monitored continuously",
                        "FIFO is decided from outside only for endpoint limit 1 (with a larger limit the order of entering do is not determined by the limiter)"]
    return vf.finish(ctx, extra_cov={"exhaustive": False})
