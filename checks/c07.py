"""C07 - stream framing is independent of how bytes are segmented.
Spec: specs/tcp/Stream.tla (processBuffer over the RFC 8323 frame syntax of CoapWire) and StreamCat (7 byte
streams built with the RFC encoder: all length classes, token lengths, signalling, oversize frames). For the
short streams TLC explores EVERY segmentation for several read-buffer sizes (prefix / final / nothing-after-close
on the design) and emits each schedule; for the long ones it emits directed schedules (single bytes, cache-size
reads, a cut at every header position). The driver feeds the bytes to a real tcp/client.Conn through a net.Conn
whose Read returns exactly those chunks and records handler / signal deliveries after each read; TLC judges."""
import json
import os
import re

import vf

SMALL = {1: [1, 2, 3, 12], 2: [1, 2, 11], 3: [1, 3, 10], 10: [1, 3, 12]}
BIG = {4: [7, 2048], 5: [7, 2048, 65535], 6: [7, 2048], 7: [7, 2048, 65535], 8: [2048, 65535], 9: [7, 2048], 11: [7, 2048]}


def run(ctx):
    thorough = ctx.tier == "thorough"
    vf.build_driver(ctx)
    cdir = ctx.subdir("cfg")
    jobs = []
    nsched = 0
    for si in sorted(list(SMALL) + list(BIG)):
        caches = SMALL.get(si) or [1]
        first = True
        stream = None
        directed = None
        for cache in caches:
            p = os.path.join(cdir, "MC_Stream_%d_%d.cfg" % (si, cache))
            with open(p, "w") as f:
                f.write("INIT Init\nNEXT Next\nCONSTANTS\n  SI = %d\n  Cache = %d\n  Explore = %s\nINVARIANTS Inv_Prefix Inv_Final Inv_NothingAfterClose Emit\n"
                        % (si, cache, "TRUE" if si in SMALL else "FALSE"))
            r = vf.run_tlc(ctx, "tcp", "MC_Stream", os.path.basename(p), files=[p], workers=1, timeout=1800, cont=False, heap="8g")
            vf.tlc_must_finish(r, "MC_Stream %d/%d" % (si, cache))
            if r.inv:
                raise vf.Machinery("design-level invariant failed (spec bug): %s" % r.inv)
            ctx.add("states", r.distinct)
            ctx.add("transitions", r.generated)
            with open(os.path.join(r.dir, "stream.json")) as f:
                stream = json.load(f)
            with open(os.path.join(r.dir, "directed.json")) as f:
                directed = json.load(f)
            if si in SMALL:
                cuts = [json.loads(m.group(1).replace("<<", "[").replace(">>", "]")) for m in re.finditer(r'<<"CUTS", (<<[0-9, ]*>>)>>', r.out)]
                if not cuts:
                    raise vf.Machinery("no schedules for stream %d" % si)
                jobs.append({"stream": stream, "cache": cache, "scheds": [{"kind": "cuts", "cuts": c} for c in cuts]})
                nsched += len(cuts)
        if si in BIG:
            for cache in BIG[si]:
                sch = [d for d in directed if not (d["kind"] == "ones" and len(stream["bytes"]) > 2000 and not thorough and cache != 7)]
                nr = 40 if thorough else 6
                sch += [{"kind": "random", "seed": ctx.seed * 1000 + si * 10 + k, "k": 0, "c": 0} for k in range(nr)]
                jobs.append({"stream": stream, "cache": cache, "scheds": sch})
                nsched += len(sch)
            # the same stream through the option plumbing: a real tcp server / the library's own client configured with the stream's
            # maximum message size, over loopback sockets (one write)
            if si != 8:
                jobs.append({"stream": stream, "cache": 2048, "scheds": [{"kind": "server", "k": 0, "c": 0}, {"kind": "dial", "k": 0, "c": 0}]})
                nsched += 2
    jpath = os.path.join(ctx.work, "jobs.json")
    with open(jpath, "w") as f:
        json.dump(jobs, f)
    out = os.path.join(ctx.work, "recs.ndjson")
    vf.drv(ctx, ["c07", jpath, out], timeout=2400)
    recs = vf.read_ndjson(out)
    small = [r for r in recs if r["si"] in SMALL]
    big = [r for r in recs if r["si"] in BIG]
    bad = {}
    gen = dist = 0
    for part, shards in ((small, 8), (big, 8)):
        if not part:
            continue
        b, g, d = vf.judge_records(ctx, "tcp", "RecC07", "RecC07.cfg", part, shards=shards, timeout=2400, heap="6g")
        gen += g
        dist += d
        for k, v in b.items():
            bad.setdefault(k, []).extend(part[i] for i in v)
    ctx.add("states", dist)
    ctx.add("transitions", gen)
    ctx.add("traces_validated_against_impl", len(recs))
    ctx.cov["schedules_replayed"] = nsched
    ctx.cov["reads_fed"] = sum(r["nreads"] for r in recs)
    ctx.cov["streams"] = len(SMALL) + len(BIG)
    for clause, rs in sorted(bad.items()):
        groups = {}
        for r in rs:
            groups.setdefault((r["si"], r["sched"]), []).append(r)
        for (si, kind), xs in sorted(groups.items()):
            r0 = min(xs, key=lambda r: r["nreads"])
            vf.report(ctx, clause, {"stream": si, "schedule_kind": kind},
                      "%d schedule(s) of stream %d (max %d) give a wrong delivery; e.g. cache %d, %d reads -> messages %s signals %s closed=%s" % (
                          len(xs), si, r0["max"], r0["cache"], r0["nreads"], json.dumps([[m["code"], m["paylen"]] for m in r0["msgs"]]), r0["sigs"], r0["closed"]),
                      {"record": r0, "cmd": "bin/check C07 --tier %s" % ctx.tier})

    # signalling (Signal.tla): every history of <= 5 events on the design, generated histories on a real connection - conformance only
    rs_ = vf.run_tlc(ctx, "tcp", "MC_Signal", "MC_Signal.cfg", workers=8, timeout=900, cont=False)
    vf.tlc_must_finish(rs_, "MC_Signal")
    if rs_.inv:
        raise vf.Machinery("design-level invariant failed in Signal (spec bug): %s" % rs_.inv)
    ctx.add("states", rs_.distinct)
    ctx.add("transitions", rs_.generated)
    pg = os.path.join(cdir, "MC_Signal_gen.cfg")
    with open(pg, "w") as f:
        f.write("INIT Init\nNEXT Next\nCONSTANTS\n  Walks = %d\n  MaxEvents = 9\nINVARIANTS Emit\nCHECK_DEADLOCK FALSE\n" % (400 if thorough else 80))
    gs = vf.run_tlc(ctx, "tcp", "MC_Signal", os.path.basename(pg), files=[pg], workers=1, seed=ctx.seed * 31 + 7, timeout=900, cont=False)
    vf.tlc_must_finish(gs, "MC_Signal gen")
    sh = set()
    for line in gs.out.splitlines():
        if line.startswith('<<"HIST", '):
            sh.add(json.loads(line[len('<<"HIST", '):-2]))
    sstim = [{"ev": json.loads(h)} for h in sorted(sh)]
    sstim.append({"ev": [{"e": "bigreq", "a": 0, "b": 0}, {"e": "csm", "a": 1152, "b": 1}, {"e": "csm", "a": 0, "b": 0}, {"e": "bigreq", "a": 0, "b": 0},
                         {"e": "aping", "a": 0, "b": 0}, {"e": "aping", "a": 0, "b": 0}, {"e": "pong", "a": 2, "b": 0}, {"e": "pong", "a": 2, "b": 0}, {"e": "pong", "a": 1, "b": 0},
                         {"e": "ping", "a": 2, "b": 0}, {"e": "ping", "a": 1, "b": 0}, {"e": "release", "a": 0, "b": 0}, {"e": "abort", "a": 0, "b": 0}]})
    spath = os.path.join(ctx.work, "sig-stimuli.ndjson")
    vf.write_ndjson(spath, sstim)
    sout = os.path.join(ctx.work, "sig-recs.ndjson")
    vf.drv(ctx, ["c07sig", spath, sout], timeout=1200)
    srecs = vf.read_ndjson(sout)
    sbad, g, d = vf.judge_records(ctx, "tcp", "RecC07sig", "RecC07sig.cfg", srecs, shards=2, timeout=900)
    ctx.add("states", d)
    ctx.add("transitions", g)
    ctx.add("traces_validated_against_impl", len(srecs))
    ctx.cov["signalling_histories"] = len(srecs)
    ctx.cov["signalling_events"] = sum(len(r["ev"]) for r in srecs)
    for clause, idxs in sorted(sbad.items()):
        r0 = min((srecs[i] for i in idxs), key=lambda r: len(r["ev"]))
        ctx.drift.append({"clause": clause, "traces": len(idxs), "first": [[e["e"], e["a"], e["b"]] for e in r0["ev"]],
                          "observed": {k: r0[k] for k in ("pongs", "done", "twice", "cbs", "reqs", "stuck")}})

    def mutate(r, rng):
        if r["msgs"]:
            ms = [dict(m) for m in r["msgs"]]
            ms[-1]["paysum"] = (ms[-1]["paysum"] + 1) % 65521
            r["msgs"] = ms
            return r
        return None
    vf.negative_control(ctx, "tcp", "RecC07", "RecC07.cfg", small, mutate)
    ctx.sample({k: recs[0][k] for k in ("si", "cache", "sched", "nreads", "msgs", "sigs", "closed")})
    ctx.sample({k: big[-1][k] for k in ("si", "cache", "sched", "nreads", "msgs", "sigs", "closed")})
    ctx.assumptions += ["every segmentation only for the three short streams (<= 12 bytes); the long ones get single-byte, cache-size, cut-at-every-header-position and seeded random schedules",
                        "ordinary messages are observed in the handler, signalling messages in the signal callback; their relative order is not compared (they are dispatched on different goroutines by design)"]
    return vf.finish(ctx, extra_cov={"exhaustive": False})
