"""C06 - confirmable requests are retransmitted correctly and boundedly.
Spec: specs/udp/Retransmit.tla (the sweep's per-entry rule, ACK / piggybacked / separate response, reset,
cancel). TLC explores every history of <= 9 events (ticks at every second of a 2 s ACK_TIMEOUT up to the
horizon) for MAX_RETRANSMIT in {0,1,2} (thorough: 3, 4), checks Bound, Spacing, StopAfter, NoFalseSuccess on
the design and emits one witness history per reachable state; the driver replays every maximal one on a real
udp/client.Conn (Conn.Do over the in-memory session, CheckExpirations with a virtual clock 50 ms before each
tick) and records every copy written and the call's outcome; TLC (RecC06) judges the recorded histories."""
import json
import os

import vf


def cfgtext(maxr, horizon):
    return ("INIT Init\nNEXT Next\nVIEW View\nCONSTANTS\n  MAXR = %d\n  AT = 2\n  Horizon = %d\n  RespStopsWait = TRUE\n  QueuedMs = {0, 150}\n  Deadlines = {0, 3, 1000}\n"
            "INVARIANTS Emit Inv_Bound Inv_Spacing Inv_StopAfter Inv_NoFalseSuccess\n" % (maxr, horizon))


def run(ctx):
    thorough = ctx.tier == "thorough"
    vf.build_driver(ctx)
    cdir = ctx.subdir("cfg")
    stim = []
    for maxr in ([0, 1, 2, 3, 4] if thorough else [0, 1, 2]):
        p = os.path.join(cdir, "MC_Retransmit_%d.cfg" % maxr)
        with open(p, "w") as f:
            f.write(cfgtext(maxr, 2 * (maxr + 1) + 3))
        r = vf.run_tlc(ctx, "udp", "MC_Retransmit", os.path.basename(p), files=[p], workers=1, timeout=2400, cont=False)
        vf.tlc_must_finish(r, "MC_Retransmit")
        if r.inv:
            raise vf.Machinery("design-level invariant failed (spec bug, not a code verdict): %s" % r.inv)
        ctx.add("states", r.distinct)
        ctx.add("transitions", r.generated)
        hs = set()
        for line in r.out.splitlines():
            if line.startswith('<<"HIST", '):
                hs.add(json.loads(line[len('<<"HIST", '):-2]))
        hl = [json.loads(h) for h in sorted(hs)]
        keys = set(json.dumps(h) for h in hl)
        # keep only histories that are not a proper prefix of another one
        prefixes = set()
        for h in hl:
            for k in range(1, len(h)):
                prefixes.add(json.dumps(h[:k]))
        maximal = [h for h in hl if json.dumps(h) not in prefixes]
        import random
        cap = 6000 if thorough else 1500
        direct = [h for h in maximal if h[0]["a"] not in ("queue", "deadline")]
        queued = [h for h in maximal if h[0]["a"] in ("queue", "deadline")]    # variants: queued behind NSTART and / or a context with a deadline
        if len(direct) > cap:
            direct = random.Random(ctx.seed * 7 + maxr).sample(direct, cap)
            ctx.notes.append("MAX_RETRANSMIT=%d: seeded sample of %d witness histories" % (maxr, cap))
        # histories of a request that first waited 150 ms (real time) behind the NSTART limit: a seeded sample
        qcap = 3000 if thorough else 500
        if len(queued) > qcap:
            queued = random.Random(ctx.seed * 11 + maxr).sample(queued, qcap)
        ctx.cov["histories_queued_behind_nstart"] = ctx.cov.get("histories_queued_behind_nstart", 0) + sum(1 for h in queued if h[0]["a"] == "queue")
        ctx.cov["histories_with_context_deadline"] = ctx.cov.get("histories_with_context_deadline", 0) + sum(1 for h in queued if any(a["a"] == "deadline" for a in h[:2]))
        maximal = direct + queued
        for k, h in enumerate(maximal):
            # every third history: the request is a POST whose body reader the application has already read to its end
            stim.append({"t": len(stim) + 1, "maxr": maxr, "at": 2, "steps": h, "post": k % 3 == 2})
            if k % 5 == 0:
                # the same history on a connection that was created with other transmission parameters; those of the history are
                # set at run time through cc.Transmission()
                stim.append({"t": len(stim) + 1, "mode": "memset", "maxr": maxr, "at": 2, "steps": h})
        # the first transmission refused by the network (transient write error), then sweeps over the whole retransmission span
        for ticks in ([3, 5, 7, 9, 13, 17, 33, 65], [3], [65], []):
            stim.append({"t": len(stim) + 1, "maxr": maxr, "at": 2, "steps": [{"a": "wfail", "t": 0}] + [{"a": "tick", "t": t} for t in ticks]})
            ctx.cov["histories_first_write_fails"] = ctx.cov.get("histories_first_write_fails", 0) + 1
        # the sweep of a tick at which a copy is due fetches the pending entry; before it acts on it the acknowledgement / reset /
        # piggybacked response arrives and is processed completely (scheduling point: the map's hook between fetching an entry
        # and the callback): the answer came first - no copy any more
        if maxr >= 1:
            for y in ("ack", "rst", "piggy", "cancel"):
                for pre in ([], [{"a": "tick", "t": 3}]):
                    t = 3 if not pre else 5
                    if len(pre) + 1 > maxr:
                        continue
                    stim.append({"t": len(stim) + 1, "maxr": maxr, "at": 2, "steps": pre + [{"a": "race", "t": t, "y": y}, {"a": "tick", "t": t + 2}, {"a": "tick", "t": t + 4}]})
                    ctx.cov["histories_sweep_races_answer"] = ctx.cov.get("histories_sweep_races_answer", 0) + 1
        # a copy that cannot be written: the first retransmission fails at the network; later copies go out, the answer completes the call
        if maxr >= 2:
            for tail in ([{"a": "piggy", "t": 0}], [{"a": "tick", "t": 5}, {"a": "piggy", "t": 0}], [{"a": "tick", "t": 5}, {"a": "ack", "t": 0}, {"a": "sep", "t": 0}], [{"a": "tick", "t": 5}, {"a": "tick", "t": 7}, {"a": "tick", "t": 9}]):
                stim.append({"t": len(stim) + 1, "maxr": maxr, "at": 2, "steps": [{"a": "tickfail", "t": 3}] + tail})
                ctx.cov["histories_with_a_copy_that_cannot_be_written"] = ctx.cov.get("histories_with_a_copy_that_cannot_be_written", 0) + 1
        # the same parameters as configured through the options (option plumbing): the library's own client
        # (udp.Dial, options.WithTransmission) and a server-side connection of a real udp server, over loopback sockets
        plain = [h for h in direct if all(a["a"] != "queue" for a in h)]
        for mode in ("dial", "server"):
            if mode == "server" and maxr == 0:
                # a server-side connection is swept on every datagram of its peer (udp/server getConn), so with
                # MAX_RETRANSMIT = 0 the exchange is "exhausted" (the code's notion: the first sweep that finds the counter
                # at the maximum) by the very datagram that carries the answer - observation O2 in DESIGN.md, not judged
                continue
            pick = random.Random(ctx.seed * 13 + maxr + len(mode)).sample(plain, min(len(plain), 150 if thorough else 40))
            for k, h in enumerate(pick):
                stim.append({"t": len(stim) + 1, "mode": mode, "maxr": maxr, "at": 2, "steps": h})
                if k % 4 == 0:
                    # ... and with an ACK_TIMEOUT that is not the default: every instant of the history doubled, ACK_TIMEOUT 4 s
                    stim.append({"t": len(stim) + 1, "mode": mode, "maxr": maxr, "at": 4, "steps": [dict(a, t=a["t"] * 2) if "t" in a else a for a in h]})
            ctx.cov["histories_on_" + mode] = ctx.cov.get("histories_on_" + mode, 0) + len(pick)
    if not stim:
        raise vf.Machinery("no histories generated")
    spath = os.path.join(ctx.work, "stimuli.ndjson")
    vf.write_ndjson(spath, stim)
    out = os.path.join(ctx.work, "traces.ndjson")
    vf.drv(ctx, ["c06", spath, out], timeout=2400)
    traces = vf.read_ndjson(out)
    bad, gen, dist = vf.judge_records(ctx, "udp", "RecC06", "RecC06.cfg", traces, shards=8, timeout=1800)
    ctx.add("states", dist)
    ctx.add("transitions", gen)
    ctx.add("traces_validated_against_impl", len(traces))
    ctx.cov["histories_replayed"] = len(stim)
    ctx.cov["copies_recorded"] = sum(len(t["copies"]) for t in traces)
    ctx.cov["calls_succeeded"] = sum(1 for t in traces if t["final"]["ret"] == "ok")
    for clause, idxs in sorted(bad.items()):
        ts = [traces[i] for i in idxs]
        t0 = min(ts, key=lambda t: len(t["ev"]))
        acts = [[e["act"]["a"], e["act"]["t"]] for e in t0["ev"]]
        kinds = sorted(set(a[0] for a in acts))
        vf.report(ctx, clause, {"event_kinds": kinds, "maxr": t0["maxr"]},
                  "%d recorded history(ies) violate the clause; shortest (MAX_RETRANSMIT=%d, ACK_TIMEOUT=%d): %s -> copies at ticks %s, call returned %s" % (
                      len(ts), t0["maxr"], t0["at"], json.dumps(acts), [c["at"] for c in t0["copies"]], t0["final"]["ret"]),
                  {"trace": t0, "cmd": "bin/check C06 --tier %s" % ctx.tier})

    def mutate(t, rng):
        if len(t["copies"]) >= 2:
            cs = [dict(c) for c in t["copies"]]
            cs[1]["at"] = 2
            t["copies"] = cs
            return t
        return None
    vf.negative_control(ctx, "udp", "RecC06", "RecC06.cfg", traces, mutate)
    t0 = max(traces, key=lambda t: len(t["copies"]))
    ctx.sample({"maxr": t0["maxr"], "events": [[e["act"]["a"], e["act"]["t"], e["copies"], e["ret"]] for e in t0["ev"]], "copies_at": [c["at"] for c in t0["copies"]]})
    ctx.assumptions += ["virtual time: CheckExpirations(base + t s - 50 ms); the entry's own start stamp is the real clock, microseconds before base",
                        "one request under test at a time; in the 'queue' histories it first waits 150 ms of real time behind another request that holds the NSTART slot (NSTART = 1)"]
    return vf.finish(ctx, extra_cov={"exhaustive": not ctx.notes})
