"""C04 - block-wise transfer delivers the exact body exactly once, or fails.
Spec: specs/bw/Blockwise.tla (both roles of net/blockwise with the code's arithmetic; bodies as intervals,
reassembly file as positioned pieces; channel with deliver / duplicate / drop / replay). MC_Blockwise holds the
scenario grid (body sizes within +/-1 of the block boundaries of both endpoints, SZX pairs incl. BERT with two
maximum message sizes, upload / download / both). TLC explores every channel behaviour within the fault budget
for every scenario (ExactUp, ExactDown, Once, fault-free completion) and generates fault schedules; the driver
executes them (i) on two real BlockWise instances joined by its relay, (ii) on two real udp connections joined
by in-memory sessions (datagram-level faults), (iii) fault-free on two real tcp connections (BERT); TLC judges
the deliveries, and for (i) also checks message-by-message conformance with the specification."""
import json
import re
import os

import vf


def cfgtext(grid, budget, walks, maxev, inv, view=True, maxreplay=3, loseat=0):
    return ("INIT Init\nNEXT Next\n%sCONSTANTS\n  Grid = \"%s\"\n  FaultBudget = %d\n  OrphanGuard = TRUE\n  Walks = %d\n  MaxEvents = %d\n  MaxReplay = %d\n  LoseAt = %d\nINVARIANTS %s\n"
            % ("VIEW View\n" if view else "", grid, budget, walks, maxev, maxreplay, loseat, inv))


def run(ctx):
    thorough = ctx.tier == "thorough"
    vf.build_driver(ctx)
    cdir = ctx.subdir("cfg")
    grid = "thorough" if thorough else "quick"
    # (a) design: every channel behaviour within the budget, every scenario. Bounds fitted to measured state counts
    #     (16 cores): quick grid budget 0/1: 5*10^4 states, seconds; thorough grid budget 0: 10^4 states; quick grid budget 1
    #     with 12 replay positions: 5*10^4; quick grid budget 2: 4.5*10^7 states, 5-6 min, 8 GB. (The large grid with
    #     budget 1 exceeds 10^8 states and is not run.)
    design = [("quick", 0, 3), ("quick", 1, 3)]
    if thorough:
        design = [("thorough", 0, 3), ("quick", 1, 12), ("quick", 2, 3)]
    for dgrid, budget, mr in design:
        p = os.path.join(cdir, "MC_Blockwise_%s_%d.cfg" % (dgrid, budget))
        with open(p, "w") as f:
            f.write(cfgtext(dgrid, budget, 0, 0, "Inv_ExactUp Inv_ExactDown Inv_OnceDown Inv_Completes", maxreplay=mr))
        r = vf.run_tlc(ctx, "bw", "MC_Blockwise", os.path.basename(p), files=[p], timeout=3000, cont=False, heap="16g" if thorough else None)
        vf.tlc_must_finish(r, "MC_Blockwise %s budget %d" % (dgrid, budget))
        if r.inv:
            raise vf.Machinery("design-level invariant failed (spec bug, not a code verdict): %s" % r.inv)
        ctx.add("states", r.distinct)
        ctx.add("transitions", r.generated)
    # (b) schedules: one fault-free walk per scenario, faulty walks with budget 2
    jobs = []
    nscen = 0
    nretry = 0
    for budget, walks, maxev in ((0, 400 if thorough else 130, 90), (2, 1600 if thorough else 260, 50)):
        p = os.path.join(cdir, "MC_Blockwise_gen_%d.cfg" % budget)
        with open(p, "w") as f:
            f.write(cfgtext("quick" if not thorough else "thorough", budget, walks, maxev, "Emit", view=False, maxreplay=12))
        g = vf.run_tlc(ctx, "bw", "MC_Blockwise", os.path.basename(p), files=[p], workers=1, seed=ctx.seed * 37 + budget, timeout=3000, cont=False)
        vf.tlc_must_finish(g, "MC_Blockwise gen")
        seen = set()
        for line in g.out.splitlines():
            if line.startswith('<<"HIST", '):
                raw = json.loads(line[len('<<"HIST", '):-2])
                if raw in seen:
                    continue
                seen.add(raw)
                h = json.loads(raw)
                pp = {"l": h["p"]["L"], "l2": h["p"]["L2"], "cs": h["p"]["CS"], "ss": h["p"]["SS"], "cmms": h["p"]["CMMS"], "smms": h["p"]["SMMS"]}
                jobs.append({"mode": "layer", "p": pp, "acts": h["acts"]})
                if budget and any(a["a"] == "dup" for a in h["acts"]):
                    # the same schedule with every duplicate handed to the layer at the same time as the original
                    jobs.append({"mode": "layerc", "p": pp, "acts": h["acts"]})
                if pp["cs"] < 7 and pp["ss"] < 7:            # BERT is for stream transports only
                    acts = list(h["acts"])
                    if budget:
                        acts = acts + [{"a": "tick", "d": "c2s", "k": 0}] + [{"a": "deliver", "d": d, "k": 0} for _ in range(6) for d in ("c2s", "s2c")]
                    jobs.append({"mode": "udp", "p": pp, "acts": acts})
                    if len(jobs) % 2 == 0:
                        # the one-way style: the client application hands the request to WriteMessage; the answer reaches its handler
                        jobs.append({"mode": "udp", "p": dict(pp, ow=True), "acts": acts})
                if budget == 0:
                    jobs.append({"mode": "tcp", "p": pp, "acts": []})
                    jobs.append({"mode": "tcp", "p": dict(pp, ow=True), "acts": []})
                    jobs.append({"mode": "tcpconc", "p": pp, "acts": []})       # three exchanges at the same time
                    jobs.append({"mode": "tcpconcz", "p": pp, "acts": []})      # ... whose tokens differ only in leading zero bytes
                    # the library's own server and client over loopback sockets, configured through the public options: every
                    # fourth scenario on each of the four transports (BERT scenarios on the stream transports only)
                    if nscen % 4 == 0:
                        for tp in ("udp", "dtls", "tcp", "tls"):
                            if tp in ("udp", "dtls") and (pp["cs"] == 7 or pp["ss"] == 7):
                                continue
                            jobs.append({"mode": "sock-" + tp, "p": pp, "acts": []})
                    nscen += 1
                    # directed: the fault-free schedule with the n-th message towards the server (n = 1, 2) duplicated
                    # and both copies handed to the layer at the same time; extra deliveries drain what that adds
                    for nth in (1, 2):
                        acts, seen_c2s = [], 0
                        for a in h["acts"]:
                            if a["a"] == "deliver" and a["d"] == "c2s":
                                seen_c2s += 1
                                if seen_c2s == nth:
                                    acts.append({"a": "dup", "d": "c2s", "k": 0})
                                    continue
                            acts.append(a)
                        if seen_c2s >= nth and seen_c2s >= 2:
                            acts += [{"a": "deliver", "d": d, "k": 0} for _ in range(4) for d in ("s2c", "c2s")]
                            jobs.append({"mode": "layerc", "p": pp, "acts": acts})
                    # directed: the client's reassembly state times out (no sweep) while the request still waits - before the
                    # n-th response from the end is delivered (n = 1: before the LAST block): the body is never a part of itself
                    s2c_total = sum(1 for a in h["acts"] if a["a"] == "deliver" and a["d"] == "s2c")
                    for back in (1, 2):
                        if s2c_total - back < 1:
                            continue
                        acts, cnt = [], 0
                        for a in h["acts"]:
                            if a["a"] == "deliver" and a["d"] == "s2c":
                                cnt += 1
                                if cnt == s2c_total - back + 1:
                                    acts.append({"a": "stale", "d": "c2s", "k": 0})
                            acts.append(a)
                        acts += [a for a in h["acts"] if a["a"] != "start"] + [{"a": "deliver", "d": d, "k": 0} for _ in range(3) for d in ("c2s", "s2c")]
                        jobs.append({"mode": "layer", "p": pp, "acts": acts})
                        nretry += 1
                    # ... and the server's state (what it holds of the request body / the response it is sending) before the n-th
                    # request message from the end
                    c2s_total = sum(1 for a in h["acts"] if a["a"] == "deliver" and a["d"] == "c2s")
                    for back in (1, 2):
                        if c2s_total - back < 1:
                            continue
                        acts, cnt = [], 0
                        for a in h["acts"]:
                            if a["a"] == "deliver" and a["d"] == "c2s":
                                cnt += 1
                                if cnt == c2s_total - back + 1:
                                    acts.append({"a": "stalesrv", "d": "c2s", "k": 0})
                            acts.append(a)
                        acts += [{"a": "deliver", "d": d, "k": 0} for _ in range(8) for d in ("c2s", "s2c")]
                        jobs.append({"mode": "layer", "p": pp, "acts": acts})
                        nretry += 1
                    # directed: the transfer is abandoned after the n-th response (the peer goes silent, the caller gives up), the
                    # transfer timeout elapses WITHOUT a sweep, and the application retries with the same token
                    ns2c = sum(1 for a in h["acts"] if a["a"] == "deliver" and a["d"] == "s2c")
                    for nth in (1, 2):
                        if ns2c <= nth:
                            continue
                        acts, cnt = [], 0
                        for a in h["acts"]:
                            acts.append(a)
                            if a["a"] == "deliver" and a["d"] == "s2c":
                                cnt += 1
                                if cnt == nth:
                                    break
                        for unswept in ("c2s", "s2c"):      # whose entries are still in its caches, expired: the client's / the server's
                            acts2 = acts + [{"a": "abandon", "d": "c2s", "k": 0}, {"a": "lapse", "d": unswept, "k": 0}, {"a": "restart", "d": "c2s", "k": 0}]
                            acts2 += [a for a in h["acts"] if a["a"] != "start"] + [{"a": "deliver", "d": d, "k": 0} for _ in range(3) for d in ("c2s", "s2c")]
                            jobs.append({"mode": "layer", "p": pp, "acts": acts2})
                            nretry += 1
                        # ... and at once, while both sides still hold what the abandoned transfer left - against an application that
                        # does not use ETags (a held response must not be continued with the blocks of an older one)
                        acts3 = acts + [{"a": "abandon", "d": "c2s", "k": 0}, {"a": "retry", "d": "c2s", "k": 0}]
                        acts3 += [a for a in h["acts"] if a["a"] != "start"] + [{"a": "deliver", "d": d, "k": 0} for _ in range(3) for d in ("c2s", "s2c")]
                        jobs.append({"mode": "layer", "p": dict(pp, ne=True), "acts": acts3})
                        nretry += 1
    # (b2) directed: a response of exactly one block (the server goes on holding it: nobody asks for a second block), then the
    #      next request with the same token at once, answered with a longer representation (no ETags): refused or whole
    nagain = 0
    for ss in (0, 1, 2, 6):
        for cs in (0, 2, 6):
            size = 16 << ss
            pp = {"l": 0, "l2": size, "cs": cs, "ss": ss, "cmms": 2048, "smms": 2048, "ne": True, "l2b": 3 * size + 1}
            acts = [{"a": "start", "d": "c2s", "k": 0}, {"a": "deliver", "d": "c2s", "k": 0}, {"a": "deliver", "d": "s2c", "k": 0}, {"a": "again", "d": "c2s", "k": 0}]
            acts += [{"a": "deliver", "d": d, "k": 0} for _ in range(8) for d in ("c2s", "s2c")]
            jobs.append({"mode": "layer", "p": pp, "acts": acts})
            nagain += 1
    ctx.cov["next_request_with_the_same_token_schedules"] = nagain
    # (c) directed schedules: a fault-free exchange of every scenario in which the server's buffers time out once after
    #     1 / 2 delivered responses (a GET continuation then executes the application again: new representation)
    ndir = 0
    for loseat in (1, 2):
        p = os.path.join(cdir, "MC_Blockwise_dir_%d.cfg" % loseat)
        with open(p, "w") as f:
            f.write(cfgtext("quick" if not thorough else "thorough", 1, 400 if thorough else 130, 90, "Emit", view=False, maxreplay=12, loseat=loseat))
        g = vf.run_tlc(ctx, "bw", "MC_Blockwise", os.path.basename(p), files=[p], workers=1, seed=ctx.seed, timeout=3000, cont=False)
        vf.tlc_must_finish(g, "MC_Blockwise directed")
        seen = set()
        for line in g.out.splitlines():
            if line.startswith('<<"HIST", '):
                raw = json.loads(line[len('<<"HIST", '):-2])
                if raw in seen:
                    continue
                seen.add(raw)
                h = json.loads(raw)
                if not any(a["a"] == "lose" for a in h["acts"]):
                    continue
                pp = {"l": h["p"]["L"], "l2": h["p"]["L2"], "cs": h["p"]["CS"], "ss": h["p"]["SS"], "cmms": h["p"]["CMMS"], "smms": h["p"]["SMMS"]}
                jobs.append({"mode": "layer", "p": pp, "acts": h["acts"]})
                ndir += 1
    ctx.cov["directed_timeout_schedules"] = ndir
    # (d) observe + block-wise (ObsBlock.tla): exhaustive at message granularity (every interleaving of resource changes,
    #     notifications, block requests and blocks), the same without the ETag comparison must mix two representations
    #     (vacuity guard); its plan catalogue is executed on two real udp connections
    ro = vf.run_tlc(ctx, "bw", "MC_ObsBlock", "MC_ObsBlock.cfg", workers=8, timeout=1800, cont=False)
    vf.tlc_must_finish(ro, "MC_ObsBlock")
    if ro.inv:
        raise vf.Machinery("design-level invariant failed in ObsBlock (spec bug, not a code verdict): %s" % ro.inv)
    ctx.add("states", ro.distinct)
    ctx.add("transitions", ro.generated)
    rm = vf.run_tlc(ctx, "bw", "MC_ObsBlock", "MC_ObsBlock_mut.cfg", workers=4, timeout=600, cont=False)
    if "NoMix" not in rm.inv:
        raise vf.Machinery("vacuity guard: ObsBlock without the ETag comparison should violate NoMix, TLC reported %s" % rm.inv)
    plans = json.load(open(os.path.join(ro.dir, "plans.json")))
    nobs = 0
    import random
    prng = random.Random(ctx.seed * 17 + 4)
    for l2, cs, ss in ((50, 0, 0), (33, 1, 0), (17, 0, 1), (10, 0, 0)) + (((64, 1, 1), (100, 2, 0)) if thorough else ()):
        pl = plans if (thorough or l2 == 50) else prng.sample(plans, 40)
        for plan in pl:
            jobs.append({"mode": "obsbw", "p": {"l": 0, "l2": l2, "cs": cs, "ss": ss, "cmms": 2048, "smms": 2048}, "plan": plan})
            nobs += 1
    ctx.cov["observe_blockwise_plans"] = nobs
    # (e) two uploads with different tokens interleaved at the server's layer (Mix.tla): every interleaving of 2 x 3 and 2 x 2
    #     blocks; with one key for both tokens the model mixes (vacuity guard); token pairs incl. ones that differ only in
    #     leading zero bytes or in length
    rx = vf.run_tlc(ctx, "bw", "MC_Mix", "MC_Mix.cfg", workers=1, timeout=600, cont=False)
    vf.tlc_must_finish(rx, "MC_Mix")
    if rx.inv:
        raise vf.Machinery("design-level invariant failed in Mix (spec bug, not a code verdict): %s" % rx.inv)
    rxm = vf.run_tlc(ctx, "bw", "MC_Mix", "MC_Mix_mut.cfg", workers=1, timeout=600, cont=False)
    if "NoMix" not in rxm.inv:
        raise vf.Machinery("vacuity guard: Mix with one key for both tokens should violate NoMix, TLC reported %s" % rxm.inv)
    orders = sorted(set(m.group(1) for m in re.finditer(r'<<"ORDER", "(\[[0-9,]*\])">>', rx.out)))
    if len(orders) != 20:
        raise vf.Machinery("Mix: expected the 20 interleavings of 3 + 3 blocks, got %d" % len(orders))
    nmix = 0
    for ta, tb in (([42], [0, 42]), ([42], [43]), ([0], [0, 0]), ([1, 2, 3, 4, 5, 6, 7, 8], [0, 2, 3, 4, 5, 6, 7, 8]), ([0, 0, 42], [0, 42]), ([42, 0], [42])):
        for o in orders:
            jobs.append({"mode": "mix", "tokA": ta, "tokB": tb, "nb": 3, "order": json.loads(o)})
            nmix += 1
    # ... and senders that keep their own, larger block size (64) against a receiver whose maximum is 16: a foreign peer that
    # does not adopt the size the receiver answers with - 192-byte bodies in 3 blocks, every interleaving
    for o in orders:
        jobs.append({"mode": "mix", "tokA": [42], "tokB": [43], "nb": 12, "order": json.loads(o), "sb": 64})
        nmix += 1
    ctx.cov["layer_two_transfer_interleavings"] = nmix
    ctx.cov["directed_retry_after_abandon_schedules"] = nretry
    if not jobs:
        raise vf.Machinery("no schedules generated")
    # what two goroutines do to each other is decided by the scheduler: every schedule with concurrently handled copies is run
    # four times (defect D23 showed in one run of several hundred)
    jobs += [j for j in jobs if j["mode"] == "layerc"] * 3
    jpath = os.path.join(ctx.work, "jobs.ndjson")
    vf.write_ndjson(jpath, jobs)
    out = os.path.join(ctx.work, "traces.ndjson")
    vf.drv(ctx, ["c04", jpath, out], timeout=3000)
    traces = vf.read_ndjson(out)
    # the schedules with concurrently handled copies once more under the race detector: two copies of a message handled at the
    # same time must be serialized by the layer - a data race inside it is how defect D23 corrupted a body once in several
    # hundred runs (the detector has no false positives; whether a race shows in the bytes is luck)
    vf.build_driver(ctx, race=True)
    seenj, rjobs = set(), []
    for j in jobs:
        if j["mode"] == "layerc":
            k = json.dumps(j, sort_keys=True)
            if k not in seenj:
                seenj.add(k)
                rjobs.append(j)
    if rjobs:
        rj = os.path.join(ctx.work, "jobs-race.ndjson")
        vf.write_ndjson(rj, rjobs)
        rc, so, se = vf.drv(ctx, ["c04", rj, os.path.join(ctx.work, "traces-race.ndjson")], timeout=1800, race=True, ok_codes=(0, 66), env_extra={"GORACE": "halt_on_error=0 exitcode=66"})
        ctx.cov["concurrent_copy_schedules_under_race_detector"] = len(rjobs)
        if rc == 66 or "DATA RACE" in se:
            first = [l.strip() for l in se[se.find("DATA RACE"):].splitlines()[1:14] if "/repo/" in l or "go-coap" in l][:4]
            if any("go-coap" in f or "/repo/" in f for f in first):
                vf.report(ctx, "C04_RaceFree", {"detector": "go -race"},
                          "the Go race detector reported a data race inside the block-wise layer while two copies of a message were handled at the same time: %s" % first,
                          {"stderr": se[:8000], "cmd": "bin/check C04"})
    bad, gen, dist = vf.judge_records(ctx, "bw", "RecC04", "RecC04.cfg", traces, shards=8, timeout=3000)
    ctx.add("states", dist)
    ctx.add("transitions", gen)
    ctx.add("traces_validated_against_impl", len(traces))
    ctx.cov["scenarios"] = nscen
    ctx.cov["schedules_by_mode"] = {m: sum(1 for j in jobs if j["mode"] == m) for m in ("layer", "layerc", "udp", "tcp", "tcpconc", "tcpconcz", "obsbw", "mix", "sock-udp", "sock-dtls", "sock-tcp", "sock-tls")}
    ctx.cov["schedules_one_way_style"] = sum(1 for j in jobs if j.get("p", {}).get("ow"))
    obsrecs = [t for t in traces if t["op"] == "obsbw"]
    ctx.cov["observer_deliveries"] = sum(len(t["notes"]) for t in obsrecs)
    single = [t for t in traces if t["op"] not in ("conc", "obsbw", "mix")]
    ctx.cov["messages_relayed"] = sum(len(t["msgs"]) for t in single)
    ctx.cov["completed_exchanges"] = sum(1 for t in single if t["ret"] == "ok" and t["retcode"] in (68, 69))
    ctx.cov["exchanges_ending_in_error_or_timeout"] = sum(1 for t in single if not (t["ret"] == "ok" and t["retcode"] in (68, 69)))
    ctx.cov["concurrent_exchanges_completed"] = sum(1 for t in traces if t["op"] == "conc" for x in t["x"] if x["ret"] == "ok")
    obs = []
    for clause, idxs in sorted(bad.items()):
        ts = [traces[i] for i in idxs]
        if clause == "K04_ObsCurrent":
            ctx.drift.append({"clause": clause, "traces": len(ts), "example": {k: ts[0][k] for k in ("p", "plan", "nver", "lastSeen")}})
            continue
        mx = [t for t in ts if t["op"] == "mix"]
        if mx:
            t0 = mx[0]
            vf.report(ctx, clause, {"mode": "layer-two-transfers"},
                      "%d interleaving(s) of two uploads with different tokens at the server's block-wise layer violate the clause; e.g. tokens %s order %s -> response codes %s, application got %s" % (
                          len(mx), t0["tokens"], t0["order"], t0["codes"], json.dumps([[d["who"], d["len"], d["own"][:4]] for d in t0["app"]])[:400]),
                      {"trace": t0, "cmd": "bin/check C04 --tier %s" % ctx.tier})
            ts = [t for t in ts if t["op"] != "mix"]
            if not ts:
                continue
        ob = [t for t in ts if t["op"] == "obsbw"]
        if ob:
            t0 = min(ob, key=lambda t: len(t["plan"]))
            vf.report(ctx, clause, {"mode": "observe-blockwise"},
                      "%d observation(s) whose representations need block-wise transfer violate the clause; e.g. L2=%d szx %d/%d plan %s -> registration %s, bodies handed over %s, cancel %s, left %s" % (
                          len(ob), t0["p"]["l2"], t0["p"]["cs"], t0["p"]["ss"], t0["plan"], t0["reg"], json.dumps([[n["seq"], n["len"], n["pieces"][:3]] for n in t0["notes"]])[:500], t0["cancel"],
                          [t0[k] for k in ("rcvSrvX", "sndSrvX", "rcvCliX", "sndCliX", "obsCliX")]),
                      {"trace": t0, "cmd": "bin/check C04 --tier %s" % ctx.tier})
            ts = [t for t in ts if t["op"] != "obsbw"]
            if not ts:
                continue
        if clause == "K04_ConcCompletes":
            ctx.drift.append({"clause": clause, "traces": len(ts), "example_params": ts[0]["p"], "example": [[x["ret"], x["uplen"]] for x in ts[0]["x"]]})
            continue
        if clause.startswith("K04_"):
            t0 = min(ts, key=lambda t: len(t["msgs"]))
            (obs if clause == "K04_Completes" else ctx.drift).append({"clause": clause, "traces": len(ts), "of_which_fault_free": sum(1 for t in ts if not t["faulty"]), "example_params": t0["p"], "example_acts": [[a["a"], a["d"], a["k"]] for a in t0["acts"]][:12]})
            continue
        conc = [t for t in ts if t["op"] == "conc"]
        if conc:
            t0 = min(conc, key=lambda t: t["p"]["l"] + t["p"]["l2"])
            vf.report(ctx, clause, {"mode": "tcp-concurrent", "direction": "up" if t0["p"]["l"] > 0 else "down"},
                      "%d run(s) of %d concurrent exchanges violate the clause; e.g. L=%d L2=%d szx %d/%d -> %s" % (
                          len(conc), t0["n"], t0["p"]["l"], t0["p"]["l2"], t0["p"]["cs"], t0["p"]["ss"],
                          json.dumps([[x["ret"], x["retcode"], [[d["len"], d["pieces"][:3]] for d in x["app"]], [[d["len"], d["pieces"][:3]] for d in x["got"]]] for x in t0["x"]])[:900]),
                      {"trace": t0, "cmd": "bin/check C04 --tier %s" % ctx.tier})
        ts = [t for t in ts if t["op"] != "conc"]
        groups = {}
        for t in ts:
            mode = ("layer" + ("-concurrent-dup" if t.get("concurrent") else "")) if t["op"] == "layer" else t["transport"]
            direction = "both" if t["p"]["l"] > 0 and t["p"]["l2"] > 16 else ("up" if t["p"]["l"] > 0 else "down")
            groups.setdefault((mode, direction, t["faulty"]), []).append(t)
        for (mode, direction, faulty), xs in sorted(groups.items(), key=str):
            t0 = min(xs, key=lambda t: (len(t["acts"]), t["p"]["l"] + t["p"]["l2"]))
            vf.report(ctx, clause, {"mode": mode, "direction": direction, "faulty": faulty},
                      "%d exchange(s) [%s, %s, faults=%s] violate the clause; e.g. L=%d L2=%d szx %d/%d mms %d/%d, schedule %s -> app deliveries %s, call %s %s, returned body %s" % (
                          len(xs), mode, direction, faulty, t0["p"]["l"], t0["p"]["l2"], t0["p"]["cs"], t0["p"]["ss"], t0["p"]["cmms"], t0["p"]["smms"],
                          json.dumps([[a["a"], a["d"], a["k"]] for a, ap in zip(t0["acts"], t0["applied"]) if ap])[:300],
                          [[d["len"], d["pieces"][:3]] for d in t0["app"]], t0["ret"], t0["retcode"], [[d["len"], d["pieces"][:3]] for d in t0["got"]]),
                      {"trace": {k: t0[k] for k in t0 if k != "msgs"}, "msgs": t0["msgs"][:40], "cmd": "bin/check C04 --tier %s" % ctx.tier})
    if obs:
        ctx.cov["observations"] = obs

    # an upload whose call ends while the receive path is cutting the next block out of the request; the application then re-uses
    # its request: every block on the wire carries the upload's own bytes (driver: c12 bwpark)
    pout = os.path.join(ctx.work, "park.ndjson")
    vf.drv(ctx, ["c12park", pout], timeout=600)
    parks = vf.read_ndjson(pout)
    if not parks or not all(p_["done"] for p_ in parks):
        raise vf.Machinery("the parked-upload scenario did not run to its end: %s" % [p_["done"] for p_ in parks])
    pbad, g, d = vf.judge_records(ctx, "bw", "RecC04park", "RecC04park.cfg", parks, shards=1, timeout=300)
    ctx.add("states", d)
    ctx.add("transitions", g)
    ctx.add("traces_validated_against_impl", len(parks))
    ctx.cov["uploads_ended_while_a_block_was_being_cut"] = len(parks)
    for clause, idxs in sorted(pbad.items()):
        p0 = parks[idxs[0]]
        vf.report(ctx, clause, {"mode": "upload-ended-in-mid-block"},
                  "%d run(s): the call of a block-wise upload ended while the next block was being cut, the application re-used its request, and %d of the %d blocks on the wire for the upload's token carry other bytes than the upload's own" % (len(idxs), p0["fails"], p0["copies"]),
                  {"trace": {k: p0[k] for k in p0 if k != "log"}, "cmd": "bin/check C04 --tier %s" % ctx.tier})

    def mutate(t, rng):
        if t["op"] not in ("conc", "obsbw", "mix") and t["app"] and t["app"][0]["len"] > 1 and t["p"]["l"] > 1:
            app = [dict(d) for d in t["app"]]
            ps = [list(x) for x in app[0]["pieces"]]
            ps[-1][2] -= 1
            app[0]["pieces"] = ps
            app[0]["len"] -= 1
            t["app"] = app
            return t
        return None
    vf.negative_control(ctx, "bw", "RecC04", "RecC04.cfg", traces, mutate)
    t0 = next(t for t in traces if t["op"] == "layer" and t["faulty"])
    ctx.sample({"mode": "layer", "p": t0["p"], "acts": [[a["a"], a["d"], a["k"]] for a in t0["acts"]][:16], "msgs": [[m["dir"], m["kind"], [m["b1"]["szx"], m["b1"]["num"], m["b1"]["more"]], m["pay"]] for m in t0["msgs"]][:10], "ret": t0["ret"]})
    t1 = next(t for t in traces if t["op"] == "e2e" and t["transport"] == "tcp")
    ctx.sample({"mode": "tcp", "p": t1["p"], "msgs": [[m["dir"], m["kind"], [m["b1"]["szx"], m["b1"]["num"], m["b1"]["more"]], [m["b2"]["szx"], m["b2"]["num"], m["b2"]["more"]], m["pay"]] for m in t1["msgs"]][:10], "ret": t1["ret"]})
    ctx.assumptions += ["'exactly once' is asserted without channel faults, and on datagram connections always (message-ID de-duplication below the layer); a relay that replays request blocks to the bare layer is, for the layer, a second request",
                        "loss of a continuation on UDP is not retransmitted by the library: such exchanges end by timeout / cancellation, which the property allows",
                        "one transfer at a time in this check (concurrent transfers with different tokens: C13 histories)"]
    return vf.finish(ctx, extra_cov={"exhaustive": False})
