"""C20 - No-Response suppression follows RFC 7967 for every value and code.
Spec: specs/wire/NoResponse.tla; records of IsNoResponseCode (whole table), ResponseWriter.SetResponse
and complete exchanges on real udp (in-memory session) and tcp (scripted stream) connections are judged
by TLC (RecC20)."""
import vf


def key(r):
    v = r["vhi"] * 65536 + r["vlo"]
    if r["op"] == "wire":
        return "wire(%s,%s,v=%d,code=%d.%02d)" % (r["transport"], "CON" if r["con"] else "NON", v, r["code"] // 32, r["code"] % 32)
    if r["op"] == "setresp":
        return "setresp(has=%s,v=%d,code=%d.%02d)" % (r["has"], v, r["code"] // 32, r["code"] % 32)
    return "isnr(v=%d,code=%d.%02d)" % (v, r["code"] // 32, r["code"] % 32)


def mutate(rec, rng):
    if rec["op"] == "isnr":
        rec["refused"] = not rec["refused"]
        return rec
    if rec["op"] == "wire":
        rec["responses"] = 1 - rec["responses"] if rec["responses"] in (0, 1) else 0
        return rec
    return None


def run(ctx):
    recs, bad = vf.record_property(
        ctx, "wire", [("MC_NoResponse", "MC_NoResponse.cfg")], ["c20", "<out>"], "RecC20", "RecC20.cfg",
        key, mutate, "RFC 7967", shards=8)
    ctx.assumptions += ["wire-level exchanges use an in-memory datagram session and a scripted stream (no sockets)",
                        "only the low 16 bits of the option value are given to the TLA+ predicate (bits above 4 are irrelevant by RFC 7967)"]
    return vf.finish(ctx, extra_cov={"exhaustive": True,
                                     "domain_note": "IsNoResponseCode: all 256 values x 256 codes plus 15 larger values x 256 codes; SetResponse: "
                                     + ("256" if ctx.tier == "thorough" else "79") + " values x 256 codes with and without the option; wire: 38 values (0..31 and six larger one-byte values) x "
                                     + ("192" if ctx.tier == "thorough" else "20") + " codes x {CON,NON} on udp and on tcp"})
