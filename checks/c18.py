"""C18 - inactivity and keep-alive monitors close exactly the dead connections.
Spec: specs/mon/Monitor.tla (Notify / CheckInactivity / KeepAlive.OnInactive as a step function with the
statement's and the code's reading of what resets the fail count). TLC explores all histories of recv / pong(g) /
tick events with spacings 0,1,2,5 around a period of 4 up to the horizon for retry limits 0..2 and for the plain
monitor (OnlyIfIdle, OnlyAfterN on the design) and generates random walks; the driver replays them on the real
Monitor/KeepAlive objects with a fake connection and on a real udp/client.Conn guarded by them, under a virtual
clock; TLC (RecC18) judges every history."""
import json
import os

import vf

CONFIGS = [("ka0", True, 0), ("ka1", True, 1), ("ka2", True, 2), ("plain", False, 0)]


def cfgtext(ka, mr, walks, horizon, maxev):
    return ("INIT Init\nNEXT Next\n%sCONSTANTS\n  P = 4\n  KeepAlive = %s\n  MaxRetries = %d\n  Horizon = %d\n  Walks = %d\n  MaxEvents = %d\nINVARIANTS %s\n"
            % ("" if walks else "VIEW View\n", "TRUE" if ka else "FALSE", mr, horizon, walks, maxev,
               "Emit" if walks else "Inv_OnlyIfIdle Inv_OnlyAfterN"))


def run(ctx):
    thorough = ctx.tier == "thorough"
    vf.build_driver(ctx)
    cdir = ctx.subdir("cfg")
    stim = []
    for name, ka, mr in CONFIGS:
        p = os.path.join(cdir, "MC_Monitor_%s.cfg" % name)
        with open(p, "w") as f:
            f.write(cfgtext(ka, mr, 0, 24, 0))
        r = vf.run_tlc(ctx, "mon", "MC_Monitor", os.path.basename(p), files=[p], timeout=1800, cont=False)
        vf.tlc_must_finish(r, "MC_Monitor " + name)
        if r.inv:
            raise vf.Machinery("design-level invariant failed (spec bug): %s" % r.inv)
        ctx.add("states", r.distinct)
        ctx.add("transitions", r.generated)
        p2 = os.path.join(cdir, "MC_Monitor_gen_%s.cfg" % name)
        with open(p2, "w") as f:
            f.write(cfgtext(ka, mr, 1500 if thorough else 250, 60, 16))
        g = vf.run_tlc(ctx, "mon", "MC_Monitor", os.path.basename(p2), files=[p2], workers=1, seed=ctx.seed * 29 + mr, timeout=900, cont=False)
        vf.tlc_must_finish(g, "MC_Monitor gen " + name)
        seen = set()
        for line in g.out.splitlines():
            if line.startswith('<<"HIST", '):
                h = json.loads(line[len('<<"HIST", '):-2])
                if h in seen:
                    continue
                seen.add(h)
                stim.append({"t": len(stim) + 1, "p": 4, "keepAlive": ka, "maxRetries": mr, "events": json.loads(h)})
    ngen = len(stim)
    # directed histories: traffic between unanswered pings, late pongs, boundary ticks
    for mr in (1, 2):
        stim.append({"t": len(stim) + 1, "p": 4, "keepAlive": True, "maxRetries": mr, "events": [
            {"e": "tick", "g": 0, "t": 5}, {"e": "recv", "g": 0, "t": 6}, {"e": "tick", "g": 0, "t": 11}, {"e": "tick", "g": 0, "t": 16}, {"e": "tick", "g": 0, "t": 21}]})
        stim.append({"t": len(stim) + 1, "p": 4, "keepAlive": True, "maxRetries": mr, "events": [
            {"e": "tick", "g": 0, "t": 5}, {"e": "tick", "g": 0, "t": 10}, {"e": "pong", "g": 1, "t": 11}, {"e": "tick", "g": 0, "t": 16}, {"e": "tick", "g": 0, "t": 21}, {"e": "tick", "g": 0, "t": 26}]})
        stim.append({"t": len(stim) + 1, "p": 4, "keepAlive": True, "maxRetries": mr, "events": [
            {"e": "tick", "g": 0, "t": 4}, {"e": "tick", "g": 0, "t": 5}, {"e": "pong", "g": 1, "t": 5}, {"e": "tick", "g": 0, "t": 9}, {"e": "tick", "g": 0, "t": 10}]})
    # late answers: k unanswered pings (one per idle period), then the pong of an EARLIER ping g < k arrives, then silence
    for mr in (1, 2, 3):
        for k in range(2, mr + 2):
            for g in range(1, k):
                ev = [{"e": "tick", "g": 0, "t": 5 * j} for j in range(1, k + 1)]
                ev.append({"e": "pong", "g": g, "t": 5 * k + 1})
                ev += [{"e": "tick", "g": 0, "t": 5 * k + 1 + 5 * j} for j in range(1, mr + 3)]
                stim.append({"t": len(stim) + 1, "p": 4, "keepAlive": True, "maxRetries": mr, "events": ev})
    # every ping answered at once, for more rounds than maxRetries - with a RST and (datagram peers) with an empty ACK
    nallans = 0
    for mr in (1, 2, 3):
        for ack in (False, True):
            ev = []
            for j in range(1, mr + 4):
                ev += [{"e": "tick", "g": 0, "t": 6 * j - 1}, {"e": "pong", "g": j, "t": 6 * j}]
            stim.append({"t": len(stim) + 1, "p": 4, "keepAlive": True, "maxRetries": mr, "events": ev, "ackPongDirected": ack})
            nallans += 1
    # the same with every pong at the very instant of its ping: on stream connections it is delivered before the write of the ping
    # has returned (flag fast)
    for mr in (1, 2, 3):
        ev = []
        for j in range(1, mr + 4):
            ev += [{"e": "tick", "g": 0, "t": 5 * j}, {"e": "pong", "g": j, "t": 5 * j}]
        ev += [{"e": "tick", "g": 0, "t": 5 * (mr + 3) + 5 * j} for j in range(1, mr + 3)]
        stim.append({"t": len(stim) + 1, "p": 4, "keepAlive": True, "maxRetries": mr, "events": ev, "fast": True})
        nallans += 1
    # a ping that cannot be written (tick with g = 1) while retries remain: unanswered ping, write error, answered ping, then silence
    for mr in (2, 3):
        for pos in range(1, mr + 1):
            ev = []
            for j in range(1, mr + 1):
                ev.append({"e": "tick", "g": 1 if j == pos else 0, "t": 5 * j})
            # the last ping before the limit is answered (if it was written): the peer is alive
            npings = mr - 1 if pos <= mr else mr
            if pos != mr:
                ev.append({"e": "pong", "g": npings, "t": 5 * mr + 1})
            ev += [{"e": "tick", "g": 0, "t": 5 * mr + 1 + 5 * j} for j in range(1, mr + 3)]
            stim.append({"t": len(stim) + 1, "p": 4, "keepAlive": True, "maxRetries": mr, "events": ev, "wfail": True})
    ctx.cov["histories_every_ping_answered"] = nallans
    # every 5th history (thorough: every 2nd) and all directed ones also against a real udp server on a loopback socket
    for k, s_ in enumerate(stim):
        s_["srv"] = (k % (2 if thorough else 5) == 0) or k >= ngen
        # in every third history with answered pings the datagram peer answers with an empty ACK instead of a RST
        s_["ackPong"] = s_.pop("ackPongDirected", k % 3 == 1 and any(e["e"] == "pong" for e in s_["events"]))
    # every second history without keep-alive: the stream peer's bytes never end on a message boundary
    for k, s_ in enumerate(stim):
        s_["pipelined"] = (not s_["keepAlive"]) and k % 2 == 0
    for s_ in stim:
        s_.setdefault("fast", False)
        s_.setdefault("wfail", False)
    ctx.cov["histories_with_a_ping_that_cannot_be_written"] = sum(1 for s_ in stim if s_["wfail"])
    for k, s_ in enumerate(stim):
        s_["crowd"] = bool(s_.get("srv")) and k % 2 == 0
    ctx.cov["histories_with_other_peers_coming_and_going"] = sum(1 for s_ in stim if s_["crowd"])
    ctx.cov["histories_with_pipelined_stream_bytes"] = sum(1 for s_ in stim if s_["pipelined"])
    ctx.cov["histories_with_pings_answered_by_ack"] = sum(1 for s_ in stim if s_["ackPong"])
    spath = os.path.join(ctx.work, "stimuli.ndjson")
    vf.write_ndjson(spath, stim)
    out = os.path.join(ctx.work, "traces.ndjson")
    vf.drv(ctx, ["c18", spath, out], timeout=1800)
    traces = vf.read_ndjson(out)
    bad, gen, dist = vf.judge_records(ctx, "mon", "RecC18", "RecC18.cfg", traces, shards=4, timeout=1800)
    ctx.add("states", dist)
    ctx.add("transitions", gen)
    ctx.add("traces_validated_against_impl", len(traces))
    ctx.cov["histories_generated"] = len(stim)
    ctx.cov["events_validated"] = sum(len(t["events"]) for t in traces)
    ctx.cov["histories_ending_closed"] = sum(1 for t in traces if t["obs"] and t["obs"][-1]["closed"])
    for clause, idxs in sorted(bad.items()):
        ts = [traces[i] for i in idxs]
        if clause == "K18_Conforms":
            ctx.drift.append({"clause": clause, "traces": len(ts), "first": ts[0]["events"][:12], "mode": ts[0]["mode"]})
            continue
        groups = {}
        for t in ts:
            # what arrived between the first expiry and the close: other traffic ("recv") or the answer to a ping that had
            # already been superseded by a later one ("latepong") - finding D12 can explain such a history -, only answers to
            # the CURRENT ping ("pong"), or nothing ("none")
            ks = set()
            sent = 0
            for e, o in zip(t["events"], t["obs"]):
                if e["e"] == "recv":
                    ks.add("recv")
                elif e["e"] == "pong":
                    ks.add("latepong" if e["g"] < sent else "pong")
                sent = o["pings"]
                if o["closed"]:
                    break
            kind = "recv" if "recv" in ks else ("latepong" if "latepong" in ks else ("pong" if "pong" in ks else "none"))
            groups.setdefault((t["mode"], t["keepAlive"], kind), []).append(t)
        for (mode, ka, traffic), xs in sorted(groups.items()):
            t0 = min(xs, key=lambda t: len(t["events"]))
            vf.report(ctx, clause, {"mode": mode, "keepAlive": ka, "traffic_between_expiries": traffic},
                      "%d history(ies) on %s (keepAlive=%s, maxRetries=%d, period 4): e.g. %s -> closed after event %s with %d ping(s) sent" % (
                          len(xs), mode, ka, t0["maxRetries"], json.dumps([[e["e"], e["g"], e["t"]] for e in t0["events"]]),
                          next((k + 1 for k, o in enumerate(t0["obs"]) if o["closed"]), None), t0["obs"][-1]["pings"]),
                      {"trace": t0, "cmd": "bin/check C18 --tier %s" % ctx.tier})

    # a real DTLS server (real clock) and peers whose handshake takes 0 / 300 / 450 ms of a 600 ms period, then silence
    hout = os.path.join(ctx.work, "handshake.ndjson")
    vf.drv(ctx, ["c18hs", hout], timeout=300)
    hs = vf.read_ndjson(hout)
    if not hs or not all(h["established"] for h in hs):
        raise vf.Machinery("the DTLS handshake scenario did not establish its connections: %s" % hs)
    hbad, gen, dist = vf.judge_records(ctx, "mon", "RecC18hs", "RecC18hs.cfg", hs, shards=1, timeout=300)
    ctx.add("states", dist)
    ctx.add("transitions", gen)
    ctx.add("traces_validated_against_impl", len(hs))
    ctx.cov["dtls_slow_handshake_runs"] = len(hs)
    for clause, idxs in sorted(hbad.items()):
        h0 = hs[idxs[0]]
        vf.report(ctx, clause, {"mode": "dtlssrv", "handshakeMs": h0["handshakeMs"]},
                  "a DTLS server with a %d ms inactivity period and a peer whose handshake took %d ms: %s" % (
                      h0["periodMs"], h0["handshakeMs"], ("closed %d ms after the server looked up the key" % h0["afterMs"]) if h0["closed"] else "the silent peer was never closed"),
                  {"trace": h0, "cmd": "bin/check C18 --tier %s" % ctx.tier})

    def mutate(t, rng):
        if not t["keepAlive"] and t["obs"] and not t["obs"][0]["closed"]:
            obs = [dict(o) for o in t["obs"]]
            obs[0]["closed"] = True
            for o in obs:
                o["closed"] = True
            t["obs"] = obs
            ev = [dict(e) for e in t["events"]]
            ev[0] = {"e": "recv", "g": 0, "t": ev[0]["t"]}
            t["events"] = ev
            return t
        return None
    vf.negative_control(ctx, "mon", "RecC18", "RecC18.cfg", traces, mutate)
    t0 = max(traces, key=lambda t: len(t["events"]))
    ctx.sample({"mode": t0["mode"], "keepAlive": t0["keepAlive"], "maxRetries": t0["maxRetries"], "events": [[e["e"], e["g"], e["t"]] for e in t0["events"]], "obs": [[o["closed"], o["pings"]] for o in t0["obs"]]})
    ctx.assumptions += ["'the count' is read as the number of consecutive inactivity periods that expired without a matching pong (a ping is sent at each of them except the one that closes)",
                        "virtual clock: Notify stamps through the verif hook, sweeps with explicit times; stream connections and the server-side pre-check are not in this tier"]
    return vf.finish(ctx, extra_cov={"exhaustive": False})
