"""Single source for MANIFEST.json (bin/mkmanifest)."""
HOOK_COMMITS = []

CHECKS = [
    {"id": "C19",
     "text": "RFC 7959 section 2.2 written as TLA+ operators (specs/wire/BlockOpt.tla); TLC proves the spec-level inverse theorems over the whole 24-bit domain, and judges records of the REAL EncodeBlockOption/DecodeBlockOption/SZX.Size: explicit boundary/stratified/seeded records one by one and position-weighted digests of every 4096-value chunk of the complete domain (all 2^24 decoder values, all 8*2^20*2 encoder triples; thorough also all 2^32 decoder inputs). The domain is finite, so complete enumeration is the right level.",
     "note": "Trusted: TLC, the Json/IOUtils community modules, the Go recorder (no oracle inside), digest collision resistance (two primes). Quick judges a seeded subset of chunk digests; thorough judges all.",
     "technique": "TLA+ reference operators + TLC record validation over the complete domain (digests)"},
]

_PENDING = "check not built yet in this round (pipeline exists, property not claimed until its check is registered)"
NOT_APPLICABLE = [{"property_id": "C%02d" % i, "reason": _PENDING} for i in range(1, 21) if "C%02d" % i not in [c["id"] for c in CHECKS]]
