"""Single source for MANIFEST.json (bin/mkmanifest)."""
HOOK_COMMITS = ["0ed9dd5"]

CHECKS = [
    {"id": "C01",
     "text": "RFC 7252 s3 and RFC 8323 s3.2 written as TLA+ encoding and parsing operators (specs/wire/CoapWire.tla); TLC proves parse(encode(m)) = m, prefix-is-short and tail-is-ignored on every bounded well-formed message (MC_CoapWire, ~3*10^5 messages), and judges records of the REAL Size/Encode/Decode of both coders through the raw and the pooled (fresh and recycled) API: the produced bytes must parse back to m under the independent RFC parser, the library decoder must return m and consume all bytes, Size = bytes written, every too-small buffer fails with the same size and intact canaries, and the named out-of-precondition messages are refused. Systematic class-boundary vectors (all option delta/length classes, stream length classes incl. 65805+) plus seeded random messages.",
     "note": "Trusted: TLC, Json/IOUtils, the recorder. Memory beyond the buffer is observed by canaries, not proved. The canonical-bytes expectation (K01_Bytes) is conformance-only.",
     "technique": "TLA+ reference codec + TLC record validation of real encoder/decoder calls"},
    {"id": "C02",
     "text": "The RFC reference parser of CoapWire.tla (three documented leniencies as named predicates) judges what the REAL datagram decoder, stream header pre-parser and stream decoder do with byte strings: every string up to length 4 (thorough 5) over a 10-symbol branch-covering alphabet per coder, every first byte x several lengths, every truncation and tail-extension of valid encodings, option-count/capacity and extended-field boundary vectors, stream length-field boundaries up to 2^32, and seeded mutations; through the raw API and pool.Message.UnmarshalWithDecoder on fresh, recycled and SetMessage{}-reset messages. Clauses: total (no panic, 3 s watchdog), accept/reject and fields agree, short-vs-reject agree, re-encodable, idempotent, no aliasing of the receive buffer.",
     "note": "Trusted: TLC, Json/IOUtils, the recorder. Exhaustive only up to the small length; beyond it seeded mutation. Where two readings of the RFC are defensible (trailing bytes after a frame, reserved TKL in an incomplete header, frames >= 2^32) either outcome is accepted.",
     "technique": "TLA+ reference parser + TLC record validation of real decoder calls"},
    {"id": "C19",
     "text": "RFC 7959 section 2.2 written as TLA+ operators (specs/wire/BlockOpt.tla); TLC proves the spec-level inverse theorems over the whole 24-bit domain, and judges records of the REAL EncodeBlockOption/DecodeBlockOption/SZX.Size: explicit boundary/stratified/seeded records one by one and position-weighted digests of every 4096-value chunk of the complete domain (all 2^24 decoder values, all 8*2^20*2 encoder triples; thorough also all 2^32 decoder inputs). The domain is finite, so complete enumeration is the right level.",
     "note": "Trusted: TLC, the Json/IOUtils community modules, the Go recorder (no oracle inside), digest collision resistance (two primes). Quick judges a seeded subset of chunk digests; thorough judges all.",
     "technique": "TLA+ reference operators + TLC record validation over the complete domain (digests)"},
    {"id": "C20",
     "text": "RFC 7967 section 2.1 written as a TLA+ predicate (specs/wire/NoResponse.tla, sanity theorems checked by TLC over 256x256); TLC judges records of the REAL IsNoResponseCode over the complete 256x256 table (plus larger values), of ResponseWriter.SetResponse with and without the option, and of complete request/response exchanges on real udp/client.Conn (in-memory session, CON and NON) and tcp/client.Conn (scripted stream): suppressed => nothing but the bare ACK on the wire, not suppressed => exactly one response with the handler's code and the request token.",
     "note": "Trusted: TLC, Json/IOUtils modules, the Go recorder, the library's own datagram/stream decoder used to READ emitted messages (judged separately by C01/C02). Wire level uses in-memory transports, not sockets.",
     "technique": "TLA+ reference predicate + TLC record validation (complete table + end-to-end exchanges)"},
]

_PENDING = "check not built yet in this round (pipeline exists, property not claimed until its check is registered)"
NOT_APPLICABLE = [{"property_id": "C%02d" % i, "reason": _PENDING} for i in range(1, 21) if "C%02d" % i not in [c["id"] for c in CHECKS]]
