"""Single source for MANIFEST.json (bin/mkmanifest)."""
HOOK_COMMITS = ["0ed9dd5"]

CHECKS = [
    {"id": "C19",
     "text": "RFC 7959 section 2.2 written as TLA+ operators (specs/wire/BlockOpt.tla); TLC proves the spec-level inverse theorems over the whole 24-bit domain, and judges records of the REAL EncodeBlockOption/DecodeBlockOption/SZX.Size: explicit boundary/stratified/seeded records one by one and position-weighted digests of every 4096-value chunk of the complete domain (all 2^24 decoder values, all 8*2^20*2 encoder triples; thorough also all 2^32 decoder inputs). The domain is finite, so complete enumeration is the right level.",
     "note": "Trusted: TLC, the Json/IOUtils community modules, the Go recorder (no oracle inside), digest collision resistance (two primes). Quick judges a seeded subset of chunk digests; thorough judges all.",
     "technique": "TLA+ reference operators + TLC record validation over the complete domain (digests)"},
    {"id": "C20",
     "text": "RFC 7967 section 2.1 written as a TLA+ predicate (specs/wire/NoResponse.tla, sanity theorems checked by TLC over 256x256); TLC judges records of the REAL IsNoResponseCode over the complete 256x256 table (plus larger values), of ResponseWriter.SetResponse with and without the option, and of complete request/response exchanges on real udp/client.Conn (in-memory session, CON and NON) and tcp/client.Conn (scripted stream): suppressed => nothing but the bare ACK on the wire, not suppressed => exactly one response with the handler's code and the request token.",
     "note": "Trusted: TLC, Json/IOUtils modules, the Go recorder, the library's own datagram/stream decoder used to READ emitted messages (judged separately by C01/C02). Wire level uses in-memory transports, not sockets.",
     "technique": "TLA+ reference predicate + TLC record validation (complete table + end-to-end exchanges)"},
]

_PENDING = "check not built yet in this round (pipeline exists, property not claimed until its check is registered)"
NOT_APPLICABLE = [{"property_id": "C%02d" % i, "reason": _PENDING} for i in range(1, 21) if "C%02d" % i not in [c["id"] for c in CHECKS]]
