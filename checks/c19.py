"""C19 - Block option value codec is the RFC 7959 mapping on its whole domain.
Spec: specs/wire/BlockOpt.tla (RFC operators), MC_BlockOpt (spec-level inverse theorems, TLC),
RecC19 (records + complete-domain digests produced by the real codec, judged by TLC)."""
import json
import os

import vf


def key(r):
    if r["op"] == "dec":
        return "dec(0x%x)" % (r["hi"] * 65536 + r["lo"])
    if r["op"] == "enc":
        return "enc(szx=%d,num=%s,more=%s)" % (r["s"], r["n"] if r["nclass"] == "int" else r["nclass"], r["m"])
    if r["op"] in ("decdig", "encdig"):
        return "%s(lo=%d,s=%d,m=%s)" % (r["op"], r["lo"], r["s"], r["m"])
    return json.dumps(r, sort_keys=True)


def run(ctx):
    thorough = ctx.tier == "thorough"
    vf.build_driver(ctx)
    # (a) design: RFC mapping is a bijection between 24-bit values and legal triples
    r = vf.run_tlc(ctx, "wire", "MC_BlockOpt", "MC_BlockOpt_full.cfg" if thorough else "MC_BlockOpt.cfg", timeout=1500)
    vf.tlc_must_finish(r, "MC_BlockOpt")
    if r.inv:
        raise vf.Machinery("specification theorem failed (spec bug, not a code verdict): %s" % r.inv)
    ctx.add("states", r.distinct)
    ctx.add("transitions", r.generated)
    # (b) real code -> records
    out = os.path.join(ctx.work, "c19.ndjson")
    vf.drv(ctx, ["c19", out], timeout=1500)
    recs = vf.read_ndjson(out)
    bad, gen, dist = vf.judge_records(ctx, "wire", "RecC19", "RecC19.cfg", recs, shards=8 if thorough else 4, timeout=1500)
    ctx.add("states", dist)
    ctx.add("transitions", gen)
    ctx.add("traces_validated_against_impl", len(recs))
    # refine digest mismatches into explicit values
    byclause = {}
    for clause in ("C19_DecDigest", "C19_EncDigest"):
        for k in bad.pop(clause, [])[:12]:
            c = recs[k]
            out2 = os.path.join(ctx.work, "c19x-%d.ndjson" % k)
            vf.drv(ctx, ["c19x", out2, c["op"], str(c["lo"]), str(c["n"]), str(c["s"]), "1" if c["m"] else "0"])
            sub = vf.read_ndjson(out2)
            b2, g2, d2 = vf.judge_records(ctx, "wire", "RecC19", "RecC19.cfg", sub, shards=1)
            ctx.add("traces_validated_against_impl", len(sub))
            if not b2:
                raise vf.Machinery("digest mismatch for %s could not be refined to a concrete value" % key(c))
            for cl, idxs in b2.items():
                byclause.setdefault(cl, []).extend([sub[i] for i in idxs])
    for clause, idxs in bad.items():
        byclause.setdefault(clause, []).extend([recs[i] for i in idxs])
    # verdicts
    for clause, rs in sorted(byclause.items()):
        keys = sorted(set(key(x) for x in rs))
        vf.report(ctx, clause, {"records": keys[:40], "count": len(keys)},
                  "%d record(s) of the real codec differ from RFC 7959, e.g. %s" % (len(keys), keys[:3]),
                  {"records": rs[:200], "cmd": "bin/check C19 --tier %s" % ctx.tier})

    def mutate(rec, rng):
        if rec["op"] == "dec" and rec["hi"] < 256 and not rec["err"]:
            f = rng.choice(["szx", "num", "more"])
            rec[f] = (not rec[f]) if f == "more" else rec[f] + 1
            return rec
        if rec["op"] == "decdig":
            rec["d1"] = (rec["d1"] + 1) % 32749
            return rec
        return None
    vf.negative_control(ctx, "wire", "RecC19", "RecC19.cfg", recs, mutate)
    ops = {}
    for x in recs:
        ops[x["op"]] = ops.get(x["op"], 0) + 1
    for x in recs[:2] + [x for x in recs if x["op"] == "enc"][:2] + [x for x in recs if x["op"] == "decdig"][:1]:
        ctx.sample(x)
    full = thorough
    ctx.assumptions += ["TLC 32-bit integers: decoder inputs are recorded as hi/lo 16-bit halves",
                        "digest collisions (two primes 32749/32719, position-weighted) could hide a wrong value inside a chunk"]
    return vf.finish(ctx, extra_cov={
        "records_by_op": ops,
        "exhaustive": bool(full),
        "domain_note": "the driver evaluates the real decoder on all 2^24 values and the real encoder on all 8*2^20*2 triples; "
                       + ("every 4096-value chunk digest and all 255 above-domain 2^24 blocks were judged by TLC" if full else
                          "a seeded stratified subset of chunk digests (plus first/last chunks) was judged by TLC in this tier"),
    })
