"""C05 - datagram duplicates never re-execute a handler (MID de-duplication).
Spec: specs/udp/Dedup.tla (handleReq one action per critical section: per-MID lock, cache check, handler,
processResponse incl. the key under which the reply is stored, own-MID counter and its steering). TLC explores
every interleaving of 2 processing goroutines over 4 requests (CON/NON, two of them carrying message IDs the
connection itself uses next) with expiries, checks NoForeignReply and Once on the design, and generates random
walks of inject/done/expire events. The driver replays them on a real udp/client.Conn (in-memory session;
Conn.Process plus concurrent Conn.ProcessReceivedMessage; parked handlers; sweeps at deadline -/+ 50 ms) and
records the ordered log of handler runs and emitted datagrams; TLC (RecC05) judges the log."""
import json
import os

import vf

REQS = [{"mid": 1, "typ": "CON"}, {"mid": 2, "typ": "NON"}, {"mid": 10, "typ": "CON"}, {"mid": 11, "typ": "NON"}]
# the same requests with other methods: every second history uses POST / PUT / FETCH / iPATCH (RFC 8132 methods are handed to
# the handler like any request, and their duplicates are duplicates)
REQS2 = [dict(r, code=c) for r, c in zip(REQS, (5, 7, 2, 6))]


def run(ctx):
    thorough = ctx.tier == "thorough"
    vf.build_driver(ctx)
    r = vf.run_tlc(ctx, "udp", "MC_Dedup", "MC_Dedup.cfg", timeout=2400, cont=False)
    vf.tlc_must_finish(r, "MC_Dedup")
    if r.inv:
        raise vf.Machinery("design-level invariant failed (spec bug, not a code verdict): %s" % r.inv)
    ctx.add("states", r.distinct)
    ctx.add("transitions", r.generated)
    stim = []
    for k in range(4 if thorough else 1):
        g = vf.run_tlc(ctx, "udp", "MC_Dedup", "MC_Dedup_gen.cfg", workers=1, seed=ctx.seed * 19 + k, timeout=900, cont=False)
        vf.tlc_must_finish(g, "MC_Dedup gen")
        for line in g.out.splitlines():
            if line.startswith('<<"HIST", '):
                steps = json.loads(json.loads(line[len('<<"HIST", '):-2]))
                stim.append({"t": len(stim) + 1, "reqs": REQS, "steps": steps, "hijack": len(stim) % 2 == 1})
    # directed scenarios that the random walks may miss: every request duplicated sequentially with each behaviour
    for q in range(1, 5):
        for b in ("piggy", "none"):
            steps = [{"a": "inject", "g": 1, "q": q, "b": "none"}, {"a": "done", "g": 1, "q": 0, "b": b},
                     {"a": "inject", "g": 1, "q": q, "b": "none"}, {"a": "done", "g": 1, "q": 0, "b": "piggy"},
                     {"a": "inject", "g": 2, "q": q, "b": "none"}, {"a": "done", "g": 2, "q": 0, "b": "piggy"},
                     {"a": "expire", "g": 0, "q": 0, "b": "none"},
                     {"a": "inject", "g": 1, "q": q, "b": "none"}, {"a": "done", "g": 1, "q": 0, "b": b}]
            stim.append({"t": len(stim) + 1, "reqs": REQS, "steps": steps, "hijack": len(stim) % 2 == 1})
            # the lifetime elapses but no sweep has run when the message ID is used again, then duplicated - before and after a sweep
            steps = [{"a": "inject", "g": 1, "q": q, "b": "none"}, {"a": "done", "g": 1, "q": 0, "b": b},
                     {"a": "lapse", "g": 0, "q": 0, "b": "none"},
                     {"a": "inject", "g": 1, "q": q, "b": "none"}, {"a": "done", "g": 1, "q": 0, "b": "piggy"},
                     {"a": "inject", "g": 2, "q": q, "b": "none"}, {"a": "done", "g": 2, "q": 0, "b": "piggy"},
                     {"a": "expire", "g": 0, "q": 0, "b": "none"},
                     {"a": "inject", "g": 1, "q": q, "b": "none"}, {"a": "done", "g": 1, "q": 0, "b": b},
                     {"a": "inject", "g": 2, "q": q, "b": "none"}, {"a": "done", "g": 2, "q": 0, "b": "piggy"}]
            stim.append({"t": len(stim) + 1, "reqs": REQS, "steps": steps, "hijack": len(stim) % 2 == 1})
            # the lifetime counts from the exchange, not from its latest duplicate: 200 s pass, a duplicate is answered, 100 s
            # more pass (no sweep) - the message ID is fresh again; then the same with a sweep in place of the second wait
            steps = [{"a": "inject", "g": 1, "q": q, "b": "none"}, {"a": "done", "g": 1, "q": 0, "b": b},
                     {"a": "age", "g": 0, "q": 200, "b": "none"},
                     {"a": "inject", "g": 2, "q": q, "b": "none"}, {"a": "done", "g": 2, "q": 0, "b": "piggy"},
                     {"a": "lapse", "g": 0, "q": 100, "b": "none"},
                     {"a": "inject", "g": 1, "q": q, "b": "none"}, {"a": "done", "g": 1, "q": 0, "b": "piggy"},
                     {"a": "inject", "g": 2, "q": q, "b": "none"}, {"a": "done", "g": 2, "q": 0, "b": "piggy"}]
            stim.append({"t": len(stim) + 1, "reqs": REQS, "steps": steps, "hijack": len(stim) % 2 == 1})
    if not stim:
        raise vf.Machinery("no behaviours generated")
    for k, s_ in enumerate(stim):
        if k % 2 == 1:
            s_["reqs"] = REQS2
    for k, s_ in enumerate(stim):
        s_["big"] = k % 3 == 2        # every third history: the reply is the first block of a block-wise response
    ctx.cov["histories_with_blockwise_replies"] = sum(1 for s_ in stim if s_["big"])
    ctx.cov["histories_with_other_methods"] = sum(1 for s_ in stim if s_["reqs"] is REQS2)
    spath = os.path.join(ctx.work, "stimuli.ndjson")
    vf.write_ndjson(spath, stim)
    out = os.path.join(ctx.work, "traces.ndjson")
    vf.drv(ctx, ["c05", spath, out], timeout=1800)
    traces = vf.read_ndjson(out)
    bad, gen, dist = vf.judge_records(ctx, "udp", "RecC05", "RecC05.cfg", traces, shards=4, timeout=1800)
    ctx.add("states", dist)
    ctx.add("transitions", gen)
    ctx.add("traces_validated_against_impl", len(traces))
    ctx.cov["behaviours_generated"] = len(stim)
    ctx.cov["log_events_validated"] = sum(len(t["log"]) for t in traces)
    ctx.cov["handler_runs"] = sum(1 for t in traces for e in t["log"] if e["e"] == "run")
    ctx.cov["replies_from_cache"] = sum(1 for t in traces for e in t["log"] if e["e"] == "reply" and not e["ran"])
    ctx.cov["lifetime_elapsed_without_sweep"] = sum(1 for t in traces for e in t["log"] if e["e"] == "lapse")
    ctx.cov["expiries"] = sum(1 for t in traces for e in t["log"] if e["e"] == "expire")
    for clause, idxs in sorted(bad.items()):
        ts = [traces[i] for i in idxs]
        t0 = min(ts, key=lambda t: len(t["ev"]))
        if clause.startswith("K05"):
            ctx.drift.append({"clause": clause, "traces": len(ts), "first_log": [[e["e"], e["q"], e["copy"], e.get("kind"), e["mid"]] for e in t0["log"]][:16]})
            continue
        acts = [[e["act"]["a"], e["act"]["g"], e["act"]["q"], e["act"]["b"]] for e in t0["ev"] if e["applied"]]
        types = sorted(set(REQS[a[2] - 1]["typ"] for a in acts if a[0] == "inject"))
        vf.report(ctx, clause, {"request_types": types, "uses_own_mid": any(a[0] == "inject" and a[2] >= 3 for a in acts)},
                  "%d recorded history(ies) violate the clause; shortest: %s -> log %s" % (
                      len(ts), json.dumps(acts), json.dumps([[e["e"], e["q"], e["copy"], e.get("kind"), e["mid"]] for e in t0["log"]])[:400]),
                  {"trace": t0, "cmd": "bin/check C05 --tier %s" % ctx.tier})

    def mutate(t, rng):
        lg = [dict(e) for e in t["log"]]
        for e in lg:
            if e["e"] == "reply" and e["kind"] == "resp" and e["q"] != 0:
                e["pay"] = list(e["pay"][:6]) + [48 + (e["q"] % 4) + 1] + list(e["pay"][7:])
                t["log"] = lg
                return t
        return None
    vf.negative_control(ctx, "udp", "RecC05", "RecC05.cfg", traces, mutate)
    t0 = traces[0]
    ctx.sample({"events": [[e["act"]["a"], e["act"]["g"], e["act"]["q"], e["act"]["b"], e["applied"]] for e in t0["ev"]],
                "log": [[e["e"], e["q"], e["copy"], e["kind"], e["mid"], e["ran"]] for e in t0["log"]]})
    ctx.assumptions += ["time is virtual only through the housekeeping sweep (CheckExpirations(deadline -/+ 50 ms)); the cache's own Load uses the real clock, entries are milliseconds old",
                        "concurrent copies enter through the exported Conn.ProcessReceivedMessage (no own-MID steering there, as in the model)",
                        "quiescence = log and parked-handler set unchanged for 3 ms; attribution of a datagram to a copy is by the goroutine that wrote it"]
    return vf.finish(ctx, extra_cov={"exhaustive": False})
