"""C17 - router dispatches to a longest matching route, else the default.
Spec: specs/mux/Router.tla (token patterns, whole-string matcher, admissible outcomes); RouterCat is the
16-pattern catalogue + request path set. TLC (MC_Router) checks matcher theorems and GENERATES the catalogue
(template strings) and path set; the Go driver registers every route subset (<= 2, thorough <= 3) on the real
mux.Router and dispatches every path, and (race-detector build) runs Handle/HandleRemove/DefaultHandle/ServeCOAP
concurrently recording call/return stamped histories; TLC (RecC17) judges all records."""
import os
import shutil

import vf


def key(r):
    if r["op"] == "dispatch":
        return "routes=%s path=/%s called=%s" % (r["routes"], "/".join("".join(chr(c) for c in s) for s in r["segs"]), r["called"])
    return "concurrent history t=%d" % r["t"]


def mutate(rec, rng):
    if rec["op"] == "dispatch" and len(rec["called"]) == 1 and rec["called"][0] != 0 and len(rec["routes"]) >= 1:
        rec["called"] = [0]
        return rec
    return None


def run(ctx):
    vf.build_driver(ctx)
    vf.build_driver(ctx, race=True)
    r = vf.run_tlc(ctx, "mux", "MC_Router", "MC_Router.cfg", timeout=900)
    vf.tlc_must_finish(r, "MC_Router")
    if r.inv:
        raise vf.Machinery("matcher theorem failed (spec bug): %s" % r.inv)
    ctx.add("states", r.distinct)
    ctx.add("transitions", r.generated)
    gen = ctx.subdir("gen")
    for f in ("catalogue.json", "paths.json"):
        if not os.path.exists(os.path.join(r.dir, f)):
            raise vf.Machinery("generator output %s missing" % f)
        shutil.copy(os.path.join(r.dir, f), gen)
    out1 = os.path.join(ctx.work, "dispatch.ndjson")
    out2 = os.path.join(ctx.work, "conc.ndjson")
    vf.drv(ctx, ["c17", out1, gen], timeout=1800)
    rc, so, se = vf.drv(ctx, ["c17conc", out2, gen], timeout=1800, race=True, ok_codes=(0, 66))
    recs = vf.read_ndjson(out1)
    conc = vf.read_ndjson(out2) if os.path.exists(out2) else []
    if rc == 66 or "DATA RACE" in se:
        vf.report(ctx, "C17_RaceFree", {"detector": "go -race", "first": se[se.find("DATA RACE"):][:300].split("\n")[2:6]},
                  "the Go race detector reported a data race during concurrent Handle/HandleRemove/DefaultHandle/ServeCOAP",
                  {"stderr": se[:6000], "cmd": "bin/check C17"})
    allrecs = recs + conc
    bad, g, d = vf.judge_records(ctx, "mux", "RecC17", "RecC17.cfg", allrecs, shards=8, timeout=2400)
    ctx.add("states", d)
    ctx.add("transitions", g)
    ctx.add("traces_validated_against_impl", len(allrecs))
    for clause, idxs in sorted(bad.items()):
        rs = [allrecs[i] for i in idxs]
        keys = sorted(set(key(x) for x in rs))
        vf.report(ctx, clause, {"records": keys[:30], "count": len(keys)},
                  "%d dispatch record(s) differ from the Router model, e.g. %s" % (len(keys), keys[:3]),
                  {"records": rs[:50], "cmd": "bin/check C17 --tier %s" % ctx.tier})
    vf.negative_control(ctx, "mux", "RecC17", "RecC17.cfg", recs, mutate)
    ctx.cov["dispatch_records"] = len(recs)
    ctx.cov["concurrent_histories"] = len(conc)
    ctx.cov["concurrent_events"] = sum(len(c["ev"]) for c in conc)
    ctx.sample(recs[len(recs) // 2])
    ctx.sample(recs[-1])
    if conc:
        ctx.sample({"op": "conc", "t": conc[0]["t"], "ev": conc[0]["ev"][:6]})
    ctx.assumptions += ["data-race freedom is the Go race detector's observation during the concurrent runs, not a TLA+ result",
                        "route variables are compared only for patterns whose split of the path is unique",
                        "paths over the alphabet {a,b,1,.,+} with <= 2 (some 3) segments of <= 2 characters"]
    return vf.finish(ctx, extra_cov={"exhaustive": False})
