"""C14 - concurrent map and expiring cache are linearizable.
Spec: specs/sync/SeqMap.tla (sequential specification + linearizability search), SyncMap.tla (every method as
its critical sections, scheduling points = the verif hooks), MC_SyncMap.tla (program catalogue). For each
program TLC explores every interleaving at critical-section granularity, checks that all complete histories of
the MODEL are linearizable, and emits the schedule of every maximal behaviour. The Go driver replays each
schedule on the real Map/Cache under a cooperative scheduler (one thread at a time, hook to hook) and records
call/return stamped histories; free-running many-goroutine stress histories are added. TLC (RecC14) decides
linearizability of every recorded history."""
import json
import os
import re

import vf

NPROG = 16


def run(ctx):
    thorough = ctx.tier == "thorough"
    vf.build_driver(ctx)
    jobs = []
    nsched = 0
    for pi in range(1, NPROG + 1):
        cfg = os.path.join(ctx.subdir("cfg"), "MC_SyncMap_%d.cfg" % pi)
        with open(os.path.join(vf.SPECS, "sync", "MC_SyncMap.cfg")) as f:
            txt = f.read().replace("PI = 1", "PI = %d" % pi)
        with open(cfg, "w") as f:
            f.write(txt)
        r = vf.run_tlc(ctx, "sync", "MC_SyncMap", os.path.basename(cfg), workers=1, files=[cfg], timeout=900, cont=False)
        vf.tlc_must_finish(r, "MC_SyncMap PI=%d" % pi)
        if r.inv:
            raise vf.Machinery("the MODEL of program %d is not linearizable (spec/design bug, not a code verdict): %s" % (pi, r.inv))
        ctx.add("states", r.distinct)
        ctx.add("transitions", r.generated)
        scheds = [json.loads(m.group(1).replace("<<", "[").replace(">>", "]"))
                  for m in re.finditer(r'<<"SCHED", (<<[0-9, ]*>>)>>', r.out)]
        if not scheds:
            raise vf.Machinery("no schedules generated for program %d" % pi)
        with open(os.path.join(r.dir, "program.json")) as f:
            prog = json.load(f)
        cap = 30000 if thorough else 1200
        if len(scheds) > cap:      # seeded sample of the interleavings of the largest programs
            import random
            rnd = random.Random(ctx.seed * 131 + pi)
            scheds = rnd.sample(scheds, cap)
            ctx.notes.append("program %d: %d of its schedules replayed (seeded sample)" % (pi, cap))
        reps = 3 if thorough else 1      # the sweep's iteration order is Go's random map order: repeat
        jobs.append({"pi": pi, "program": prog, "scheds": scheds * reps})
        nsched += len(scheds)
    jpath = os.path.join(ctx.work, "jobs.ndjson")
    vf.write_ndjson(jpath, jobs)
    out = os.path.join(ctx.work, "hist.ndjson")
    vf.drv(ctx, ["c14", jpath, out], timeout=1800)
    recs = vf.read_ndjson(out)
    # free-running stress bursts (real concurrency, no scheduler)
    out2 = os.path.join(ctx.work, "stress.ndjson")
    nb = 20000 if thorough else 2000
    vf.drv(ctx, ["c14stress", out2, str(nb)], timeout=1800)
    stress = vf.read_ndjson(out2)
    ctx.cov["stress_bursts"] = len(stress)
    # many bursts give the same history up to the absolute values of the call/return stamps: judge one of each
    seen = {}
    for t in stress:
        stamps = sorted(set([o["call"] for o in t["ops"]] + [o["ret"] for o in t["ops"]]))
        rank = {v: k for k, v in enumerate(stamps)}
        key = json.dumps([t["init"], t["ek"], sorted([o["t"], o["i"], o["op"], o["res"], rank[o["call"]], rank[o["ret"]]] for o in t["ops"]), t.get("panic"), t.get("stuck")], sort_keys=True)
        seen.setdefault(key, t)
    stress = list(seen.values())
    ctx.cov["stress_histories_distinct"] = len(stress)
    recs = recs + stress
    bad, g, d = vf.judge_records(ctx, "sync", "RecC14", "RecC14.cfg", recs, shards=4, timeout=1800)
    ctx.add("states", d)
    ctx.add("transitions", g)
    ctx.add("traces_validated_against_impl", len(recs))
    ctx.cov["programs"] = NPROG
    ctx.cov["schedules_generated"] = nsched
    ctx.cov["schedules_replayed"] = len(recs) - len(stress)
    exact = sum(1 for x in recs if x["pi"] > 0 and x["realized"] == x["sched"])
    ctx.cov["schedules_realized_exactly"] = exact
    for clause, idxs in sorted(bad.items()):
        byprog = {}
        for i in idxs:
            byprog.setdefault(recs[i]["pi"], []).append(recs[i])
        for pi, rs in sorted(byprog.items()):
            r0 = min(rs, key=lambda x: len(x["sched"]))
            methods = sorted(set(o["op"]["m"] for o in r0["ops"]))
            vf.report(ctx, clause, {"program": pi, "methods": methods},
                      "%d replayed schedule(s) of program %d gave a history that is not explained by the sequential map; e.g. schedule %s -> %s"
                      % (len(rs), pi, r0["realized"], json.dumps([[o["t"], o["op"]["m"], o["op"]["k"], o["op"]["v"], o["res"]] for o in r0["ops"]])),
                      {"trace": r0, "cmd": "bin/check C14 --tier %s" % ctx.tier})

    # "callbacks run against the value actually in the map": no operation on a key returns while the callback of a ...WithFunc
    # operation is running on it (an operation and its callback are one step of SeqMap)
    eout = os.path.join(ctx.work, "excl.ndjson")
    vf.drv(ctx, ["c14excl", eout], timeout=600)
    ex = vf.read_ndjson(eout)
    ebad, g_, d_ = vf.judge_records(ctx, "sync", "RecC14excl", "RecC14excl.cfg", ex, shards=1, timeout=300)
    ctx.add("states", d_)
    ctx.add("transitions", g_)
    ctx.add("traces_validated_against_impl", len(ex))
    ctx.cov["callback_exclusion_pairs"] = len(ex)
    for clause, idxs in sorted(ebad.items()):
        pairs = sorted(set((ex[i]["f"], ex[i]["w"]) for i in idxs))
        if clause == "C14_LiveStaysLive":
            vf.report(ctx, clause, {"f": "cache-flip"},
                      "while the owner of a live cache element moved its ValidUntil between 'an hour ahead' and 'never expires', concurrent %s lost / replaced / swept the element %s times" % (
                          [p[1] for p in pairs], [ex[i]["lost"] for i in idxs]),
                      {"records": [ex[i] for i in idxs][:10], "cmd": "bin/check C14 --tier %s" % ctx.tier})
            continue
        if pairs[0][1] == "store-after":
            vf.report(ctx, clause, {"f": pairs[0][0]},
                      "%d case(s): what %s returned is not a result but a window into the map - a store made after it had returned shows up in it (cases: %s)" % (len(pairs), pairs[0][0], pairs[:6]),
                      {"records": [ex[i] for i in idxs][:10], "cmd": "bin/check C14 --tier %s" % ctx.tier})
            continue
        vf.report(ctx, clause, {"f": pairs[0][0]},
                  "%d pair(s): while the callback of %s was running on a key, a concurrent %s of that key returned (pairs: %s)" % (len(pairs), pairs[0][0], pairs[0][1], pairs[:8]),
                  {"records": [ex[i] for i in idxs][:10], "cmd": "bin/check C14 --tier %s" % ctx.tier})

    def mutate(t, rng):
        ops = [dict(o) for o in t["ops"]]
        for o in ops:
            if o["op"]["m"] in ("los", "clos") and o["res"][1] is False:
                o["res"] = [o["res"][0], True]
                o["res"][0] = o["res"][0] + 1000
                t["ops"] = ops
                return t
        return None
    vf.negative_control(ctx, "sync", "RecC14", "RecC14.cfg", recs, mutate)
    ctx.sample({"pi": recs[0]["pi"], "sched": recs[0]["realized"], "ops": recs[0]["ops"]})
    ctx.sample({"pi": recs[-1]["pi"], "sched": recs[-1]["realized"], "ops": recs[-1]["ops"]})
    ctx.assumptions += ["interleavings are explored at critical-section granularity (a parked goroutine holds no lock); finer races inside a critical section are the mutex's job",
                        "the iteration order of a sweep is Go's random map order: the replay follows the schedule's thread choices, not the model's pick order",
                        "13 programs of 2-3 threads x 1-2 operations on 1-2 keys"]
    return vf.finish(ctx, extra_cov={"exhaustive": not ctx.notes})
