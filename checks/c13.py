"""C13 - no per-exchange state outlives the exchange.
Spec: specs/leak/Leak.tla (what may remain after an exchange of each kind and outcome: live observations, cached
replies within the lifetime, reassembly / send buffers of transfers the peer abandoned until the transfer
timeout - everything else must be gone). TLC enumerates all histories of <= 3 exchanges/ticks over 25 kinds
(plain, block-wise up/down, observe, ping, one-way, requests of the peer; success, silence, cancel, reset,
refusal, duplicate token, abandoned) and generates longer random histories; the driver runs them on a real
udp/client.Conn (block-wise and the parallel-request limiter enabled, the driver is the peer, sweeps at chosen
horizons) and records the size of every per-exchange table after each step; TLC (RecC13) judges every step."""
import json
import os

import vf


def run(ctx):
    thorough = ctx.tier == "thorough"
    vf.build_driver(ctx)
    cdir = ctx.subdir("cfg")
    stim = []
    # every history of <= 2 (thorough 3) steps: exhaustive, from TLC's state graph (each step recorded)
    p = os.path.join(cdir, "MC_Leak_x.cfg")
    depth = 3 if thorough else 2
    with open(p, "w") as f:
        f.write("INIT Init\nNEXT Next\nCONSTANTS\n  MaxObs = 2\n  Walks = 0\n  MaxEvents = %d\nINVARIANTS Inv_Bounded EmitAll\n" % depth)
    r = vf.run_tlc(ctx, "leak", "MC_Leak", os.path.basename(p), files=[p], workers=1, timeout=1800, cont=False)
    vf.tlc_must_finish(r, "MC_Leak")
    if r.inv:
        raise vf.Machinery("design-level invariant failed (spec bug): %s" % r.inv)
    ctx.add("states", r.distinct)
    ctx.add("transitions", r.generated)
    hs = set()
    for line in r.out.splitlines():
        if line.startswith('<<"HIST", '):
            hs.add(json.loads(line[len('<<"HIST", '):-2]))
    hl = [json.loads(h) for h in sorted(hs)]
    keys = set(json.dumps(h) for h in hl)
    pref = set()
    for h in hl:
        for k in range(1, len(h)):
            pref.add(json.dumps(h[:k]))
    stim += [h for h in hl if json.dumps(h) not in pref]
    nex = len(stim)
    for k in range(4 if thorough else 1):
        p2 = os.path.join(cdir, "MC_Leak_gen.cfg")
        with open(p2, "w") as f:
            f.write("INIT Init\nNEXT Next\nCONSTANTS\n  MaxObs = 2\n  Walks = %d\n  MaxEvents = %d\nINVARIANTS Emit\n" % (250 if thorough else 80, 40 if thorough else 16))
        g = vf.run_tlc(ctx, "leak", "MC_Leak", os.path.basename(p2), files=[p2], workers=1, seed=ctx.seed * 41 + k, timeout=900, cont=False)
        vf.tlc_must_finish(g, "MC_Leak gen")
        for line in g.out.splitlines():
            if line.startswith('<<"HIST", '):
                stim.append(json.loads(json.loads(line[len('<<"HIST", '):-2])))
    spath = os.path.join(ctx.work, "stimuli.ndjson")
    vf.write_ndjson(spath, [{"kinds": h} for h in stim])
    out = os.path.join(ctx.work, "traces.ndjson")
    vf.drv(ctx, ["c13", spath, out], timeout=2400)
    traces = vf.read_ndjson(out)
    bad, gen, dist = vf.judge_records(ctx, "leak", "RecC13", "RecC13.cfg", traces, shards=8, timeout=1800)
    ctx.add("states", dist)
    ctx.add("transitions", gen)
    ctx.add("traces_validated_against_impl", len(traces))
    ctx.cov["histories_exhaustive"] = nex
    ctx.cov["histories_random"] = len(stim) - nex
    ctx.cov["exchanges_run"] = sum(len(t["ev"]) for t in traces)
    kinds = {}
    for t in traces:
        for e in t["ev"]:
            kinds[e["kind"]] = kinds.get(e["kind"], 0) + 1
    ctx.cov["exchanges_by_kind"] = kinds
    for clause, idxs in sorted(bad.items()):
        ts = [traces[i] for i in idxs]
        t0 = min(ts, key=lambda t: len(t["ev"]))
        if clause == "K13_Conforms":
            ctx.drift.append({"clause": clause, "traces": len(ts), "first": [[e["kind"], e["t"]["bwRecv"], e["t"]["bwSend"], e["t"]["rcache"]] for e in t0["ev"]][:12]})
            continue
        # signature: the kinds after which the offending table was non-empty, in the shortest history
        vf.report(ctx, clause, {"kinds": sorted(set(e["kind"] for e in t0["ev"]))[:8]},
                  "%d history(ies) leave state behind; shortest: %s" % (len(ts), json.dumps([[e["kind"], e["outcome"], {k: v for k, v in e["t"].items() if v}] for e in t0["ev"]])),
                  {"trace": t0, "cmd": "bin/check C13 --tier %s" % ctx.tier})

    # observations whose notifications need block-wise transfer (specs/bw/ObsBlock.tla, shared with C04 / C08): a completed
    # notification leaves nothing behind at once (the GET under a private token that fetched the rest, its reassembly entry),
    # and nothing is left after cancel + transfer timeout (driver and judge are C04's: obsbw.go, RecC04)
    ro = vf.run_tlc(ctx, "bw", "MC_ObsBlock", "MC_ObsBlock.cfg", workers=8, timeout=1800, cont=False)
    vf.tlc_must_finish(ro, "MC_ObsBlock")
    plans = json.load(open(os.path.join(ro.dir, "plans.json")))
    ojobs = [{"mode": "obsbw", "p": {"l": 0, "l2": 50, "cs": 0, "ss": 0, "cmms": 2048, "smms": 2048}, "plan": pl} for pl in plans]
    ojp = os.path.join(ctx.work, "obsjobs.ndjson")
    vf.write_ndjson(ojp, ojobs)
    oout = os.path.join(ctx.work, "obsrecs.ndjson")
    vf.drv(ctx, ["c04", ojp, oout], timeout=1800)
    orecs = vf.read_ndjson(oout)
    obad, g3, d3 = vf.judge_records(ctx, "bw", "RecC04", "RecC04_obs13.cfg", orecs, shards=2, timeout=900)
    ctx.add("states", d3 + ro.distinct)
    ctx.add("transitions", g3 + ro.generated)
    ctx.add("traces_validated_against_impl", len(orecs))
    ctx.cov["blockwise_observation_plans"] = len(orecs)
    for clause, idxs in sorted(obad.items()):
        xs = [orecs[i] for i in idxs]
        t0 = min(xs, key=lambda t: len(t["plan"]))
        vf.report(ctx, "C13_ObsBlockwise", {"mode": "observe-blockwise", "clause": clause},
                  "%d observation(s) with block-wise notifications leave block-wise state behind; e.g. plan %s -> right after the last notification: client reassembly %d, client send cache %d, server reassembly %d; after cancel + timeout: %s" % (
                      len(xs), t0["plan"], t0["rcvCliNow"], t0["sndCliNow"], t0["rcvSrvNow"], [t0[k] for k in ("rcvSrvX", "sndSrvX", "rcvCliX", "sndCliX", "obsCliX")]),
                  {"trace": t0, "cmd": "bin/check C13 --tier %s" % ctx.tier})

    def mutate(t, rng):
        ev = [dict(e) for e in t["ev"]]
        ev[-1] = dict(ev[-1], t=dict(ev[-1]["t"], tokens=1))
        t["ev"] = ev
        return t
    vf.negative_control(ctx, "leak", "RecC13", "RecC13.cfg", traces, mutate)
    t0 = max(traces, key=lambda t: len(t["ev"]))
    ctx.sample({"history": [[e["kind"], e["outcome"], {k: v for k, v in e["t"].items() if v}] for e in t0["ev"]]})
    ctx.assumptions += ["one exchange at a time, each run to its end before the tables are read (concurrent exchanges: C03, C16); udp connection with block-wise transfer and the limiter enabled",
                        "deadlines are probed through the housekeeping sweep called with now + 1 s / + 4 s / + 248 s"]
    return vf.finish(ctx, extra_cov={"exhaustive": False})
