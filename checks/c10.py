"""C10 - servers stay up and peers stay isolated under arbitrary input.
Spec: specs/srv/Server.tla (one logical connection per peer address, requests served in arrival order; the
adversary's events have no effect a well-behaved peer can observe). TLC enumerates all interleavings of two
well-behaved peers and two adversaries (8 classes of hostile input) up to 5 events and generates longer random
interleavings; the driver executes them against REAL udp, tcp, dtls (PSK) and tls servers on loopback sockets -
every peer is a socket of its own; well-behaved peers are raw sockets (udp, tcp) or library clients (dtls, tls);
adversaries send arbitrary bytes, truncated and oversize messages, responses with unknown tokens, unsolicited
ACK/RST (Pong/Abort on streams), connect-and-stall, connect-and-close - and records what the well-behaved peers
received plus the server's OnNewConn callbacks; a second part runs two concurrent unicast discoveries with three
responders answering own, foreign and unknown tokens. TLC (RecC10) judges. A crash of the driver process with a
library stack trace is reported as a violation."""
import json
import os

import vf


def run(ctx):
    thorough = ctx.tier == "thorough"
    vf.build_driver(ctx)
    r = vf.run_tlc(ctx, "srv", "MC_Server", "MC_Server.cfg", timeout=1200, cont=False)
    vf.tlc_must_finish(r, "MC_Server")
    if r.inv:
        raise vf.Machinery("design-level invariant failed (spec bug): %s" % r.inv)
    ctx.add("states", r.distinct)
    ctx.add("transitions", r.generated)
    cdir = ctx.subdir("cfg")
    p2 = os.path.join(cdir, "MC_Server_gen.cfg")
    with open(p2, "w") as f:
        f.write("INIT Init\nNEXT Next\nCONSTANTS\n  Good = {1, 2}\n  Bad = {3, 4}\n  MaxReq = 8\n  Walks = %d\n  MaxEvents = %d\nINVARIANTS Emit\n" % (120 if thorough else 24, 24 if thorough else 16))
    g = vf.run_tlc(ctx, "srv", "MC_Server", os.path.basename(p2), files=[p2], workers=1, seed=ctx.seed * 47, timeout=900, cont=False)
    vf.tlc_must_finish(g, "MC_Server gen")
    ctx.add("states", g.distinct)
    ctx.add("transitions", g.generated)
    stim = []
    for line in g.out.splitlines():
        if line.startswith('<<"HIST", '):
            stim.append({"ev": json.loads(json.loads(line[len('<<"HIST", '):-2]))})
    if not stim:
        raise vf.Machinery("no interleavings generated")
    directed = json.load(open(os.path.join(g.dir, "directed.json")))
    stim += [{"ev": h, "all": True} for h in directed]
    ctx.cov["directed_interleavings"] = len(directed)
    # a peer that misbehaves and then behaves: garbage (or a truncated / oversize datagram), then proper requests from the same address
    for cls in ("garbage", "trunc", "oversize"):
        stim.append({"ev": [{"e": "good", "p": 1, "c": "req"}, {"e": "bad", "p": 3, "c": cls}, {"e": "bad", "p": 3, "c": "wellformed"},
                            {"e": "good", "p": 1, "c": "req"}, {"e": "bad", "p": 3, "c": "wellformed"}, {"e": "bad", "p": 3, "c": cls},
                            {"e": "good", "p": 2, "c": "req"}, {"e": "bad", "p": 3, "c": "wellformed"}], "all": True})
    spath = os.path.join(ctx.work, "stimuli.ndjson")
    vf.write_ndjson(spath, stim)
    out = os.path.join(ctx.work, "traces.ndjson")
    rc, so, se = vf.drv(ctx, ["c10", spath, out], timeout=2400, ok_codes=(0, 2))
    if rc == 2 or "panic:" in se or "fatal error:" in se:
        frames = [l.strip() for l in se.splitlines() if "/repo/" in l][:6]
        vf.report(ctx, "C10_NoCrash", {"frames": frames[:3]}, "the server process crashed under hostile input: %s" % frames[:3], {"stderr": se[:8000], "cmd": "bin/check C10"})
        return vf.finish(ctx)
    traces = vf.read_ndjson(out)
    bad, gen, dist = vf.judge_records(ctx, "srv", "RecC10", "RecC10.cfg", traces, shards=4, timeout=1800)
    ctx.add("states", dist)
    ctx.add("transitions", gen)
    ctx.add("traces_validated_against_impl", len(traces))
    servers = [t for t in traces if t["op"] == "server"]
    ctx.cov["interleavings_generated"] = len(stim)
    ctx.cov["server_runs_by_transport"] = {tp: sum(1 for t in servers if t["transport"] == tp) for tp in ("udp", "tcp", "dtls", "tls")}
    ctx.cov["good_requests"] = sum(1 for t in servers for e in t["ev"] if e["e"] == "good")
    ctx.cov["hostile_events"] = sum(1 for t in servers for e in t["ev"] if e["e"] == "bad")
    ctx.cov["discovery_runs"] = sum(1 for t in traces if t["op"] == "discover")
    ctx.cov["keepalive_stalled_peer_runs"] = sum(1 for t in traces if t["op"] == "kastall" and t["xDropped"])
    ctx.cov["wildcard_listener_runs"] = sum(1 for t in traces if t["op"] == "wild" and t["usable"])
    ctx.cov["stuck_peer_runs"] = sum(1 for t in traces if t["op"] == "stuck" and t["busy"])
    for clause, idxs in sorted(bad.items()):
        ts = [traces[i] for i in idxs]
        t0 = min(ts, key=lambda t: len(t.get("ev", [])))
        if t0["op"] == "stuck":
            vf.report(ctx, clause, {"op": "stuck"}, "%d run(s): after the connection of a peer with a stuck handler and a full receive queue was closed, another peer was not served / the server could not be stopped: %s" % (len(ts), json.dumps(t0)),
                      {"trace": t0, "cmd": "bin/check C10 --tier %s" % ctx.tier})
            continue
        if t0["op"] == "kastall":
            vf.report(ctx, clause, {"op": "kastall"}, "a tcp server with keep-alive: the well-behaved peer did not survive the stalled peer: %s" % json.dumps(t0),
                      {"trace": t0, "cmd": "bin/check C10 --tier %s" % ctx.tier})
            continue
        if t0["op"] == "wild":
            vf.report(ctx, clause, {"op": "wild"}, "a udp server bound to the wildcard address did not keep one connection per local address contacted by the same remote socket: %s" % json.dumps(t0)[:900],
                      {"trace": t0, "cmd": "bin/check C10 --tier %s" % ctx.tier})
            continue
        if t0["op"] == "server":
            classes = sorted(set(e["c"] for e in t0["ev"] if e["e"] == "bad"))
            vf.report(ctx, clause, {"transport": t0["transport"], "hostile_classes": classes},
                      "%d server run(s) on %s: a well-behaved peer was not served as if it were alone; e.g. %s, new connections per peer %s, still serving %s" % (
                          len(ts), t0["transport"], json.dumps([[e["e"], e["p"], e["c"], e["answered"], e["conn"], e["nth"]] for e in t0["ev"]])[:500], t0["newconns"], t0["serving"]),
                      {"trace": t0, "cmd": "bin/check C10 --tier %s" % ctx.tier})
        else:
            vf.report(ctx, clause, {"op": "discover"}, "%d discovery run(s) routed a response wrongly: %s" % (len(ts), json.dumps(t0)[:500]),
                      {"trace": t0, "cmd": "bin/check C10 --tier %s" % ctx.tier})

    def mutate(t, rng):
        if t["op"] == "server":
            ev = [dict(e) for e in t["ev"]]
            for e in ev:
                if e["e"] == "good" and e["answered"]:
                    e["nth"] += 1
                    t["ev"] = ev
                    return t
        return None
    vf.negative_control(ctx, "srv", "RecC10", "RecC10.cfg", traces, mutate)
    t0 = servers[0]
    ctx.sample({"transport": t0["transport"], "events": [[e["e"], e["p"], e["c"], e["answered"], e["conn"], e["nth"]] for e in t0["ev"]], "newconns": t0["newconns"]})
    ctx.sample(next(t for t in traces if t["op"] == "discover"))
    ctx.assumptions += ["hostile TLS/DTLS input is limited to bytes that are not a valid handshake, connect-and-stall and connect-and-close",
                        "multicast needs a routable interface, which this sandbox lacks: discovery is exercised with unicast addresses (the routing code is the same)",
                        "absence of a crash / deadlock is observed (every well-behaved request is answered within 2 s after every prefix), not proved"]
    return vf.finish(ctx, extra_cov={"exhaustive": False})
