"""C08 - observers only ever see a resource move forward in time.
Spec: specs/obs/Observe.tla (RFC 7641 section 3.4 freshness verbatim + the observation life cycle). TLC proves
order-theoretic theorems of Fresh on the boundary values (0,1,2,3, 2^23-1..2^23+2, 2^24-2, 2^24-1 x time deltas
around 128 s) and generates random event histories for two simultaneous observations (register, first answer
2.05/2.03/2.05-without-Observe/4.04, notifications with boundary sequence numbers and inter-arrival times,
cancel). The driver replays them on real udp and tcp client connections (Observe()/Cancel() for real, the driver
is the peer, arrival times through the verif clock hook) and records every callback invocation; TLC judges."""
import json
import os

import vf


def run(ctx):
    thorough = ctx.tier == "thorough"
    vf.build_driver(ctx)
    r = vf.run_tlc(ctx, "obs", "MC_Observe", "MC_Observe.cfg", timeout=900, cont=False)
    vf.tlc_must_finish(r, "MC_Observe")
    if r.inv:
        raise vf.Machinery("theorem about Fresh failed (spec bug): %s" % r.inv)
    ctx.add("states", r.distinct)
    ctx.add("transitions", r.generated)
    stim = []
    for k in range(5 if thorough else 1):
        g = vf.run_tlc(ctx, "obs", "MC_Observe", "MC_Observe_gen.cfg", workers=1, seed=ctx.seed * 31 + k, timeout=900, cont=False)
        vf.tlc_must_finish(g, "MC_Observe gen")
        ctx.add("states", g.distinct)
        ctx.add("transitions", g.generated)
        for line in g.out.splitlines():
            if line.startswith('<<"HIST", '):
                stim.append({"t": len(stim) + 1, "steps": json.loads(json.loads(line[len('<<"HIST", '):-2]))})
    if not stim:
        raise vf.Machinery("no histories generated")
    spath = os.path.join(ctx.work, "stimuli.ndjson")
    vf.write_ndjson(spath, stim)
    out = os.path.join(ctx.work, "traces.ndjson")
    vf.drv(ctx, ["c08", spath, out], timeout=2400)
    traces = vf.read_ndjson(out)
    bad, gen, dist = vf.judge_records(ctx, "obs", "RecC08", "RecC08.cfg", traces, shards=4, timeout=1800)
    ctx.add("states", dist)
    ctx.add("transitions", gen)
    ctx.add("traces_validated_against_impl", len(traces))
    ctx.cov["histories_generated"] = len(stim)
    ctx.cov["events_validated"] = sum(len(t["ev"]) for t in traces)
    ctx.cov["callback_invocations"] = sum(len(e["calls"]) for t in traces for e in t["ev"])
    ctx.cov["notifications_suppressed"] = sum(1 for t in traces for e in t["ev"] if e["ev"]["e"] == "notify" and e["applied"] and not e["calls"])
    for clause, idxs in sorted(bad.items()):
        ts = [traces[i] for i in idxs]
        t0 = min(ts, key=lambda t: len(t["ev"]))
        evs = [[e["ev"]["e"], e["ev"]["k"], e["ev"]["kind"], e["ev"]["seq"], e["ev"]["t"], len(e["calls"])] for e in t0["ev"]]
        if clause == "K08_Conforms":
            kinds = sorted(set((e["ev"]["e"], e["ev"]["kind"]) for t in ts for e in t["ev"] if e["applied"] and (len(e["calls"]) > 0) != e["expcb"]))
            ctx.drift.append({"clause": clause, "traces": len(ts), "diverging_event_kinds": kinds[:10], "first": evs[:14]})
            continue
        vf.report(ctx, clause, {"transport": t0["transport"], "event_kinds": sorted(set(e[0] + ":" + e[2] for e in evs))},
                  "%d recorded history(ies) on %s violate the clause; shortest: %s" % (len(ts), t0["transport"], json.dumps(evs)),
                  {"trace": t0, "cmd": "bin/check C08 --tier %s" % ctx.tier})

    # free-running bursts: duplicated / reordered notifications while the application's requests replace the read loop
    out2 = os.path.join(ctx.work, "stress.ndjson")
    vf.drv(ctx, ["c08stress", out2, str(60 if ctx.tier == "thorough" else 12)], timeout=1800)
    stress = vf.read_ndjson(out2)
    if sum(1 for x in stress if x["setup"] and x["delivered"] > 10 and x["requests"] > 10) * 2 < len(stress):
        raise vf.Machinery("stress bursts did not run: %s" % stress[:2])
    sbad, g2, d2 = vf.judge_records(ctx, "obs", "RecC08", "RecC08.cfg", stress, shards=1, timeout=600)
    ctx.add("states", d2)
    ctx.add("transitions", g2)
    ctx.add("traces_validated_against_impl", len(stress))
    ctx.cov["stress_bursts"] = len(stress)
    ctx.cov["stress_notifications_sent"] = sum(x["sent"] for x in stress)
    ctx.cov["stress_callback_invocations"] = sum(x["delivered"] for x in stress)
    ctx.cov["stress_requests_meanwhile"] = sum(x["requests"] for x in stress)
    for clause, idxs in sorted(sbad.items()):
        xs = [stress[i] for i in idxs]
        vf.report(ctx, clause, {"mode": "stress"}, "%d burst(s): a notification that was already delivered reached the callback again (or one with a foreign token did); e.g. %s" % (len(xs), json.dumps(xs[0])),
                  {"record": xs[0], "cmd": "bin/check C08 --tier %s" % ctx.tier})

    # notifications whose representations need block-wise transfer (specs/bw/ObsBlock.tla, shared with C04): the reassembled
    # notification still carries its Observe value, so the observer sees them in Observe order - never a body without one
    # after a fresher one (the driver and the judge are C04's: harness/drv/c04/obsbw.go, RecC04.C04_ObsWhole)
    ro = vf.run_tlc(ctx, "bw", "MC_ObsBlock", "MC_ObsBlock.cfg", workers=8, timeout=1800, cont=False)
    vf.tlc_must_finish(ro, "MC_ObsBlock")
    if ro.inv:
        raise vf.Machinery("design-level invariant failed in ObsBlock (spec bug, not a code verdict): %s" % ro.inv)
    plans = json.load(open(os.path.join(ro.dir, "plans.json")))
    ojobs = [{"mode": "obsbw", "p": {"l": 0, "l2": l2, "cs": 0, "ss": 0, "cmms": 2048, "smms": 2048}, "plan": pl} for l2 in (50, 33) for pl in plans]
    ojp = os.path.join(ctx.work, "obsjobs.ndjson")
    vf.write_ndjson(ojp, ojobs)
    oout = os.path.join(ctx.work, "obsrecs.ndjson")
    vf.drv(ctx, ["c04", ojp, oout], timeout=1800)
    orecs = vf.read_ndjson(oout)
    obad, g3, d3 = vf.judge_records(ctx, "bw", "RecC04", "RecC04_obs.cfg", orecs, shards=2, timeout=900)
    ctx.add("states", d3 + ro.distinct)
    ctx.add("transitions", g3 + ro.generated)
    ctx.add("traces_validated_against_impl", len(orecs))
    ctx.cov["blockwise_notification_plans"] = len(orecs)
    ctx.cov["blockwise_notifications_delivered"] = sum(len(t["notes"]) for t in orecs)
    for clause, idxs in sorted(obad.items()):
        xs = [orecs[i] for i in idxs]
        t0 = min(xs, key=lambda t: len(t["plan"]))
        vf.report(ctx, "C08_BlockwiseNotesInOrder", {"mode": "observe-blockwise"},
                  "%d observation(s) with block-wise notifications: a body reached the observer out of Observe order / without its Observe value / not whole; e.g. plan %s -> [Observe, length, pieces] %s" % (
                      len(xs), t0["plan"], json.dumps([[n["seq"], n["len"], n["pieces"][:3]] for n in t0["notes"]])[:400]),
                  {"trace": t0, "cmd": "bin/check C08 --tier %s" % ctx.tier})

    def mutate(t, rng):
        ev = [dict(e) for e in t["ev"]]
        for n, e in enumerate(ev):
            if e["ev"]["e"] == "notify" and e["calls"] and any(x["ev"]["k"] == e["ev"]["k"] and x["calls"] for x in ev[:n]):
                c = [dict(x) for x in e["calls"]]
                prev = [x for x in ev[:n] if x["ev"]["k"] == e["ev"]["k"] and x["calls"] and x["calls"][0]["hasseq"]]
                if not prev:
                    continue
                c[0]["seq"] = prev[-1]["calls"][0]["seq"]
                e["calls"] = c
                e["ev"] = dict(e["ev"], t=prev[-1]["ev"]["t"])
                t["ev"] = ev
                return t
        return None
    vf.negative_control(ctx, "obs", "RecC08", "RecC08.cfg", traces, mutate)
    t0 = traces[0]
    ctx.sample({"transport": t0["transport"], "events": [[e["ev"]["e"], e["ev"]["k"], e["ev"]["kind"], e["ev"]["seq"], e["ev"]["t"], [[c["k"], c["seq"]] for c in e["calls"]]] for e in t0["ev"]]})
    ctx.assumptions += ["arrival times are virtual (verif clock hook in wantBeNotified); two simultaneous observations; the first answer counts as a delivered notification when it carries an Observe option",
                        "whether the answer to a FAILED registration is itself handed to the callback is reported as conformance drift, not as a verdict (the statement speaks about notifications)"]
    return vf.finish(ctx, extra_cov={"exhaustive": False})
