"""C02 - decoders are total, safe and canonicalising on arbitrary bytes.
Reference parser: specs/wire/CoapWire.tla (ParseUDP / ParseTCPHeader / ParseTCP with the three documented
leniencies as named predicates). The driver feeds byte strings to the real decoders (raw, pooled fresh,
pooled recycled, pooled after SetMessage{}), TLC judges every record."""
import vf


def key(r):
    b = r["b"]
    return "%s/%s %s%s" % (r["tr"], r["api"], "".join("%02x" % x for x in b[:48]), "..(%d)" % len(b) if len(b) > 48 else "")


def group(clause, r):
    return r["tr"] + ":" + r["api"]


def mutate(rec, rng):
    if rec["op"] == "dec" and not rec["d1"]["err"] and rec["d1"].get("m") is not None and rec["api"] == "raw" and not rec["panic"]:
        m = dict(rec["d1"]["m"])
        m["code"] = (m["code"] + 1) % 256
        rec["d1"] = dict(rec["d1"], m=m)
        return rec
    return None


def run(ctx):
    recs, bad = vf.record_property(
        ctx, "wire", [("MC_CoapWire", "MC_CoapWire.cfg")], ["c02", "<out>"], "RecC02", "RecC02.cfg",
        key, mutate, "the RFC reference parser (CoapWire.tla)", shards=8, conformance_only=("K02_Canon",), group=group,
        tlc_timeout=2400, drv_timeout=1800)
    ctx.assumptions += ["bounded time is a 3 s watchdog observation per call; exhaustive only for strings up to length 4 (quick) / 5 (thorough) over a 10-symbol alphabet per coder",
                        "aliasing is observed by overwriting the input buffer and reading the message again"]
    return vf.finish(ctx, extra_cov={"exhaustive": False})
