package c07

import (
	"bufio"
	"bytes"
	"context"
	"encoding/json"
	"os"
	"sync"
	"time"

	"github.com/plgd-dev/go-coap/v3/message"
	"github.com/plgd-dev/go-coap/v3/message/codes"
	"github.com/plgd-dev/go-coap/v3/net/blockwise"
	tcpclient "github.com/plgd-dev/go-coap/v3/tcp/client"

	"verifharness/internal/conns"
	"verifharness/internal/hooks"
	"verifharness/internal/rec"
)

// signalling (specs/tcp/Signal.tla): histories of the peer's signals and the local application's pings / large requests,
// replayed on a real tcp/client.Conn (block-wise layer configured) over the scripted stream.
type SigEv struct {
	E string `json:"e"`
	A int    `json:"a"`
	B int    `json:"b"`
}

type SigTrace struct {
	Op    string   `json:"op"` // sig
	Ev    []SigEv  `json:"ev"`
	Pongs []int    `json:"pongs"` // tokens (their single byte) of the Pongs the connection wrote, in order
	Done  []int    `json:"done"`  // own pings completed (callback ran), in order
	Twice int      `json:"twice"` // ping callbacks that ran more than once
	Cbs   []string `json:"cbs"`   // signal callback invocations
	Reqs  []bool   `json:"reqs"`  // large requests: went out block-wise
	Stuck int      `json:"stuck"` // steps whose effect did not show within the watchdog
}

func sigName(c codes.Code) string {
	switch c {
	case codes.CSM:
		return "csm"
	case codes.Ping:
		return "ping"
	case codes.Pong:
		return "pong"
	case codes.Release:
		return "release"
	case codes.Abort:
		return "abort"
	}
	return "other"
}

func runSignals(evs []SigEv) SigTrace {
	tr := SigTrace{Op: "sig", Ev: evs, Pongs: []int{}, Done: []int{}, Cbs: []string{}, Reqs: []bool{}}
	t := conns.NewTCP(func(cfg *tcpclient.Config) {
		cfg.BlockwiseEnable = true
		cfg.BlockwiseSZX = blockwise.SZX1024
		cfg.BlockwiseTransferTimeout = time.Second
	})
	defer t.Close()
	t.Settle()
	var mu sync.Mutex
	t.CC.SetTCPSignalReceivedHandler(func(c codes.Code) {
		mu.Lock()
		tr.Cbs = append(tr.Cbs, sigName(c))
		mu.Unlock()
	})
	ncb := func() int { mu.Lock(); defer mu.Unlock(); return len(tr.Cbs) }
	frames := func() []conns.TFrame {
		fs, _ := conns.Frames(t.Stream.Written(0))
		return fs
	}
	count := func(code codes.Code) int {
		n := 0
		for _, f := range frames() {
			if f.Code == int(code) {
				n++
			}
		}
		return n
	}
	nth := func(code codes.Code, k int) (conns.TFrame, bool) {
		n := 0
		for _, f := range frames() {
			if f.Code == int(code) {
				n++
				if n == k {
					return f, true
				}
			}
		}
		return conns.TFrame{}, false
	}
	ran := map[int]int{}
	issued := 0
	for _, e := range evs {
		switch e.E {
		case "csm":
			var opts message.Options
			if e.A > 0 {
				v := uint32(e.A)
				var b []byte
				for ; v > 0; v >>= 8 {
					b = append([]byte{byte(v)}, b...)
				}
				opts = append(opts, message.Option{ID: message.TCPMaxMessageSize, Value: b})
			}
			if e.B == 1 {
				opts = append(opts, message.Option{ID: message.TCPBlockWiseTransfer, Value: []byte{}})
			}
			before := ncb()
			t.Feed(conns.Frame(int(codes.CSM), nil, opts, nil))
			if !hooks.WaitFor(conns.WD, func() bool { return ncb() > before }) {
				tr.Stuck++
			}
		case "ping":
			before, bp := ncb(), count(codes.Pong)
			t.Feed(conns.Frame(int(codes.Ping), []byte{byte(e.A)}, nil, nil))
			if !hooks.WaitFor(conns.WD, func() bool { return ncb() > before && count(codes.Pong) > bp }) {
				tr.Stuck++
			}
		case "release", "abort":
			code := codes.Release
			if e.E == "abort" {
				code = codes.Abort
			}
			before := ncb()
			t.Feed(conns.Frame(int(code), nil, nil, nil))
			if !hooks.WaitFor(conns.WD, func() bool { return ncb() > before }) {
				tr.Stuck++
			}
		case "aping":
			issued++
			g := issued
			bp := count(codes.Ping)
			if _, err := t.CC.AsyncPing(func() {
				mu.Lock()
				ran[g]++
				if ran[g] == 1 {
					tr.Done = append(tr.Done, g)
				} else {
					tr.Twice++
				}
				mu.Unlock()
			}); err != nil || !hooks.WaitFor(conns.WD, func() bool { return count(codes.Ping) > bp }) {
				tr.Stuck++
			}
		case "pong":
			tok := []byte{0xEE, 0xEE, 0xEE}
			if e.A > 0 {
				f, ok := nth(codes.Ping, e.A)
				if !ok {
					tr.Stuck++
					continue
				}
				tok = f.Token
			}
			before := ncb()
			t.Feed(conns.Frame(int(codes.Pong), tok, nil, nil))
			if !hooks.WaitFor(conns.WD, func() bool { return ncb() > before }) {
				tr.Stuck++
			}
			t.Settle()
		case "bigreq":
			bp := count(codes.POST)
			ctx, cancel := context.WithCancel(context.Background())
			done := make(chan struct{})
			go func() {
				defer close(done)
				if resp, err := t.CC.Post(ctx, "/big", message.AppOctets, bytes.NewReader(bytes.Repeat([]byte{5}, 3000))); err == nil {
					t.CC.ReleaseMessage(resp)
				}
			}()
			if hooks.WaitFor(conns.WD, func() bool { return count(codes.POST) > bp }) {
				f, _ := nth(codes.POST, bp+1)
				tr.Reqs = append(tr.Reqs, f.Opts.HasOption(message.Block1))
			} else {
				tr.Stuck++
			}
			cancel()
			select {
			case <-done:
			case <-time.After(conns.WD):
				tr.Stuck++
			}
		}
	}
	t.Settle()
	for _, f := range frames() {
		if f.Code == int(codes.Pong) {
			v := -1
			if len(f.Token) == 1 {
				v = int(f.Token[0])
			}
			tr.Pongs = append(tr.Pongs, v)
		}
	}
	mu.Lock()
	defer mu.Unlock()
	tr.Done = append([]int{}, tr.Done...)
	tr.Cbs = append([]string{}, tr.Cbs...)
	return tr
}

// RunSignals replays the histories of MC_Signal.
func RunSignals(stimPath, out string) {
	f, err := os.Open(stimPath)
	if err != nil {
		rec.Die("open: %v", err)
	}
	defer f.Close()
	w := rec.Create(out)
	defer w.Close()
	sc := bufio.NewScanner(f)
	sc.Buffer(make([]byte, 1<<20), 16<<20)
	var hs [][]SigEv
	for sc.Scan() {
		var h struct {
			Ev []SigEv `json:"ev"`
		}
		if err := json.Unmarshal(sc.Bytes(), &h); err != nil {
			rec.Die("stimulus: %v", err)
		}
		hs = append(hs, h.Ev)
	}
	res := make([]SigTrace, len(hs))
	var wg sync.WaitGroup
	sem := make(chan struct{}, 8)
	for i := range hs {
		wg.Add(1)
		sem <- struct{}{}
		go func(i int) {
			defer wg.Done()
			res[i] = runSignals(hs[i])
			<-sem
		}(i)
	}
	wg.Wait()
	for _, r := range res {
		w.Put(r)
	}
}
