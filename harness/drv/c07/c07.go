// Package c07 feeds TLC-built byte streams (specs/tcp) to a real tcp/client.Conn through a net.Conn whose Read
// returns exactly the chunk sizes of a schedule, and records what the handler / the signal callback received
// after every read. TLC (RecC07.tla) judges.
package c07

import (
	"encoding/json"
	"io"
	"math/rand"
	"net"
	"os"
	"sync"
	"time"

	"github.com/plgd-dev/go-coap/v3/message/codes"
	"github.com/plgd-dev/go-coap/v3/message/pool"
	coapNet "github.com/plgd-dev/go-coap/v3/net"
	"github.com/plgd-dev/go-coap/v3/net/responsewriter"
	"github.com/plgd-dev/go-coap/v3/options"
	"github.com/plgd-dev/go-coap/v3/tcp"
	tcpclient "github.com/plgd-dev/go-coap/v3/tcp/client"
	tcpserver "github.com/plgd-dev/go-coap/v3/tcp/server"

	"verifharness/internal/conns"
	"verifharness/internal/hooks"
	"verifharness/internal/rec"
)

type StreamDef struct {
	SI      int   `json:"si"`
	Max     int   `json:"max"`
	Bytes   []int `json:"bytes"`
	NFrames int   `json:"nframes"`
}

type Sched struct {
	Kind string `json:"kind"` // cuts | ones | chunks | split | random
	K    int    `json:"k"`
	C    int    `json:"c"`
	Cuts []int  `json:"cuts"`
	Seed int64  `json:"seed"`
}

type Job struct {
	Stream StreamDef `json:"stream"`
	Cache  int       `json:"cache"`
	Scheds []Sched   `json:"scheds"`
}

type MsgSum struct {
	Code   int   `json:"code"`
	Tok    []int `json:"tok"`
	PayLen int   `json:"paylen"`
	PaySum int   `json:"paysum"`
	NOpts  int   `json:"nopts"`
}

type ReadObs struct {
	Pos    int  `json:"pos"`
	NMsgs  int  `json:"nmsgs"`
	NSigs  int  `json:"nsigs"`
	Closed bool `json:"closed"`
}

type Rec struct {
	SI     int       `json:"si"`
	Max    int       `json:"max"`
	Cache  int       `json:"cache"`
	Sched  string    `json:"sched"`
	NReads int       `json:"nreads"`
	Reads  []ReadObs `json:"reads"` // for long schedules: the reads around frame boundaries and a sample, always the last
	Msgs   []MsgSum  `json:"msgs"`
	Sigs   []int     `json:"sigs"`
	Closed bool      `json:"closed"`
	Errs   int       `json:"errs"`
	Stuck  bool      `json:"stuck"`
}

func expand(s Sched, n, cache int) []int {
	var cuts []int
	add := func(x int) {
		for x > 0 {
			c := x
			if c > cache {
				c = cache
			}
			cuts = append(cuts, c)
			x -= c
		}
	}
	switch s.Kind {
	case "cuts":
		return s.Cuts
	case "ones":
		for i := 0; i < n; i++ {
			cuts = append(cuts, 1)
		}
	case "chunks":
		c := s.C
		if c > cache {
			c = cache
		}
		for left := n; left > 0; left -= c {
			if left < c {
				cuts = append(cuts, left)
				break
			}
			cuts = append(cuts, c)
		}
	case "split":
		k := s.K
		if k > n {
			k = n
		}
		add(k)
		c := s.C
		if c > cache {
			c = cache
		}
		for left := n - k; left > 0; left -= c {
			if left < c {
				cuts = append(cuts, left)
				break
			}
			cuts = append(cuts, c)
		}
	case "random":
		rng := rand.New(rand.NewSource(s.Seed))
		for left := n; left > 0; {
			var c int
			switch rng.Intn(4) {
			case 0:
				c = 1
			case 1:
				c = 1 + rng.Intn(8)
			case 2:
				c = 1 + rng.Intn(300)
			default:
				c = 1 + rng.Intn(cache)
			}
			if c > cache {
				c = cache
			}
			if c > left {
				c = left
			}
			cuts = append(cuts, c)
			left -= c
		}
	}
	return cuts
}

// runSockets: the same stream through the option plumbing - a real tcp server created with options.WithMaxMessageSize(max) (kind
// "server": a raw socket peer writes the bytes) or the library's own client tcp.Dial(..., WithMaxMessageSize(max)) (kind "dial":
// a raw listener writes them). One write, one observation at the end.
func runSockets(sd StreamDef, cache int, s Sched) Rec {
	r := Rec{SI: sd.SI, Max: sd.Max, Cache: cache, Sched: s.Kind, Reads: []ReadObs{}, Msgs: []MsgSum{}, Sigs: []int{}}
	var mu sync.Mutex
	handler := func(_ *responsewriter.ResponseWriter[*tcpclient.Conn], m *pool.Message) {
		body, _ := m.ReadBody()
		sum := 0
		for _, b := range body {
			sum = (sum + int(b)) % 65521
		}
		mu.Lock()
		r.Msgs = append(r.Msgs, MsgSum{Code: int(m.Code()), Tok: rec.Bytes(m.Token()), PayLen: len(body), PaySum: sum, NOpts: len(m.Options())})
		mu.Unlock()
	}
	onSig := func(c codes.Code) { mu.Lock(); r.Sigs = append(r.Sigs, int(c)); mu.Unlock() }
	data := make([]byte, len(sd.Bytes))
	for i, v := range sd.Bytes {
		data[i] = byte(v)
	}
	common := []tcpserver.Option{options.WithMaxMessageSize(uint32(sd.Max)), options.WithConnectionCacheSize(uint16(cache)), options.WithErrors(func(error) {}),
		options.WithHandlerFunc(handler), options.WithReceivedMessageQueueSize(16)}
	var done <-chan struct{}
	var cleanup func()
	if s.Kind == "server" {
		l, err := coapNet.NewTCPListener("tcp4", "127.0.0.1:0")
		if err != nil {
			rec.Die("listen: %v", err)
		}
		got := make(chan *tcpclient.Conn, 1)
		sv := tcp.NewServer(append(common, options.WithOnNewConn(func(cc *tcpclient.Conn) {
			cc.SetTCPSignalReceivedHandler(onSig)
			select {
			case got <- cc:
			default:
			}
		}))...)
		go func() { _ = sv.Serve(l) }()
		peer, err := net.DialTimeout("tcp4", l.Addr().String(), time.Second)
		if err != nil {
			rec.Die("dial: %v", err)
		}
		go func() { _, _ = io.Copy(io.Discard, peer) }()
		select {
		case cc := <-got:
			done = cc.Done()
		case <-time.After(time.Second):
			r.Stuck = true
		}
		_, _ = peer.Write(data)
		cleanup = func() { _ = peer.Close(); sv.Stop(); _ = l.Close() }
	} else {
		l, err := net.Listen("tcp4", "127.0.0.1:0")
		if err != nil {
			rec.Die("listen: %v", err)
		}
		acc := make(chan net.Conn, 1)
		go func() {
			if c, err := l.Accept(); err == nil {
				acc <- c
				_, _ = io.Copy(io.Discard, c)
			}
		}()
		cc, err := tcp.Dial(l.Addr().String(), options.WithMaxMessageSize(uint32(sd.Max)), options.WithConnectionCacheSize(uint16(cache)), options.WithErrors(func(error) {}),
			options.WithHandlerFunc(handler), options.WithReceivedMessageQueueSize(16))
		if err != nil {
			rec.Die("dial: %v", err)
		}
		cc.SetTCPSignalReceivedHandler(onSig)
		done = cc.Done()
		var peer net.Conn
		select {
		case peer = <-acc:
			_, _ = peer.Write(data)
		case <-time.After(time.Second):
			r.Stuck = true
		}
		cleanup = func() {
			_ = cc.Close()
			if peer != nil {
				_ = peer.Close()
			}
			_ = l.Close()
		}
	}
	defer cleanup()
	closed := func() bool {
		if done == nil {
			return false
		}
		select {
		case <-done:
			return true
		default:
			return false
		}
	}
	// settle: nothing new for 150 ms (or the connection closed)
	last, since := -1, time.Now()
	hooks.WaitFor(3*time.Second, func() bool {
		mu.Lock()
		n := len(r.Msgs) + len(r.Sigs)
		mu.Unlock()
		if n != last {
			last, since = n, time.Now()
		}
		return time.Since(since) > 150*time.Millisecond || (closed() && time.Since(since) > 20*time.Millisecond)
	})
	r.NReads = 1
	mu.Lock()
	r.Reads = append(r.Reads, ReadObs{Pos: len(data), NMsgs: len(r.Msgs), NSigs: len(r.Sigs), Closed: closed()})
	mu.Unlock()
	r.Closed = closed()
	return r
}

func runOne(sd StreamDef, cache int, s Sched) Rec {
	if s.Kind == "server" || s.Kind == "dial" {
		return runSockets(sd, cache, s)
	}
	r := Rec{SI: sd.SI, Max: sd.Max, Cache: cache, Sched: s.Kind, Reads: []ReadObs{}, Msgs: []MsgSum{}, Sigs: []int{}}
	var mu sync.Mutex
	t := conns.NewTCP(func(cfg *tcpclient.Config) {
		cfg.MaxMessageSize = uint32(sd.Max)
		cfg.ConnectionCacheSize = uint16(cache)
		cfg.ReceivedMessageQueueSize = 16
		cfg.Handler = func(_ *responsewriter.ResponseWriter[*tcpclient.Conn], m *pool.Message) {
			body, _ := m.ReadBody()
			sum := 0
			for _, b := range body {
				sum = (sum + int(b)) % 65521
			}
			mu.Lock()
			r.Msgs = append(r.Msgs, MsgSum{Code: int(m.Code()), Tok: rec.Bytes(m.Token()), PayLen: len(body), PaySum: sum, NOpts: len(m.Options())})
			mu.Unlock()
		}
	}, tcpclient.WithRequestMonitor(func(_ *tcpclient.Conn, m *pool.Message) (bool, error) {
		// the application's request monitor refuses the messages whose token is DD: they are not dispatched - everything else is
		return len(m.Token()) == 1 && m.Token()[0] == 0xDD, nil
	}))
	defer t.Close()
	t.CC.SetTCPSignalReceivedHandler(func(c codes.Code) {
		mu.Lock()
		r.Sigs = append(r.Sigs, int(c))
		mu.Unlock()
	})
	if !t.Settle() {
		r.Stuck = true
		return r
	}
	data := make([]byte, len(sd.Bytes))
	for i, v := range sd.Bytes {
		data[i] = byte(v)
	}
	cuts := expand(s, len(data), cache)
	r.NReads = len(cuts)
	pos := 0
	closed := func() bool {
		select {
		case <-t.CC.Done():
			return true
		default:
			return false
		}
	}
	keepAll := len(cuts) <= 64
	for i, c := range cuts {
		if pos+c > len(data) {
			c = len(data) - pos
		}
		if c <= 0 || closed() {
			break
		}
		t.Stream.Feed(data[pos : pos+c])
		pos += c
		if !t.Settle() {
			r.Stuck = true
			break
		}
		mu.Lock()
		ob := ReadObs{Pos: pos, NMsgs: len(r.Msgs), NSigs: len(r.Sigs), Closed: closed()}
		mu.Unlock()
		// long schedules: keep observations that change something, every 997th, and the last
		if keepAll || i == len(cuts)-1 || i%997 == 0 || len(r.Reads) == 0 || ob.Closed || r.Reads[len(r.Reads)-1].NMsgs != ob.NMsgs || r.Reads[len(r.Reads)-1].NSigs != ob.NSigs || i < 40 {
			r.Reads = append(r.Reads, ob)
		}
		if ob.Closed {
			break
		}
	}
	t.Settle()
	r.Closed = closed()
	r.Errs = t.Errs.Len()
	return r
}

// Run executes every job (one per stream/cache pair).
func Run(jobPath, out string) {
	b, err := os.ReadFile(jobPath)
	if err != nil {
		rec.Die("read jobs: %v", err)
	}
	var jobs []Job
	if err := json.Unmarshal(b, &jobs); err != nil {
		rec.Die("jobs: %v", err)
	}
	w := rec.Create(out)
	defer w.Close()
	type item struct {
		j *Job
		s Sched
	}
	var items []item
	for i := range jobs {
		for _, s := range jobs[i].Scheds {
			items = append(items, item{&jobs[i], s})
		}
	}
	res := make([]Rec, len(items))
	var wg sync.WaitGroup
	sem := make(chan struct{}, 12)
	for i := range items {
		wg.Add(1)
		sem <- struct{}{}
		go func(i int) {
			defer wg.Done()
			res[i] = runOne(items[i].j.Stream, items[i].j.Cache, items[i].s)
			<-sem
		}(i)
	}
	wg.Wait()
	for _, r := range res {
		w.Put(r)
	}
}
