// Package c08 replays TLC-generated event histories (specs/obs) for two simultaneous observations on real udp and
// tcp client connections: Observe() is called, the driver (as the peer) answers the registration, injects
// notifications with chosen sequence numbers at chosen virtual arrival times (verif clock hook), and lets
// Cancel() run. It records every callback invocation and what Observe()/Cancel() returned. TLC (RecC08) judges.
package c08

import (
	"bufio"
	"context"
	"encoding/binary"
	"encoding/json"
	"fmt"
	"os"
	"sync"
	"sync/atomic"
	"time"

	"github.com/plgd-dev/go-coap/v3/message"
	"github.com/plgd-dev/go-coap/v3/message/codes"
	"github.com/plgd-dev/go-coap/v3/message/pool"
	"github.com/plgd-dev/go-coap/v3/net/observation"
	tcpclient "github.com/plgd-dev/go-coap/v3/tcp/client"
	udpclient "github.com/plgd-dev/go-coap/v3/udp/client"

	"verifharness/internal/conns"
	"verifharness/internal/hooks"
	"verifharness/internal/memnet"
	"verifharness/internal/rec"
)

type EvIn struct {
	E    string `json:"e"`
	K    int    `json:"k"`
	Kind string `json:"kind"`
	Seq  int    `json:"seq"`
	T    int    `json:"t"`
}

type StepIn struct {
	Ev EvIn `json:"ev"`
	Cb bool `json:"cb"`
}

type Stim struct {
	T     int      `json:"t"`
	Steps []StepIn `json:"steps"`
}

type Call struct {
	K      int  `json:"k"`      // observation whose callback ran
	HasSeq bool `json:"hasseq"` // the message carried an Observe option
	Seq    int  `json:"seq"`
	Code   int  `json:"code"`
	TokOK  bool `json:"tokok"` // the message carried that observation's token
}

type EvOut struct {
	Ev      EvIn   `json:"ev"`
	Applied bool   `json:"applied"`
	ExpCb   bool   `json:"expcb"`
	Calls   []Call `json:"calls"`
	Ret     string `json:"ret"`    // what Observe() of observation k has returned so far: none | ok | err
	Cancel  string `json:"cancel"` // what Cancel() returned: none | ok | err
	NObs    int    `json:"nobs"`   // observation entries in the connection
}

type Trace struct {
	Transport string  `json:"transport"`
	T         int     `json:"t"`
	Ev        []EvOut `json:"ev"`
	EndObs    int     `json:"endObs"`
	Hung      bool    `json:"hung"`
}

var (
	base = time.Date(2030, 1, 1, 0, 0, 0, 0, time.UTC)
	vnow atomic.Int64
)

type peer interface {
	observe(ctx context.Context, path string, cb func(*pool.Message)) (interface {
		Cancel(ctx context.Context, opts ...message.Option) error
	}, error)
	findRequest(path string, observe uint32) ([]byte, int32, bool) // token, mid of the newest matching request not yet answered
	respond(mid int32, tok []byte, code codes.Code, obs *uint32, pay string)
	notify(tok []byte, seq uint32, pay string)
	ack(mid int32, tok []byte) // datagram: empty acknowledgement of the request; stream: nothing
	settle()
	nobs() int
	close()
}

func encUint(v uint32) []byte {
	var b [4]byte
	binary.BigEndian.PutUint32(b[:], v)
	i := 0
	for i < 4 && b[i] == 0 {
		i++
	}
	return b[i:]
}

func runOne(st Stim, transport string) Trace {
	tr := Trace{Transport: transport, T: st.T, Ev: []EvOut{}}
	var p peer
	if transport == "udp" {
		p = newUDPPeer()
	} else {
		p = newTCPPeer()
	}
	defer p.close()
	var mu sync.Mutex
	var calls []Call
	toks := map[int][]byte{}
	ret := map[int]string{1: "none", 2: "none"}
	canc := map[int]string{1: "none", 2: "none"}
	obsH := map[int]interface {
		Cancel(ctx context.Context, opts ...message.Option) error
	}{}
	giveup := map[int]context.CancelFunc{}
	vnow.Store(0)
	for _, s := range st.Steps {
		e := s.Ev
		vnow.Store(int64(e.T))
		applied := false
		path := fmt.Sprintf("/o%d", e.K)
		switch e.E {
		case "register":
			k := e.K
			go func() {
				octx, ocancel := context.WithCancel(context.Background())
				mu.Lock()
				giveup[k] = ocancel
				mu.Unlock()
				o, err := p.observe(octx, path, func(m *pool.Message) {
					c := Call{K: k, Code: int(m.Code())}
					if v, err := m.Observe(); err == nil {
						c.HasSeq, c.Seq = true, int(v)
					}
					mu.Lock()
					c.TokOK = string(m.Token()) == string(toks[k])
					calls = append(calls, c)
					mu.Unlock()
				})
				mu.Lock()
				if err != nil {
					ret[k] = "err"
				} else {
					ret[k] = "ok"
					obsH[k] = o
				}
				mu.Unlock()
			}()
			// the registration request must reach the peer
			var tok []byte
			ok := hooks.WaitFor(conns.WD, func() bool {
				p.settle()
				t, _, found := p.findRequest(path, 0)
				tok = t
				return found
			})
			if ok {
				mu.Lock()
				toks[e.K] = tok
				mu.Unlock()
				applied = true
			}
		case "first":
			tok, mid, found := p.findRequest(path, 0)
			if found {
				seq := uint32(e.Seq)
				switch e.Kind {
				case "ok":
					code := codes.Content
					if e.K == 2 {
						code = codes.Valid
					}
					p.respond(mid, tok, code, &seq, "first")
				case "noobs":
					p.respond(mid, tok, codes.Content, nil, "first")
				case "err2xx":
					// a success-class answer that is not 2.05 / 2.03 (2.04 Changed, 2.01 Created, 2.02 Deleted, 2.31 Continue), carrying an
					// Observe option: not a registration
					seq := uint32(e.Seq)
					p.respond(mid, tok, []codes.Code{codes.Changed, codes.Created, codes.Deleted, codes.Continue}[e.Seq%4], &seq, "first")
				default:
					p.respond(mid, tok, codes.NotFound, nil, "")
				}
				applied = true
				hooks.WaitFor(conns.WD, func() bool { mu.Lock(); defer mu.Unlock(); return ret[e.K] != "none" })
			}
		case "giveup":
			// the caller's context ends while Observe() waits for the first answer; on a datagram connection the
			// request is acknowledged first (otherwise the call is still in the wait for the acknowledgement)
			tok, mid, found := p.findRequest(path, 0)
			mu.Lock()
			cf := giveup[e.K]
			mu.Unlock()
			if found && cf != nil {
				p.ack(mid, tok)
				cf()
				applied = true
				hooks.WaitFor(conns.WD, func() bool { mu.Lock(); defer mu.Unlock(); return ret[e.K] != "none" })
			}
		case "notify":
			mu.Lock()
			tok := toks[e.K]
			mu.Unlock()
			if tok != nil {
				p.notify(tok, uint32(e.Seq), "n")
				applied = true
			}
		case "cancelgiveup":
			mu.Lock()
			o := obsH[e.K]
			mu.Unlock()
			if o != nil {
				cctx, ccancel := context.WithCancel(context.Background())
				done := make(chan error, 1)
				go func() { done <- o.Cancel(cctx) }()
				// the deregistration goes out (datagram: it is acknowledged), nobody answers it, the caller gives up
				var mid int32
				var tok []byte
				if hooks.WaitFor(conns.WD, func() bool {
					p.settle()
					t, m, found := p.findRequest(path, 1)
					tok, mid = t, m
					return found
				}) {
					p.ack(mid, tok)
				}
				ccancel()
				select {
				case err := <-done:
					mu.Lock()
					if err != nil {
						canc[e.K] = "err"
					} else {
						canc[e.K] = "ok"
					}
					mu.Unlock()
				case <-time.After(conns.WD):
					tr.Hung = true
				}
				applied = true
			}
		case "cancel":
			mu.Lock()
			o := obsH[e.K]
			mu.Unlock()
			if o != nil {
				done := make(chan error, 1)
				go func() { done <- o.Cancel(context.Background()) }()
				// answer the deregistration request
				var tok []byte
				var mid int32
				if hooks.WaitFor(conns.WD, func() bool {
					p.settle()
					t, m, found := p.findRequest(path, 1)
					tok, mid = t, m
					return found
				}) {
					p.respond(mid, tok, codes.Content, nil, "bye")
				}
				select {
				case err := <-done:
					mu.Lock()
					if err != nil {
						canc[e.K] = "err"
					} else {
						canc[e.K] = "ok"
					}
					mu.Unlock()
				case <-time.After(conns.WD):
					tr.Hung = true
				}
				applied = true
			}
		}
		p.settle()
		time.Sleep(300 * time.Microsecond)
		p.settle()
		mu.Lock()
		out := EvOut{Ev: e, Applied: applied, ExpCb: s.Cb, Calls: append([]Call{}, calls...), Ret: ret[e.K], Cancel: canc[e.K], NObs: p.nobs()}
		calls = nil
		mu.Unlock()
		tr.Ev = append(tr.Ev, out)
	}
	tr.EndObs = p.nobs()
	return tr
}

// ---- udp peer ------------------------------------------------------------------------------------------
type udpPeer struct {
	u        *conns.UDP
	seen     int
	reqs     []memnet.Dgram
	answered map[int32]bool
	mid      int32
}

// zeroTokens: the connection's token source hands out tokens that differ only in the number of leading zero bytes (01, 00 01,
// 00 00 01, 00 00 00 01, 02, 00 02, ...): distinct tokens that a sloppy table key would confuse
func zeroTokens() func() (message.Token, error) {
	var n atomic.Uint32
	return func() (message.Token, error) {
		k := n.Add(1) - 1
		v := k/4 + 1
		tok := make([]byte, k%4, 8)
		if v > 0xff {
			tok = append(tok, byte(v>>8))
		}
		return append(tok, byte(v)), nil
	}
}

func newUDPPeer() *udpPeer {
	return &udpPeer{u: conns.NewUDP(func(cfg *udpclient.Config) { cfg.TransmissionNStart = 8; cfg.GetToken = zeroTokens() }), answered: map[int32]bool{}, mid: 40000}
}
func (p *udpPeer) observe(ctx context.Context, path string, cb func(*pool.Message)) (interface {
	Cancel(ctx context.Context, opts ...message.Option) error
}, error) {
	return p.u.CC.Observe(ctx, path, cb)
}
func (p *udpPeer) scan() {
	for _, raw := range p.u.Sess.Out(p.seen) {
		p.seen++
		d, err := memnet.Parse(raw)
		if err == nil && d.Code == int(codes.GET) {
			p.reqs = append(p.reqs, d)
		}
	}
}
func (p *udpPeer) findRequest(path string, observe uint32) ([]byte, int32, bool) {
	p.scan()
	for i := len(p.reqs) - 1; i >= 0; i-- {
		d := p.reqs[i]
		pp, _ := d.Opts.Path()
		ov, err := d.Opts.Observe()
		if pp == path && err == nil && ov == observe && !p.answered[d.MID] {
			return d.Token, d.MID, true
		}
	}
	return nil, 0, false
}
func (p *udpPeer) respond(mid int32, tok []byte, code codes.Code, obs *uint32, pay string) {
	p.answered[mid] = true
	var opts message.Options
	if obs != nil {
		opts = message.Options{{ID: message.Observe, Value: encUint(*obs)}}
	}
	var body []byte
	if pay != "" {
		body = []byte(pay)
	}
	_ = p.u.Inject(memnet.Build(message.Acknowledgement, int(code), mid, tok, opts, body))
}
func (p *udpPeer) notify(tok []byte, seq uint32, pay string) {
	p.mid++
	_ = p.u.Inject(memnet.Build(message.NonConfirmable, int(codes.Content), p.mid, tok, message.Options{{ID: message.Observe, Value: encUint(seq)}}, []byte(pay)))
}
func (p *udpPeer) ack(mid int32, _ []byte) {
	p.answered[mid] = true
	_ = p.u.Inject(memnet.Build(message.Acknowledgement, int(codes.Empty), mid, nil, nil, nil))
}
func (p *udpPeer) settle() { p.u.Quiesce() }
func (p *udpPeer) nobs() int {
	o, _, _ := p.u.CC.VerifAux()
	return len(o)
}
func (p *udpPeer) close() { p.u.Close() }

// ---- tcp peer ------------------------------------------------------------------------------------------
type tcpPeer struct {
	t        *conns.TCP
	off      int
	reqs     []conns.TFrame
	answered map[string]bool
	n        int
}

func newTCPPeer() *tcpPeer {
	p := &tcpPeer{t: conns.NewTCP(func(cfg *tcpclient.Config) { cfg.GetToken = zeroTokens() }), answered: map[string]bool{}}
	p.t.Settle()
	return p
}
func (p *tcpPeer) observe(ctx context.Context, path string, cb func(*pool.Message)) (interface {
	Cancel(ctx context.Context, opts ...message.Option) error
}, error) {
	return p.t.CC.Observe(ctx, path, cb)
}
func (p *tcpPeer) scan() {
	b := p.t.Stream.Written(p.off)
	frames, rest := conns.Frames(b)
	p.off += len(b) - len(rest)
	for _, f := range frames {
		if f.Code == int(codes.GET) {
			p.reqs = append(p.reqs, f)
		}
	}
}
func (p *tcpPeer) findRequest(path string, observe uint32) ([]byte, int32, bool) {
	p.scan()
	for i := len(p.reqs) - 1; i >= 0; i-- {
		f := p.reqs[i]
		pp, _ := f.Opts.Path()
		ov, err := f.Opts.Observe()
		key := fmt.Sprintf("%x/%d/%d", f.Token, observe, i)
		if pp == path && err == nil && ov == observe && !p.answered[key] {
			return f.Token, int32(i), true
		}
	}
	return nil, 0, false
}
func (p *tcpPeer) respond(mid int32, tok []byte, code codes.Code, obs *uint32, pay string) {
	for o := uint32(0); o <= 1; o++ {
		p.answered[fmt.Sprintf("%x/%d/%d", tok, o, mid)] = true
	}
	var opts message.Options
	if obs != nil {
		opts = message.Options{{ID: message.Observe, Value: encUint(*obs)}}
	}
	var body []byte
	if pay != "" {
		body = []byte(pay)
	}
	p.t.Feed(conns.Frame(int(code), tok, opts, body))
}
func (p *tcpPeer) notify(tok []byte, seq uint32, pay string) {
	p.t.Feed(conns.Frame(int(codes.Content), tok, message.Options{{ID: message.Observe, Value: encUint(seq)}}, []byte(pay)))
}
func (p *tcpPeer) ack(mid int32, tok []byte) {
	for o := uint32(0); o <= 1; o++ {
		p.answered[fmt.Sprintf("%x/%d/%d", tok, o, mid)] = true
	}
}
func (p *tcpPeer) settle() { p.t.Settle() }
func (p *tcpPeer) nobs() int {
	o, _, _ := p.t.CC.VerifAux()
	return len(o)
}
func (p *tcpPeer) close() { p.t.Close() }

// Run replays every stimulus on both transports, one after the other (one virtual clock).
func Run(stimPath, out string) {
	f := func() time.Time { return base.Add(time.Duration(vnow.Load()) * time.Second) }
	observation.VerifNow.Store(&f)
	defer observation.VerifNow.Store(nil)
	fh, err := os.Open(stimPath)
	if err != nil {
		rec.Die("open: %v", err)
	}
	defer fh.Close()
	wr := rec.Create(out)
	defer wr.Close()
	sc := bufio.NewScanner(fh)
	sc.Buffer(make([]byte, 1<<20), 64<<20)
	for sc.Scan() {
		var st Stim
		if err := json.Unmarshal(sc.Bytes(), &st); err != nil {
			rec.Die("stimulus: %v", err)
		}
		wr.Put(runOne(st, "udp"))
		wr.Put(runOne(st, "tcp"))
	}
}
