package c08

import (
	"context"
	"runtime"
	"sync"
	"sync/atomic"
	"time"

	"github.com/plgd-dev/go-coap/v3/message"
	"github.com/plgd-dev/go-coap/v3/message/codes"
	"github.com/plgd-dev/go-coap/v3/message/pool"
	udpclient "github.com/plgd-dev/go-coap/v3/udp/client"
	udpcoder "github.com/plgd-dev/go-coap/v3/udp/coder"

	"verifharness/internal/conns"
	"verifharness/internal/hooks"
	"verifharness/internal/memnet"
	"verifharness/internal/rec"
)

// StressRec: one observation on a real udp connection; the peer sends every notification twice (and now and then the
// previous one again) as fast as it can while two application goroutines keep issuing requests on the same connection -
// every request replaces the connection's read loop, so for a moment two loops dispatch notifications of the
// observation at the same time. Within 128 s a notification is delivered only if it is fresher than the last one
// delivered - a strict order - so no sequence number may reach the callback twice. (The ORDER in which two callbacks
// that run at the same time get to record themselves says nothing, and is not judged.)
type StressRec struct {
	Op        string `json:"op"` // stress
	Burst     int    `json:"burst"`
	Sent      int    `json:"sent"`      // notifications sent (copies included)
	Delivered int    `json:"delivered"` // callback invocations
	Twice     int    `json:"twice"`     // sequence numbers that reached the callback more than once
	First     int    `json:"first"`     // the first such number
	Foreign   int    `json:"foreign"`   // invocations with a foreign token
	Requests  int    `json:"requests"`  // requests completed by the application goroutines meanwhile
	Setup     bool   `json:"setup"`     // the observation was registered
}

func stressBurst(burst int, d time.Duration) StressRec {
	r := StressRec{Op: "stress", Burst: burst}
	u := conns.NewUDP(func(cfg *udpclient.Config) { cfg.TransmissionNStart = 8 })
	defer u.Close()
	var mu sync.Mutex
	seen := map[uint32]int{}
	var otok []byte
	cb := func(n *pool.Message) {
		seq, err := n.Observe()
		mu.Lock()
		defer mu.Unlock()
		r.Delivered++
		if err != nil {
			return
		}
		if otok != nil && string(n.Token()) != string(otok) {
			r.Foreign++
		}
		seen[seq]++
	}
	// the peer answers every request at once (piggybacked); the registration with Observe = 1
	var reqs atomic.Int64
	u.Sess.OnWrite = func(raw []byte) {
		q, err := memnet.Parse(raw)
		if err != nil || q.Code != int(codes.GET) || q.Type != message.Confirmable {
			return
		}
		var opts message.Options
		if v, err := q.Opts.Observe(); err == nil && v == 0 {
			opts = message.Options{{ID: message.Observe, Value: []byte{1}}}
		}
		go func() {
			_ = u.InjectNoWait(memnet.Build(message.Acknowledgement, int(codes.Content), q.MID, q.Token, opts, []byte("r")))
		}()
	}
	ctx, cancel := context.WithTimeout(context.Background(), 5*time.Second)
	defer cancel()
	obs, err := u.CC.Observe(ctx, "/obs", cb)
	if err != nil {
		return r
	}
	r.Setup = true
	for _, raw := range u.Sess.Out(0) {
		if q, err := memnet.Parse(raw); err == nil {
			if v, err := q.Opts.Observe(); err == nil && v == 0 {
				otok = q.Token
			}
		}
	}
	stop := make(chan struct{})
	var wg sync.WaitGroup
	for g := 0; g < 2; g++ {
		wg.Add(1)
		go func() {
			defer wg.Done()
			for {
				select {
				case <-stop:
					return
				default:
				}
				c2, cancel2 := context.WithTimeout(context.Background(), time.Second)
				if resp, err := u.CC.Get(c2, "/x"); err == nil {
					u.CC.ReleaseMessage(resp)
					reqs.Add(1)
				}
				cancel2()
			}
		}()
	}
	mid := int32(20000)
	note := func(seq uint32) {
		mid = 20000 + (mid-20000+1)%40000
		_ = u.InjectNoWait(memnet.Build(message.NonConfirmable, int(codes.Content), mid, otok, message.Options{{ID: message.Observe, Value: encUint(seq)}}, []byte("n")))
		r.Sent++
	}
	deadline := time.Now().Add(d)
	for seq := uint32(2); time.Now().Before(deadline); seq++ {
		note(seq)
		note(seq)
		if seq%3 == 0 {
			note(seq - 1)
			note(seq)
		}
	}
	close(stop)
	wg.Wait()
	hooks.Quiesce(u.CC, conns.WD)
	// the same overlap, forced: four dispatchers (what the read loops call: Conn.ProcessReceivedMessage) released together by
	// a spin barrier, each with its own copy of notification n or n+1
	base := uint32(1 << 20)
	for round := uint32(0); round < 300; round++ {
		var ready atomic.Int64
		var dw sync.WaitGroup
		for g := uint32(0); g < 4; g++ {
			seq := base + 2*round + g%2
			mid = 20000 + (mid-20000+1)%40000
			raw := memnet.Build(message.NonConfirmable, int(codes.Content), mid, otok, message.Options{{ID: message.Observe, Value: encUint(seq)}}, []byte("n"))
			m := u.CC.AcquireMessage(u.CC.Context())
			if _, err := m.UnmarshalWithDecoder(udpcoder.DefaultCoder, raw); err != nil {
				rec.Die("c08: unmarshal: %v", err)
			}
			dw.Add(1)
			go func() {
				defer dw.Done()
				ready.Add(1)
				for ready.Load() < 4 {
					runtime.Gosched()
				}
				u.CC.ProcessReceivedMessage(m)
			}()
			r.Sent++
		}
		dw.Wait()
	}
	_ = obs.Cancel(ctx)
	mu.Lock()
	for seq, n := range seen {
		if n > 1 {
			r.Twice++
			if r.First == 0 || int(seq) < r.First {
				r.First = int(seq)
			}
		}
	}
	mu.Unlock()
	r.Requests = int(reqs.Load())
	return r
}

// Stress runs n bursts.
func Stress(out string, n int) {
	w := rec.Create(out)
	defer w.Close()
	for b := 0; b < n; b++ {
		w.Put(stressBurst(b+1, 120*time.Millisecond))
	}
}
