package c03

import (
	"context"
	"fmt"
	"strings"
	"time"

	"github.com/plgd-dev/go-coap/v3/message"
	"github.com/plgd-dev/go-coap/v3/message/codes"
	"github.com/plgd-dev/go-coap/v3/net/blockwise"
	udpclient "github.com/plgd-dev/go-coap/v3/udp/client"

	"verifharness/internal/conns"
	"verifharness/internal/memnet"
)

// reuseAfterEnd: a request whose response is a block-wise body (48 bytes in blocks of 16) ends without its response - its
// deadline (300 ms, shorter than the transfer timeout) passes (how = "timeout") - after the first block arrived; once it has
// returned, the application issues the next request with the same token for another resource. The peer answers every block
// request with that block of the content of the requested path. "Every request call that returns successfully returns ... the
// content the peer produced for that request": the second call's body is the second resource's, with nothing of the first's.
func reuseAfterEnd(burst, rounds int, how string) StressRec {
	r := StressRec{Op: "stress", Burst: burst, Transport: "udp-token-reuse-after-" + how}
	u := conns.NewUDP(func(cfg *udpclient.Config) {
		cfg.TransmissionNStart = 4
		cfg.BlockwiseEnable = true
		cfg.BlockwiseSZX = blockwise.SZX16
	})
	defer u.Close()
	content := func(p string) []byte {
		return []byte(strings.Repeat(fmt.Sprintf("<%-14s>", p), 3)) // 3 blocks of 16
	}
	stop := make(chan struct{})
	defer close(stop)
	silent := make(chan string, 1) // path whose block 1 is never answered
	go func() {
		seen := 0
		mute := ""
		for {
			select {
			case <-stop:
				return
			case mute = <-silent:
			default:
			}
			for _, raw := range u.Sess.Out(seen) {
				seen++
				d, err := memnet.Parse(raw)
				if err != nil || d.Code != int(codes.GET) {
					continue
				}
				p, _ := d.Opts.Path()
				num := 0
				if bv, err := d.Opts.GetUint32(message.Block2); err == nil {
					num = int(bv >> 4)
				}
				if p == mute && num >= 1 {
					continue
				}
				c := content(p)
				if num*16 >= len(c) {
					continue
				}
				end := num*16 + 16
				more := uint32(8)
				if end >= len(c) {
					end, more = len(c), 0
				}
				buf := make([]byte, 8)
				opts := message.Options{}
				opts, _, _ = opts.SetUint32(buf, message.Block2, uint32(num)<<4|more)
				_ = u.InjectNoWait(memnet.Build(message.Acknowledgement, int(codes.Content), d.MID, d.Token, opts, c[num*16:end]))
			}
			time.Sleep(200 * time.Microsecond)
		}
	}()
	get := func(ctx context.Context, tok []byte, p string) (string, error) {
		req, err := u.CC.NewGetRequest(ctx, p)
		if err != nil {
			return "", err
		}
		defer u.CC.ReleaseMessage(req)
		req.SetToken(tok)
		resp, err := u.CC.Do(req)
		if err != nil {
			return "", err
		}
		defer u.CC.ReleaseMessage(resp)
		b, _ := resp.ReadBody()
		return string(b), nil
	}
	for k := 0; k < rounds; k++ {
		tok := []byte{0x52, byte(burst), byte(k >> 8), byte(k)}
		slow, fast := fmt.Sprintf("/slow/%d", k), fmt.Sprintf("/fast/%d", k)
		silent <- slow
		time.Sleep(2 * time.Millisecond)
		ctx, cancel := context.WithTimeout(context.Background(), 300*time.Millisecond)
		if how == "cancel" {
			// the caller gives up (100 ms) long before the deadline (2 s) of its context
			ctx, cancel = context.WithTimeout(context.Background(), 2*time.Second)
			time.AfterFunc(100*time.Millisecond, cancel)
		}
		_, err := get(ctx, tok, slow)
		cancel()
		r.Calls++
		if err == nil {
			r.Wrong++
			if r.First == "" {
				r.First = fmt.Sprintf("round %d: the request whose second block was never sent returned successfully", k)
			}
			continue
		}
		ctx2, cancel2 := context.WithTimeout(context.Background(), 2*time.Second)
		b, err := get(ctx2, tok, fast)
		cancel2()
		r.Calls++
		if err != nil {
			r.Failed++
			continue
		}
		if b != string(content(fast)) {
			r.Wrong++
			if r.First == "" {
				r.First = fmt.Sprintf("round %d: the request for %s issued with the token of the ended request for %s returned %q, the peer produced %q for it", k, fast, slow, b, content(fast))
			}
		}
	}
	return r
}
