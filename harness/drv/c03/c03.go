// Package c03 replays TLC-generated histories (specs/udp/Exchange.tla) of concurrent requests, answers in any
// order/style/duplication and cancellations on real udp and tcp client connections (in-memory transports) and
// records what every request call returned. TLC (RecC03.tla) judges.
package c03

import (
	"bufio"
	"bytes"
	"context"
	"encoding/json"
	"errors"
	"fmt"
	"os"
	"sync"
	"time"

	"github.com/plgd-dev/go-coap/v3/message"
	"github.com/plgd-dev/go-coap/v3/message/codes"
	"github.com/plgd-dev/go-coap/v3/message/pool"
	"github.com/plgd-dev/go-coap/v3/net/responsewriter"
	coapErrors "github.com/plgd-dev/go-coap/v3/pkg/errors"
	tcpclient "github.com/plgd-dev/go-coap/v3/tcp/client"
	udpclient "github.com/plgd-dev/go-coap/v3/udp/client"

	"verifharness/internal/conns"
	"verifharness/internal/hooks"
	"verifharness/internal/memnet"
	"verifharness/internal/rec"
)

type Act struct {
	A string `json:"a"`
	C int    `json:"c"`
	Y string `json:"y"`
}

type Step struct {
	Act Act `json:"act"`
}

type Stim struct {
	T     int    `json:"t"`
	Tok   []int  `json:"tok"`
	Steps []Step `json:"steps"`
}

type Res struct {
	Pc      string `json:"pc"` // idle | out | ok | err | rejected
	Tok     []int  `json:"tok"`
	Pay     []int  `json:"pay"`
	Code    int    `json:"code"`
	Serial  int    `json:"serial"`  // which answer instance was returned (parsed from the payload), 0 if none
	ForC    int    `json:"forc"`    // the caller the returned answer was produced for
	WhenRet int    `json:"whenret"` // index of the event after which the call was seen returned
}

type Ev struct {
	Act     Act   `json:"act"`
	Applied bool  `json:"applied"`
	Res     []Res `json:"res"`
	Tokens  int   `json:"tokens"` // outstanding token continuations in the connection
	Mids    int   `json:"mids"`
}

type Trace struct {
	Transport string  `json:"transport"`
	T         int     `json:"t"`
	Tok       []int   `json:"tok"`
	Ev        []Ev    `json:"ev"`
	Answers   [][]int `json:"answers"` // answers[c-1] = serials produced for caller c
	EndTokens int     `json:"endTokens"`
	EndMids   int     `json:"endMids"`
	Hung      []int   `json:"hung"`
	// what else the connection did with the answers: stray[k] = [caller, serial, n] - answer instance (caller, serial) reached
	// the connection's own handler (the place for messages nobody waits for) n times; sent[k] = [caller, serial, n] - the peer
	// put it on the wire n times (duplicates included)
	Stray [][]int `json:"stray"`
	Sent  [][]int `json:"sent"`
}

type conn interface {
	do(ctx context.Context, tok []byte, path string) (*pool.Message, error)
	release(*pool.Message)
	answer(c int, y string, serial int) bool // false: not applicable
	settle()
	tables() (int, int)
	close()
}

type caller struct {
	state  string
	cancel context.CancelFunc
	res    Res
}

// tokBytes: token ids 1..3 differ only in leading zero bytes (distinct tokens that a sloppy table key would confuse)
func tokBytes(id int) []byte {
	switch id {
	case 1:
		return []byte{0x01}
	case 2:
		return []byte{0x00, 0x01}
	case 3:
		return []byte{0x00, 0x00, 0x01}
	}
	return []byte{0xE0, byte(id)}
}

func runOne(st Stim, transport string) Trace {
	n := len(st.Tok)
	tr := Trace{Transport: transport, T: st.T, Tok: st.Tok, Ev: []Ev{}, Answers: make([][]int, n), Hung: []int{}}
	for i := range tr.Answers {
		tr.Answers[i] = []int{}
	}
	var cn conn
	var mu sync.Mutex
	stray, sent := map[[2]int]int{}, map[[2]int]int{}
	toHandler := func(body []byte) {
		var c, sr int
		if k, _ := fmt.Sscanf(string(body), "ans-%d-%d", &c, &sr); k == 2 {
			mu.Lock()
			stray[[2]int{c, sr}]++
			mu.Unlock()
		}
	}
	if transport == "udp" {
		cn = newUDP(n, toHandler)
	} else {
		cn = newTCP(n, toHandler)
	}
	defer cn.close()
	cs := make([]*caller, n+1)
	for c := 1; c <= n; c++ {
		cs[c] = &caller{state: "idle", res: Res{Pc: "idle", Tok: []int{}, Pay: []int{}}}
	}
	evIdx := 0
	start := func(c int) {
		ctx, cancel := context.WithCancel(context.Background())
		mu.Lock()
		cs[c].state, cs[c].cancel = "out", cancel
		mu.Unlock()
		go func() {
			resp, err := cn.do(ctx, tokBytes(st.Tok[c-1]), fmt.Sprintf("/c%d", c))
			mu.Lock()
			defer mu.Unlock()
			r := Res{Tok: []int{}, Pay: []int{}, WhenRet: evIdx}
			switch {
			case err == nil:
				r.Pc = "ok"
				b, _ := resp.ReadBody()
				r.Tok, r.Pay, r.Code = rec.Bytes(resp.Token()), rec.Bytes(b), int(resp.Code())
				fmt.Sscanf(string(b), "ans-%d-%d", &r.ForC, &r.Serial)
				cn.release(resp)
			case errors.Is(err, coapErrors.ErrKeyAlreadyExists):
				r.Pc = "rejected"
			default:
				r.Pc = "err"
			}
			cs[c].state, cs[c].res = r.Pc, r
		}()
	}
	snap := func(a Act, applied bool) Ev {
		// stable: no caller changes state for 2 ms
		last, since := "", time.Now()
		hooks.WaitFor(2*time.Second, func() bool {
			mu.Lock()
			cur := ""
			for c := 1; c <= n; c++ {
				cur += cs[c].state + ","
			}
			mu.Unlock()
			if cur != last {
				last, since = cur, time.Now()
			}
			return time.Since(since) > 2*time.Millisecond
		})
		ev := Ev{Act: a, Applied: applied, Res: []Res{}}
		mu.Lock()
		for c := 1; c <= n; c++ {
			r := cs[c].res
			r.Pc = cs[c].state
			ev.Res = append(ev.Res, r)
		}
		mu.Unlock()
		ev.Tokens, ev.Mids = cn.tables()
		return ev
	}
	for i, s := range st.Steps {
		a := s.Act
		mu.Lock()
		evIdx = i + 1
		state := cs[a.C].state
		mu.Unlock()
		applied := false
		switch a.A {
		case "start":
			if state == "idle" {
				// the call runs on a goroutine of its own: the history goes on once it has registered its token (or has
				// returned - refused), however long the scheduler takes to get there
				t0, _ := cn.tables()
				start(a.C)
				hooks.WaitFor(2*time.Second, func() bool {
					t, _ := cn.tables()
					mu.Lock()
					defer mu.Unlock()
					return t > t0 || cs[a.C].state != "out"
				})
				applied = true
			}
		case "answer":
			serial := len(tr.Answers[a.C-1]) + 1
			if a.Y == "dup" {
				serial = len(tr.Answers[a.C-1])
			}
			// the request must have reached the peer side first
			cn.settle()
			if cn.answer(a.C, a.Y, serial) {
				applied = true
				mu.Lock()
				sent[[2]int{a.C, serial}]++
				mu.Unlock()
				if a.Y != "dup" {
					tr.Answers[a.C-1] = append(tr.Answers[a.C-1], serial)
				}
			}
		case "cancel":
			mu.Lock()
			cancel := cs[a.C].cancel
			mu.Unlock()
			if state == "out" && cancel != nil {
				cancel()
				applied = true
			}
		}
		cn.settle()
		tr.Ev = append(tr.Ev, snap(a, applied))
	}
	// end: cancel whoever is still waiting; everything must return and the tables must be empty
	mu.Lock()
	for c := 1; c <= n; c++ {
		if cs[c].state == "out" && cs[c].cancel != nil {
			cs[c].cancel()
		}
	}
	mu.Unlock()
	hooks.WaitFor(3*time.Second, func() bool {
		mu.Lock()
		defer mu.Unlock()
		for c := 1; c <= n; c++ {
			if cs[c].state == "out" {
				return false
			}
		}
		return true
	})
	mu.Lock()
	for c := 1; c <= n; c++ {
		if cs[c].state == "out" {
			tr.Hung = append(tr.Hung, c)
		}
	}
	mu.Unlock()
	tr.EndTokens, tr.EndMids = cn.tables()
	tr.Stray, tr.Sent = [][]int{}, [][]int{}
	mu.Lock()
	for k, v := range stray {
		tr.Stray = append(tr.Stray, []int{k[0], k[1], v})
	}
	for k, v := range sent {
		tr.Sent = append(tr.Sent, []int{k[0], k[1], v})
	}
	mu.Unlock()
	return tr
}

// ---- udp ---------------------------------------------------------------------------------------
type udpConn struct {
	u    *conns.UDP
	mu   sync.Mutex
	seen int
	reqs map[int]memnet.Dgram // caller -> its request as seen by the peer
	last map[int][][]byte
	mid  int32
}

func newUDP(n int, toHandler func([]byte)) *udpConn {
	c := &udpConn{reqs: map[int]memnet.Dgram{}, last: map[int][][]byte{}, mid: 30000}
	c.u = conns.NewUDP(func(cfg *udpclient.Config) {
		cfg.TransmissionNStart = uint32(n + 1)
		cfg.Handler = func(_ *responsewriter.ResponseWriter[*udpclient.Conn], r *pool.Message) {
			b, _ := r.ReadBody()
			toHandler(b)
		}
	})
	return c
}

func (c *udpConn) do(ctx context.Context, tok []byte, path string) (*pool.Message, error) {
	req, err := c.u.CC.NewGetRequest(ctx, path)
	if err != nil {
		return nil, err
	}
	defer c.u.CC.ReleaseMessage(req)
	req.SetToken(tok)
	return c.u.CC.Do(req)
}
func (c *udpConn) release(m *pool.Message) { c.u.CC.ReleaseMessage(m) }
func (c *udpConn) scan() {
	for _, raw := range c.u.Sess.Out(c.seen) {
		c.seen++
		d, err := memnet.Parse(raw)
		if err != nil || d.Code != int(codes.GET) {
			continue
		}
		p, _ := d.Opts.Path()
		var k int
		if _, err := fmt.Sscanf(p, "/c%d", &k); err == nil {
			if _, ok := c.reqs[k]; !ok {
				c.reqs[k] = d
			}
		}
	}
}
func (c *udpConn) settle() {
	c.u.Quiesce()
	time.Sleep(300 * time.Microsecond)
	c.mu.Lock()
	c.scan()
	c.mu.Unlock()
}
func (c *udpConn) answer(k int, y string, serial int) bool {
	c.mu.Lock()
	c.scan()
	q, ok := c.reqs[k]
	c.mu.Unlock()
	if !ok {
		return false
	}
	pay := []byte(fmt.Sprintf("ans-%d-%d", k, serial))
	var ds [][]byte
	switch y {
	case "piggy":
		ds = [][]byte{memnet.Build(message.Acknowledgement, int(codes.Content), q.MID, q.Token, nil, pay)}
	case "sep":
		c.mid++
		ds = [][]byte{memnet.Build(message.Acknowledgement, int(codes.Empty), q.MID, nil, nil, nil),
			memnet.Build(message.NonConfirmable, int(codes.Content), c.mid, q.Token, nil, pay)}
	case "bare":
		c.mid++
		ds = [][]byte{memnet.Build(message.NonConfirmable, int(codes.Content), c.mid, q.Token, nil, pay)}
	case "dup":
		ds = c.last[k]
		if len(ds) == 0 {
			return false
		}
	}
	c.last[k] = ds
	for _, d := range ds {
		_ = c.u.Inject(d)
	}
	return true
}
func (c *udpConn) tables() (int, int) { vs := c.u.CC.VerifState(); return len(vs.Tokens), len(vs.Mids) }
func (c *udpConn) close()             { c.u.Close() }

// ---- tcp ---------------------------------------------------------------------------------------
type tcpConn struct {
	t    *conns.TCP
	mu   sync.Mutex
	off  int
	reqs map[int]conns.TFrame
	last map[int][]byte
}

func newTCP(_ int, toHandler func([]byte)) *tcpConn {
	c := &tcpConn{reqs: map[int]conns.TFrame{}, last: map[int][]byte{}}
	c.t = conns.NewTCP(func(cfg *tcpclient.Config) {
		cfg.Handler = func(_ *responsewriter.ResponseWriter[*tcpclient.Conn], r *pool.Message) {
			b, _ := r.ReadBody()
			toHandler(b)
		}
	})
	c.t.Settle()
	return c
}
func (c *tcpConn) do(ctx context.Context, tok []byte, path string) (*pool.Message, error) {
	req, err := c.t.CC.NewGetRequest(ctx, path)
	if err != nil {
		return nil, err
	}
	defer c.t.CC.ReleaseMessage(req)
	req.SetToken(tok)
	return c.t.CC.Do(req)
}
func (c *tcpConn) release(m *pool.Message) { c.t.CC.ReleaseMessage(m) }
func (c *tcpConn) scan() {
	b := c.t.Stream.Written(c.off)
	frames, rest := conns.Frames(b)
	c.off += len(b) - len(rest)
	for _, f := range frames {
		if f.Code != int(codes.GET) {
			continue
		}
		p, _ := f.Opts.Path()
		var k int
		if _, err := fmt.Sscanf(p, "/c%d", &k); err == nil {
			if _, ok := c.reqs[k]; !ok {
				c.reqs[k] = f
			}
		}
	}
}
func (c *tcpConn) settle() {
	c.t.Settle()
	time.Sleep(300 * time.Microsecond)
	c.mu.Lock()
	c.scan()
	c.mu.Unlock()
}
func (c *tcpConn) answer(k int, y string, serial int) bool {
	c.mu.Lock()
	c.scan()
	q, ok := c.reqs[k]
	c.mu.Unlock()
	if !ok {
		return false
	}
	var f []byte
	if y == "dup" {
		f = c.last[k]
		if f == nil {
			return false
		}
	} else {
		f = conns.Frame(int(codes.Content), q.Token, nil, []byte(fmt.Sprintf("ans-%d-%d", k, serial)))
	}
	c.last[k] = f
	return c.t.Feed(f)
}
func (c *tcpConn) tables() (int, int) { return len(c.t.CC.VerifState().Tokens), 0 }
func (c *tcpConn) close()             { c.t.Close() }

var _ = bytes.Equal

// Run replays every stimulus on both transports.
func Run(stimPath, out string) {
	f, err := os.Open(stimPath)
	if err != nil {
		rec.Die("open: %v", err)
	}
	defer f.Close()
	wr := rec.Create(out)
	defer wr.Close()
	sc := bufio.NewScanner(f)
	sc.Buffer(make([]byte, 1<<20), 64<<20)
	var stims []Stim
	for sc.Scan() {
		var st Stim
		if err := json.Unmarshal(sc.Bytes(), &st); err != nil {
			rec.Die("stimulus: %v", err)
		}
		stims = append(stims, st)
	}
	res := make([]Trace, 2*len(stims))
	var wg sync.WaitGroup
	sem := make(chan struct{}, 8)
	for i := range stims {
		for k, tp := range []string{"udp", "tcp"} {
			wg.Add(1)
			sem <- struct{}{}
			go func(i, k int, tp string) {
				defer wg.Done()
				res[2*i+k] = runOne(stims[i], tp)
				<-sem
			}(i, k, tp)
		}
	}
	wg.Wait()
	for _, t := range res {
		wr.Put(t)
	}
}
