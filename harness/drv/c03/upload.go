package c03

import (
	"bytes"
	"context"
	"fmt"
	"time"

	"github.com/plgd-dev/go-coap/v3/message"
	"github.com/plgd-dev/go-coap/v3/message/codes"
	"github.com/plgd-dev/go-coap/v3/net/blockwise"
	udpclient "github.com/plgd-dev/go-coap/v3/udp/client"

	"verifharness/internal/conns"
	"verifharness/internal/memnet"
)

// sameTokenUpload: "a second request issued with a token that is still outstanding is rejected rather than displacing the
// first" when the first is in the middle of a block-wise upload (100 bytes in blocks of 16): after the third block a second
// caller issues a GET with the same token. It is refused without reaching the wire, and the upload goes on: every further
// 2.31 Continue is consumed by the transfer, the caller gets the final 2.04 with the content the peer produced for it.
func sameTokenUpload(burst, rounds int) StressRec {
	r := StressRec{Op: "stress", Burst: burst, Transport: "udp-same-token-upload"}
	u := conns.NewUDP(func(cfg *udpclient.Config) {
		cfg.TransmissionNStart = 4
		cfg.BlockwiseEnable = true
		cfg.BlockwiseSZX = blockwise.SZX16
	})
	defer u.Close()
	seen := 0
	next := func() (memnet.Dgram, bool) {
		var got memnet.Dgram
		ok := hooksWait(func() bool {
			for _, raw := range u.Sess.Out(seen) {
				seen++
				if d, err := memnet.Parse(raw); err == nil && d.Code != int(codes.Empty) {
					got = d
					return true
				}
			}
			return false
		})
		return got, ok
	}
	body := make([]byte, 100)
	for i := range body {
		body[i] = byte('a' + i%26)
	}
	fail := func(k int, f string, a ...any) {
		r.Wrong++
		if r.First == "" {
			r.First = fmt.Sprintf("round %d: ", k) + fmt.Sprintf(f, a...)
		}
	}
	for k := 0; k < rounds; k++ {
		tok := []byte{0x55, byte(burst), byte(k >> 8), byte(k)}
		type res struct {
			code codes.Code
			body string
			err  error
		}
		done := make(chan res, 1)
		go func() {
			ctx, cancel := context.WithTimeout(context.Background(), 3*time.Second)
			defer cancel()
			req, err := u.CC.NewPostRequest(ctx, fmt.Sprintf("/up/%d", k), message.TextPlain, bytes.NewReader(body))
			if err != nil {
				done <- res{err: err}
				return
			}
			defer u.CC.ReleaseMessage(req)
			req.SetToken(tok)
			resp, err := u.CC.Do(req)
			if err != nil {
				done <- res{err: err}
				return
			}
			defer u.CC.ReleaseMessage(resp)
			b, _ := resp.ReadBody()
			done <- res{code: resp.Code(), body: string(b)}
		}()
		r.Calls++
		var up []byte
		finished := false
		for blk := 0; blk < 16 && !finished; blk++ {
			d, ok := next()
			if !ok {
				break
			}
			if p, _ := d.Opts.Path(); d.Code != int(codes.POST) || p != fmt.Sprintf("/up/%d", k) {
				fail(k, "a request for %q (code %d) with the token of the upload reached the wire", p, d.Code)
				blk--
				continue
			}
			bv, err := d.Opts.GetUint32(message.Block1)
			if err != nil {
				fail(k, "upload block without Block1")
				break
			}
			more := bv&0x8 != 0
			up = append(up, d.Payload...)
			if blk == 2 {
				// the second caller, same token, while the upload is open
				ctx, cancel := context.WithTimeout(context.Background(), 300*time.Millisecond)
				req, err := u.CC.NewGetRequest(ctx, fmt.Sprintf("/other/%d", k))
				if err == nil {
					req.SetToken(tok)
					resp, err := u.CC.Do(req)
					if err == nil {
						fail(k, "the second request with the outstanding token was admitted and returned %v", resp.Code())
						u.CC.ReleaseMessage(resp)
					}
					u.CC.ReleaseMessage(req)
				}
				cancel()
				r.Calls++
			}
			buf := make([]byte, 8)
			opts := message.Options{}
			opts, _, _ = opts.SetUint32(buf, message.Block1, bv)
			if more {
				_ = u.InjectNoWait(memnet.Build(message.Acknowledgement, int(codes.Continue), d.MID, tok, opts, nil))
			} else {
				_ = u.InjectNoWait(memnet.Build(message.Acknowledgement, int(codes.Changed), d.MID, tok, opts, []byte(fmt.Sprintf("done-up-%d", k))))
				finished = true
			}
		}
		select {
		case x := <-done:
			switch {
			case x.err != nil:
				r.Failed++
				fail(k, "the upload that owns the token ended with %v after a second request with its token was refused (finished on the wire: %v)", x.err, finished)
			case x.code != codes.Changed || x.body != fmt.Sprintf("done-up-%d", k):
				fail(k, "the upload that owns the token returned %v %q, the peer produced 2.04 %q for it (blocks received: %d bytes, finished on the wire: %v)", x.code, x.body, fmt.Sprintf("done-up-%d", k), len(up), finished)
			case !bytes.Equal(up, body):
				fail(k, "the peer received %d bytes of the 100-byte upload", len(up))
			}
		case <-time.After(5 * time.Second):
			r.Failed++
			fail(k, "the upload that owns the token did not return")
		}
	}
	return r
}
