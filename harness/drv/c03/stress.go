package c03

import (
	"bytes"
	"context"
	"fmt"
	"runtime"
	"sync"
	"sync/atomic"
	"time"

	"github.com/plgd-dev/go-coap/v3/message"
	"github.com/plgd-dev/go-coap/v3/message/codes"
	"github.com/plgd-dev/go-coap/v3/message/pool"
	"github.com/plgd-dev/go-coap/v3/net/blockwise"
	"github.com/plgd-dev/go-coap/v3/net/responsewriter"
	tcpclient "github.com/plgd-dev/go-coap/v3/tcp/client"
	udpclient "github.com/plgd-dev/go-coap/v3/udp/client"

	"verifharness/internal/conns"
	"verifharness/internal/memnet"
	"verifharness/internal/rec"
)

// StressRec: free-running callers on one real udp connection; the peer (the driver) acknowledges every request and
// answers it with a separate confirmable response built from the request's own path; every caller releases its response
// the moment it has looked at it (as the API documentation asks).
type StressRec struct {
	Op        string `json:"op"` // stress
	Transport string `json:"transport"`
	Burst     int    `json:"burst"`
	Calls     int    `json:"calls"`
	Wrong     int    `json:"wrong"`  // calls that returned successfully with a foreign / empty token or foreign content
	Failed    int    `json:"failed"` // calls that returned an error
	GaveUp    int    `json:"gaveup"` // calls whose context was cancelled at the moment their response arrived (they may fail: not counted in Failed)
	First     string `json:"first"`
}

func stressBurst(burst int, callers int, d time.Duration) StressRec {
	r := StressRec{Op: "stress", Burst: burst, Transport: "udp"}
	u := conns.NewUDP(func(cfg *udpclient.Config) {
		cfg.TransmissionNStart = uint32(callers + 1)
		cfg.LimitClientParallelRequests = int64(callers + 1)
		cfg.LimitClientEndpointParallelRequests = int64(callers + 1)
	})
	defer u.Close()
	// the peer: a goroutine of its own
	in := make(chan []byte, 1024)
	u.Sess.OnWrite = func(raw []byte) {
		select {
		case in <- raw:
		default:
		}
	}
	// every third call of a caller gives up at the very moment its response arrives: the peer cancels the caller's context
	// right before it hands the response over (the call may return the response or the context's error - never anything else,
	// and whatever it leaves behind must not reach the caller's NEXT request)
	var cancels sync.Map // token -> context.CancelFunc
	stop := make(chan struct{})
	var peerWG sync.WaitGroup
	peerWG.Add(1)
	go func() {
		defer peerWG.Done()
		mid := int32(40000)
		for {
			select {
			case <-stop:
				return
			case raw := <-in:
				q, err := memnet.Parse(raw)
				if err != nil || q.Code != int(codes.GET) || q.Type != message.Confirmable {
					continue
				}
				p, _ := q.Opts.Path()
				_ = u.InjectNoWait(memnet.Build(message.Acknowledgement, int(codes.Empty), q.MID, nil, nil, nil))
				mid++
				if cf, ok := cancels.LoadAndDelete(string(q.Token)); ok {
					go cf.(context.CancelFunc)()
				}
				_ = u.InjectNoWait(memnet.Build(message.Confirmable, int(codes.Content), mid, q.Token, nil, []byte("content-for-"+p)))
			}
		}
	}()
	var calls, wrong, failed, gaveup atomic.Int64
	var firstMu sync.Mutex
	deadline := time.Now().Add(d)
	var wg sync.WaitGroup
	for c := 0; c < callers; c++ {
		wg.Add(1)
		go func(c int) {
			defer wg.Done()
			for k := 0; time.Now().Before(deadline); k++ {
				path := fmt.Sprintf("/s%d/%d", c, k)
				tok := []byte{0x5C, byte(c), byte(k >> 8), byte(k)}
				ctx, cancel := context.WithTimeout(context.Background(), 2*time.Second)
				req, err := u.CC.NewGetRequest(ctx, path)
				if err != nil {
					cancel()
					failed.Add(1)
					continue
				}
				req.SetToken(tok)
				giveUp := k%3 == 1
				if giveUp {
					cancels.Store(string(tok), cancel)
					gaveup.Add(1)
				}
				resp, err := u.CC.Do(req)
				u.CC.ReleaseMessage(req)
				calls.Add(1)
				if err != nil {
					if !giveUp {
						failed.Add(1)
					}
					cancel()
					continue
				}
				b, _ := resp.ReadBody()
				if string(resp.Token()) != string(tok) || string(b) != "content-for-"+path {
					wrong.Add(1)
					firstMu.Lock()
					if r.First == "" {
						r.First = fmt.Sprintf("%s token=%x got token=%x body=%q", path, tok, []byte(resp.Token()), b)
					}
					firstMu.Unlock()
				}
				u.CC.ReleaseMessage(resp) // at once
				cancel()
			}
		}(c)
	}
	wg.Wait()
	close(stop)
	peerWG.Wait()
	r.Calls, r.Wrong, r.Failed, r.GaveUp = int(calls.Load()), int(wrong.Load()), int(failed.Load()), int(gaveup.Load())
	return r
}

// stressTCP: the same between two real tcp connections that have announced Block-Wise-Transfer to each other, joined by
// the driver's relay; every fourth request asks for a body that needs block-wise transfer (the block-wise layer then
// replaces the response writer's message on both sides).
func stressTCP(burst int, callers int, d time.Duration) StressRec {
	r := StressRec{Op: "stress", Burst: burst, Transport: "tcp"}
	body := func(p string) []byte {
		b := []byte("content-for-" + p + ";")
		for len(b) < 100 {
			b = append(b, b...)
		}
		return b[:100]
	}
	mk := func(handler tcpclient.HandlerFunc) *conns.TCP {
		return conns.NewTCP(func(cfg *tcpclient.Config) {
			cfg.BlockwiseEnable = true
			cfg.BlockwiseSZX = blockwise.SZX32
			cfg.BlockwiseTransferTimeout = 2 * time.Second
			cfg.LimitClientParallelRequests = int64(callers + 1)
			cfg.LimitClientEndpointParallelRequests = int64(callers + 1)
			if handler != nil {
				cfg.Handler = handler
			}
		})
	}
	S := mk(func(w *responsewriter.ResponseWriter[*tcpclient.Conn], q *pool.Message) {
		p, _ := q.Path()
		if len(p) > 4 && p[:4] == "/big" {
			_ = w.SetResponse(codes.Content, message.AppOctets, bytes.NewReader(body(p)))
			return
		}
		if len(p) > 4 && p[:4] == "/nil" { // an answer without content (as a 2.02 / 2.04 has none)
			_ = w.SetResponse(codes.Changed, message.TextPlain, nil)
			return
		}
		_ = w.SetResponse(codes.Content, message.TextPlain, bytes.NewReader([]byte("content-for-"+p)))
	})
	C := mk(nil)
	defer S.Close()
	defer C.Close()
	csm := conns.Frame(int(codes.CSM), []byte{1}, message.Options{{ID: message.TCPBlockWiseTransfer, Value: []byte{}}}, nil)
	C.Feed(csm)
	S.Feed(csm)
	offC, offS := len(C.Stream.Written(0)), len(S.Stream.Written(0))
	stop := make(chan struct{})
	var rw sync.WaitGroup
	rw.Add(1)
	go func() {
		defer rw.Done()
		move := func(from, to *conns.TCP, off *int) bool {
			b := from.Stream.Written(*off)
			_, rest := conns.Frames(b)
			m := len(b) - len(rest)
			if m == 0 {
				return false
			}
			to.Stream.Feed(b[:m])
			*off += m
			return true
		}
		for {
			select {
			case <-stop:
				return
			default:
			}
			a := move(C, S, &offC)
			b := move(S, C, &offS)
			if !a && !b {
				time.Sleep(20 * time.Microsecond)
			}
		}
	}()
	var calls, wrong, failed atomic.Int64
	var firstMu sync.Mutex
	deadline := time.Now().Add(d)
	var wg sync.WaitGroup
	for c := 0; c < callers; c++ {
		wg.Add(1)
		go func(c int) {
			defer wg.Done()
			defer func() {
				if x := recover(); x != nil {
					panic(x) // a crash inside the library is a verdict of its own (NoCrash)
				}
			}()
			for k := 0; time.Now().Before(deadline); k++ {
				path := fmt.Sprintf("/s%d/%d", c, k)
				want := []byte("content-for-" + path)
				if k%4 == 3 {
					path = fmt.Sprintf("/big%d/%d", c, k)
					want = body(path)
				}
				if k%4 == 1 { // the content the peer produced for this request is: none
					path = fmt.Sprintf("/nil%d/%d", c, k)
					want = []byte{}
				}
				ctx, cancel := context.WithTimeout(context.Background(), 2*time.Second)
				resp, err := C.CC.Get(ctx, path)
				calls.Add(1)
				if err != nil {
					failed.Add(1)
					cancel()
					continue
				}
				b, _ := resp.ReadBody()
				if !bytes.Equal(b, want) {
					wrong.Add(1)
					firstMu.Lock()
					if r.First == "" {
						r.First = fmt.Sprintf("%s got body=%q", path, b)
					}
					firstMu.Unlock()
				}
				C.CC.ReleaseMessage(resp)
				cancel()
			}
		}(c)
	}
	wg.Wait()
	close(stop)
	rw.Wait()
	r.Calls, r.Wrong, r.Failed = int(calls.Load()), int(wrong.Load()), int(failed.Load())
	return r
}

// reuse: a token is used again for the NEXT request once the first has completed (legal), and the peer retransmits its
// confirmable separate response to the first request (same message ID: its acknowledgement was lost) while the second is
// outstanding. The retransmission is a duplicate by message ID: it is acknowledged again and NOT delivered - the second call
// returns the content produced for the second request.
func reuse(burst int) StressRec {
	r := StressRec{Op: "stress", Burst: burst, Transport: "udp-token-reuse"}
	u := conns.NewUDP(func(cfg *udpclient.Config) { cfg.TransmissionNStart = 4 })
	defer u.Close()
	tok := []byte{0x7E, 0x05, byte(burst)}
	seen := 0
	waitReq := func(path string) (memnet.Dgram, bool) {
		var got memnet.Dgram
		ok := hooksWait(func() bool {
			for _, raw := range u.Sess.Out(seen) {
				seen++
				if d, err := memnet.Parse(raw); err == nil && d.Code == int(codes.GET) {
					if p, _ := d.Opts.Path(); p == path {
						got = d
						return true
					}
				}
			}
			return false
		})
		return got, ok
	}
	call := func(path string) (string, error) {
		ctx, cancel := context.WithTimeout(context.Background(), 2*time.Second)
		defer cancel()
		req, err := u.CC.NewGetRequest(ctx, path)
		if err != nil {
			return "", err
		}
		defer u.CC.ReleaseMessage(req)
		req.SetToken(tok)
		resp, err := u.CC.Do(req)
		if err != nil {
			return "", err
		}
		defer u.CC.ReleaseMessage(resp)
		b, _ := resp.ReadBody()
		return string(b), nil
	}
	type res struct {
		body string
		err  error
	}
	ch := make(chan res, 1)
	go func() { b, err := call("/one"); ch <- res{b, err} }()
	q1, ok := waitReq("/one")
	if !ok {
		r.Failed++
		return r
	}
	_ = u.Inject(memnet.Build(message.Acknowledgement, int(codes.Empty), q1.MID, nil, nil, nil))
	sep := memnet.Build(message.Confirmable, int(codes.Content), 41000, tok, nil, []byte("content-of-/one"))
	_ = u.Inject(sep)
	r1 := <-ch
	r.Calls++
	if r1.err != nil {
		r.Failed++
		return r
	}
	if r1.body != "content-of-/one" {
		r.Wrong++
		r.First = fmt.Sprintf("/one got %q", r1.body)
	}
	go func() { b, err := call("/two"); ch <- res{b, err} }()
	q2, ok := waitReq("/two")
	if !ok {
		r.Failed++
		return r
	}
	_ = u.Inject(sep) // the retransmission of the OLD response, same message ID
	_ = u.Inject(memnet.Build(message.Acknowledgement, int(codes.Content), q2.MID, tok, nil, []byte("content-of-/two")))
	r2 := <-ch
	r.Calls++
	if r2.err != nil {
		r.Failed++
	} else if r2.body != "content-of-/two" {
		r.Wrong++
		if r.First == "" {
			r.First = fmt.Sprintf("/two (token used again after /one completed) got %q", r2.body)
		}
	}
	return r
}

func hooksWait(f func() bool) bool {
	deadline := time.Now().Add(2 * time.Second)
	for time.Now().Before(deadline) {
		if f() {
			return true
		}
		time.Sleep(100 * time.Microsecond)
	}
	return false
}

// sameToken: "a second request issued with a token that is still outstanding is rejected rather than displacing the first" when
// the two are issued at the SAME instant: six callers, released together by a spin barrier, issue requests for six paths with one
// caller-chosen token; the peer answers whatever reaches the wire. At most one is admitted (one request on the wire), the
// others are refused, and the admitted caller gets the content of ITS path.
func sameToken(transport string, burst, rounds int) StressRec {
	r := StressRec{Op: "stress", Burst: burst, Transport: transport + "-same-token"}
	const callers = 6
	var do func(ctx context.Context, tok []byte, path string) (string, error)
	var wire func(tok []byte) []string // paths of the requests with this token newly written (NOT answered yet)
	var answer func(tok []byte, path string)
	var closeFn func()
	if transport == "tcp" {
		t := conns.NewTCP(nil)
		closeFn = t.Close
		do = func(ctx context.Context, tok []byte, path string) (string, error) {
			req, err := t.CC.NewGetRequest(ctx, path)
			if err != nil {
				return "", err
			}
			defer t.CC.ReleaseMessage(req)
			req.SetToken(tok)
			resp, err := t.CC.Do(req)
			if err != nil {
				return "", err
			}
			defer t.CC.ReleaseMessage(resp)
			b, _ := resp.ReadBody()
			return string(b), nil
		}
		off := 0
		var wmu sync.Mutex
		wire = func(tok []byte) []string {
			wmu.Lock()
			defer wmu.Unlock()
			b := t.Stream.Written(off)
			frames, rest := conns.Frames(b)
			off += len(b) - len(rest)
			var ps []string
			for _, f := range frames {
				if f.Code == int(codes.GET) && bytes.Equal(f.Token, tok) {
					p, _ := f.Opts.Path()
					ps = append(ps, p)
				}
			}
			return ps
		}
		answer = func(tok []byte, p string) {
			t.Stream.Feed(conns.Frame(int(codes.Content), tok, nil, []byte("content-for-"+p)))
		}
	} else {
		u := conns.NewUDP(func(cfg *udpclient.Config) { cfg.TransmissionNStart = callers + 1 })
		closeFn = u.Close
		do = func(ctx context.Context, tok []byte, path string) (string, error) {
			req, err := u.CC.NewGetRequest(ctx, path)
			if err != nil {
				return "", err
			}
			defer u.CC.ReleaseMessage(req)
			req.SetToken(tok)
			resp, err := u.CC.Do(req)
			if err != nil {
				return "", err
			}
			defer u.CC.ReleaseMessage(resp)
			b, _ := resp.ReadBody()
			return string(b), nil
		}
		seen := 0
		var wmu sync.Mutex
		mids := map[string]int32{}
		wire = func(tok []byte) []string {
			wmu.Lock()
			defer wmu.Unlock()
			var ps []string
			for _, raw := range u.Sess.Out(seen) {
				seen++
				if d, err := memnet.Parse(raw); err == nil && d.Code == int(codes.GET) && bytes.Equal(d.Token, tok) {
					p, _ := d.Opts.Path()
					ps = append(ps, p)
					mids[p] = d.MID
				}
			}
			return ps
		}
		answer = func(tok []byte, p string) {
			wmu.Lock()
			mid := mids[p]
			wmu.Unlock()
			_ = u.InjectNoWait(memnet.Build(message.Acknowledgement, int(codes.Content), mid, tok, nil, []byte("content-for-"+p)))
		}
	}
	defer closeFn()
	for k := 0; k < rounds; k++ {
		tok := []byte{0x57, byte(burst), byte(k >> 8), byte(k)}
		type res struct {
			path, body string
			err        error
		}
		out := make(chan res, callers)
		var ready atomic.Int64
		for c := 0; c < callers; c++ {
			go func(c int) {
				path := fmt.Sprintf("/t%d/%d", c, k)
				ctx, cancel := context.WithTimeout(context.Background(), time.Second)
				defer cancel()
				ready.Add(1)
				for ready.Load() < callers {
					runtime.Gosched()
				}
				b, err := do(ctx, tok, path)
				out <- res{path, b, err}
			}(c)
		}
		onWire := 0
		got := 0
		admitted := 0
		var pending []string
		deadline := time.Now().Add(2 * time.Second)
		for got < callers && time.Now().Before(deadline) {
			ps := wire(tok)
			onWire += len(ps)
			pending = append(pending, ps...)
			// the peer withholds its answers until every other caller has come back (refused): requests that are on the wire
			// together were outstanding together
			if len(pending) > 0 && got+len(pending) >= callers {
				for _, p := range pending {
					answer(tok, p)
				}
				pending = nil
			}
			select {
			case x := <-out:
				got++
				r.Calls++
				if x.err == nil {
					admitted++
					if x.body != "content-for-"+x.path {
						r.Wrong++
						if r.First == "" {
							r.First = fmt.Sprintf("%s (one of %d callers with the same token at the same instant) got %q", x.path, callers, x.body)
						}
					}
				}
			default:
				time.Sleep(50 * time.Microsecond)
			}
		}
		onWire += len(wire(tok))
		if got < callers || admitted > 1 || onWire > 1 {
			r.Wrong++
			if r.First == "" {
				r.First = fmt.Sprintf("round %d: %d of %d callers returned, %d admitted, %d requests with the token on the wire", k, got, callers, admitted, onWire)
			}
		}
	}
	return r
}

// Stress runs n bursts on udp and n/2 on tcp.
func Stress(out string, n int) {
	w := rec.Create(out)
	defer w.Close()
	for b := 0; b < n; b++ {
		w.Put(stressBurst(b+1, 8, 150*time.Millisecond))
	}
	for b := 0; b < (n+1)/2; b++ {
		w.Put(stressTCP(n+b+1, 6, 150*time.Millisecond))
	}
	for b := 0; b < 4; b++ {
		w.Put(reuse(3*n + 10 + b))
	}
	w.Put(sameToken("tcp", 3*n+20, 25*n))
	w.Put(sameToken("udp", 3*n+21, 25*n))
	w.Put(sameTokenUpload(3*n+22, 3*n))
	w.Put(reuseAfterEnd(3*n+23, 3, "timeout"))
	w.Put(reuseAfterEnd(3*n+24, 3, "cancel"))
	// the library's own servers and clients of all four transports over loopback sockets
	for i, tr := range []string{"udp", "dtls", "tcp", "tls"} {
		w.Put(stressReal(tr, 2*n+i+1, 6, 200*time.Millisecond))
	}
}
