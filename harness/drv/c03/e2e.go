package c03

import (
	"bytes"
	"context"
	"crypto/ecdsa"
	"crypto/elliptic"
	"crypto/rand"
	"crypto/tls"
	"crypto/x509"
	"crypto/x509/pkix"
	"fmt"
	"math/big"
	"net"
	"sync"
	"sync/atomic"
	"time"

	piondtls "github.com/pion/dtls/v3"
	"github.com/plgd-dev/go-coap/v3/dtls"
	"github.com/plgd-dev/go-coap/v3/message"
	"github.com/plgd-dev/go-coap/v3/message/codes"
	"github.com/plgd-dev/go-coap/v3/message/pool"
	"github.com/plgd-dev/go-coap/v3/mux"
	coapNet "github.com/plgd-dev/go-coap/v3/net"
	"github.com/plgd-dev/go-coap/v3/options"
	"github.com/plgd-dev/go-coap/v3/tcp"
	"github.com/plgd-dev/go-coap/v3/udp"

	"verifharness/internal/rec"
)

func pskConfig() *piondtls.Config {
	return &piondtls.Config{
		PSK:             func([]byte) ([]byte, error) { return []byte{0xAB, 0xC1, 0x23}, nil },
		PSKIdentityHint: []byte("verif"),
		CipherSuites:    []piondtls.CipherSuiteID{piondtls.TLS_PSK_WITH_AES_128_CCM_8},
	}
}

func selfSigned() (tls.Certificate, *x509.CertPool) {
	key, _ := ecdsa.GenerateKey(elliptic.P256(), rand.Reader)
	tpl := &x509.Certificate{SerialNumber: big.NewInt(1), Subject: pkix.Name{CommonName: "localhost"}, NotBefore: time.Now().Add(-time.Hour), NotAfter: time.Now().Add(time.Hour),
		KeyUsage: x509.KeyUsageDigitalSignature | x509.KeyUsageCertSign, ExtKeyUsage: []x509.ExtKeyUsage{x509.ExtKeyUsageServerAuth}, IsCA: true, BasicConstraintsValid: true,
		IPAddresses: []net.IP{net.IPv4(127, 0, 0, 1)}, DNSNames: []string{"localhost"}}
	der, _ := x509.CreateCertificate(rand.Reader, tpl, tpl, &key.PublicKey, key)
	cert, _ := x509.ParseCertificate(der)
	cp := x509.NewCertPool()
	cp.AddCert(cert)
	return tls.Certificate{Certificate: [][]byte{der}, PrivateKey: key}, cp
}

type getter interface {
	Get(ctx context.Context, path string, opts ...message.Option) (*pool.Message, error)
	ReleaseMessage(m *pool.Message)
	Close() error
}

// stressReal: the library's own server and the library's own client of one of the four transports over loopback sockets;
// concurrent callers; the server answers each request after a delay taken from its path, so the answers come back in
// another order than the requests went out; every call that returns successfully must carry the content of ITS path.
func stressReal(transport string, burst int, callers int, d time.Duration) StressRec {
	r := StressRec{Op: "stress", Burst: burst, Transport: transport + "-sockets"}
	m := mux.NewRouter()
	_ = m.Handle("/e/{c}/{k}", mux.HandlerFunc(func(w mux.ResponseWriter, q *mux.Message) {
		p, _ := q.Path()
		k := 0
		fmt.Sscanf(q.RouteParams.Vars["k"], "%d", &k)
		if k%3 == 0 {
			time.Sleep(time.Duration(k%7) * 150 * time.Microsecond)
		}
		_ = w.SetResponse(codes.Content, message.TextPlain, bytes.NewReader([]byte("content-for-"+p)))
	}))
	// a handler that answers LATER: it keeps the connection and the request's token (as handed out by Token()) and sends the
	// response from another goroutine a moment afterwards, while further requests are being received
	_ = m.Handle("/d/{c}/{k}", mux.HandlerFunc(func(w mux.ResponseWriter, q *mux.Message) {
		p, _ := q.Path()
		cc, tok := w.Conn(), q.Token()
		go func() {
			time.Sleep(1500 * time.Microsecond)
			resp := cc.AcquireMessage(cc.Context())
			defer cc.ReleaseMessage(resp)
			resp.SetCode(codes.Content)
			resp.SetToken(tok)
			resp.SetType(message.NonConfirmable)
			resp.SetContentFormat(message.TextPlain)
			resp.SetBody(bytes.NewReader([]byte("content-for-" + p)))
			_ = cc.WriteMessage(resp)
		}()
	}))
	noErr := options.WithErrors(func(error) {})
	var addr string
	var stop func()
	switch transport {
	case "udp":
		l, err := coapNet.NewListenUDP("udp4", "127.0.0.1:0")
		if err != nil {
			rec.Die("listen: %v", err)
		}
		sv := udp.NewServer(options.WithMux(m), noErr)
		go func() { _ = sv.Serve(l) }()
		addr, stop = l.LocalAddr().String(), func() { sv.Stop(); _ = l.Close() }
	case "dtls":
		l, err := coapNet.NewDTLSListener("udp4", "127.0.0.1:0", pskConfig())
		if err != nil {
			rec.Die("listen: %v", err)
		}
		sv := dtls.NewServer(options.WithMux(m), noErr)
		go func() { _ = sv.Serve(l) }()
		addr, stop = l.Addr().String(), func() { sv.Stop(); _ = l.Close() }
	case "tcp":
		l, err := coapNet.NewTCPListener("tcp4", "127.0.0.1:0")
		if err != nil {
			rec.Die("listen: %v", err)
		}
		sv := tcp.NewServer(options.WithMux(m), noErr)
		go func() { _ = sv.Serve(l) }()
		addr, stop = l.Addr().String(), func() { sv.Stop(); _ = l.Close() }
	default:
		cert, _ := selfSigned()
		l, err := coapNet.NewTLSListener("tcp4", "127.0.0.1:0", &tls.Config{Certificates: []tls.Certificate{cert}})
		if err != nil {
			rec.Die("listen: %v", err)
		}
		sv := tcp.NewServer(options.WithMux(m), noErr)
		go func() { _ = sv.Serve(l) }()
		addr, stop = l.Addr().String(), func() { sv.Stop(); _ = l.Close() }
	}
	defer stop()
	var cc getter
	var err error
	switch transport {
	// (the callers really are concurrent: the default limits admit one request at a time)
	case "udp":
		cc, err = udp.Dial(addr, noErr, options.WithLimitClientParallelRequest(int64(callers)), options.WithLimitClientEndpointParallelRequest(int64(callers)), options.WithTransmission(uint32(callers), 2*time.Second, 4))
	case "dtls":
		cc, err = dtls.Dial(addr, pskConfig(), noErr, options.WithLimitClientParallelRequest(int64(callers)), options.WithLimitClientEndpointParallelRequest(int64(callers)), options.WithTransmission(uint32(callers), 2*time.Second, 4))
	case "tcp":
		cc, err = tcp.Dial(addr, noErr, options.WithLimitClientParallelRequest(int64(callers)), options.WithLimitClientEndpointParallelRequest(int64(callers)))
	default:
		cc, err = tcp.Dial(addr, noErr, options.WithLimitClientParallelRequest(int64(callers)), options.WithLimitClientEndpointParallelRequest(int64(callers)), options.WithTLS(&tls.Config{InsecureSkipVerify: true})) //nolint:gosec
	}
	if err != nil {
		r.First = "dial: " + err.Error()
		r.Failed = 1
		return r
	}
	defer cc.Close()
	var calls, wrong, failed atomic.Int64
	var firstMu sync.Mutex
	deadline := time.Now().Add(d)
	var wg sync.WaitGroup
	for c := 0; c < callers; c++ {
		wg.Add(1)
		go func(c int) {
			defer wg.Done()
			for k := 0; time.Now().Before(deadline); k++ {
				path := fmt.Sprintf("/e/%d/%d", c, k)
				if k%2 == 1 {
					path = fmt.Sprintf("/d/%d/%d", c, k) // answered later, from another goroutine
				}
				ctx, cancel := context.WithTimeout(context.Background(), 3*time.Second)
				resp, err := cc.Get(ctx, path)
				calls.Add(1)
				if err != nil {
					failed.Add(1)
					cancel()
					continue
				}
				b, _ := resp.ReadBody()
				if string(b) != "content-for-"+path {
					wrong.Add(1)
					firstMu.Lock()
					if r.First == "" {
						r.First = fmt.Sprintf("%s got code=%v body=%q", path, resp.Code(), b)
					}
					firstMu.Unlock()
				}
				cc.ReleaseMessage(resp)
				cancel()
			}
		}(c)
	}
	wg.Wait()
	r.Calls, r.Wrong, r.Failed = int(calls.Load()), int(wrong.Load()), int(failed.Load())
	return r
}
