// Package c09 steers every blocking client operation of real udp / tcp connections (in-memory transports; the
// driver is the peer) to every point at which an interruption can strike (TLC-generated tuples, specs/cancel),
// fires the interruption (context cancel, deadline, concurrent local Close, peer half-close) and records whether
// and how the call returned, the connection's done signal and the on-close callbacks. Discovery is run against a
// real udp server on a loopback socket. TLC (RecC09.tla) judges.
package c09

import (
	"bytes"
	"context"
	"encoding/json"
	"fmt"
	"net"
	"os"
	"sync"
	"sync/atomic"
	"time"

	"github.com/plgd-dev/go-coap/v3/message"
	"github.com/plgd-dev/go-coap/v3/message/codes"
	"github.com/plgd-dev/go-coap/v3/message/pool"
	coapNet "github.com/plgd-dev/go-coap/v3/net"
	"github.com/plgd-dev/go-coap/v3/net/blockwise"
	"github.com/plgd-dev/go-coap/v3/options"
	tcpclient "github.com/plgd-dev/go-coap/v3/tcp/client"
	"github.com/plgd-dev/go-coap/v3/udp"
	udpclient "github.com/plgd-dev/go-coap/v3/udp/client"

	"verifharness/internal/conns"
	"verifharness/internal/hooks"
	"verifharness/internal/memnet"
	"verifharness/internal/rec"
)

type Tuple struct {
	Op       string `json:"op"`
	Pt       string `json:"pt"`
	Kind     string `json:"kind"`
	Noise    string `json:"noise"`
	Datagram bool   `json:"datagram"`
}

type Rec struct {
	Transport string `json:"transport"`
	Op        string `json:"op"`
	Pt        string `json:"pt"`
	Kind      string `json:"kind"`
	Noise     string `json:"noise"`
	Reached   bool   `json:"reached"` // the call was steered to the point (else: not applicable / not reachable)
	Why       string `json:"why"`
	Returned  bool   `json:"returned"` // the call returned within the watchdog after the interruption
	Ms        int    `json:"ms"`
	Err       bool   `json:"err"`
	EarlyRet  bool   `json:"earlyRet"` // the call returned before the interruption (only legal if Reached is false)
	Closing   bool   `json:"closing"`  // the interruption closes the connection
	Done      bool   `json:"done"`     // Done() completed
	OnClose   []int  `json:"onclose"`  // how often each registered on-close callback ran
	Panics    int    `json:"panics"`
	ByNoise   bool   `json:"bynoise"`  // the peer's garbage ended the connection (and the call) before the interruption was fired
	Others    bool   `json:"others"`   // the other calls in flight (e.g. the one occupying the limiter) returned too
	CloseRet  bool   `json:"closeret"` // every Close() call returned
}

// bounded runs f and reports whether it returned within the watchdog (a Close that never returns must not hang the driver)
func bounded(f func()) bool {
	ch := make(chan struct{})
	go func() { defer close(ch); f() }()
	select {
	case <-ch:
		return true
	case <-time.After(wd):
		return false
	}
}

const wd = 2 * time.Second

// conn abstracts what the scenarios need from a client connection + its peer.
type conn interface {
	get(ctx context.Context, path string) error
	post(ctx context.Context, path string, body []byte) error
	observe(ctx context.Context, path string) (interface {
		Cancel(ctx context.Context, opts ...message.Option) error
	}, error)
	ping(ctx context.Context) error
	write(ctx context.Context, path string) error
	waitRequest(path string, observe int) (tok []byte, mid int32, b1 int64, ok bool) // a request the connection wrote for path
	waitRequestBlock(path string, block int) (tok []byte, mid int32, b1 int64, ok bool)
	sawRequest(path string) bool
	ack(mid int32)
	respond(mid int32, tok []byte, code codes.Code, opts message.Options, pay []byte)
	close() error
	peerClose() bool
	done() <-chan struct{}
	addOnClose(f func())
	isStream() bool
	noise(level string) // the peer misbehaves: malformed input that must not end the connection, answers nobody waits for
	shutdown()
	stall()      // stream: the peer stops reading, its buffers are full: every write parks from now on
	parked() int // writers parked in the transport's Write
}

func blkOpt(szx, num int, more bool) []byte {
	v, _ := blockwise.EncodeBlockOption(blockwise.SZX(szx), int64(num), more)
	b := []byte{byte(v >> 16), byte(v >> 8), byte(v)}
	for len(b) > 0 && b[0] == 0 {
		b = b[1:]
	}
	return b
}

func runTuple(transport string, t Tuple) Rec {
	r := Rec{Transport: transport, Op: t.Op, Pt: t.Pt, Kind: t.Kind, Noise: t.Noise, OnClose: []int{}}
	var c conn
	if transport == "udp" {
		c = newUDP()
	} else {
		c = newTCP()
	}
	defer bounded(c.shutdown)
	r.CloseRet = true
	r.Closing = t.Kind == "close" || t.Kind == "peerclose"
	counts := make([]atomic.Int64, 3)
	for i := range counts {
		i := i
		c.addOnClose(func() { counts[i].Add(1) })
	}
	if t.Kind == "peerclose" && !c.isStream() {
		r.Why = "peer close does not exist on a datagram transport"
		return r
	}
	if t.Pt == "acked" && c.isStream() {
		r.Why = "no acknowledgements on a stream transport"
		return r
	}
	if t.Op == "discover" {
		r.Why = "discovery is a server operation (see transport udpserver)"
		return r
	}
	if t.Op == "write" && c.isStream() && t.Pt == "sent" {
		r.Why = "a one-way write does not block on a stream transport"
		return r
	}
	path := "/op"
	// context of the call under test
	var ctx context.Context
	var cancel context.CancelFunc
	switch {
	case t.Kind == "deadline" && t.Pt == "before":
		ctx, cancel = context.WithDeadline(context.Background(), time.Now().Add(-time.Second))
	case t.Kind == "deadline":
		ctx, cancel = context.WithTimeout(context.Background(), 120*time.Millisecond)
	default:
		ctx, cancel = context.WithCancel(context.Background())
	}
	defer cancel()
	interruptConn := func() {
		if t.Kind == "close" {
			var wg sync.WaitGroup
			for g := 0; g < 4; g++ { // concurrent Close from several goroutines
				wg.Add(1)
				go func() {
					defer wg.Done()
					defer func() {
						if x := recover(); x != nil {
							counts[0].Add(0)
							r.Panics++
						}
					}()
					_ = c.close()
				}()
			}
			if !bounded(wg.Wait) {
				r.CloseRet = false
				return
			}
			r.CloseRet = bounded(func() {
				defer func() {
					if x := recover(); x != nil {
						r.Panics++
					}
				}()
				_ = c.close() // and once more
			})
		} else {
			c.peerClose()
		}
	}
	// an observation to cancel
	var obs interface {
		Cancel(ctx context.Context, opts ...message.Option) error
	}
	if t.Op == "obscancel" {
		octx, ocancel := context.WithTimeout(context.Background(), wd)
		ch := make(chan struct{})
		go func() {
			o, err := c.observe(octx, "/obs")
			if err == nil {
				obs = o
			}
			close(ch)
		}()
		if tok, mid, _, ok := c.waitRequest("/obs", 0); ok {
			c.respond(mid, tok, codes.Content, message.Options{{ID: message.Observe, Value: []byte{1}}}, []byte("v"))
		}
		<-ch
		ocancel()
		if obs == nil {
			r.Why = "could not set up the observation"
			return r
		}
		path = "/obs"
	}
	if t.Pt == "before" {
		switch t.Kind {
		case "cancel":
			cancel()
		case "close", "peerclose":
			interruptConn()
			hooks.WaitFor(wd, func() bool {
				select {
				case <-c.done():
					return true
				default:
					return false
				}
			})
		}
	}
	// occupy the slot the call under test has to wait for: the limiter's endpoint slot (same path, endpoint limit 1)
	// or the NSTART slot of a datagram connection (another path, NSTART 1, request sent but never acknowledged)
	var occ chan error
	occCtx, occCancel := context.WithCancel(context.Background())
	defer occCancel()
	occPath, wPath := "/op", "/op"
	if t.Op == "obscancel" {
		occPath, wPath = "/obs", "/obs" // the deregistration is a request for the observed path
	}
	if t.Pt == "nstart" || t.Pt == "wlock" {
		occPath, wPath = "/occ", "/w"
	}
	if (t.Pt == "wlock" || t.Pt == "wpark") && !c.isStream() {
		r.Why = "a datagram write does not park"
		return r
	}
	if t.Pt == "wlock" || t.Pt == "wpark" {
		c.stall()
	}
	if t.Pt == "wlock" {
		// the occupant's frame is parked in the write to the stalled peer and holds the connection's write lock
		occ = make(chan error, 1)
		go func() { occ <- c.get(occCtx, occPath) }()
		if !hooks.WaitFor(wd, func() bool { return c.parked() == 1 }) {
			r.Why = "occupant write not parked"
			return r
		}
	}
	if t.Pt == "queued" || t.Pt == "nstart" {
		occ = make(chan error, 1)
		go func() { occ <- c.get(occCtx, occPath) }()
		if _, _, _, ok := c.waitRequest(occPath, -1); !ok {
			r.Why = "occupant request not seen"
			return r
		}
		if t.Op != "obscancel" {
			path = "/op"
		}
	}
	var wch chan error
	wCtx, wCancel := context.WithCancel(context.Background())
	defer wCancel()
	// start the call
	res := make(chan error, 1)
	start := time.Now()
	go func() {
		var err error
		switch t.Op {
		case "do":
			err = c.get(ctx, path)
		case "bwdo":
			err = c.post(ctx, path, bytes.Repeat([]byte{3}, 40))
		case "observe":
			_, err = c.observe(ctx, path)
		case "obscancel":
			err = obs.Cancel(ctx)
		case "ping":
			err = c.ping(ctx)
		case "write":
			err = c.write(ctx, path)
		}
		res <- err
	}()
	returnedEarly := func() bool {
		select {
		case err := <-res:
			r.EarlyRet, r.Returned, r.Err, r.Ms = true, true, err != nil, int(time.Since(start).Milliseconds())
			return true
		default:
			return false
		}
	}
	// steer
	switch t.Pt {
	case "before":
		r.Reached = true
	case "queued", "nstart":
		// nothing of the call under test may be on the wire; give it a moment to reach the queue
		time.Sleep(2 * time.Millisecond)
		r.Reached = !returnedEarly() && !c.sawRequest(path)
		if !r.Reached && r.Why == "" {
			r.Why = "the call did not queue"
		}
		// one more call queued behind it
		wch = make(chan error, 1)
		go func() { wch <- c.get(wCtx, wPath) }()
		time.Sleep(time.Millisecond)
	case "wpark":
		r.Reached = hooks.WaitFor(wd, func() bool { return c.parked() == 1 }) && !returnedEarly()
		if !r.Reached && r.Why == "" {
			r.Why = "the call's write did not park"
		}
	case "wlock":
		time.Sleep(2 * time.Millisecond)
		r.Reached = !returnedEarly() && c.parked() == 1
		if !r.Reached && r.Why == "" {
			r.Why = "the call did not wait for the write lock"
		}
		wch = make(chan error, 1)
		go func() { wch <- c.get(wCtx, wPath) }()
		time.Sleep(time.Millisecond)
	case "sent", "acked", "midbw":
		obsv := -1
		if t.Op == "observe" {
			obsv = 0
		}
		if t.Op == "obscancel" {
			obsv = 1
		}
		var tok []byte
		var mid int32
		var ok bool
		if t.Op == "ping" {
			tok, mid, _, ok = c.waitRequest("<ping>", -1)
		} else {
			tok, mid, _, ok = c.waitRequest(path, obsv)
		}
		if !ok {
			r.Why = "request not seen"
			returnedEarly()
			return r
		}
		r.Reached = true
		if t.Pt == "acked" {
			c.ack(mid)
			time.Sleep(time.Millisecond)
		}
		if t.Pt == "midbw" {
			c.respond(mid, tok, codes.Continue, message.Options{{ID: message.Block1, Value: blkOpt(0, 0, true)}}, nil)
			if _, _, b1, ok2 := c.waitRequestBlock(path, 1); !ok2 || b1 < 0 {
				r.Reached, r.Why = false, "second block not seen"
			}
		}
		if r.Reached && returnedEarly() {
			r.Reached = false
			r.Why = "the call does not block at this point"
		}
	}
	if !r.Reached {
		cancel()
		select {
		case <-res:
		case <-time.After(wd):
		}
		return r
	}
	byNoise := false
	if t.Noise != "silent" && !(t.Pt == "before" && r.Closing) {
		c.noise(t.Noise)
		if t.Pt != "before" && returnedEarly() {
			if t.Noise != "garbage" {
				r.Reached, r.Why = false, "returned before the interruption"
				return r
			}
			// input that is not CoAP ends a client connection, and with it the call: that is an end by peer failure
			byNoise, r.ByNoise, r.Closing, r.EarlyRet = true, true, true, false
		}
	}
	// interrupt
	fired := time.Now()
	if t.Pt != "before" && !byNoise {
		switch t.Kind {
		case "cancel":
			cancel()
		case "deadline": // runs out by itself
		default:
			interruptConn()
		}
	}
	if !byNoise {
		select {
		case err := <-res:
			r.Returned, r.Err, r.Ms = true, err != nil, int(time.Since(fired).Milliseconds())
		case <-time.After(wd):
			r.Returned = false
		}
	}
	r.Others = true
	if occ != nil {
		if !r.Closing {
			occCancel()
		}
		select {
		case <-occ:
		case <-time.After(wd):
			r.Others = false
		}
	}
	if wch != nil {
		if !r.Closing {
			// the waiter behind gets its turn now; it is then interrupted like the others
			time.Sleep(2 * time.Millisecond)
			wCancel()
		}
		select {
		case <-wch:
		case <-time.After(wd):
			r.Others = false
		}
	}
	if r.Closing {
		r.Done = hooks.WaitFor(wd, func() bool {
			select {
			case <-c.done():
				return true
			default:
				return false
			}
		})
		time.Sleep(time.Millisecond)
	}
	for i := range counts {
		r.OnClose = append(r.OnClose, int(counts[i].Load()))
	}
	return r
}

// ---- udp adapter: the library's own client (udp.Dial, real session, real loopback socket); the driver is the peer ------
type udpC struct {
	cc    *udpclient.Conn
	peer  *net.UDPConn
	mu    sync.Mutex
	caddr *net.UDPAddr
	reqs  []memnet.Dgram
	taken map[int]bool
}

func newUDP() *udpC {
	c := &udpC{taken: map[int]bool{}}
	var err error
	c.peer, err = net.ListenUDP("udp4", &net.UDPAddr{IP: net.IPv4(127, 0, 0, 1)})
	if err != nil {
		rec.Die("listen udp peer: %v", err)
	}
	go func() {
		buf := make([]byte, 4096)
		for {
			n, from, err := c.peer.ReadFromUDP(buf)
			if err != nil {
				return
			}
			d, perr := memnet.Parse(append([]byte(nil), buf[:n]...))
			c.mu.Lock()
			c.caddr = from
			if perr == nil {
				c.reqs = append(c.reqs, d)
			}
			c.mu.Unlock()
		}
	}()
	c.cc, err = udp.Dial(c.peer.LocalAddr().String(),
		options.WithBlockwise(true, blockwise.SZX16, 3*time.Second),
		options.WithTransmission(1, 2*time.Second, 4),
		options.WithLimitClientParallelRequest(4),
		options.WithLimitClientEndpointParallelRequest(1),
		options.WithErrors(func(error) {}))
	if err != nil {
		rec.Die("dial udp: %v", err)
	}
	return c
}
func (c *udpC) isStream() bool { return false }
func (c *udpC) get(ctx context.Context, p string) error {
	resp, err := c.cc.Get(ctx, p)
	if err == nil {
		c.cc.ReleaseMessage(resp)
	}
	return err
}
func (c *udpC) post(ctx context.Context, p string, body []byte) error {
	resp, err := c.cc.Post(ctx, p, message.AppOctets, bytes.NewReader(body))
	if err == nil {
		c.cc.ReleaseMessage(resp)
	}
	return err
}
func (c *udpC) observe(ctx context.Context, p string) (interface {
	Cancel(ctx context.Context, opts ...message.Option) error
}, error) {
	return c.cc.Observe(ctx, p, func(*pool.Message) {})
}
func (c *udpC) ping(ctx context.Context) error { return c.cc.Ping(ctx) }
func (c *udpC) write(ctx context.Context, p string) error {
	req, err := c.cc.NewGetRequest(ctx, p)
	if err != nil {
		return err
	}
	defer c.cc.ReleaseMessage(req)
	req.SetType(message.Confirmable)
	return c.cc.WriteMessage(req)
}
func (c *udpC) match(path string, observe int, block int) (memnet.Dgram, bool) {
	c.mu.Lock()
	defer c.mu.Unlock()
	for i, d := range c.reqs {
		if c.taken[i] {
			continue
		}
		if path == "<ping>" {
			if d.Type == message.Confirmable && d.Code == int(codes.Empty) {
				c.taken[i] = true
				return d, true
			}
			continue
		}
		p, _ := d.Opts.Path()
		if d.Code < 1 || d.Code > 4 || p != path {
			continue
		}
		if observe >= 0 {
			if v, err := d.Opts.Observe(); err != nil || int(v) != observe {
				continue
			}
		}
		if block >= 0 {
			v, err := d.Opts.GetUint32(message.Block1)
			if err != nil {
				continue
			}
			if _, num, _, _ := blockwise.DecodeBlockOption(v); int(num) != block {
				continue
			}
		}
		c.taken[i] = true
		return d, true
	}
	return memnet.Dgram{}, false
}
func (c *udpC) waitRequest(path string, observe int) ([]byte, int32, int64, bool) {
	var d memnet.Dgram
	ok := hooks.WaitFor(wd, func() bool { x, f := c.match(path, observe, -1); d = x; return f })
	return d.Token, d.MID, 0, ok
}
func (c *udpC) waitRequestBlock(path string, block int) ([]byte, int32, int64, bool) {
	var d memnet.Dgram
	ok := hooks.WaitFor(wd, func() bool { x, f := c.match(path, -1, block); d = x; return f })
	return d.Token, d.MID, int64(block), ok
}
func (c *udpC) sawRequest(path string) bool { _, ok := c.match(path, -1, -1); return ok }
func (c *udpC) send(raw []byte) {
	c.mu.Lock()
	to := c.caddr
	c.mu.Unlock()
	if to == nil {
		if a, ok := c.cc.LocalAddr().(*net.UDPAddr); ok {
			to = a
		}
	}
	if to != nil {
		_, _ = c.peer.WriteToUDP(raw, to)
	}
}
func (c *udpC) settle() {
	time.Sleep(500 * time.Microsecond)
	hooks.Quiesce(c.cc, wd)
}
func (c *udpC) ack(mid int32) {
	c.send(memnet.Build(message.Acknowledgement, int(codes.Empty), mid, nil, nil, nil))
	c.settle()
}
func (c *udpC) respond(mid int32, tok []byte, code codes.Code, opts message.Options, pay []byte) {
	c.send(memnet.Build(message.Acknowledgement, int(code), mid, tok, opts, pay))
	c.settle()
}
func (c *udpC) noise(level string) {
	if level == "exhaust" {
		// the peer stays silent past the retransmission budget while the housekeeping runs: the pending message is retransmitted,
		// then given up by a sweep - the call under test still waits (its context is alive) and must still end when interrupted.
		// (The sweeps run under a watchdog: a sweep that never returns must not hang the driver.)
		for k := 1; k <= 7; k++ {
			at := time.Now().Add(time.Duration(3*k) * time.Second)
			if !bounded(func() { c.cc.CheckExpirations(at) }) {
				return
			}
		}
		return
	}
	if level == "garbage" {
		defer func() {
			c.send([]byte{0xff, 0xff}) // not a CoAP datagram
			c.send([]byte{0x40})       // truncated header
			time.Sleep(2 * time.Millisecond)
		}()
	}
	c.send(memnet.Build(message.Acknowledgement, int(codes.Content), 0x7f01, []byte{0xee, 0xee}, nil, []byte("x"))) // answer nobody waits for
	c.send(memnet.Build(message.Acknowledgement, int(codes.Empty), 0x7f02, nil, nil, nil))                          // ACK nobody waits for
	c.send(memnet.Build(message.Reset, int(codes.Empty), 0x7f03, nil, nil, nil))                                    // RST nobody waits for
	c.send(memnet.Build(message.NonConfirmable, int(codes.Content), 0x7f04, []byte{0xee, 0xef}, message.Options{{ID: message.Observe, Value: []byte{9}}}, []byte("n")))
	time.Sleep(2 * time.Millisecond)
	c.settle()
}
func (c *udpC) close() error          { return c.cc.Close() }
func (c *udpC) peerClose() bool       { return false }
func (c *udpC) done() <-chan struct{} { return c.cc.Done() }
func (c *udpC) addOnClose(f func())   { c.cc.AddOnClose(f) }
func (c *udpC) shutdown()             { _ = c.cc.Close(); _ = c.peer.Close() }
func (c *udpC) stall()                {}
func (c *udpC) parked() int           { return 0 }

// ---- tcp adapter -------------------------------------------------------------------------------------------
type tcpC struct {
	t     *conns.TCP
	mu    sync.Mutex
	off   int
	reqs  []conns.TFrame
	taken map[int]bool
}

func newTCP() *tcpC {
	c := &tcpC{taken: map[int]bool{}}
	c.t = conns.NewTCP(func(cfg *tcpclient.Config) {
		cfg.BlockwiseEnable = true
		cfg.BlockwiseSZX = blockwise.SZX16
		cfg.BlockwiseTransferTimeout = 3 * time.Second
		cfg.LimitClientParallelRequests = 4
		cfg.LimitClientEndpointParallelRequests = 1
	})
	c.t.Feed(conns.Frame(int(codes.CSM), []byte{1}, message.Options{{ID: message.TCPBlockWiseTransfer, Value: []byte{}}}, nil))
	return c
}
func (c *tcpC) isStream() bool { return true }
func (c *tcpC) get(ctx context.Context, p string) error {
	resp, err := c.t.CC.Get(ctx, p)
	if err == nil {
		c.t.CC.ReleaseMessage(resp)
	}
	return err
}
func (c *tcpC) post(ctx context.Context, p string, body []byte) error {
	resp, err := c.t.CC.Post(ctx, p, message.AppOctets, bytes.NewReader(body))
	if err == nil {
		c.t.CC.ReleaseMessage(resp)
	}
	return err
}
func (c *tcpC) observe(ctx context.Context, p string) (interface {
	Cancel(ctx context.Context, opts ...message.Option) error
}, error) {
	return c.t.CC.Observe(ctx, p, func(*pool.Message) {})
}
func (c *tcpC) ping(ctx context.Context) error { return c.t.CC.Ping(ctx) }
func (c *tcpC) write(ctx context.Context, p string) error {
	req, err := c.t.CC.NewGetRequest(ctx, p)
	if err != nil {
		return err
	}
	defer c.t.CC.ReleaseMessage(req)
	return c.t.CC.WriteMessage(req)
}
func (c *tcpC) match(path string, observe int, block int) (conns.TFrame, int, bool) {
	c.mu.Lock()
	defer c.mu.Unlock()
	b := c.t.Stream.Written(c.off)
	frames, rest := conns.Frames(b)
	c.off += len(b) - len(rest)
	c.reqs = append(c.reqs, frames...)
	for i, f := range c.reqs {
		if c.taken[i] {
			continue
		}
		if path == "<ping>" {
			if f.Code == int(codes.Ping) {
				c.taken[i] = true
				return f, i, true
			}
			continue
		}
		p, _ := f.Opts.Path()
		if f.Code < 1 || f.Code > 4 || p != path {
			continue
		}
		if observe >= 0 {
			if v, err := f.Opts.Observe(); err != nil || int(v) != observe {
				continue
			}
		}
		if block >= 0 {
			v, err := f.Opts.GetUint32(message.Block1)
			if err != nil {
				continue
			}
			if _, num, _, _ := blockwise.DecodeBlockOption(v); int(num) != block {
				continue
			}
		}
		c.taken[i] = true
		return f, i, true
	}
	return conns.TFrame{}, 0, false
}
func (c *tcpC) waitRequest(path string, observe int) ([]byte, int32, int64, bool) {
	var f conns.TFrame
	ok := hooks.WaitFor(wd, func() bool { x, _, found := c.match(path, observe, -1); f = x; return found })
	return f.Token, 0, 0, ok
}
func (c *tcpC) waitRequestBlock(path string, block int) ([]byte, int32, int64, bool) {
	var f conns.TFrame
	ok := hooks.WaitFor(wd, func() bool { x, _, found := c.match(path, -1, block); f = x; return found })
	return f.Token, 0, int64(block), ok
}
func (c *tcpC) sawRequest(path string) bool { _, _, ok := c.match(path, -1, -1); return ok }
func (c *tcpC) ack(int32)                   {}
func (c *tcpC) respond(_ int32, tok []byte, code codes.Code, opts message.Options, pay []byte) {
	c.t.Feed(conns.Frame(int(code), tok, opts, pay))
}
func (c *tcpC) noise(level string) {
	if level == "garbage" {
		defer func() { c.t.Feed([]byte{0x0f, 0x01}); c.t.Settle() }() // reserved token length: a message-format error
	}
	c.t.Feed(conns.Frame(int(codes.Content), []byte{0xee, 0xee}, nil, []byte("x"))) // answer nobody waits for
	c.t.Feed(conns.Frame(int(codes.Pong), []byte{0xee, 0xed}, nil, nil))            // pong nobody waits for
	c.t.Feed(conns.Frame(int(codes.Empty), nil, nil, nil))                          // empty message
	c.t.Feed(conns.Frame(int(codes.Content), []byte{0xee, 0xef}, message.Options{{ID: message.Observe, Value: []byte{9}}}, []byte("n")))
	c.t.Settle()
}
func (c *tcpC) close() error          { return c.t.CC.Close() }
func (c *tcpC) peerClose() bool       { c.t.Stream.EOF(); return true }
func (c *tcpC) done() <-chan struct{} { return c.t.CC.Done() }
func (c *tcpC) addOnClose(f func())   { c.t.CC.AddOnClose(f) }
func (c *tcpC) shutdown()             { c.t.Close() }
func (c *tcpC) stall()                { c.t.Stream.Stall() }
func (c *tcpC) parked() int           { return int(c.t.Stream.Parked.Load()) }

// ---- discovery on a real udp server; Stop from several goroutines --------------------------------------------
func runDiscover(t Tuple) Rec {
	r := Rec{Transport: "udpserver", Op: t.Op, Pt: t.Pt, Kind: t.Kind, Noise: t.Noise, OnClose: []int{}, CloseRet: true}
	if t.Kind == "peerclose" {
		r.Why = "peer close does not exist on a datagram transport"
		return r
	}
	r.Closing = t.Kind == "close"
	l, err := coapNet.NewListenUDP("udp4", "127.0.0.1:0")
	if err != nil {
		rec.Die("listen: %v", err)
	}
	sv := udp.NewServer(options.WithErrors(func(error) {}))
	served := make(chan error, 1)
	go func() { served <- sv.Serve(l) }()
	defer func() { sv.Stop(); _ = l.Close() }()
	sink, _ := net.ListenUDP("udp4", &net.UDPAddr{IP: net.IPv4(127, 0, 0, 1)})
	defer sink.Close()
	var ctx context.Context
	var cancel context.CancelFunc
	switch {
	case t.Kind == "deadline" && t.Pt == "before":
		ctx, cancel = context.WithDeadline(context.Background(), time.Now().Add(-time.Second))
	case t.Kind == "deadline":
		ctx, cancel = context.WithTimeout(context.Background(), 120*time.Millisecond)
	default:
		ctx, cancel = context.WithCancel(context.Background())
	}
	defer cancel()
	stop := func() {
		var wg sync.WaitGroup
		for g := 0; g < 4; g++ {
			wg.Add(1)
			go func() {
				defer wg.Done()
				defer func() {
					if recover() != nil {
						r.Panics++
					}
				}()
				sv.Stop()
			}()
		}
		wg.Wait()
		sv.Stop()
	}
	if t.Pt == "before" {
		if t.Kind == "cancel" {
			cancel()
		}
		if t.Kind == "close" {
			stop()
		}
	}
	res := make(chan error, 1)
	go func() {
		res <- sv.Discover(ctx, sink.LocalAddr().String(), "/oic/res", func(*udpclient.Conn, *pool.Message) {})
	}()
	if t.Pt == "sent" {
		buf := make([]byte, 1500)
		_ = sink.SetReadDeadline(time.Now().Add(wd))
		if _, _, err := sink.ReadFromUDP(buf); err != nil {
			r.Why = "discovery request not seen"
			cancel()
			<-res
			return r
		}
	}
	r.Reached = true
	fired := time.Now()
	if t.Pt != "before" {
		switch t.Kind {
		case "cancel":
			cancel()
		case "close":
			stop()
		}
	}
	select {
	case err := <-res:
		r.Returned, r.Err, r.Ms = true, err != nil, int(time.Since(fired).Milliseconds())
	case <-time.After(wd):
	}
	r.Others = true
	if r.Closing {
		select {
		case <-served:
			r.Done = true
		case <-time.After(wd):
		}
	}
	return r
}

// Run executes every tuple on both client transports (and discovery on the server).
func Run(tuplesPath, out string) {
	b, err := os.ReadFile(tuplesPath)
	if err != nil {
		rec.Die("read tuples: %v", err)
	}
	var ts []Tuple
	if err := json.Unmarshal(b, &ts); err != nil {
		rec.Die("tuples: %v", err)
	}
	w := rec.Create(out)
	defer w.Close()
	type job struct {
		tr string
		t  Tuple
	}
	var jobs []job
	for _, t := range ts {
		switch {
		case t.Op == "discover":
			jobs = append(jobs, job{"udpserver", t})
		case t.Datagram:
			jobs = append(jobs, job{"udp", t})
			if t.Noise == "silent" && (t.Pt == "sent" || t.Pt == "acked" || t.Pt == "midbw") && t.Kind != "deadline" {
				// the same interruption after the peer has been silent past the retransmission budget
				t2 := t
				t2.Noise = "exhaust"
				jobs = append(jobs, job{"udp", t2})
			}
		default:
			jobs = append(jobs, job{"tcp", t})
		}
	}
	res := make([]Rec, len(jobs))
	var wg sync.WaitGroup
	sem := make(chan struct{}, 12)
	for i := range jobs {
		wg.Add(1)
		sem <- struct{}{}
		go func(i int) {
			defer wg.Done()
			if jobs[i].tr == "udpserver" {
				res[i] = runDiscover(jobs[i].t)
			} else {
				res[i] = runTuple(jobs[i].tr, jobs[i].t)
			}
			<-sem
		}(i)
	}
	wg.Wait()
	for _, r := range res {
		w.Put(r)
	}
	for _, op := range []string{"get", "post", "ping", "observe", "write"} {
		w.Put(runHsFail(op))
	}
	_ = fmt.Sprint
}
