package c09

import (
	"bytes"
	"context"
	"errors"
	"sync/atomic"
	"time"

	"github.com/plgd-dev/go-coap/v3/message"
	"github.com/plgd-dev/go-coap/v3/message/pool"
	coapNet "github.com/plgd-dev/go-coap/v3/net"
	tcpclient "github.com/plgd-dev/go-coap/v3/tcp/client"

	"verifharness/internal/memnet"
)

// hsStream: a stream whose (TLS-like) handshake, which the library runs lazily inside the first read or write, is refused
type hsStream struct{ *memnet.Stream }

func (hsStream) HandshakeContext(context.Context) error { return errors.New("handshake refused by the peer") }

// runHsFail: "every blocking client operation returns within a bounded delay once ... the connection is closed by either side":
// the connection's handshake fails (the library closes the connection), then the application - which was handed the connection
// all the same, as OnNewConn of a tls server does - issues a first request and then the operation under test, both with a context
// that never ends. Both return, Done completes, every on-close callback ran once.
func runHsFail(op string) Rec {
	r := Rec{Transport: "tcp-hsfail", Op: op, Pt: "closed", Kind: "hsfail", Noise: "none", Reached: true, Closing: true, Others: true, CloseRet: true, OnClose: []int{}}
	cfg := tcpclient.DefaultConfig
	cfg.MessagePool = pool.New(64, 2048)
	cfg.Errors = func(error) {}
	cfg.CloseSocket = true
	cc := tcpclient.NewConnWithOpts(coapNet.NewConn(hsStream{memnet.NewStream()}), &cfg)
	var ran [3]atomic.Int64
	for k := range ran {
		k := k
		cc.AddOnClose(func() { ran[k].Add(1) })
	}
	go func() { _ = cc.Run() }()
	ctx := context.Background()
	t0 := time.Now()
	var err1, err2 error
	first := bounded(func() {
		resp, err := cc.Get(ctx, "/first")
		if err == nil {
			cc.ReleaseMessage(resp)
		}
		err1 = err
	})
	second := first && bounded(func() {
		switch op {
		case "get":
			resp, err := cc.Get(ctx, "/a")
			if err == nil {
				cc.ReleaseMessage(resp)
			}
			err2 = err
		case "post":
			resp, err := cc.Post(ctx, "/a", message.TextPlain, bytes.NewReader([]byte("body")))
			if err == nil {
				cc.ReleaseMessage(resp)
			}
			err2 = err
		case "ping":
			err2 = cc.Ping(ctx)
		case "observe":
			_, err2 = cc.Observe(ctx, "/a", func(*pool.Message) {})
		case "write":
			req, err := cc.NewGetRequest(ctx, "/a")
			if err != nil {
				err2 = err
				return
			}
			defer cc.ReleaseMessage(req)
			err2 = cc.WriteMessage(req)
		}
	})
	r.Returned = first && second
	r.Ms = int(time.Since(t0).Milliseconds())
	r.Err = err1 != nil && err2 != nil
	select {
	case <-cc.Done():
		r.Done = true
	case <-time.After(wd):
	}
	r.CloseRet = bounded(func() { _ = cc.Close() })
	time.Sleep(2 * time.Millisecond)
	for k := range ran {
		r.OnClose = append(r.OnClose, int(ran[k].Load()))
	}
	return r
}
