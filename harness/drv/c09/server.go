package c09

import (
	"bytes"
	"context"
	"crypto/ecdsa"
	"crypto/elliptic"
	"crypto/rand"
	"crypto/tls"
	"crypto/x509"
	"crypto/x509/pkix"
	"math/big"
	"net"
	"sync"
	"sync/atomic"
	"syscall"
	"time"

	piondtls "github.com/pion/dtls/v3"
	"github.com/plgd-dev/go-coap/v3/dtls"
	"github.com/plgd-dev/go-coap/v3/message/pool"
	"github.com/plgd-dev/go-coap/v3/mux"
	coapNet "github.com/plgd-dev/go-coap/v3/net"
	"github.com/plgd-dev/go-coap/v3/net/responsewriter"
	"github.com/plgd-dev/go-coap/v3/options"
	"github.com/plgd-dev/go-coap/v3/tcp"
	tcpclient "github.com/plgd-dev/go-coap/v3/tcp/client"
	tcpserver "github.com/plgd-dev/go-coap/v3/tcp/server"
	"github.com/plgd-dev/go-coap/v3/udp"
	udpclient "github.com/plgd-dev/go-coap/v3/udp/client"

	"github.com/plgd-dev/go-coap/v3/message"
	"github.com/plgd-dev/go-coap/v3/message/codes"

	"verifharness/internal/conns"
	"verifharness/internal/hooks"
	"verifharness/internal/memnet"
	"verifharness/internal/rec"
)

var _ mux.Router

// SrvRec: a real server on a loopback socket with `Clients` library clients, each with a request in flight whose
// handler never answers; the server is stopped from several goroutines (Order "stop-first") or the clients close
// first (Order "clients-first"); everything is observed under a watchdog.
type SrvRec struct {
	Transport  string  `json:"transport"`
	Order      string  `json:"order"`
	Clients    int     `json:"clients"`
	Conns      int     `json:"conns"`      // server-side connections created
	InFlight   int     `json:"inflight"`   // requests that reached a handler
	Served     bool    `json:"served"`     // Serve returned after Stop
	SrvDone    int     `json:"srvdone"`    // server-side connections whose Done() completed
	SrvOnClose [][]int `json:"srvonclose"` // per server-side connection: runs of each of its two on-close callbacks
	CliRet     int     `json:"cliret"`     // client calls that returned
	CliDone    int     `json:"clidone"`    // client connections whose Done() completed
	CliOnClose []int   `json:"clionclose"` // per client: runs of its on-close callback
	Panics     int     `json:"panics"`
	SelfClosed int     `json:"selfclosed"` // clients whose call returned without a local Close (the stream peers)
}

func pskConfig() *piondtls.Config {
	return &piondtls.Config{
		PSK:             func([]byte) ([]byte, error) { return []byte{0xAB, 0xC1, 0x23}, nil },
		PSKIdentityHint: []byte("verif"),
		CipherSuites:    []piondtls.CipherSuiteID{piondtls.TLS_PSK_WITH_AES_128_CCM_8},
	}
}

func selfSigned() (tls.Certificate, *x509.CertPool) {
	key, _ := ecdsa.GenerateKey(elliptic.P256(), rand.Reader)
	tpl := &x509.Certificate{SerialNumber: big.NewInt(1), Subject: pkix.Name{CommonName: "localhost"}, NotBefore: time.Now().Add(-time.Hour), NotAfter: time.Now().Add(time.Hour),
		KeyUsage: x509.KeyUsageDigitalSignature | x509.KeyUsageCertSign, ExtKeyUsage: []x509.ExtKeyUsage{x509.ExtKeyUsageServerAuth}, IsCA: true, BasicConstraintsValid: true,
		IPAddresses: []net.IP{net.IPv4(127, 0, 0, 1)}, DNSNames: []string{"localhost"}}
	der, _ := x509.CreateCertificate(rand.Reader, tpl, tpl, &key.PublicKey, key)
	cert, _ := x509.ParseCertificate(der)
	cp := x509.NewCertPool()
	cp.AddCert(cert)
	return tls.Certificate{Certificate: [][]byte{der}, PrivateKey: key}, cp
}

var tlsCert, tlsPool = selfSigned()

type sconn struct {
	done   <-chan struct{}
	counts [2]atomic.Int64
}

type cli interface {
	Get(ctx context.Context) error
	Close() error
	Done() <-chan struct{}
	AddOnClose(func())
}
type cliU struct{ cc *udpclient.Conn }

func (c cliU) Get(ctx context.Context) error {
	r, err := c.cc.Get(ctx, "/hang")
	if err == nil {
		c.cc.ReleaseMessage(r)
	}
	return err
}
func (c cliU) Close() error          { return c.cc.Close() }
func (c cliU) Done() <-chan struct{} { return c.cc.Done() }
func (c cliU) AddOnClose(f func())   { c.cc.AddOnClose(f) }

type cliT struct{ cc *tcpclient.Conn }

func (c cliT) Get(ctx context.Context) error {
	r, err := c.cc.Get(ctx, "/hang")
	if err == nil {
		c.cc.ReleaseMessage(r)
	}
	return err
}
func (c cliT) Close() error          { return c.cc.Close() }
func (c cliT) Done() <-chan struct{} { return c.cc.Done() }
func (c cliT) AddOnClose(f func())   { c.cc.AddOnClose(f) }

func runServerStop(transport, order string, nClients int) SrvRec {
	r := SrvRec{Transport: transport, Order: order, Clients: nClients, SrvOnClose: [][]int{}, CliOnClose: []int{}}
	var mu sync.Mutex
	var sconns []*sconn
	var inflight atomic.Int64
	release := make(chan struct{})
	defer close(release)
	onNewU := func(cc *udpclient.Conn) {
		s := &sconn{done: cc.Done()}
		cc.AddOnClose(func() { s.counts[0].Add(1) })
		cc.AddOnClose(func() { s.counts[1].Add(1) })
		mu.Lock()
		sconns = append(sconns, s)
		mu.Unlock()
	}
	onNewT := func(cc *tcpclient.Conn) {
		s := &sconn{done: cc.Done()}
		cc.AddOnClose(func() { s.counts[0].Add(1) })
		cc.AddOnClose(func() { s.counts[1].Add(1) })
		mu.Lock()
		sconns = append(sconns, s)
		mu.Unlock()
	}
	hU := func(*responsewriter.ResponseWriter[*udpclient.Conn], *pool.Message) { inflight.Add(1); <-release }
	hT := func(*responsewriter.ResponseWriter[*tcpclient.Conn], *pool.Message) { inflight.Add(1); <-release }
	served := make(chan error, 1)
	var stop func()
	var addr string
	var closeL func()
	switch transport {
	case "udp":
		l, err := coapNet.NewListenUDP("udp4", "127.0.0.1:0")
		if err != nil {
			rec.Die("listen: %v", err)
		}
		sv := udp.NewServer(options.WithHandlerFunc(hU), options.WithErrors(func(error) {}), options.WithOnNewConn(onNewU))
		addr, stop, closeL = l.LocalAddr().String(), sv.Stop, func() { _ = l.Close() }
		go func() { served <- sv.Serve(l) }()
	case "dtls":
		l, err := coapNet.NewDTLSListener("udp4", "127.0.0.1:0", pskConfig())
		if err != nil {
			rec.Die("listen: %v", err)
		}
		sv := dtls.NewServer(options.WithHandlerFunc(hU), options.WithErrors(func(error) {}), options.WithOnNewConn(onNewU))
		addr, stop, closeL = l.Addr().String(), sv.Stop, func() { _ = l.Close() }
		go func() { served <- sv.Serve(l) }()
	case "tcp":
		l, err := coapNet.NewTCPListener("tcp4", "127.0.0.1:0")
		if err != nil {
			rec.Die("listen: %v", err)
		}
		sv := tcp.NewServer(options.WithHandlerFunc(hT), options.WithErrors(func(error) {}), options.WithOnNewConn(onNewT))
		addr, stop, closeL = l.Addr().String(), sv.Stop, func() { _ = l.Close() }
		go func() { served <- sv.Serve(l) }()
	case "tls":
		l, err := coapNet.NewTLSListener("tcp4", "127.0.0.1:0", &tls.Config{Certificates: []tls.Certificate{tlsCert}})
		if err != nil {
			rec.Die("listen: %v", err)
		}
		sv := tcp.NewServer(options.WithHandlerFunc(hT), options.WithErrors(func(error) {}), options.WithOnNewConn(onNewT))
		addr, stop, closeL = l.Addr().String(), sv.Stop, func() { _ = l.Close() }
		go func() { served <- sv.Serve(l) }()
	}
	defer closeL()
	clis := make([]cli, nClients)
	cliCounts := make([]atomic.Int64, nClients)
	rets := make([]chan error, nClients)
	for i := range clis {
		switch transport {
		case "udp":
			cc, err := udp.Dial(addr)
			if err != nil {
				rec.Die("dial: %v", err)
			}
			clis[i] = cliU{cc}
		case "dtls":
			cc, err := dtls.Dial(addr, pskConfig())
			if err != nil {
				rec.Die("dial: %v", err)
			}
			clis[i] = cliU{cc}
		case "tcp":
			cc, err := tcp.Dial(addr)
			if err != nil {
				rec.Die("dial: %v", err)
			}
			clis[i] = cliT{cc}
		case "tls":
			cc, err := tcp.Dial(addr, options.WithTLS(&tls.Config{RootCAs: tlsPool, ServerName: "localhost"}))
			if err != nil {
				rec.Die("dial: %v", err)
			}
			clis[i] = cliT{cc}
		}
		i := i
		clis[i].AddOnClose(func() { cliCounts[i].Add(1) })
		rets[i] = make(chan error, 1)
		go func() { rets[i] <- clis[i].Get(context.Background()) }()
	}
	hooks.WaitFor(wd, func() bool { return int(inflight.Load()) >= nClients })
	r.InFlight = int(inflight.Load())
	stopAll := func() {
		var wg sync.WaitGroup
		for g := 0; g < 4; g++ {
			wg.Add(1)
			go func() {
				defer wg.Done()
				defer func() {
					if recover() != nil {
						mu.Lock()
						r.Panics++
						mu.Unlock()
					}
				}()
				stop()
			}()
		}
		wg.Wait()
		stop()
	}
	returned := make([]bool, nClients)
	collect := func(d time.Duration) int {
		deadline := time.After(d)
		n := 0
		for i := range rets {
			if returned[i] {
				n++
				continue
			}
			select {
			case <-rets[i]:
				returned[i] = true
				n++
			case <-deadline:
				return n
			}
		}
		return n
	}
	closeClients := func() {
		var wg sync.WaitGroup
		for i := range clis {
			for g := 0; g < 2; g++ {
				wg.Add(1)
				go func(i int) {
					defer wg.Done()
					defer func() {
						if recover() != nil {
							mu.Lock()
							r.Panics++
							mu.Unlock()
						}
					}()
					_ = clis[i].Close()
				}(i)
			}
		}
		wg.Wait()
	}
	if order == "listener-first" {
		// the server is not stopped: its listener is closed under it (the application closes the socket it handed to Serve, or the
		// read fails): Serve ends and everything ends with it, exactly as after Stop
		closeL()
		select {
		case <-served:
			r.Served = true
		case <-time.After(wd):
		}
		r.SelfClosed = collect(300 * time.Millisecond)
		closeClients()
		defer stop() // (only after everything has been looked at: Stop would tear down what the end of Serve has to)
	} else if order == "stop-first" {
		stopAll()
		select {
		case <-served:
			r.Served = true
		case <-time.After(wd):
		}
		r.SelfClosed = collect(300 * time.Millisecond)
		closeClients()
	} else {
		closeClients()
		stopAll()
		select {
		case <-served:
			r.Served = true
		case <-time.After(wd):
		}
	}
	r.CliRet = collect(wd)
	for i := range clis {
		ok := hooks.WaitFor(wd, func() bool {
			select {
			case <-clis[i].Done():
				return true
			default:
				return false
			}
		})
		if ok {
			r.CliDone++
		}
	}
	mu.Lock()
	sc := append([]*sconn(nil), sconns...)
	mu.Unlock()
	r.Conns = len(sc)
	for _, s := range sc {
		ok := hooks.WaitFor(wd, func() bool {
			select {
			case <-s.done:
				return true
			default:
				return false
			}
		})
		if ok {
			r.SrvDone++
		}
	}
	time.Sleep(5 * time.Millisecond)
	for _, s := range sc {
		r.SrvOnClose = append(r.SrvOnClose, []int{int(s.counts[0].Load()), int(s.counts[1].Load())})
	}
	for i := range cliCounts {
		r.CliOnClose = append(r.CliOnClose, int(cliCounts[i].Load()))
	}
	return r
}

// runStopEarly: Stop() arrives while an accepted connection is not yet established from the server's point of view:
// "handshake" - a TLS listener whose peer has connected and stays silent (no ClientHello); "hook" - a tcp listener whose
// OnNewConn callback is still running. Serve must return, and in the hook case the connection's done signal completes
// and its on-close callback runs once after the hook returns.
func runStopEarly(transport, what string) SrvRec {
	r := SrvRec{Transport: transport, Order: "stop-during-" + what, Clients: 1, SrvOnClose: [][]int{}, CliOnClose: []int{}}
	served := make(chan error, 1)
	hookEntered := make(chan struct{}, 1)
	hookRelease := make(chan struct{})
	var sc *sconn
	var mu sync.Mutex
	onNew := func(cc *tcpclient.Conn) {
		s := &sconn{done: cc.Done()}
		cc.AddOnClose(func() { s.counts[0].Add(1) })
		cc.AddOnClose(func() { s.counts[1].Add(1) })
		mu.Lock()
		sc = s
		mu.Unlock()
		if what == "hook" {
			hookEntered <- struct{}{}
			<-hookRelease
		}
	}
	var l tcpserver.Listener
	var laddr string
	if transport == "tls" {
		tl, err := coapNet.NewTLSListener("tcp4", "127.0.0.1:0", &tls.Config{Certificates: []tls.Certificate{tlsCert}})
		if err != nil {
			rec.Die("listen: %v", err)
		}
		l, laddr = tl, tl.Addr().String()
	} else {
		tl, err := coapNet.NewTCPListener("tcp4", "127.0.0.1:0")
		if err != nil {
			rec.Die("listen: %v", err)
		}
		l, laddr = tl, tl.Addr().String()
	}
	sv := tcp.NewServer(options.WithErrors(func(error) {}), options.WithOnNewConn(onNew))
	go func() { served <- sv.Serve(l) }()
	defer func() { _ = l.Close() }()
	peer, err := net.DialTimeout("tcp4", laddr, wd)
	if err != nil {
		rec.Die("dial: %v", err)
	}
	defer peer.Close()
	if what == "hook" {
		select {
		case <-hookEntered:
			r.InFlight, r.Conns = 1, 1
		case <-time.After(wd):
		}
	} else {
		time.Sleep(30 * time.Millisecond) // the server has accepted the stream and waits for the ClientHello
		r.InFlight, r.Conns = 1, 1
	}
	var wg sync.WaitGroup
	for g := 0; g < 2; g++ {
		wg.Add(1)
		go func() { defer wg.Done(); sv.Stop() }()
	}
	stopped := make(chan struct{})
	go func() { wg.Wait(); close(stopped) }()
	if what == "hook" {
		time.Sleep(20 * time.Millisecond)
		close(hookRelease)
	}
	select {
	case <-served:
		r.Served = true
	case <-time.After(wd):
	}
	select {
	case <-stopped:
	case <-time.After(wd):
	}
	r.CliRet, r.CliDone, r.CliOnClose = 1, 1, []int{1} // (no library client in this scenario)
	mu.Lock()
	s0 := sc
	mu.Unlock()
	if what == "hook" && s0 != nil {
		ok := hooks.WaitFor(wd, func() bool {
			select {
			case <-s0.done:
				return true
			default:
				return false
			}
		})
		if ok {
			r.SrvDone = 1
		}
		time.Sleep(2 * time.Millisecond)
		r.SrvOnClose = append(r.SrvOnClose, []int{int(s0.counts[0].Load()), int(s0.counts[1].Load())})
	} else {
		r.SrvDone = r.Conns // no connection object was handed out: nothing to complete
	}
	return r
}

// FloodRec: a client connection whose handler is busy while the peer keeps sending, so that the receive queue is full
// and the connection's reader is parked handing the next message over; then the connection is closed from several
// goroutines. The reader must notice (Cancel!ReaderParked), shutdown must run: done signal, every callback once.
type FloodRec struct {
	Op        string `json:"flood"`
	Transport string `json:"transport"`
	QSize     int    `json:"qsize"`
	Busy      bool   `json:"busy"` // the handler was entered and is blocked (steering succeeded)
	Done      bool   `json:"done"`
	OnClose   []int  `json:"onclose"`
	Panics    int    `json:"panics"`
}

func runFlood(transport string, qsize int) FloodRec {
	r := FloodRec{Op: "close", Transport: transport, QSize: qsize, OnClose: []int{}}
	release := make(chan struct{})
	defer close(release)
	var entered atomic.Int64
	counts := make([]atomic.Int64, 3)
	var doneCh <-chan struct{}
	var closeFn func() error
	var cleanup func()
	switch transport {
	case "udp":
		peer, err := net.ListenUDP("udp4", &net.UDPAddr{IP: net.IPv4(127, 0, 0, 1)})
		if err != nil {
			rec.Die("listen: %v", err)
		}
		cc, err := udp.Dial(peer.LocalAddr().String(), options.WithReceivedMessageQueueSize(qsize), options.WithErrors(func(error) {}),
			options.WithHandlerFunc(func(*responsewriter.ResponseWriter[*udpclient.Conn], *pool.Message) { entered.Add(1); <-release }))
		if err != nil {
			rec.Die("dial: %v", err)
		}
		for i := range counts {
			i := i
			cc.AddOnClose(func() {
				counts[i].Add(1)
				if i == 0 {
					// the first callback is slow, and while it runs somebody registers further callbacks (late: whether those run is
					// not judged) - the ones registered before the close still run, each once
					late := make(chan struct{})
					go func() {
						defer close(late)
						for k := 0; k < 3; k++ {
							cc.AddOnClose(func() {})
						}
					}()
					select {
					case <-late:
					case <-time.After(20 * time.Millisecond):
					}
					time.Sleep(time.Millisecond)
				}
			})
		}
		to := cc.LocalAddr().(*net.UDPAddr)
		for k := 0; k < qsize+6; k++ {
			_, _ = peer.WriteToUDP(memnetBuild(k), to)
			time.Sleep(200 * time.Microsecond)
		}
		doneCh, closeFn, cleanup = cc.Done(), cc.Close, func() { _ = cc.Close(); _ = peer.Close() }
	default:
		t := conns.NewTCP(func(cfg *tcpclient.Config) {
			cfg.ReceivedMessageQueueSize = qsize
			cfg.Handler = func(*responsewriter.ResponseWriter[*tcpclient.Conn], *pool.Message) { entered.Add(1); <-release }
		})
		for i := range counts {
			i := i
			t.CC.AddOnClose(func() {
				counts[i].Add(1)
				if i == 0 {
					late := make(chan struct{})
					go func() {
						defer close(late)
						for k := 0; k < 3; k++ {
							t.CC.AddOnClose(func() {})
						}
					}()
					select {
					case <-late:
					case <-time.After(20 * time.Millisecond):
					}
					time.Sleep(time.Millisecond)
				}
			})
		}
		t.Stream.Feed(conns.Frame(int(codes.CSM), []byte{1}, nil, nil))
		for k := 0; k < qsize+6; k++ {
			t.Stream.Feed(conns.Frame(int(codes.GET), []byte{0xF1, byte(k)}, message.Options{{ID: message.URIPath, Value: []byte("hang")}}, nil))
		}
		doneCh, closeFn, cleanup = t.CC.Done(), t.CC.Close, t.Close
	}
	defer cleanup()
	r.Busy = hooks.WaitFor(wd, func() bool { return entered.Load() >= 1 })
	time.Sleep(5 * time.Millisecond) // the queue fills up, the reader parks
	var wg sync.WaitGroup
	var mu sync.Mutex
	for g := 0; g < 3; g++ {
		wg.Add(1)
		go func() {
			defer wg.Done()
			defer func() {
				if recover() != nil {
					mu.Lock()
					r.Panics++
					mu.Unlock()
				}
			}()
			_ = closeFn()
		}()
	}
	wg.Wait()
	r.Done = hooks.WaitFor(wd, func() bool {
		select {
		case <-doneCh:
			return true
		default:
			return false
		}
	})
	time.Sleep(2 * time.Millisecond)
	for i := range counts {
		r.OnClose = append(r.OnClose, int(counts[i].Load()))
	}
	return r
}

// runCSMFail: a stream connection whose very first write - the CSM the session sends when it is created - is refused
// (the peer is already gone). The connection is then closed from two goroutines: "closing a connection ... completes the
// connection's done signal and runs every registered on-close callback exactly once".
func runCSMFail() FloodRec {
	r := FloodRec{Op: "csmfail", Transport: "tcp", OnClose: []int{}, Busy: true}
	st := memnet.NewStream()
	st.WriteErr = syscall.EPIPE
	cfg := tcpclient.DefaultConfig
	cfg.Errors = func(error) {}
	cfg.CloseSocket = true
	cc := tcpclient.NewConnWithOpts(coapNet.NewConn(st), &cfg)
	counts := make([]atomic.Int64, 3)
	for i := range counts {
		i := i
		cc.AddOnClose(func() { counts[i].Add(1) })
	}
	go func() { _ = cc.Run() }()
	var wg sync.WaitGroup
	var mu sync.Mutex
	for g := 0; g < 2; g++ {
		wg.Add(1)
		go func() {
			defer wg.Done()
			defer func() {
				if recover() != nil {
					mu.Lock()
					r.Panics++
					mu.Unlock()
				}
			}()
			_ = cc.Close()
		}()
	}
	wg.Wait()
	r.Done = hooks.WaitFor(wd, func() bool {
		select {
		case <-cc.Done():
			return true
		default:
			return false
		}
	})
	time.Sleep(2 * time.Millisecond)
	for i := range counts {
		r.OnClose = append(r.OnClose, int(counts[i].Load()))
	}
	hooks.Forget(cc)
	return r
}

// runUDPReclose: a server-side datagram connection is closed by the application and its peer sends another datagram
// before the next housekeeping run ("server removes closed datagram peers on the next tick or datagram"): the closed
// connection's done signal completes and its on-close callbacks run once - whichever of the two comes first.
func runUDPReclose(datagramFirst bool) FloodRec {
	r := FloodRec{Op: "udpreclose-tick", Transport: "udp", OnClose: []int{}, Busy: true}
	if datagramFirst {
		r.Op = "udpreclose-datagram"
	}
	l, err := coapNet.NewListenUDP("udp4", "127.0.0.1:0")
	if err != nil {
		rec.Die("listen: %v", err)
	}
	defer func() { _ = l.Close() }()
	var tmu sync.Mutex
	var ticks []func(time.Time) bool
	counts := make([]atomic.Int64, 3)
	first := make(chan *udpclient.Conn, 1)
	var nconn atomic.Int64
	sv := udp.NewServer(options.WithErrors(func(error) {}),
		options.WithPeriodicRunner(func(f func(time.Time) bool) { tmu.Lock(); ticks = append(ticks, f); tmu.Unlock() }),
		options.WithOnNewConn(func(cc *udpclient.Conn) {
			if nconn.Add(1) == 1 {
				for i := range counts {
					i := i
					cc.AddOnClose(func() { counts[i].Add(1) })
				}
				first <- cc
			}
		}),
		options.WithHandlerFunc(func(w *responsewriter.ResponseWriter[*udpclient.Conn], _ *pool.Message) {
			_ = w.SetResponse(codes.Content, message.TextPlain, bytes.NewReader([]byte("ok")))
		}))
	served := make(chan error, 1)
	go func() { served <- sv.Serve(l) }()
	saddr, _ := net.ResolveUDPAddr("udp4", l.LocalAddr().String())
	peer, err := net.DialUDP("udp4", nil, saddr)
	if err != nil {
		rec.Die("dial: %v", err)
	}
	defer peer.Close()
	ask := func(mid int32) bool {
		_, _ = peer.Write(memnet.Build(message.Confirmable, int(codes.GET), mid, []byte{0xC9, byte(mid)}, message.Options{{ID: message.URIPath, Value: []byte("e")}}, nil))
		buf := make([]byte, 1500)
		_ = peer.SetReadDeadline(time.Now().Add(time.Second))
		_, err := peer.Read(buf)
		return err == nil
	}
	tick := func() {
		tmu.Lock()
		fs := append([]func(time.Time) bool(nil), ticks...)
		tmu.Unlock()
		for _, f := range fs {
			f(time.Now())
		}
	}
	if !ask(900) {
		r.Busy = false
		return r
	}
	var A *udpclient.Conn
	select {
	case A = <-first:
	case <-time.After(time.Second):
		r.Busy = false
		return r
	}
	_ = A.Close()
	if datagramFirst {
		ask(901)
		tick()
	} else {
		tick()
		ask(901)
	}
	tick()
	r.Done = hooks.WaitFor(wd, func() bool {
		select {
		case <-A.Done():
			return true
		default:
			return false
		}
	})
	time.Sleep(2 * time.Millisecond)
	for i := range counts {
		r.OnClose = append(r.OnClose, int(counts[i].Load()))
	}
	sv.Stop()
	<-served
	return r
}

// runCtxClose: a client connection created with a caller-supplied parent context (options.WithContext); the parent context
// ends first (an application shutdown signal), then the application closes the connection from two goroutines: Close still
// completes the done signal and runs every on-close callback once.
func runCtxClose(transport string) FloodRec {
	r := FloodRec{Op: "ctxclose", Transport: transport, OnClose: []int{}, Busy: true}
	pctx, pcancel := context.WithCancel(context.Background())
	defer pcancel()
	counts := make([]atomic.Int64, 3)
	var doneCh <-chan struct{}
	var closeFn func() error
	var cleanup func()
	switch transport {
	case "udp":
		peer, err := net.ListenUDP("udp4", &net.UDPAddr{IP: net.IPv4(127, 0, 0, 1)})
		if err != nil {
			rec.Die("listen: %v", err)
		}
		cc, err := udp.Dial(peer.LocalAddr().String(), options.WithContext(pctx), options.WithErrors(func(error) {}))
		if err != nil {
			rec.Die("dial: %v", err)
		}
		for i := range counts {
			i := i
			cc.AddOnClose(func() { counts[i].Add(1) })
		}
		doneCh, closeFn, cleanup = cc.Done(), cc.Close, func() { _ = cc.Close(); _ = peer.Close() }
	default:
		l, err := net.Listen("tcp4", "127.0.0.1:0")
		if err != nil {
			rec.Die("listen: %v", err)
		}
		go func() {
			if c, err := l.Accept(); err == nil {
				buf := make([]byte, 256)
				for {
					if _, err := c.Read(buf); err != nil {
						_ = c.Close()
						return
					}
				}
			}
		}()
		cc, err := tcp.Dial(l.Addr().String(), options.WithContext(pctx), options.WithErrors(func(error) {}))
		if err != nil {
			rec.Die("dial: %v", err)
		}
		for i := range counts {
			i := i
			cc.AddOnClose(func() { counts[i].Add(1) })
		}
		doneCh, closeFn, cleanup = cc.Done(), cc.Close, func() { _ = cc.Close(); _ = l.Close() }
	}
	defer func() { bounded(cleanup) }()
	time.Sleep(5 * time.Millisecond) // the reader is parked in the socket
	pcancel()
	time.Sleep(5 * time.Millisecond)
	var wg sync.WaitGroup
	var mu sync.Mutex
	for g := 0; g < 2; g++ {
		wg.Add(1)
		go func() {
			defer wg.Done()
			defer func() {
				if recover() != nil {
					mu.Lock()
					r.Panics++
					mu.Unlock()
				}
			}()
			_ = closeFn()
		}()
	}
	bounded(wg.Wait)
	r.Done = hooks.WaitFor(wd, func() bool {
		select {
		case <-doneCh:
			return true
		default:
			return false
		}
	})
	time.Sleep(2 * time.Millisecond)
	for i := range counts {
		r.OnClose = append(r.OnClose, int(counts[i].Load()))
	}
	return r
}

func memnetBuild(k int) []byte {
	return memnet.Build(message.NonConfirmable, int(codes.GET), int32(0x3000+k), []byte{0xF0, byte(k)}, message.Options{{ID: message.URIPath, Value: []byte("hang")}}, nil)
}

// runStopBeforeServe: Stop() is called before Serve has started (the start-up of something else failed; a short-lived process;
// go Serve() immediately followed by Stop()): the stop is not lost - Serve returns, the server does not go on serving.
func runStopBeforeServe(transport string) SrvRec {
	r := SrvRec{Transport: transport, Order: "stop-before-serve", SrvOnClose: [][]int{}, CliOnClose: []int{}}
	served := make(chan error, 1)
	switch transport {
	case "udp":
		l, err := coapNet.NewListenUDP("udp4", "127.0.0.1:0")
		if err != nil {
			rec.Die("listen: %v", err)
		}
		defer func() { _ = l.Close() }()
		sv := udp.NewServer(options.WithErrors(func(error) {}))
		sv.Stop()
		go func() { served <- sv.Serve(l) }()
		defer sv.Stop()
	case "dtls":
		l, err := coapNet.NewDTLSListener("udp4", "127.0.0.1:0", pskConfig())
		if err != nil {
			rec.Die("listen: %v", err)
		}
		defer func() { _ = l.Close() }()
		sv := dtls.NewServer(options.WithErrors(func(error) {}))
		sv.Stop()
		go func() { served <- sv.Serve(l) }()
		defer sv.Stop()
	case "tcp":
		l, err := coapNet.NewTCPListener("tcp4", "127.0.0.1:0")
		if err != nil {
			rec.Die("listen: %v", err)
		}
		defer func() { _ = l.Close() }()
		sv := tcp.NewServer(options.WithErrors(func(error) {}))
		sv.Stop()
		go func() { served <- sv.Serve(l) }()
		defer sv.Stop()
	default:
		l, err := coapNet.NewTLSListener("tcp4", "127.0.0.1:0", &tls.Config{Certificates: []tls.Certificate{tlsCert}})
		if err != nil {
			rec.Die("listen: %v", err)
		}
		defer func() { _ = l.Close() }()
		sv := tcp.NewServer(options.WithErrors(func(error) {}))
		sv.Stop()
		go func() { served <- sv.Serve(l) }()
		defer sv.Stop()
	}
	select {
	case <-served:
		r.Served = true
	case <-time.After(wd):
	}
	return r
}

// RunServers executes the server scenarios.
func RunServers(out string, rounds int) {
	w := rec.Create(out)
	defer w.Close()
	for round := 0; round < rounds; round++ {
		for _, tr := range []string{"udp", "tcp"} {
			w.Put(runFlood(tr, []int{1, 2, 16}[round%3]))
		}
		w.Put(runCSMFail())
		w.Put(runCtxClose("udp"))
		w.Put(runCtxClose("tcp"))
		w.Put(runUDPReclose(true))
		w.Put(runUDPReclose(false))
		w.Put(runStopEarly("tls", "handshake"))
		w.Put(runStopEarly("tcp", "hook"))
		for _, tr := range []string{"udp", "tcp", "dtls", "tls"} {
			w.Put(runStopBeforeServe(tr))
			for _, order := range []string{"stop-first", "clients-first", "listener-first"} {
				w.Put(runServerStop(tr, order, 1+round%3))
			}
		}
	}
}
