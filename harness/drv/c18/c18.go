// Package c18 replays TLC-generated event histories (specs/mon) on the real inactivity.Monitor / KeepAlive
// objects (with a fake connection) and on a real udp/client.Conn guarded by them, under a virtual clock
// (verif hook in Monitor.Notify, CheckInactivity / CheckExpirations called with virtual times), and records
// after every event whether the connection was closed and how many pings were sent. TLC (RecC18) judges.
package c18

import (
	"bufio"
	"context"
	"encoding/json"
	"errors"
	"os"
	"sync"
	"sync/atomic"
	"time"

	"github.com/plgd-dev/go-coap/v3/message"
	"github.com/plgd-dev/go-coap/v3/message/codes"
	"github.com/plgd-dev/go-coap/v3/net/monitor/inactivity"
	tcpclient "github.com/plgd-dev/go-coap/v3/tcp/client"
	udpclient "github.com/plgd-dev/go-coap/v3/udp/client"

	"verifharness/internal/conns"
	"verifharness/internal/hooks"
	"verifharness/internal/memnet"
	"verifharness/internal/rec"
)

type Evt struct {
	E string `json:"e"`
	G int    `json:"g"`
	T int    `json:"t"`
}

type Stim struct {
	T          int   `json:"t"`
	P          int   `json:"p"`
	KeepAlive  bool  `json:"keepAlive"`
	MaxRetries int   `json:"maxRetries"`
	Events     []Evt `json:"events"`
	Srv        bool  `json:"srv"` // also against a real udp server on a loopback socket
	// AckPong: on datagram connections the peer answers the library's pings (empty CON) with an empty ACK of the same
	// message ID instead of a RST - it acknowledges them; either way the ping was answered
	AckPong bool `json:"ackPong"`
	// Pipelined: on stream connections (plain inactivity monitor) the peer's bytes never end on a message boundary: every
	// chunk carries the rest of the previous frame, a whole frame and the first two bytes of the next one
	Pipelined bool `json:"pipelined"`
	// Crowd (real udp server): other peers come and go; every tick finds closed connections of theirs waiting to be dismantled
	Crowd bool `json:"crowd"`
	// Fast (stream connections): a pong event at the same instant as the tick before it is delivered BEFORE the write of the
	// ping has returned - the peer answers faster than the pinging goroutine gets back from the socket
	Fast bool `json:"fast"`
	// WFail: the history has ticks with g = 1 - the ping of that tick cannot be written (bare objects and the udp connection only)
	WFail bool `json:"wfail"`
}

// pipeline turns frames into chunks that end in the middle of the next frame (an extra request frame per chunk, completed by
// the next chunk - one more message from the peer at the same instant).
type pipeline struct {
	on   bool
	n    int
	tail []byte
}

func (p *pipeline) chunk(frame []byte) []byte {
	if !p.on {
		return frame
	}
	p.n++
	next := conns.Frame(int(codes.GET), []byte{0x7B, byte(p.n)}, message.Options{{ID: message.URIPath, Value: []byte("x")}}, nil)
	out := append(append(append([]byte(nil), p.tail...), frame...), next[:2]...)
	p.tail = next[2:]
	return out
}

type Obs struct {
	Closed bool `json:"closed"`
	Pings  int  `json:"pings"`
}

type Trace struct {
	Mode       string `json:"mode"`
	T          int    `json:"t"`
	P          int    `json:"p"`
	KeepAlive  bool   `json:"keepAlive"`
	MaxRetries int    `json:"maxRetries"`
	Events     []Evt  `json:"events"`
	Obs        []Obs  `json:"obs"`
	Closes     int    `json:"closes"` // how many times the close callback ran
}

var (
	base  = time.Date(2030, 1, 1, 0, 0, 0, 0, time.UTC)
	vnow  atomic.Int64 // virtual seconds
	clock = func() time.Time { return base.Add(time.Duration(vnow.Load()) * time.Second) }
)

type fakeConn struct {
	ctx    context.Context
	closes atomic.Int64
}

func (f *fakeConn) Context() context.Context { return f.ctx }
func (f *fakeConn) Close() error             { f.closes.Add(1); return nil }

func runBare(st Stim) Trace {
	tr := Trace{Mode: "bare", T: st.T, P: st.P, KeepAlive: st.KeepAlive, MaxRetries: st.MaxRetries, Events: st.Events, Obs: []Obs{}}
	vnow.Store(0)
	cc := &fakeConn{ctx: context.Background()}
	var mu sync.Mutex
	type ping struct {
		cb        func()
		cancelled bool
	}
	var pings []*ping
	var failWrite atomic.Bool
	closeFn := func(c *fakeConn) { _ = c.Close() }
	var mon *inactivity.Monitor[*fakeConn]
	if st.KeepAlive {
		ka := inactivity.NewKeepAlive(uint32(st.MaxRetries), closeFn, func(_ *fakeConn, receivePong func()) (func(), error) {
			if failWrite.Load() { // the ping cannot be written (a tick event with g = 1)
				return nil, errors.New("harness: transient write error")
			}
			mu.Lock()
			p := &ping{cb: receivePong}
			pings = append(pings, p)
			mu.Unlock()
			return func() { mu.Lock(); p.cancelled = true; mu.Unlock() }, nil
		})
		mon = inactivity.New(time.Duration(st.P)*time.Second, ka.OnInactive)
	} else {
		mon = inactivity.New(time.Duration(st.P)*time.Second, closeFn)
	}
	for _, e := range st.Events {
		if cc.closes.Load() > 0 { // the connection is gone: no further events reach its monitor
			tr.Obs = append(tr.Obs, Obs{Closed: true, Pings: len(pings)})
			continue
		}
		vnow.Store(int64(e.T))
		switch e.E {
		case "recv":
			mon.Notify()
		case "pong":
			mon.Notify()
			mu.Lock()
			var p *ping
			if e.G >= 1 && e.G <= len(pings) {
				p = pings[e.G-1]
			}
			// the callback is delivered even if the keep-alive has cancelled (superseded) that ping in the meantime: on a
			// real connection the reader may already have taken the handler out of the table when the tick cancels it,
			// so a late answer to an earlier ping does reach the callback - and must not be credited to a later ping
			run := p != nil
			mu.Unlock()
			if run {
				p.cb()
			}
		case "tick":
			failWrite.Store(e.G == 1)
			mon.CheckInactivity(clock(), cc)
			failWrite.Store(false)
		}
		mu.Lock()
		tr.Obs = append(tr.Obs, Obs{Closed: cc.closes.Load() > 0, Pings: len(pings)})
		mu.Unlock()
	}
	tr.Closes = int(cc.closes.Load())
	return tr
}

func runUDP(st Stim) Trace {
	tr := Trace{Mode: "udp", T: st.T, P: st.P, KeepAlive: st.KeepAlive, MaxRetries: st.MaxRetries, Events: st.Events, Obs: []Obs{}}
	vnow.Store(0)
	var closes atomic.Int64
	onInactive := func(cc *udpclient.Conn) { closes.Add(1); _ = cc.Close() }
	var mon udpclient.InactivityMonitor
	if st.KeepAlive {
		ka := inactivity.NewKeepAlive(uint32(st.MaxRetries), onInactive, func(cc *udpclient.Conn, receivePong func()) (func(), error) {
			return cc.AsyncPing(receivePong)
		})
		mon = inactivity.New(time.Duration(st.P)*time.Second, ka.OnInactive)
	} else {
		mon = inactivity.New(time.Duration(st.P)*time.Second, onInactive)
	}
	u := conns.NewUDP(nil, udpclient.WithInactivityMonitor(mon))
	defer u.Close()
	pingMIDs := []int32{}
	seen := 0
	scan := func() {
		for _, raw := range u.Sess.Out(seen) {
			seen++
			d, err := memnet.Parse(raw)
			if err == nil && d.Type == message.Confirmable && d.Code == int(codes.Empty) {
				known := false // a retransmitted ping is the same ping
				for _, m := range pingMIDs {
					known = known || m == d.MID
				}
				if !known {
					pingMIDs = append(pingMIDs, d.MID)
				}
			}
		}
	}
	mid := int32(5000)
	wasClosed := false
	for _, e := range st.Events {
		if wasClosed { // a closed connection stays closed; nothing more can be delivered to it
			tr.Obs = append(tr.Obs, Obs{Closed: true, Pings: len(pingMIDs)})
			continue
		}
		vnow.Store(int64(e.T))
		switch e.E {
		case "recv":
			mid++
			switch e.G { // every kind of message is "a message received from the peer"
			case 1:
				_ = u.Inject(memnet.Build(message.Confirmable, int(codes.GET), mid, []byte{1, byte(mid)}, message.Options{{ID: message.URIPath, Value: []byte("x")}}, nil))
			case 2:
				_ = u.Inject(memnet.Build(message.Confirmable, int(codes.Empty), mid, nil, nil, nil)) // the peer's ping
			case 3:
				_ = u.Inject(memnet.Build(message.Acknowledgement, int(codes.Empty), 0x7000+mid, nil, nil, nil))
			case 4:
				_ = u.Inject(memnet.Build(message.Reset, int(codes.Empty), 0x7000+mid, nil, nil, nil))
			case 5:
				_ = u.Inject(memnet.Build(message.NonConfirmable, int(codes.Content), mid, []byte{9, byte(mid)}, nil, []byte("r")))
			default:
				_ = u.Inject(memnet.Build(message.NonConfirmable, int(codes.GET), mid, []byte{1, byte(mid)}, message.Options{{ID: message.URIPath, Value: []byte("x")}}, nil))
			}
		case "pong":
			scan()
			if e.G >= 1 && e.G <= len(pingMIDs) {
				typ := message.Reset
				if st.AckPong {
					typ = message.Acknowledgement
				}
				_ = u.Inject(memnet.Build(typ, int(codes.Empty), pingMIDs[e.G-1], nil, nil, nil))
			}
		case "tick":
			if e.G == 1 { // the ping of this tick cannot be written (a transient error of the socket)
				u.Sess.FailNext.Store(1)
			}
			u.CC.CheckExpirations(clock())
			u.Sess.FailNext.Store(0)
		}
		closed := false
		select {
		case <-u.CC.Done():
			closed = true
		default:
			u.Quiesce()
		}
		scan()
		wasClosed = closed
		tr.Obs = append(tr.Obs, Obs{Closed: closed, Pings: len(pingMIDs)})
	}
	tr.Closes = int(closes.Load())
	return tr
}

// runTCP: the same history on a real tcp client connection (scripted stream): messages arrive as frames (requests,
// responses and signals nobody waits for, the peer's Ping), keep-alive pings are Ping signals answered by Pong.
func runTCP(st Stim) Trace {
	tr := Trace{Mode: "tcp", T: st.T, P: st.P, KeepAlive: st.KeepAlive, MaxRetries: st.MaxRetries, Events: st.Events, Obs: []Obs{}}
	vnow.Store(0)
	var closes atomic.Int64
	onInactive := func(cc *tcpclient.Conn) { closes.Add(1); _ = cc.Close() }
	var mon tcpclient.InactivityMonitor
	if st.KeepAlive {
		ka := inactivity.NewKeepAlive(uint32(st.MaxRetries), onInactive, func(cc *tcpclient.Conn, receivePong func()) (func(), error) {
			return cc.AsyncPing(receivePong)
		})
		mon = inactivity.New(time.Duration(st.P)*time.Second, ka.OnInactive)
	} else {
		mon = inactivity.New(time.Duration(st.P)*time.Second, onInactive)
	}
	// (every second history: the connection is configured to ignore the peer's CSMs - and nothing but its CSMs)
	t := conns.NewTCP(func(cfg *tcpclient.Config) { cfg.DisablePeerTCPSignalMessageCSMs = st.T%2 == 0 }, tcpclient.WithInactivityMonitor(mon))
	defer t.Close()
	pl := &pipeline{on: st.Pipelined && !st.KeepAlive}
	pingToks := [][]byte{}
	off := 0
	scan := func() {
		b := t.Stream.Written(off)
		frames, rest := conns.Frames(b)
		off += len(b) - len(rest)
		for _, f := range frames {
			if f.Code == int(codes.Ping) {
				pingToks = append(pingToks, append([]byte(nil), f.Token...))
			}
		}
	}
	n := 0
	wasClosed := false
	var early atomic.Bool  // the next pong event has been delivered from inside the ping's Write
	var expect atomic.Bool // the event after the current tick is a pong at the same instant
	if st.Fast {
		t.Stream.OnWrite = func(p []byte) {
			if !expect.Load() {
				return
			}
			if fs, _ := conns.Frames(p); len(fs) == 1 && fs[0].Code == int(codes.Ping) && expect.CompareAndSwap(true, false) {
				t.Stream.Feed(conns.Frame(int(codes.Pong), fs[0].Token, nil, nil))
				t.Settle()
				early.Store(true)
			}
		}
	}
	for i, e := range st.Events {
		if wasClosed {
			tr.Obs = append(tr.Obs, Obs{Closed: true, Pings: len(pingToks)})
			continue
		}
		vnow.Store(int64(e.T))
		if st.Fast && e.E == "tick" && i+1 < len(st.Events) && st.Events[i+1].E == "pong" && st.Events[i+1].T == e.T && st.Events[i+1].G == len(pingToks)+1 {
			expect.Store(true)
		}
		if e.E == "pong" && early.CompareAndSwap(true, false) {
			// already delivered, at this very instant, before the ping's write returned
			scan()
			tr.Obs = append(tr.Obs, Obs{Closed: false, Pings: len(pingToks)})
			continue
		}
		switch e.E {
		case "recv":
			n++
			tok := []byte{0x7A, byte(n)}
			switch e.G { // every kind of message is "a message received from the peer"
			case 1:
				t.Feed(pl.chunk(conns.Frame(int(codes.POST), tok, message.Options{{ID: message.URIPath, Value: []byte("x")}}, []byte("p"))))
			case 2:
				t.Feed(pl.chunk(conns.Frame(int(codes.Ping), tok, nil, nil))) // the peer's ping
			case 3:
				t.Feed(pl.chunk(conns.Frame(int(codes.Pong), tok, nil, nil))) // a pong nobody waits for
			case 4:
				t.Feed(pl.chunk(conns.Frame(int(codes.CSM), tok, nil, nil)))
			case 5:
				t.Feed(pl.chunk(conns.Frame(int(codes.Content), tok, nil, []byte("r")))) // a response nobody waits for
			default:
				t.Feed(pl.chunk(conns.Frame(int(codes.GET), tok, message.Options{{ID: message.URIPath, Value: []byte("x")}}, nil)))
			}
		case "pong":
			scan()
			if e.G >= 1 && e.G <= len(pingToks) {
				t.Feed(pl.chunk(conns.Frame(int(codes.Pong), pingToks[e.G-1], nil, nil)))
			}
		case "tick":
			t.CC.CheckExpirations(clock())
			expect.Store(false) // (no ping was written at this tick: the pong event that follows is delivered the ordinary way)
		}
		closed := false
		if closes.Load() > 0 { // the monitor has decided: the reader goroutine completes the close a moment later
			hooks.WaitFor(conns.WD, func() bool {
				select {
				case <-t.CC.Done():
					return true
				default:
					return false
				}
			})
		}
		select {
		case <-t.CC.Done():
			closed = true
		default:
			t.Settle()
		}
		scan()
		wasClosed = closed
		tr.Obs = append(tr.Obs, Obs{Closed: closed, Pings: len(pingToks)})
	}
	tr.Closes = int(closes.Load())
	return tr
}

// Run replays every stimulus on the bare objects and on a real udp connection (sequentially: one virtual clock).
func Run(stimPath, out string) {
	f := clock
	inactivity.VerifNow.Store(&f)
	defer inactivity.VerifNow.Store(nil)
	fh, err := os.Open(stimPath)
	if err != nil {
		rec.Die("open: %v", err)
	}
	defer fh.Close()
	wr := rec.Create(out)
	defer wr.Close()
	sc := bufio.NewScanner(fh)
	sc.Buffer(make([]byte, 1<<20), 64<<20)
	for sc.Scan() {
		var st Stim
		if err := json.Unmarshal(sc.Bytes(), &st); err != nil {
			rec.Die("stimulus: %v", err)
		}
		wr.Put(runBare(st))
		wr.Put(runUDP(st))
		if st.WFail {
			continue
		}
		wr.Put(runTCP(st))
		if st.Srv {
			wr.Put(runUDPServer(st))
			wr.Put(runTCPServer(st))
		}
	}
}
