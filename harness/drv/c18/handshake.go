package c18

import (
	"context"
	"sync/atomic"
	"time"

	piondtls "github.com/pion/dtls/v3"
	"github.com/plgd-dev/go-coap/v3/dtls"
	"github.com/plgd-dev/go-coap/v3/message/pool"
	coapNet "github.com/plgd-dev/go-coap/v3/net"
	"github.com/plgd-dev/go-coap/v3/net/responsewriter"
	"github.com/plgd-dev/go-coap/v3/options"
	"github.com/plgd-dev/go-coap/v3/pkg/runner/periodic"
	udpclient "github.com/plgd-dev/go-coap/v3/udp/client"

	"verifharness/internal/hooks"
	"verifharness/internal/rec"
	"verifharness/internal/tlsutil"
)

// HSRec: a real DTLS server guarded by a plain inactivity monitor (real clock, 10 ms housekeeping) and a peer whose handshake is
// slow (its PSK callback sleeps). After the handshake the peer stays silent. "closed only if no message was received for a full
// period": the connection exists from the end of the handshake on - it is closed no earlier than one period after it was
// announced (and it IS closed).
type HSRec struct {
	Op          string `json:"op"` // dtlshs
	PeriodMs    int    `json:"periodMs"`
	HandshakeMs int    `json:"handshakeMs"`
	Established bool   `json:"established"`
	Closed      bool   `json:"closed"`
	AfterMs     int    `json:"afterMs"` // from the server's key lookup (late in its handshake) to the monitor's verdict
}

func runHandshake(periodMs, handshakeMs int) HSRec {
	r := HSRec{Op: "dtlshs", PeriodMs: periodMs, HandshakeMs: handshakeMs}
	// the server is asked for the key only after the peer's slow step and before its own handshake is over: that instant is
	// the reference (the connection cannot exist before it)
	var keyed, verdict atomic.Int64
	scfg := tlsutil.PSK()
	scfg.PSK = func([]byte) ([]byte, error) {
		keyed.Store(time.Now().UnixNano())
		return []byte{0xAB, 0xC1, 0x23}, nil
	}
	l, err := coapNet.NewDTLSListener("udp4", "127.0.0.1:0", scfg)
	if err != nil {
		rec.Die("listen: %v", err)
	}
	defer func() { _ = l.Close() }()
	var announced atomic.Int64
	done := make(chan struct{})
	defer close(done)
	sv := dtls.NewServer(options.WithErrors(func(error) {}),
		options.WithPeriodicRunner(periodic.New(done, 10*time.Millisecond)),
		options.WithOnNewConn(func(*udpclient.Conn) { announced.Store(time.Now().UnixNano()) }),
		options.WithInactivityMonitor(time.Duration(periodMs)*time.Millisecond, func(cc *udpclient.Conn) {
			verdict.CompareAndSwap(0, time.Now().UnixNano())
			_ = cc.Close()
		}),
		options.WithHandlerFunc(func(*responsewriter.ResponseWriter[*udpclient.Conn], *pool.Message) {}))
	go func() { _ = sv.Serve(l) }()
	defer sv.Stop()
	slow := &piondtls.Config{
		PSK: func([]byte) ([]byte, error) {
			time.Sleep(time.Duration(handshakeMs) * time.Millisecond)
			return []byte{0xAB, 0xC1, 0x23}, nil
		},
		PSKIdentityHint: []byte("verif"),
		CipherSuites:    []piondtls.CipherSuiteID{piondtls.TLS_PSK_WITH_AES_128_CCM_8},
	}
	ctx, cancel := context.WithTimeout(context.Background(), 5*time.Second)
	defer cancel()
	cc, err := dtls.Dial(l.Addr().String(), slow, options.WithContext(ctx), options.WithErrors(func(error) {}))
	if err != nil {
		return r
	}
	defer cc.Close()
	r.Established = hooks.WaitFor(2*time.Second, func() bool { return announced.Load() != 0 && keyed.Load() != 0 })
	if !r.Established {
		return r
	}
	r.Closed = hooks.WaitFor(time.Duration(periodMs)*time.Millisecond+2*time.Second, func() bool { return verdict.Load() != 0 })
	if r.Closed {
		r.AfterMs = int((verdict.Load() - keyed.Load()) / int64(time.Millisecond))
	}
	return r
}

// RunHandshake writes the slow-handshake records.
func RunHandshake(out string) {
	w := rec.Create(out)
	defer w.Close()
	for _, hs := range []int{0, 300, 450} {
		w.Put(runHandshake(600, hs))
	}
}
