package c18

import (
	"net"
	"sync"
	"sync/atomic"
	"time"

	"github.com/plgd-dev/go-coap/v3/message"
	"github.com/plgd-dev/go-coap/v3/message/codes"
	"github.com/plgd-dev/go-coap/v3/message/pool"
	coapNet "github.com/plgd-dev/go-coap/v3/net"
	"github.com/plgd-dev/go-coap/v3/net/responsewriter"
	"github.com/plgd-dev/go-coap/v3/options"
	"github.com/plgd-dev/go-coap/v3/tcp"
	tcpclient "github.com/plgd-dev/go-coap/v3/tcp/client"
	tcpserver "github.com/plgd-dev/go-coap/v3/tcp/server"
	"github.com/plgd-dev/go-coap/v3/udp"
	udpclient "github.com/plgd-dev/go-coap/v3/udp/client"
	udpserver "github.com/plgd-dev/go-coap/v3/udp/server"

	"verifharness/internal/conns"
	"verifharness/internal/hooks"
	"verifharness/internal/memnet"
	"verifharness/internal/rec"
)

// runUDPServer: the same history against a REAL udp server on a loopback socket whose peer connections are guarded
// through the server options (WithInactivityMonitor / WithKeepAlive: period = timeout / (maxRetries + 1)) and whose
// housekeeping tick is driven by the driver (WithPeriodicRunner) with virtual times. The peer is a raw socket.
func runUDPServer(st Stim) Trace {
	tr := Trace{Mode: "udpsrv", T: st.T, P: st.P, KeepAlive: st.KeepAlive, MaxRetries: st.MaxRetries, Events: st.Events, Obs: []Obs{}}
	vnow.Store(0)
	var closes atomic.Int64
	var ccMu sync.Mutex
	var uconns []*udpclient.Conn
	byAddr := map[string]*udpclient.Conn{}
	onInactive := func(cc *udpclient.Conn) {
		ccMu.Lock()
		isPeer := len(uconns) > 0 && uconns[0] == cc
		ccMu.Unlock()
		if isPeer {
			closes.Add(1)
		}
		_ = cc.Close()
	}
	var tickMu sync.Mutex
	var ticks []func(time.Time) bool
	runner := func(f func(now time.Time) bool) {
		tickMu.Lock()
		ticks = append(ticks, f)
		tickMu.Unlock()
	}
	opts := []udpserver.Option{
		options.WithPeriodicRunner(runner),
		options.WithErrors(func(error) {}),
		options.WithOnNewConn(func(cc *udpclient.Conn) {
			ccMu.Lock()
			uconns = append(uconns, cc)
			byAddr[cc.RemoteAddr().String()] = cc
			ccMu.Unlock()
		}),
		options.WithHandlerFunc(func(w *responsewriter.ResponseWriter[*udpclient.Conn], r *pool.Message) {}),
	}
	if st.KeepAlive {
		opts = append(opts, options.WithKeepAlive(uint32(st.MaxRetries), time.Duration(st.P*(st.MaxRetries+1))*time.Second, onInactive))
	} else {
		opts = append(opts, options.WithInactivityMonitor(time.Duration(st.P)*time.Second, onInactive))
	}
	l, err := coapNet.NewListenUDP("udp4", "127.0.0.1:0")
	if err != nil {
		rec.Die("listen: %v", err)
	}
	sv := udp.NewServer(opts...)
	go func() { _ = sv.Serve(l) }()
	defer func() { sv.Stop(); _ = l.Close() }()
	saddr, _ := net.ResolveUDPAddr("udp4", l.LocalAddr().String())
	peer, err := net.DialUDP("udp4", nil, saddr)
	if err != nil {
		rec.Die("dial: %v", err)
	}
	defer peer.Close()
	// everything the server sends to the peer; pings are confirmable empty messages
	var pmu sync.Mutex
	pingMIDs := []int32{}
	rsts := map[int32]bool{}
	go func() {
		buf := make([]byte, 2048)
		for {
			n, err := peer.Read(buf)
			if err != nil {
				return
			}
			d, perr := memnet.Parse(append([]byte(nil), buf[:n]...))
			if perr == nil && d.Type == message.Reset {
				pmu.Lock()
				rsts[d.MID] = true
				pmu.Unlock()
			}
			if perr == nil && d.Type == message.Confirmable && d.Code == int(codes.Empty) {
				pmu.Lock()
				known := false
				for _, m := range pingMIDs {
					known = known || m == d.MID
				}
				if !known {
					pingMIDs = append(pingMIDs, d.MID)
				}
				pmu.Unlock()
			}
		}
	}()
	npings := func() int { pmu.Lock(); defer pmu.Unlock(); return len(pingMIDs) }
	first := func() *udpclient.Conn {
		ccMu.Lock()
		defer ccMu.Unlock()
		if len(uconns) == 0 {
			return nil
		}
		return uconns[0]
	}
	mid := int32(5000)
	bar := int32(0x6000)
	// send: the datagram, then a barrier ping (an empty confirmable message, which the server answers with a reset): the
	// listener hands datagrams of one peer to its connection in order, so the answer to the barrier means that the
	// datagram before it has been processed. (The barrier is itself "a message received" at the same virtual instant.)
	send := func(raw []byte) {
		_, _ = peer.Write(raw)
		bar++
		b := bar
		_, _ = peer.Write(memnet.Build(message.Confirmable, int(codes.Empty), b, nil, nil, nil))
		hooks.WaitFor(500*time.Millisecond, func() bool {
			pmu.Lock()
			defer pmu.Unlock()
			return rsts[b]
		})
		// ... and handed to the connection; what went to its receive queue must have been handled to the end as well
		// (handleReq refreshes the activity stamp once more when the handler returns)
		if c := first(); c != nil {
			hooks.Quiesce(c, 500*time.Millisecond)
		}
	}
	// the peer connection exists from virtual time 0 on
	send(memnet.Build(message.NonConfirmable, int(codes.GET), mid, []byte{1, 0}, message.Options{{ID: message.URIPath, Value: []byte("x")}}, nil))
	cc := first()
	if cc == nil {
		rec.Die("c18 udpsrv: the server created no connection for the peer")
	}
	// Crowd: other peers of the same server come and go - before every tick three of them have talked to the server and their
	// connections have then been closed (by the application), so the tick finds closed connections waiting to be dismantled
	// next to the peer under test: what it does to that peer must not depend on them
	var crowd []*net.UDPConn
	if st.Crowd {
		for k := 0; k < 3; k++ {
			c, err := net.DialUDP("udp4", nil, saddr)
			if err != nil {
				rec.Die("dial: %v", err)
			}
			defer c.Close()
			crowd = append(crowd, c)
		}
	}
	crowdComeAndGo := func() {
		for k, c := range crowd {
			_, _ = c.Write(memnet.Build(message.NonConfirmable, int(codes.GET), int32(9000+k), []byte{7, byte(k)}, message.Options{{ID: message.URIPath, Value: []byte("x")}}, nil))
			a := c.LocalAddr().String()
			var sc *udpclient.Conn
			hooks.WaitFor(300*time.Millisecond, func() bool {
				ccMu.Lock()
				defer ccMu.Unlock()
				sc = byAddr[a]
				return sc != nil && sc.Context().Err() == nil
			})
			if sc != nil {
				hooks.Quiesce(sc, 200*time.Millisecond)
				_ = sc.Close()
			}
		}
	}
	wasClosed := false
	for _, e := range st.Events {
		if wasClosed {
			tr.Obs = append(tr.Obs, Obs{Closed: true, Pings: npings()})
			continue
		}
		vnow.Store(int64(e.T))
		if e.E == "tick" {
			crowdComeAndGo()
		}
		switch e.E {
		case "recv":
			mid++
			switch e.G {
			case 1:
				send(memnet.Build(message.Confirmable, int(codes.GET), mid, []byte{1, byte(mid)}, message.Options{{ID: message.URIPath, Value: []byte("x")}}, nil))
			case 2:
				send(memnet.Build(message.Confirmable, int(codes.Empty), mid, nil, nil, nil))
			case 3:
				send(memnet.Build(message.Acknowledgement, int(codes.Empty), 0x7000+mid, nil, nil, nil))
			case 4:
				send(memnet.Build(message.Reset, int(codes.Empty), 0x7000+mid, nil, nil, nil))
			case 5:
				send(memnet.Build(message.NonConfirmable, int(codes.Content), mid, []byte{9, byte(mid)}, nil, []byte("r")))
			default:
				send(memnet.Build(message.NonConfirmable, int(codes.GET), mid, []byte{1, byte(mid)}, message.Options{{ID: message.URIPath, Value: []byte("x")}}, nil))
			}
		case "pong":
			pmu.Lock()
			var m int32 = -1
			if e.G >= 1 && e.G <= len(pingMIDs) {
				m = pingMIDs[e.G-1]
			}
			pmu.Unlock()
			if m >= 0 {
				typ := message.Reset
				if st.AckPong {
					typ = message.Acknowledgement
				}
				send(memnet.Build(typ, int(codes.Empty), m, nil, nil, nil))
			}
		case "tick":
			tickMu.Lock()
			fs := append([]func(time.Time) bool(nil), ticks...)
			tickMu.Unlock()
			n0, before := npings(), map[int32]bool{}
			for _, m := range cc.VerifState().Mids {
				before[m] = true
			}
			for _, f := range fs {
				f(clock())
			}
			// a ping written by the tick (a confirmable message with a new message ID in the connection's table) reaches the
			// peer's socket: the peer goroutine must have seen it before the history goes on
			newp := 0
			for _, m := range cc.VerifState().Mids {
				if !before[m] {
					newp++
				}
			}
			if newp > 0 {
				hooks.WaitFor(2*time.Second, func() bool { return npings() >= n0+newp })
			}
			settlePings(npings)
		}
		closed := false
		if closes.Load() > 0 {
			hooks.WaitFor(time.Second, func() bool { return cc.Context().Err() != nil })
		}
		if cc.Context().Err() != nil {
			closed = true
		}
		wasClosed = closed
		tr.Obs = append(tr.Obs, Obs{Closed: closed, Pings: npings()})
	}
	tr.Closes = int(closes.Load())
	return tr
}

// runTCPServer: the same history against a REAL tcp server on a loopback socket (options.WithInactivityMonitor /
// WithKeepAlive, driver-driven housekeeping tick). Peer A (a raw stream) follows the history; a second peer B is
// connected all the time and answers every ping at once: what the monitor does to A must not depend on B.
func runTCPServer(st Stim) Trace {
	tr := Trace{Mode: "tcpsrv", T: st.T, P: st.P, KeepAlive: st.KeepAlive, MaxRetries: st.MaxRetries, Events: st.Events, Obs: []Obs{}}
	vnow.Store(0)
	var closesA atomic.Int64
	var ccMu sync.Mutex
	var conns_ []*tcpclient.Conn
	onInactive := func(cc *tcpclient.Conn) {
		ccMu.Lock()
		isA := len(conns_) > 0 && conns_[0] == cc
		ccMu.Unlock()
		if isA {
			closesA.Add(1)
		}
		_ = cc.Close()
	}
	var tickMu sync.Mutex
	var ticks []func(time.Time) bool
	runner := func(f func(now time.Time) bool) {
		tickMu.Lock()
		ticks = append(ticks, f)
		tickMu.Unlock()
	}
	opts := []tcpserver.Option{
		options.WithPeriodicRunner(runner),
		options.WithErrors(func(error) {}),
		options.WithOnNewConn(func(cc *tcpclient.Conn) { ccMu.Lock(); conns_ = append(conns_, cc); ccMu.Unlock() }),
		options.WithHandlerFunc(func(w *responsewriter.ResponseWriter[*tcpclient.Conn], r *pool.Message) {}),
	}
	if st.KeepAlive {
		opts = append(opts, options.WithKeepAlive(uint32(st.MaxRetries), time.Duration(st.P*(st.MaxRetries+1))*time.Second, onInactive))
	} else {
		opts = append(opts, options.WithInactivityMonitor(time.Duration(st.P)*time.Second, onInactive))
	}
	l, err := coapNet.NewTCPListener("tcp4", "127.0.0.1:0")
	if err != nil {
		rec.Die("listen: %v", err)
	}
	sv := tcp.NewServer(opts...)
	go func() { _ = sv.Serve(l) }()
	defer func() { sv.Stop(); _ = l.Close() }()
	nconns := func() int { ccMu.Lock(); defer ccMu.Unlock(); return len(conns_) }
	type peer struct {
		c     net.Conn
		mu    sync.Mutex
		pings [][]byte        // tokens of the Ping signals received, in order
		pongs map[string]bool // tokens of the Pong signals received
	}
	dial := func(auto bool, want int) *peer {
		c, err := net.DialTimeout("tcp4", l.Addr().String(), time.Second)
		if err != nil {
			rec.Die("dial: %v", err)
		}
		p := &peer{c: c, pongs: map[string]bool{}}
		go func() {
			var buf []byte
			tmp := make([]byte, 4096)
			for {
				n, err := c.Read(tmp)
				if err != nil {
					return
				}
				buf = append(buf, tmp[:n]...)
				fs, rest := conns.Frames(buf)
				buf = append([]byte(nil), rest...)
				for _, f := range fs {
					switch f.Code {
					case int(codes.Ping):
						p.mu.Lock()
						p.pings = append(p.pings, append([]byte(nil), f.Token...))
						p.mu.Unlock()
						if auto {
							_, _ = c.Write(conns.Frame(int(codes.Pong), f.Token, nil, nil))
						}
					case int(codes.Pong):
						p.mu.Lock()
						p.pongs[string(f.Token)] = true
						p.mu.Unlock()
					}
				}
			}
		}()
		_, _ = c.Write(conns.Frame(int(codes.CSM), []byte{1}, nil, nil))
		hooks.WaitFor(time.Second, func() bool { return nconns() >= want })
		return p
	}
	A := dial(false, 1)
	defer A.c.Close()
	B := dial(true, 2)
	defer B.c.Close()
	ccMu.Lock()
	var ccA *tcpclient.Conn
	if len(conns_) > 0 {
		ccA = conns_[0]
	}
	ccMu.Unlock()
	if ccA == nil {
		rec.Die("c18 tcpsrv: the server created no connection")
	}
	bar := 0
	// send on A, then a barrier Ping; its Pong means the server has processed what was sent before it
	pl := &pipeline{on: st.Pipelined && !st.KeepAlive}
	send := func(raw []byte) {
		if raw != nil {
			_, _ = A.c.Write(pl.chunk(raw))
		}
		bar++
		tok := []byte{0xBA, byte(bar >> 8), byte(bar)}
		_, _ = A.c.Write(pl.chunk(conns.Frame(int(codes.Ping), tok, nil, nil)))
		hooks.WaitFor(500*time.Millisecond, func() bool { A.mu.Lock(); defer A.mu.Unlock(); return A.pongs[string(tok)] })
		hooks.Quiesce(ccA, 500*time.Millisecond)
	}
	npings := func() int { A.mu.Lock(); defer A.mu.Unlock(); return len(A.pings) }
	send(nil) // both connections exist and are active at virtual time 0
	n := 0
	wasClosed := false
	for _, e := range st.Events {
		if wasClosed {
			tr.Obs = append(tr.Obs, Obs{Closed: true, Pings: npings()})
			continue
		}
		vnow.Store(int64(e.T))
		switch e.E {
		case "recv":
			n++
			tok := []byte{0x7A, byte(n)}
			switch e.G {
			case 1:
				send(conns.Frame(int(codes.POST), tok, message.Options{{ID: message.URIPath, Value: []byte("x")}}, []byte("p")))
			case 2:
				send(nil) // the peer's ping (the barrier itself)
			case 3:
				send(conns.Frame(int(codes.Pong), tok, nil, nil))
			case 4:
				send(conns.Frame(int(codes.CSM), tok, nil, nil))
			case 5:
				send(conns.Frame(int(codes.Content), tok, nil, []byte("r")))
			default:
				send(conns.Frame(int(codes.GET), tok, message.Options{{ID: message.URIPath, Value: []byte("x")}}, nil))
			}
		case "pong":
			A.mu.Lock()
			var tok []byte
			if e.G >= 1 && e.G <= len(A.pings) {
				tok = A.pings[e.G-1]
			}
			A.mu.Unlock()
			if tok != nil {
				send(conns.Frame(int(codes.Pong), tok, nil, nil))
			}
		case "tick":
			tickMu.Lock()
			fs := append([]func(time.Time) bool(nil), ticks...)
			tickMu.Unlock()
			n0, before := npings(), map[uint64]bool{}
			for _, k := range ccA.VerifState().Tokens {
				before[k] = true
			}
			for _, f := range fs {
				f(clock())
			}
			// a ping written by the tick (a new token in the connection's table) must have been seen by the peer goroutine
			newp := 0
			for _, k := range ccA.VerifState().Tokens {
				if !before[k] {
					newp++
				}
			}
			if newp > 0 {
				hooks.WaitFor(2*time.Second, func() bool { return npings() >= n0+newp })
			}
			settlePings(npings)
		}
		closed := false
		if closesA.Load() > 0 {
			hooks.WaitFor(time.Second, func() bool { return ccA.Context().Err() != nil })
		}
		if ccA.Context().Err() != nil {
			closed = true
		}
		wasClosed = closed
		tr.Obs = append(tr.Obs, Obs{Closed: closed, Pings: npings()})
	}
	tr.Closes = int(closesA.Load())
	return tr
}

// settlePings: a ping written by a tick has left the library when the tick returns; the peer (a goroutine of the driver that
// reads the loopback socket) sees it a moment later - how much later depends on the load of the machine. Wait until the
// number of pings seen has not moved for 2 ms (at most 100 ms).
func settlePings(n func() int) {
	last, since := n(), time.Now()
	for end := time.Now().Add(100 * time.Millisecond); time.Now().Before(end); {
		time.Sleep(200 * time.Microsecond)
		if v := n(); v != last {
			last, since = v, time.Now()
		} else if time.Since(since) >= 2*time.Millisecond {
			return
		}
	}
}
