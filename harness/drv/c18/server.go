package c18

import (
	"net"
	"sync"
	"sync/atomic"
	"time"

	"github.com/plgd-dev/go-coap/v3/message"
	"github.com/plgd-dev/go-coap/v3/message/codes"
	"github.com/plgd-dev/go-coap/v3/message/pool"
	coapNet "github.com/plgd-dev/go-coap/v3/net"
	"github.com/plgd-dev/go-coap/v3/net/responsewriter"
	"github.com/plgd-dev/go-coap/v3/options"
	"github.com/plgd-dev/go-coap/v3/udp"
	udpclient "github.com/plgd-dev/go-coap/v3/udp/client"
	udpserver "github.com/plgd-dev/go-coap/v3/udp/server"

	"verifharness/internal/hooks"
	"verifharness/internal/memnet"
	"verifharness/internal/rec"
)

// runUDPServer: the same history against a REAL udp server on a loopback socket whose peer connections are guarded
// through the server options (WithInactivityMonitor / WithKeepAlive: period = timeout / (maxRetries + 1)) and whose
// housekeeping tick is driven by the driver (WithPeriodicRunner) with virtual times. The peer is a raw socket.
func runUDPServer(st Stim) Trace {
	tr := Trace{Mode: "udpsrv", T: st.T, P: st.P, KeepAlive: st.KeepAlive, MaxRetries: st.MaxRetries, Events: st.Events, Obs: []Obs{}}
	vnow.Store(0)
	var closes atomic.Int64
	onInactive := func(cc *udpclient.Conn) { closes.Add(1); _ = cc.Close() }
	var tickMu sync.Mutex
	var ticks []func(time.Time) bool
	runner := func(f func(now time.Time) bool) {
		tickMu.Lock()
		ticks = append(ticks, f)
		tickMu.Unlock()
	}
	var ccMu sync.Mutex
	var conns []*udpclient.Conn
	opts := []udpserver.Option{
		options.WithPeriodicRunner(runner),
		options.WithErrors(func(error) {}),
		options.WithOnNewConn(func(cc *udpclient.Conn) { ccMu.Lock(); conns = append(conns, cc); ccMu.Unlock() }),
		options.WithHandlerFunc(func(w *responsewriter.ResponseWriter[*udpclient.Conn], r *pool.Message) {}),
	}
	if st.KeepAlive {
		opts = append(opts, options.WithKeepAlive(uint32(st.MaxRetries), time.Duration(st.P*(st.MaxRetries+1))*time.Second, onInactive))
	} else {
		opts = append(opts, options.WithInactivityMonitor(time.Duration(st.P)*time.Second, onInactive))
	}
	l, err := coapNet.NewListenUDP("udp4", "127.0.0.1:0")
	if err != nil {
		rec.Die("listen: %v", err)
	}
	sv := udp.NewServer(opts...)
	go func() { _ = sv.Serve(l) }()
	defer func() { sv.Stop(); _ = l.Close() }()
	saddr, _ := net.ResolveUDPAddr("udp4", l.LocalAddr().String())
	peer, err := net.DialUDP("udp4", nil, saddr)
	if err != nil {
		rec.Die("dial: %v", err)
	}
	defer peer.Close()
	// everything the server sends to the peer; pings are confirmable empty messages
	var pmu sync.Mutex
	pingMIDs := []int32{}
	rsts := map[int32]bool{}
	go func() {
		buf := make([]byte, 2048)
		for {
			n, err := peer.Read(buf)
			if err != nil {
				return
			}
			d, perr := memnet.Parse(append([]byte(nil), buf[:n]...))
			if perr == nil && d.Type == message.Reset {
				pmu.Lock()
				rsts[d.MID] = true
				pmu.Unlock()
			}
			if perr == nil && d.Type == message.Confirmable && d.Code == int(codes.Empty) {
				pmu.Lock()
				known := false
				for _, m := range pingMIDs {
					known = known || m == d.MID
				}
				if !known {
					pingMIDs = append(pingMIDs, d.MID)
				}
				pmu.Unlock()
			}
		}
	}()
	npings := func() int { pmu.Lock(); defer pmu.Unlock(); return len(pingMIDs) }
	first := func() *udpclient.Conn {
		ccMu.Lock()
		defer ccMu.Unlock()
		if len(conns) == 0 {
			return nil
		}
		return conns[0]
	}
	mid := int32(5000)
	bar := int32(0x6000)
	// send: the datagram, then a barrier ping (an empty confirmable message, which the server answers with a reset): the
	// listener hands datagrams of one peer to its connection in order, so the answer to the barrier means that the
	// datagram before it has been processed. (The barrier is itself "a message received" at the same virtual instant.)
	send := func(raw []byte) {
		_, _ = peer.Write(raw)
		bar++
		b := bar
		_, _ = peer.Write(memnet.Build(message.Confirmable, int(codes.Empty), b, nil, nil, nil))
		hooks.WaitFor(500*time.Millisecond, func() bool {
			pmu.Lock()
			defer pmu.Unlock()
			return rsts[b]
		})
		// ... and handed to the connection; what went to its receive queue must have been handled to the end as well
		// (handleReq refreshes the activity stamp once more when the handler returns)
		if c := first(); c != nil {
			hooks.Quiesce(c, 500*time.Millisecond)
		}
	}
	// the peer connection exists from virtual time 0 on
	send(memnet.Build(message.NonConfirmable, int(codes.GET), mid, []byte{1, 0}, message.Options{{ID: message.URIPath, Value: []byte("x")}}, nil))
	cc := first()
	if cc == nil {
		rec.Die("c18 udpsrv: the server created no connection for the peer")
	}
	wasClosed := false
	for _, e := range st.Events {
		if wasClosed {
			tr.Obs = append(tr.Obs, Obs{Closed: true, Pings: npings()})
			continue
		}
		vnow.Store(int64(e.T))
		switch e.E {
		case "recv":
			mid++
			switch e.G {
			case 1:
				send(memnet.Build(message.Confirmable, int(codes.GET), mid, []byte{1, byte(mid)}, message.Options{{ID: message.URIPath, Value: []byte("x")}}, nil))
			case 2:
				send(memnet.Build(message.Confirmable, int(codes.Empty), mid, nil, nil, nil))
			case 3:
				send(memnet.Build(message.Acknowledgement, int(codes.Empty), 0x7000+mid, nil, nil, nil))
			case 4:
				send(memnet.Build(message.Reset, int(codes.Empty), 0x7000+mid, nil, nil, nil))
			case 5:
				send(memnet.Build(message.NonConfirmable, int(codes.Content), mid, []byte{9, byte(mid)}, nil, []byte("r")))
			default:
				send(memnet.Build(message.NonConfirmable, int(codes.GET), mid, []byte{1, byte(mid)}, message.Options{{ID: message.URIPath, Value: []byte("x")}}, nil))
			}
		case "pong":
			pmu.Lock()
			var m int32 = -1
			if e.G >= 1 && e.G <= len(pingMIDs) {
				m = pingMIDs[e.G-1]
			}
			pmu.Unlock()
			if m >= 0 {
				send(memnet.Build(message.Reset, int(codes.Empty), m, nil, nil, nil))
			}
		case "tick":
			tickMu.Lock()
			fs := append([]func(time.Time) bool(nil), ticks...)
			tickMu.Unlock()
			for _, f := range fs {
				f(clock())
			}
			time.Sleep(300 * time.Microsecond) // a ping written by the tick reaches the peer's socket
		}
		closed := false
		if closes.Load() > 0 {
			hooks.WaitFor(time.Second, func() bool { return cc.Context().Err() != nil })
		}
		if cc.Context().Err() != nil {
			closed = true
		}
		wasClosed = closed
		tr.Obs = append(tr.Obs, Obs{Closed: closed, Pings: npings()})
	}
	tr.Closes = int(closes.Load())
	return tr
}
