// Package c05 replays TLC-generated sequences (specs/udp/Dedup.tla) of request copies, handler outcomes and
// lifetime expiries on a real udp/client.Conn over the in-memory session: copies go in through Conn.Process
// (goroutine 1) and through the exported Conn.ProcessReceivedMessage from further goroutines (concurrent
// copies), handlers are parked until the driver lets them return. It records, in order, every handler run and
// every datagram the connection emitted, attributed to the copy being processed. TLC (RecC05.tla) judges.
package c05

import (
	"bufio"
	"bytes"
	"encoding/json"
	"fmt"
	"github.com/plgd-dev/go-coap/v3/net/blockwise"
	"os"
	"sort"
	"sync"
	"time"

	"github.com/plgd-dev/go-coap/v3/message"
	"github.com/plgd-dev/go-coap/v3/message/codes"
	"github.com/plgd-dev/go-coap/v3/message/pool"
	"github.com/plgd-dev/go-coap/v3/net/responsewriter"
	"github.com/plgd-dev/go-coap/v3/options/config"
	udpclient "github.com/plgd-dev/go-coap/v3/udp/client"
	udpcoder "github.com/plgd-dev/go-coap/v3/udp/coder"

	"verifharness/internal/conns"
	"verifharness/internal/hooks"
	"verifharness/internal/memnet"
	"verifharness/internal/rec"
)

type Req struct {
	Mid  int    `json:"mid"` // offset relative to the connection's own next message ID at start (Own0 in the model = 10)
	Typ  string `json:"typ"`
	Code int    `json:"code"` // request method (0: GET)
}

func sameKeys(a, b map[string]time.Time) bool {
	if len(a) != len(b) {
		return false
	}
	for k := range a {
		if _, ok := b[k]; !ok {
			return false
		}
	}
	return true
}

type Act struct {
	A string `json:"a"`
	G int    `json:"g"`
	Q int    `json:"q"`
	B string `json:"b"`
}

type Stim struct {
	T      int   `json:"t"`
	Reqs   []Req `json:"reqs"`
	Steps  []Act `json:"steps"`
	Hijack bool  `json:"hijack"` // the handler takes every request over (Hijack) and gives it back to the pool before it returns
	// Big: the connection has the block-wise layer (SZX 16) and the handler's body is 40 bytes: the reply is the first block of a
	// block-wise response - remembered like any reply
	Big bool `json:"big"`
}

type LogEv struct {
	E    string `json:"e"` // run | reply | expire
	Q    int    `json:"q"` // logical request of the copy being processed
	Copy int    `json:"copy"`
	Ran  bool   `json:"ran"`  // reply: the handler ran for this very copy
	Kind string `json:"kind"` // reply: ack | resp
	Code int    `json:"code"`
	Typ  int    `json:"typ"`
	Mid  int    `json:"mid"`  // as offset (real MID - base)
	RMid int    `json:"rmid"` // MID of the copy being processed (offset)
	Tok  []int  `json:"tok"`
	Pay  []int  `json:"pay"`
	Opts []int  `json:"opts"` // option ids
}

type Ev struct {
	Act     Act  `json:"act"`
	Applied bool `json:"applied"`
	LogLen  int  `json:"loglen"`
	Stable  bool `json:"stable"`
}

type Trace struct {
	T         int     `json:"t"`
	Reqs      []Req   `json:"reqs"`
	Ev        []Ev    `json:"ev"`
	Log       []LogEv `json:"log"`
	CacheKeys []int   `json:"cacheKeys"` // offsets
	MidLocks  int     `json:"midLocks"`
	Hung      bool    `json:"hung"`
}

type world struct {
	mu     sync.Mutex
	log    []LogEv
	byGID  map[int64]*copyInfo
	parked map[int]chan string // goroutine -> channel on which its handler waits for the behaviour
	busy   map[int]bool        // goroutine is processing a copy
	base   int
}

type copyInfo struct {
	g, q, copy, mid int
	ran             bool
	runs            int
}

func runOne(st Stim) Trace {
	tr := Trace{T: st.T, Reqs: st.Reqs, Ev: []Ev{}, Log: []LogEv{}, CacheKeys: []int{}}
	w := &world{byGID: map[int64]*copyInfo{}, parked: map[int]chan string{}, busy: map[int]bool{}}
	runsOf := map[int]int{}
	var u *conns.UDP
	u = conns.NewUDP(func(cfg *udpclient.Config) {
		cfg.ReceivedMessageQueueSize = 16
		if st.Big {
			cfg.BlockwiseEnable = true
			cfg.BlockwiseSZX = blockwise.SZX16
			cfg.BlockwiseTransferTimeout = 3 * time.Second
		}
		cfg.ProcessReceivedMessage = func(req *pool.Message, cc *udpclient.Conn, handler config.HandlerFunc[*udpclient.Conn]) {
			gid := hooks.GID()
			tok := req.Token()
			info := &copyInfo{q: int(tok[1]), copy: int(tok[2]), g: int(tok[3]), mid: int(req.MessageID())}
			w.mu.Lock()
			w.byGID[gid] = info
			w.mu.Unlock()
			cc.ProcessReceivedMessageWithHandler(req, handler)
			w.mu.Lock()
			delete(w.byGID, gid)
			w.busy[info.g] = false
			w.mu.Unlock()
		}
		cfg.Handler = func(rw *responsewriter.ResponseWriter[*udpclient.Conn], req *pool.Message) {
			gid := hooks.GID()
			w.mu.Lock()
			info := w.byGID[gid]
			info.ran = true
			runsOf[info.q]++
			k := runsOf[info.q]
			w.log = append(w.log, LogEv{E: "run", Q: info.q, Copy: info.copy, RMid: info.mid - w.base, Tok: []int{}, Pay: []int{}, Opts: []int{}})
			ch := make(chan string)
			w.parked[info.g] = ch
			w.mu.Unlock()
			b := <-ch
			if b == "piggy" {
				body := []byte(fmt.Sprintf("resp-q%d-run%d", info.q, k))
				if st.Big {
					body = append(body, bytes.Repeat([]byte{'.'}, 40-len(body))...)
				}
				// (the reply's class does not matter for de-duplication: request 3 is refused with 4.04, request 4 fails with 5.03)
				code := codes.Content
				switch info.q {
				case 3:
					code = codes.NotFound
				case 4:
					code = codes.ServiceUnavailable
				}
				_ = rw.SetResponse(code, message.TextPlain, bytes.NewReader(body),
					message.Option{ID: message.MaxAge, Value: []byte{byte(info.q)}})
			}
			if st.Hijack { // what the application does with the message it was handed must not matter for de-duplication
				req.Hijack()
				rw.Conn().ReleaseMessage(req)
			}
		}
	})
	defer u.Close()
	w.base = int(uint16(u.CC.VerifState().NextMID+1)) - 10 // model Own0 = 10
	u.Sess.OnWrite = func(raw []byte) {
		d, err := memnet.Parse(raw)
		if err != nil {
			return
		}
		gid := hooks.GID()
		w.mu.Lock()
		defer w.mu.Unlock()
		info := w.byGID[gid]
		ev := LogEv{E: "reply", Code: d.Code, Typ: int(d.Type), Mid: int(d.MID) - w.base, Tok: rec.Bytes(d.Token), Pay: rec.Bytes(d.Payload), Opts: []int{}, Kind: "resp"}
		for _, o := range d.Opts {
			ev.Opts = append(ev.Opts, int(o.ID))
		}
		if d.Code == int(codes.Empty) {
			ev.Kind = "ack"
		}
		if info != nil {
			ev.Q, ev.Copy, ev.Ran, ev.RMid = info.q, info.copy, info.ran, info.mid-w.base
		}
		w.log = append(w.log, ev)
	}
	copies := 0
	snapshot := func() string {
		w.mu.Lock()
		defer w.mu.Unlock()
		ks := []int{}
		for g := range w.parked {
			ks = append(ks, g)
		}
		sort.Ints(ks)
		bs := []int{}
		for g, b := range w.busy {
			if b {
				bs = append(bs, g)
			}
		}
		sort.Ints(bs)
		return fmt.Sprint(len(w.log), ks, bs)
	}
	settle := func() bool {
		deadline := time.Now().Add(2 * time.Second)
		last, since := snapshot(), time.Now()
		for {
			cur := snapshot()
			if cur != last {
				last, since = cur, time.Now()
			}
			if time.Since(since) > 3*time.Millisecond {
				return true
			}
			if time.Now().After(deadline) {
				return false
			}
			time.Sleep(50 * time.Microsecond)
		}
	}
	agedSec, agedKeys := 0, map[string]time.Time(nil)
	for _, a := range st.Steps {
		ev := Ev{Act: a}
		switch a.A {
		case "inject":
			w.mu.Lock()
			busy := w.busy[a.G]
			w.mu.Unlock()
			if busy {
				break
			}
			copies++
			r := st.Reqs[a.Q-1]
			typ := message.Confirmable
			if r.Typ == "NON" {
				typ = message.NonConfirmable
			}
			code := int(codes.GET)
			if r.Code != 0 { // (the method: also the RFC 8132 ones - FETCH 5, PATCH 6, iPATCH 7 - which the library hands to the handler like any request)
				code = r.Code
			}
			raw := memnet.Build(typ, code, int32(uint16(w.base+r.Mid)), []byte{0xC0, byte(a.Q), byte(copies), byte(a.G)},
				message.Options{{ID: message.URIPath, Value: []byte("a")}}, nil)
			w.mu.Lock()
			w.busy[a.G] = true
			w.mu.Unlock()
			if a.G == 1 {
				if err := u.CC.Process(nil, raw); err != nil {
					rec.Die("c05: Process: %v", err)
				}
			} else {
				req := u.CC.AcquireMessage(u.CC.Context())
				if _, err := req.UnmarshalWithDecoder(udpcoder.DefaultCoder, raw); err != nil {
					rec.Die("c05: unmarshal: %v", err)
				}
				go u.CC.ProcessReceivedMessage(req)
			}
			ev.Applied = true
		case "done":
			w.mu.Lock()
			ch, ok := w.parked[a.G]
			if ok {
				delete(w.parked, a.G)
			}
			w.mu.Unlock()
			if ok {
				w.mu.Lock()
				cp := -1
				for _, inf := range w.byGID {
					if inf.g == a.G {
						cp = inf.copy
					}
				}
				w.mu.Unlock()
				ch <- a.B
				ev.Applied = true
				// the released handler goroutine must have got as far as its reply on the wire (or the end of the processing)
				// before the history goes on, however long the scheduler takes to run it
				end := time.Now().Add(2 * time.Second)
				for time.Now().Before(end) {
					w.mu.Lock()
					fin := !w.busy[a.G]
					if !fin && a.B == "piggy" {
						for _, l := range w.log {
							fin = fin || (l.E == "reply" && l.Copy == cp && l.Ran)
						}
					}
					w.mu.Unlock()
					if fin {
						break
					}
					time.Sleep(50 * time.Microsecond)
				}
			}
		case "lapse":
			// the exchange lifetime of everything stored so far elapses; no sweep runs: the entries stay in the table, expired
			// (directed histories: q > 0 = the rest of a lifetime of which an earlier "age" event has used up a part)
			if before := len(u.CC.VerifState().RespCache); before > 0 {
				d := 248 * time.Second
				if a.Q > 0 && agedSec > 0 && agedSec+a.Q >= 248 && sameKeys(agedKeys, u.CC.VerifState().RespCache) {
					// nothing was stored since the "age" event: q more seconds complete the lifetime of every entry
					d = time.Duration(a.Q) * time.Second
				}
				agedSec, agedKeys = 0, nil
				u.CC.VerifAgeResponseCache(d)
				w.mu.Lock()
				w.log = append(w.log, LogEv{E: "lapse", Q: before, Tok: []int{}, Pay: []int{}, Opts: []int{}})
				w.mu.Unlock()
				ev.Applied = true
			}
		case "age":
			// q seconds - less than the exchange lifetime - pass; no sweep runs
			if st := u.CC.VerifState().RespCache; len(st) > 0 && agedSec == 0 {
				u.CC.VerifAgeResponseCache(time.Duration(a.Q) * time.Second)
				agedSec, agedKeys = a.Q, st
				w.mu.Lock()
				w.log = append(w.log, LogEv{E: "age", Q: a.Q, Tok: []int{}, Pay: []int{}, Opts: []int{}})
				w.mu.Unlock()
				ev.Applied = true
			}
		case "expire":
			// a housekeeping sweep just after the exchange lifetime of everything stored so far
			var earliest, latest time.Time
			for _, until := range u.CC.VerifState().RespCache {
				if until.After(latest) {
					latest = until
				}
				if earliest.IsZero() || until.Before(earliest) {
					earliest = until
				}
			}
			if !latest.IsZero() {
				// just before the first deadline nothing may go, just after the last one everything stored so far goes
				before := len(u.CC.VerifState().RespCache)
				u.CC.CheckExpirations(earliest.Add(-50 * time.Millisecond))
				afterEarly := len(u.CC.VerifState().RespCache)
				u.CC.CheckExpirations(latest.Add(50 * time.Millisecond))
				afterLate := len(u.CC.VerifState().RespCache)
				life := int(earliest.Sub(time.Now()).Seconds() + 0.5) // remaining lifetime in seconds (entries are milliseconds old)
				w.mu.Lock()
				w.log = append(w.log, LogEv{E: "expire", Q: before, Copy: afterEarly, Code: afterLate, Mid: life, Tok: []int{}, Pay: []int{}, Opts: []int{}})
				w.mu.Unlock()
				ev.Applied = true
			}
		}
		ev.Stable = settle()
		w.mu.Lock()
		ev.LogLen = len(w.log)
		w.mu.Unlock()
		tr.Ev = append(tr.Ev, ev)
	}
	// drain: let every parked handler return without a response
	deadline := time.Now().Add(3 * time.Second)
	for time.Now().Before(deadline) {
		w.mu.Lock()
		var chs []chan string
		for g, ch := range w.parked {
			chs = append(chs, ch)
			delete(w.parked, g)
		}
		anyBusy := false
		for _, b := range w.busy {
			anyBusy = anyBusy || b
		}
		w.mu.Unlock()
		for _, ch := range chs {
			ch <- "none"
		}
		if len(chs) == 0 && !anyBusy {
			break
		}
		settle()
	}
	w.mu.Lock()
	for _, b := range w.busy {
		if b {
			tr.Hung = true
		}
	}
	tr.Log = append(tr.Log, w.log...)
	w.mu.Unlock()
	vs := u.CC.VerifState()
	for k := range vs.RespCache {
		var n int
		fmt.Sscan(k, &n)
		tr.CacheKeys = append(tr.CacheKeys, n-w.base)
	}
	sort.Ints(tr.CacheKeys)
	tr.MidLocks = vs.MidLocks
	return tr
}

// Run replays every stimulus.
func Run(stimPath, out string) {
	f, err := os.Open(stimPath)
	if err != nil {
		rec.Die("open: %v", err)
	}
	defer f.Close()
	wr := rec.Create(out)
	defer wr.Close()
	sc := bufio.NewScanner(f)
	sc.Buffer(make([]byte, 1<<20), 64<<20)
	var stims []Stim
	for sc.Scan() {
		var st Stim
		if err := json.Unmarshal(sc.Bytes(), &st); err != nil {
			rec.Die("stimulus: %v", err)
		}
		stims = append(stims, st)
	}
	res := make([]Trace, len(stims))
	var wg sync.WaitGroup
	sem := make(chan struct{}, 8)
	for i := range stims {
		wg.Add(1)
		sem <- struct{}{}
		go func(i int) {
			defer wg.Done()
			res[i] = runOne(stims[i])
			<-sem
		}(i)
	}
	wg.Wait()
	for _, t := range res {
		wr.Put(t)
	}
}
