// Package c13 runs TLC-generated histories of exchanges (specs/leak: plain, block-wise, observe, ping, one-way,
// requests of the peer; each with an outcome: success, silence, cancel, reset, refusal, duplicate token,
// abandoned transfer) and housekeeping ticks on a real udp/client.Conn, the driver being the peer, and records
// the sizes of every per-exchange table after each step. TLC (RecC13.tla) judges.
package c13

import (
	"bufio"
	"bytes"
	"context"
	"encoding/json"
	"errors"
	"fmt"
	"io"
	"os"
	"strings"
	"sync"
	"time"

	"github.com/plgd-dev/go-coap/v3/message"
	"github.com/plgd-dev/go-coap/v3/message/codes"
	"github.com/plgd-dev/go-coap/v3/message/pool"
	"github.com/plgd-dev/go-coap/v3/net/blockwise"
	"github.com/plgd-dev/go-coap/v3/net/monitor/inactivity"
	"github.com/plgd-dev/go-coap/v3/net/responsewriter"
	udpclient "github.com/plgd-dev/go-coap/v3/udp/client"

	"verifharness/internal/conns"
	"verifharness/internal/hooks"
	"verifharness/internal/memnet"
	"verifharness/internal/rec"
	"verifharness/internal/track"
)

type Tables struct {
	Tokens   int `json:"tokens"`
	Mids     int `json:"mids"`
	MidLocks int `json:"midLocks"`
	BwRecv   int `json:"bwRecv"`
	BwSend   int `json:"bwSend"`
	Obs      int `json:"obs"`
	LimQ     int `json:"limq"`
	RCache   int `json:"rcache"`
	Queue    int `json:"queue"`
}

type Ev struct {
	Kind    string `json:"kind"`
	Done    bool   `json:"done"` // the scenario ran to its end (every call involved returned)
	Outcome string `json:"outcome"`
	T       Tables `json:"t"`
}

type Trace struct {
	T         int    `json:"t"`
	Transport string `json:"transport"`
	Ev        []Ev   `json:"ev"`
	Errs      int    `json:"errs"`
}

type env struct {
	immediate bool           // the application releases a response the moment it gets it
	tr        *track.Tracker // optional: pool ownership tracking (C12)
	held      []*pool.Message
	heldMu    sync.Mutex
	u         *conns.UDP
	seen      int
	mid       int32
	n         int
	obs       []interface {
		Cancel(ctx context.Context, opts ...message.Option) error
	}
	reqs   []memnet.Dgram
	taken  map[int]bool
	obsTok [][]byte // tokens of the live observations (parallel to obs)
	nseq   uint32
}

func (e *env) scan() {
	for _, raw := range e.u.Sess.Out(e.seen) {
		e.seen++
		if d, err := memnet.Parse(raw); err == nil {
			e.reqs = append(e.reqs, d)
		}
	}
}

// waitOut waits for a datagram written by the connection that satisfies pred and was not consumed before.
func (e *env) waitOut(pred func(memnet.Dgram) bool) (memnet.Dgram, bool) {
	var got memnet.Dgram
	ok := hooks.WaitFor(conns.WD, func() bool {
		e.scan()
		for i, d := range e.reqs {
			if !e.taken[i] && pred(d) {
				e.taken[i] = true
				got = d
				return true
			}
		}
		return false
	})
	return got, ok
}

func pathIs(p string) func(memnet.Dgram) bool {
	return func(d memnet.Dgram) bool { x, _ := d.Opts.Path(); return d.Code >= 1 && d.Code <= 4 && x == p }
}

func (e *env) inject(t message.Type, code codes.Code, mid int32, tok []byte, opts message.Options, pay []byte) {
	_ = e.u.Inject(memnet.Build(t, int(code), mid, tok, opts, pay))
}

func (e *env) nextMID() int32 { e.mid++; return e.mid }

func blk(szx, num int, more bool) []byte {
	v, _ := blockwise.EncodeBlockOption(blockwise.SZX(szx), int64(num), more)
	b := []byte{byte(v >> 16), byte(v >> 8), byte(v)}
	for len(b) > 0 && b[0] == 0 {
		b = b[1:]
	}
	return b
}

type call struct {
	done chan struct{}
	err  error
	code int
}

func (e *env) async(f func() (*pool.Message, error)) *call {
	c := &call{done: make(chan struct{})}
	go func() {
		defer close(c.done)
		resp, err := f()
		c.err = err
		if err == nil && resp != nil {
			c.code = int(resp.Code())
			if e.immediate {
				if e.tr != nil {
					e.tr.AppRelease(resp)
				}
				e.u.CC.ReleaseMessage(resp)
			} else if e.tr != nil { // the application now holds the response until it releases it (end of the scenario)
				e.tr.Hold(resp)
				e.heldMu.Lock()
				e.held = append(e.held, resp)
				e.heldMu.Unlock()
			}
		}
	}()
	return c
}

// releaseHeld: the application gives back the responses it was handed (content must still be what it was).
func (e *env) releaseHeld() {
	e.heldMu.Lock()
	hs := e.held
	e.held = nil
	e.heldMu.Unlock()
	for _, m := range hs {
		e.tr.AppRelease(m)
		e.u.CC.ReleaseMessage(m)
	}
}

func (c *call) wait() bool {
	select {
	case <-c.done:
		return true
	case <-time.After(conns.WD):
		return false
	}
}

func outcome(c *call) string {
	if c.err != nil {
		return "err"
	}
	return fmt.Sprintf("ok:%d", c.code)
}

func (e *env) tables() Tables {
	vs := e.u.CC.VerifState()
	obs, r, s := e.u.CC.VerifAux()
	lq := 0
	for _, q := range e.u.CC.VerifQueues() {
		lq += 1 + q.Waiting
	}
	return Tables{Tokens: len(vs.Tokens), Mids: len(vs.Mids), MidLocks: vs.MidLocks, BwRecv: r, BwSend: s, Obs: len(obs), LimQ: lq, RCache: len(vs.RespCache), Queue: vs.QueueLen}
}

func (e *env) run(kind string) (bool, string) {
	cc := e.u.CC
	e.n++
	p := fmt.Sprintf("/x%d", e.n)
	ctx, cancel := context.WithCancel(context.Background())
	defer cancel()
	get := func() *call { return e.async(func() (*pool.Message, error) { return cc.Get(ctx, p) }) }
	switch kind {
	case "plainOK":
		c := get()
		q, ok := e.waitOut(pathIs(p))
		if !ok {
			return false, "norequest"
		}
		e.inject(message.Acknowledgement, codes.Content, q.MID, q.Token, nil, []byte("ok"))
		return c.wait(), outcome(c)
	case "plainSepCon": // empty ACK, then the response as a separate confirmable message (which the connection must acknowledge)
		c := get()
		q, ok := e.waitOut(pathIs(p))
		if !ok {
			return false, "norequest"
		}
		e.inject(message.Acknowledgement, codes.Empty, q.MID, nil, nil, nil)
		e.mid++
		e.inject(message.Confirmable, codes.Content, e.mid, q.Token, nil, []byte("sep"))
		return c.wait(), outcome(c)
	case "plainBadToken": // a request that cannot be encoded (token longer than 8 bytes): the write is refused
		c := e.async(func() (*pool.Message, error) {
			req, err := cc.NewGetRequest(ctx, p)
			if err != nil {
				return nil, err
			}
			defer cc.ReleaseMessage(req)
			req.SetToken(bytes.Repeat([]byte{7}, 9))
			return cc.Do(req)
		})
		return c.wait(), outcome(c)
	case "plainCtxWrite": // the context ends between admission and the write: the write is refused
		c := e.async(func() (*pool.Message, error) {
			return cc.Post(ctx, p, message.TextPlain, &cancelOnRead{cancel: cancel, r: bytes.NewReader([]byte("body"))})
		})
		return c.wait(), outcome(c)
	case "plainCancel":
		c := get()
		if _, ok := e.waitOut(pathIs(p)); !ok {
			return false, "norequest"
		}
		cancel()
		return c.wait(), outcome(c)
	case "plainExpire":
		c := get()
		if _, ok := e.waitOut(pathIs(p)); !ok {
			return false, "norequest"
		}
		for _, d := range []int{3, 5, 7, 9} { // ACK_TIMEOUT 2 s, MAX_RETRANSMIT 2: two more copies, then the entry is dropped
			cc.CheckExpirations(time.Now().Add(time.Duration(d) * time.Second))
		}
		e.scan()
		for i, d := range e.reqs {
			if pathIs(p)(d) {
				e.taken[i] = true
			}
		}
		cancel()
		return c.wait(), outcome(c)
	case "plainBodyFail":
		// a confirmable POST whose body (8 bytes, at most one block) can be positioned but not read: the call fails, nothing of it
		// stays - and the copy prepared for retransmission goes back to the pool once
		c := e.async(func() (*pool.Message, error) { return cc.Post(ctx, p, message.TextPlain, &failBody{size: 8}) })
		return c.wait(), outcome(c)
	case "plainRst":
		c := get()
		q, ok := e.waitOut(pathIs(p))
		if !ok {
			return false, "norequest"
		}
		e.inject(message.Reset, codes.Empty, q.MID, nil, nil, nil)
		cancel()
		return c.wait(), outcome(c)
	case "dupToken":
		tok := []byte{0x13, byte(e.n)}
		do := func(path string) *call {
			return e.async(func() (*pool.Message, error) {
				req, err := cc.NewGetRequest(ctx, path)
				if err != nil {
					return nil, err
				}
				defer cc.ReleaseMessage(req)
				req.SetToken(tok)
				return cc.Do(req)
			})
		}
		c1 := do(p)
		q, ok := e.waitOut(pathIs(p))
		if !ok {
			return false, "norequest"
		}
		c2 := do(p + "b")
		if !c2.wait() || c2.err == nil {
			return false, "second-not-rejected"
		}
		e.inject(message.Acknowledgement, codes.Content, q.MID, q.Token, nil, []byte("ok"))
		return c1.wait(), outcome(c1)
	case "bwUpOK", "bwUpCancel", "bwUpRefused":
		body := bytes.Repeat([]byte{7}, 40)
		c := e.async(func() (*pool.Message, error) { return cc.Post(ctx, p, message.AppOctets, bytes.NewReader(body)) })
		for i := 0; i < 3; i++ {
			q, ok := e.waitOut(pathIs(p))
			if !ok {
				return false, "norequest"
			}
			b1, _ := q.Opts.GetUint32(message.Block1)
			_, num, more, _ := blockwise.DecodeBlockOption(b1)
			if kind == "bwUpRefused" {
				e.inject(message.Acknowledgement, codes.RequestEntityIncomplete, q.MID, q.Token, nil, nil)
				break
			}
			if !more {
				e.inject(message.Acknowledgement, codes.Changed, q.MID, q.Token, nil, nil)
				break
			}
			e.inject(message.Acknowledgement, codes.Continue, q.MID, q.Token, message.Options{{ID: message.Block1, Value: blk(0, int(num), true)}}, nil)
			if kind == "bwUpCancel" && i == 0 {
				if _, ok := e.waitOut(pathIs(p)); !ok {
					return false, "norequest"
				}
				cancel()
				break
			}
		}
		return c.wait(), outcome(c)
	case "bwDownOK", "bwDownAbandon":
		c := get()
		q, ok := e.waitOut(pathIs(p))
		if !ok {
			return false, "norequest"
		}
		e.inject(message.Acknowledgement, codes.Content, q.MID, q.Token, message.Options{{ID: message.Block2, Value: blk(0, 0, true)}}, bytes.Repeat([]byte{1}, 16))
		q2, ok := e.waitOut(pathIs(p))
		if !ok {
			return false, "nocontinuation"
		}
		if kind == "bwDownAbandon" {
			e.inject(message.Acknowledgement, codes.Empty, q2.MID, nil, nil, nil) // acknowledged, never answered
			cancel()
			return c.wait(), outcome(c)
		}
		e.inject(message.Acknowledgement, codes.Content, q2.MID, q2.Token, message.Options{{ID: message.Block2, Value: blk(0, 1, false)}}, []byte{2, 2, 2, 2})
		return c.wait(), outcome(c)
	case "bwDownStall":
		// a download that stalls after its first block while the application's own request (which it built and still holds) is
		// pending; the transfer timeout passes and the sweep runs; then the caller gives up. The request is the application's all
		// the time: nobody else gives it back, nobody changes it.
		req, err := cc.NewGetRequest(ctx, p)
		if err != nil {
			return true, "err"
		}
		if e.tr != nil {
			e.tr.Own(req)
		}
		c := e.async(func() (*pool.Message, error) { return cc.Do(req) })
		q, ok := e.waitOut(pathIs(p))
		if ok {
			e.inject(message.Acknowledgement, codes.Content, q.MID, q.Token, message.Options{{ID: message.Block2, Value: blk(0, 0, true)}}, bytes.Repeat([]byte{1}, 16))
			if q2, ok2 := e.waitOut(pathIs(p)); ok2 {
				e.inject(message.Acknowledgement, codes.Empty, q2.MID, nil, nil, nil) // acknowledged, never answered
			}
			cc.CheckExpirations(time.Now().Add(4 * time.Second)) // past the transfer timeout, the request still waits
		}
		cancel()
		okw := c.wait()
		if e.tr != nil {
			e.tr.AppRelease(req)
		}
		cc.ReleaseMessage(req)
		if !ok {
			return false, "norequest"
		}
		return okw, outcome(c)
	case "obsOK", "obsFail", "obsSilentCancel", "obsAckedCancel", "obsNoObs205", "obsNoObs203":
		var o interface {
			Cancel(ctx context.Context, opts ...message.Option) error
		}
		c := e.async(func() (*pool.Message, error) {
			x, err := cc.Observe(ctx, p, func(n *pool.Message) {
				if e.tr != nil { // the notification belongs to the application while the callback runs
					e.tr.Hold(n)
					e.tr.Unhold(n)
				}
			})
			if err == nil {
				o = x
			}
			return nil, err
		})
		q, ok := e.waitOut(pathIs(p))
		if !ok {
			return false, "norequest"
		}
		switch kind {
		case "obsOK":
			e.inject(message.Acknowledgement, codes.Content, q.MID, q.Token, message.Options{{ID: message.Observe, Value: []byte{1}}}, []byte("v"))
		case "obsNoObs205": // the peer does not support observing: a plain 2.05 / 2.03 without the Observe option - nothing is registered
			e.inject(message.Acknowledgement, codes.Content, q.MID, q.Token, nil, []byte("v"))
		case "obsNoObs203":
			e.inject(message.Acknowledgement, codes.Valid, q.MID, q.Token, nil, []byte("v"))
		case "obsFail":
			e.inject(message.Acknowledgement, codes.NotFound, q.MID, q.Token, nil, nil)
		case "obsAckedCancel": // acknowledged, never answered: the caller gives up while Observe() waits for the first answer
			e.inject(message.Acknowledgement, codes.Empty, q.MID, nil, nil, nil)
			cancel()
		default:
			cancel()
		}
		okw := c.wait()
		if kind == "obsOK" && c.err == nil {
			e.obs = append(e.obs, o)
			e.obsTok = append(e.obsTok, append([]byte(nil), q.Token...))
		}
		return okw, outcome(c)
	case "obsCancel", "obsCancelRefused", "obsCancelGiveUp":
		if len(e.obs) == 0 {
			return false, "noobservation"
		}
		o := e.obs[len(e.obs)-1]
		e.obs = e.obs[:len(e.obs)-1]
		if len(e.obsTok) > 0 {
			e.obsTok = e.obsTok[:len(e.obsTok)-1]
		}
		c := e.async(func() (*pool.Message, error) { return nil, o.Cancel(ctx) })
		q, ok := e.waitOut(func(d memnet.Dgram) bool {
			v, err := d.Opts.Observe()
			return d.Code == int(codes.GET) && err == nil && v == 1
		})
		if !ok {
			return false, "norequest"
		}
		switch kind {
		case "obsCancelRefused": // the peer no longer knows the resource
			e.inject(message.Acknowledgement, codes.NotFound, q.MID, q.Token, nil, nil)
		case "obsCancelGiveUp": // the deregistration is never answered and the caller gives up
			cancel()
		default:
			e.inject(message.Acknowledgement, codes.Content, q.MID, q.Token, nil, []byte("v"))
		}
		return c.wait(), outcome(c)
	case "pingOK", "pingCancel":
		c := e.async(func() (*pool.Message, error) { return nil, cc.Ping(ctx) })
		q, ok := e.waitOut(func(d memnet.Dgram) bool { return d.Type == message.Confirmable && d.Code == int(codes.Empty) })
		if !ok {
			return false, "noping"
		}
		if kind == "pingOK" {
			e.inject(message.Reset, codes.Empty, q.MID, nil, nil, nil)
		} else {
			cancel()
		}
		return c.wait(), outcome(c)
	case "obsNotifyEtag":
		// three small notifications of the latest observation, each with an ETag of its own (the observation remembers the ETag
		// of the newest notification - by value: the notification's message goes back to the pool when the callback returns)
		if len(e.obsTok) == 0 {
			return false, "noobservation"
		}
		tok := e.obsTok[len(e.obsTok)-1]
		for k := 0; k < 3; k++ {
			e.nseq++
			et := bytes.Repeat([]byte{byte(0x41 + e.nseq%20)}, 8)
			e.inject(message.NonConfirmable, codes.Content, e.nextMID(), tok, message.Options{{ID: message.ETag, Value: et}, {ID: message.Observe, Value: []byte{byte(10 + e.nseq)}}}, []byte("nnnnnnnnnnnnnnnn"))
		}
		return true, "notified"
	case "pingWriteFail":
		// the ping cannot be written (a transient network error): AsyncPing reports the error and leaves nothing behind - and gives
		// its message back to the pool once
		e.u.Sess.FailNext.Store(1)
		_, err := cc.AsyncPing(func() {})
		e.u.Sess.FailNext.Store(0)
		if err == nil {
			return true, "ok"
		}
		return true, "err"
	case "kaMissed":
		// the keep-alive (the library's KeepAlive object driven on this connection) pings three times; the peer leaves the first
		// two pings unanswered for good and answers the third: a superseded ping is cancelled - nothing of the three stays
		ka := inactivity.NewKeepAlive(5, func(*udpclient.Conn) {}, func(cc *udpclient.Conn, receivePong func()) (func(), error) {
			return cc.AsyncPing(receivePong)
		})
		var last memnet.Dgram
		for k := 0; k < 3; k++ {
			ka.OnInactive(cc)
			q, ok := e.waitOut(func(d memnet.Dgram) bool { return d.Type == message.Confirmable && d.Code == int(codes.Empty) })
			if !ok {
				return false, "noping"
			}
			last = q
		}
		e.inject(message.Reset, codes.Empty, last.MID, nil, nil, nil)
		return true, "ok"
	case "pingAsyncOK":
		// an asynchronous ping that is answered; the function AsyncPing returned is never called - the answer ends the exchange
		pong := make(chan struct{}, 1)
		if _, err := cc.AsyncPing(func() {
			select {
			case pong <- struct{}{}:
			default:
			}
		}); err != nil {
			return true, "err"
		}
		q, ok := e.waitOut(func(d memnet.Dgram) bool { return d.Type == message.Confirmable && d.Code == int(codes.Empty) })
		if !ok {
			return false, "noping"
		}
		e.inject(message.Reset, codes.Empty, q.MID, nil, nil, nil)
		select {
		case <-pong:
			return true, "ok"
		case <-time.After(conns.WD):
			return false, "nopong"
		}
	case "pingForgetNoRoute":
		// the same probe on a connection whose writes start to fail after the first transmission (the route to the peer is gone,
		// the shared socket still reads): the retransmissions cannot be written - the sweep gives the entry up all the same
		if _, err := cc.AsyncPing(func() {}); err != nil {
			return true, "err"
		}
		if _, ok := e.waitOut(func(d memnet.Dgram) bool { return d.Type == message.Confirmable && d.Code == int(codes.Empty) }); !ok {
			return false, "noping"
		}
		e.u.Sess.FailNext.Store(1000)
		for _, d := range []int{3, 5, 7, 9, 11, 13, 15} { // ACK_TIMEOUT 2 s, MAX_RETRANSMIT 2
			cc.CheckExpirations(time.Now().Add(time.Duration(d) * time.Second))
		}
		e.u.Sess.FailNext.Store(0)
		e.scan()
		for i, d := range e.reqs {
			if d.Type == message.Confirmable && d.Code == int(codes.Empty) {
				e.taken[i] = true
			}
		}
		return true, "forgotten"
	case "pingForget":
		// a fire-and-forget liveness probe: AsyncPing whose cancel function is never called, the peer stays silent - the
		// housekeeping sweep is the only thing that ends its continuation (after the retransmissions are exhausted)
		if _, err := cc.AsyncPing(func() {}); err != nil {
			return true, "err"
		}
		if _, ok := e.waitOut(func(d memnet.Dgram) bool { return d.Type == message.Confirmable && d.Code == int(codes.Empty) }); !ok {
			return false, "noping"
		}
		for _, d := range []int{3, 5, 7, 9, 11} { // ACK_TIMEOUT 2 s, MAX_RETRANSMIT 2
			cc.CheckExpirations(time.Now().Add(time.Duration(d) * time.Second))
		}
		e.scan()
		for i, d := range e.reqs {
			if d.Type == message.Confirmable && d.Code == int(codes.Empty) {
				e.taken[i] = true
			}
		}
		return true, "forgotten"
	case "oneWay":
		req, err := cc.NewGetRequest(ctx, p)
		if err != nil {
			return false, "norequest"
		}
		req.SetType(message.NonConfirmable)
		err = cc.WriteMessage(req)
		cc.ReleaseMessage(req)
		if _, ok := e.waitOut(pathIs(p)); !ok {
			return false, "notwritten"
		}
		if err != nil {
			return true, "err"
		}
		return true, "ok"
	case "srvReqHijack":
		// the peer's confirmable request is taken over (Hijack) and released by the application inside the handler; the
		// library must still answer it exactly as a confirmable request: piggybacked on the ACK with the request's MID
		tok := []byte{0x5f, byte(e.n)}
		mid := e.nextMID()
		from := e.u.Sess.OutLen()
		e.inject(message.Confirmable, codes.GET, mid, tok, message.Options{{ID: message.URIPath, Value: []byte("hijack")}}, nil)
		ok := hooks.WaitFor(conns.WD, func() bool { return e.u.Sess.OutLen() > from })
		good := false
		for _, raw := range e.u.Sess.Out(from) {
			if d, err := memnet.Parse(raw); err == nil && d.Type == message.Acknowledgement && d.MID == mid && d.Code == int(codes.Content) && bytes.Equal(d.Token, tok) {
				good = true
			}
		}
		e.scan()
		for i := range e.reqs {
			e.taken[i] = true
		}
		if ok && !good {
			return false, "wrongreply"
		}
		return ok, "served"
	case "srvBwDownRetry":
		// the peer asks for a large resource, abandons the transfer after the first block and asks again with the SAME
		// token (new message ID, no Block2): the response of the first request is still held under that token
		tok := []byte{0x5d, byte(e.n)}
		ok := true
		for k := 0; k < 2; k++ {
			from := e.u.Sess.OutLen()
			e.inject(message.Confirmable, codes.GET, e.nextMID(), tok, message.Options{{ID: message.URIPath, Value: []byte("big")}}, nil)
			ok = hooks.WaitFor(conns.WD, func() bool { return e.u.Sess.OutLen() > from }) && ok
		}
		e.scan()
		for i := range e.reqs {
			e.taken[i] = true
		}
		return ok, "served"
	case "srvBwDownBadCont":
		// the peer asks for a large resource (the response is held for the later blocks) and then for a block far beyond its end:
		// the transfer ends by error - the held response is dropped at once, not when its timeout passes
		tok := []byte{0x5c, byte(e.n)}
		ok := true
		from := e.u.Sess.OutLen()
		e.inject(message.Confirmable, codes.GET, e.nextMID(), tok, message.Options{{ID: message.URIPath, Value: []byte("big")}}, nil)
		ok = hooks.WaitFor(conns.WD, func() bool { return e.u.Sess.OutLen() > from }) && ok
		from = e.u.Sess.OutLen()
		e.inject(message.Confirmable, codes.GET, e.nextMID(), tok, message.Options{{ID: message.URIPath, Value: []byte("big")}, {ID: message.Block2, Value: blk(0, 1000, false)}}, nil)
		hooks.WaitFor(50*time.Millisecond, func() bool { return e.u.Sess.OutLen() > from })
		e.scan()
		for i := range e.reqs {
			e.taken[i] = true
		}
		return ok, "served"
	case "srvReq", "srvReqDup", "srvReqNon", "srvReqNoResp", "srvBwUpAbandon", "srvBwDownAbandon":
		tok := []byte{0x5e, byte(e.n)}
		mid := e.nextMID()
		from := e.u.Sess.OutLen()
		switch kind {
		case "srvReq":
			e.inject(message.Confirmable, codes.GET, mid, tok, message.Options{{ID: message.URIPath, Value: []byte("small")}}, nil)
		case "srvReqDup": // the peer's request arrives, is answered, and arrives twice more (same message ID): answered from the cache
			for k := 0; k < 3; k++ {
				e.inject(message.Confirmable, codes.GET, mid, tok, message.Options{{ID: message.URIPath, Value: []byte("small")}}, nil)
				if !hooks.WaitFor(conns.WD, func() bool { return e.u.Sess.OutLen() > from+k }) {
					return false, "unanswered"
				}
			}
		case "srvReqNon":
			e.inject(message.NonConfirmable, codes.GET, mid, tok, message.Options{{ID: message.URIPath, Value: []byte("small")}}, nil)
		case "srvReqNoResp":
			e.inject(message.Confirmable, codes.PUT, mid, tok, message.Options{{ID: message.URIPath, Value: []byte("quiet")}}, []byte("x"))
		case "srvBwUpAbandon":
			e.inject(message.Confirmable, codes.POST, mid, tok, message.Options{{ID: message.URIPath, Value: []byte("small")}, {ID: message.Block1, Value: blk(0, 0, true)}}, bytes.Repeat([]byte{3}, 16))
		default:
			e.inject(message.Confirmable, codes.GET, mid, tok, message.Options{{ID: message.URIPath, Value: []byte("big")}}, nil)
		}
		answered := hooks.WaitFor(conns.WD, func() bool { return e.u.Sess.OutLen() > from })
		e.scan()
		for i := range e.reqs {
			e.taken[i] = true
		}
		return answered, "served"
	case "tickEarly":
		cc.CheckExpirations(time.Now().Add(1 * time.Second))
		return true, "tick"
	case "tickBw":
		cc.CheckExpirations(time.Now().Add(4 * time.Second))
		return true, "tick"
	case "tickLate":
		cc.CheckExpirations(time.Now().Add(248 * time.Second))
		return true, "tick"
	}
	rec.Die("c13: unknown kind %q", kind)
	return false, ""
}

func runOne(t int, kinds []string) Trace { return RunHistory(t, kinds, 64, nil) }

// RunHistory runs one history; poolSize is the connection's message-pool size (0: released messages are never
// handed out again), trk an optional ownership tracker.
func RunHistory(t int, kinds []string, poolSize uint32, trk *track.Tracker) Trace {
	return RunHistoryOpt(t, kinds, poolSize, trk, false)
}

// RunHistoryOpt: immediate = the application releases every response the moment the call returns it
func RunHistoryOpt(t int, kinds []string, poolSize uint32, trk *track.Tracker, immediate bool) Trace {
	return runHistoryCfg(t, kinds, poolSize, trk, immediate, true)
}

// usesBlockwise: the history needs the block-wise layer
func usesBlockwise(kinds []string) bool {
	for _, k := range kinds {
		if strings.HasPrefix(k, "bw") || strings.HasPrefix(k, "srvBw") || k == "tickBw" {
			return true
		}
	}
	return false
}

// runHistoryCfg: bw = the connection has the block-wise layer (without it the transport label is "udp-nobw")
func runHistoryCfg(t int, kinds []string, poolSize uint32, trk *track.Tracker, immediate bool, bw bool) Trace {
	tr := Trace{T: t, Transport: "udp", Ev: []Ev{}}
	if !bw {
		tr.Transport = "udp-nobw"
	}
	e := &env{mid: 20000, taken: map[int]bool{}, tr: trk, immediate: immediate}
	e.u = conns.NewUDP(func(cfg *udpclient.Config) {
		cfg.MessagePool = pool.New(poolSize, 2048)
		cfg.BlockwiseEnable = bw
		cfg.BlockwiseSZX = blockwise.SZX16
		cfg.BlockwiseTransferTimeout = 3 * time.Second
		cfg.TransmissionNStart = 8
		cfg.TransmissionMaxRetransmit = 2
		cfg.TransmissionAcknowledgeTimeout = 2 * time.Second
		cfg.LimitClientParallelRequests = 4
		cfg.LimitClientEndpointParallelRequests = 1
		cfg.Handler = func(w *responsewriter.ResponseWriter[*udpclient.Conn], r *pool.Message) {
			if trk != nil { // the request belongs to the application while the handler runs
				trk.Hold(r)
				defer trk.Unhold(r)
			}
			p, _ := r.Path()
			switch p {
			case "/hijack": // the application takes the request over and gives it back to the pool at once
				r.Hijack()
				if trk != nil {
					trk.AppRelease(r)
				}
				w.Conn().ReleaseMessage(r)
				_ = w.SetResponse(codes.Content, message.TextPlain, bytes.NewReader([]byte("h")))
			case "/small":
				_ = w.SetResponse(codes.Content, message.TextPlain, bytes.NewReader([]byte("s")))
			case "/big":
				_ = w.SetResponse(codes.Content, message.AppOctets, bytes.NewReader(bytes.Repeat([]byte{9}, 100)))
			}
		}
	})
	defer e.u.Close()
	var mu sync.Mutex
	_ = mu
	for _, k := range kinds {
		done, out := e.run(k)
		if trk != nil {
			e.releaseHeld()
		}
		e.u.Quiesce()
		time.Sleep(300 * time.Microsecond)
		e.u.Quiesce()
		tr.Ev = append(tr.Ev, Ev{Kind: k, Done: done, Outcome: out, T: e.tables()})
	}
	tr.Errs = e.u.Errs.Len()
	return tr
}

// Run replays every history.
func Run(stimPath, out string) {
	f, err := os.Open(stimPath)
	if err != nil {
		rec.Die("open: %v", err)
	}
	defer f.Close()
	wr := rec.Create(out)
	defer wr.Close()
	sc := bufio.NewScanner(f)
	sc.Buffer(make([]byte, 1<<20), 64<<20)
	var stims [][]string
	for sc.Scan() {
		var st struct {
			Kinds []string `json:"kinds"`
		}
		if err := json.Unmarshal(sc.Bytes(), &st); err != nil {
			rec.Die("stimulus: %v", err)
		}
		stims = append(stims, st.Kinds)
	}
	res := make([]Trace, 2*len(stims)) // every history on a udp and on a tcp connection
	var extraMu sync.Mutex
	var extra []Trace // ... and those that do not need the block-wise layer on a udp connection without it
	var wg sync.WaitGroup
	sem := make(chan struct{}, 8)
	for i := range stims {
		wg.Add(1)
		sem <- struct{}{}
		go func(i int) {
			defer wg.Done()
			res[2*i] = runOne(i+1, stims[i])
			res[2*i+1] = RunHistoryTCP(i+1, stims[i])
			if !usesBlockwise(stims[i]) {
				x := runHistoryCfg(i+1, stims[i], 64, nil, false, false)
				extraMu.Lock()
				extra = append(extra, x)
				extraMu.Unlock()
			}
			<-sem
		}(i)
	}
	wg.Wait()
	for _, t := range res {
		wr.Put(t)
	}
	for _, t := range extra {
		wr.Put(t)
	}
}

// failBody: a payload source (a file on a share that went away) that knows its size and can be positioned, but whose reads fail
type failBody struct{ size, off int64 }

func (p *failBody) Seek(offset int64, whence int) (int64, error) {
	switch whence {
	case io.SeekStart:
		p.off = offset
	case io.SeekCurrent:
		p.off += offset
	case io.SeekEnd:
		p.off = p.size + offset
	}
	if p.off < 0 {
		p.off = 0
		return 0, errors.New("negative position")
	}
	return p.off, nil
}
func (p *failBody) Read([]byte) (int, error) { return 0, errors.New("payload source failed") }
