package c13

import (
	"bytes"
	"context"
	"fmt"
	"io"
	"time"

	"github.com/plgd-dev/go-coap/v3/message"
	"github.com/plgd-dev/go-coap/v3/message/codes"
	"github.com/plgd-dev/go-coap/v3/message/pool"
	"github.com/plgd-dev/go-coap/v3/net/blockwise"
	"github.com/plgd-dev/go-coap/v3/net/monitor/inactivity"
	"github.com/plgd-dev/go-coap/v3/net/responsewriter"
	tcpclient "github.com/plgd-dev/go-coap/v3/tcp/client"

	"verifharness/internal/conns"
	"verifharness/internal/hooks"
)

// tenv: the same histories on a real tcp client connection (scripted stream; the driver is the peer).
type tenv struct {
	t      *conns.TCP
	off    int
	frames []conns.TFrame
	taken  map[int]bool
	n      int
	obs    []interface {
		Cancel(ctx context.Context, opts ...message.Option) error
	}
}

func (e *tenv) scan() {
	b := e.t.Stream.Written(e.off)
	fs, rest := conns.Frames(b)
	e.off += len(b) - len(rest)
	e.frames = append(e.frames, fs...)
}

func (e *tenv) waitOut(pred func(conns.TFrame) bool) (conns.TFrame, bool) {
	var got conns.TFrame
	ok := hooks.WaitFor(conns.WD, func() bool {
		e.scan()
		for i, f := range e.frames {
			if !e.taken[i] && pred(f) {
				e.taken[i] = true
				got = f
				return true
			}
		}
		return false
	})
	return got, ok
}

func tpathIs(p string) func(conns.TFrame) bool {
	return func(f conns.TFrame) bool { x, _ := f.Opts.Path(); return f.Code >= 1 && f.Code <= 4 && x == p }
}

func (e *tenv) feed(code codes.Code, tok []byte, opts message.Options, pay []byte) {
	e.t.Feed(conns.Frame(int(code), tok, opts, pay))
}

type tcall struct {
	done chan struct{}
	err  error
	code int
}

func (e *tenv) async(f func() (*pool.Message, error)) *tcall {
	c := &tcall{done: make(chan struct{})}
	go func() {
		defer close(c.done)
		resp, err := f()
		c.err = err
		if err == nil && resp != nil {
			c.code = int(resp.Code())
			e.t.CC.ReleaseMessage(resp)
		}
	}()
	return c
}

func (c *tcall) wait() bool {
	select {
	case <-c.done:
		return true
	case <-time.After(conns.WD):
		return false
	}
}

func toutcome(c *tcall) string {
	if c.err != nil {
		return "err"
	}
	return fmt.Sprintf("ok:%d", c.code)
}

// cancelOnRead cancels the request's context while the body is being read for encoding: the write is then refused
type cancelOnRead struct {
	cancel context.CancelFunc
	r      io.ReadSeeker
}

func (c *cancelOnRead) Read(p []byte) (int, error)         { c.cancel(); return c.r.Read(p) }
func (c *cancelOnRead) Seek(o int64, w int) (int64, error) { return c.r.Seek(o, w) }

func (e *tenv) tables() Tables {
	vs := e.t.CC.VerifState()
	obs, r, s := e.t.CC.VerifAux()
	lq := 0
	for _, q := range e.t.CC.VerifQueues() {
		lq += 1 + q.Waiting
	}
	return Tables{Tokens: len(vs.Tokens), BwRecv: r, BwSend: s, Obs: len(obs), LimQ: lq, Queue: vs.QueueLen}
}

func (e *tenv) run(kind string) (bool, string) {
	cc := e.t.CC
	e.n++
	p := fmt.Sprintf("/x%d", e.n)
	ctx, cancel := context.WithCancel(context.Background())
	defer cancel()
	get := func() *tcall { return e.async(func() (*pool.Message, error) { return cc.Get(ctx, p) }) }
	switch kind {
	case "plainOK":
		c := get()
		q, ok := e.waitOut(tpathIs(p))
		if !ok {
			return false, "norequest"
		}
		e.feed(codes.Content, q.Token, nil, []byte("ok"))
		return c.wait(), toutcome(c)
	case "plainBodyFail":
		c := e.async(func() (*pool.Message, error) { return cc.Post(ctx, p, message.TextPlain, &failBody{size: 8}) })
		return c.wait(), toutcome(c)
	case "plainCancel":
		c := get()
		if _, ok := e.waitOut(tpathIs(p)); !ok {
			return false, "norequest"
		}
		cancel()
		return c.wait(), toutcome(c)
	case "plainBadToken": // a request that cannot be encoded (token longer than 8 bytes): the write is refused
		c := e.async(func() (*pool.Message, error) {
			req, err := cc.NewGetRequest(ctx, p)
			if err != nil {
				return nil, err
			}
			defer cc.ReleaseMessage(req)
			req.SetToken(bytes.Repeat([]byte{7}, 9))
			return cc.Do(req)
		})
		return c.wait(), toutcome(c)
	case "plainCtxWrite": // the context ends between admission and the write: the write is refused
		c := e.async(func() (*pool.Message, error) {
			return cc.Post(ctx, p, message.TextPlain, &cancelOnRead{cancel: cancel, r: bytes.NewReader([]byte("body"))})
		})
		return c.wait(), toutcome(c)
	case "obsOK", "obsFail", "obsSilentCancel", "obsNoObs205", "obsNoObs203":
		var o interface {
			Cancel(ctx context.Context, opts ...message.Option) error
		}
		c := e.async(func() (*pool.Message, error) {
			x, err := cc.Observe(ctx, p, func(*pool.Message) {})
			if err == nil {
				o = x
			}
			return nil, err
		})
		q, ok := e.waitOut(tpathIs(p))
		if !ok {
			return false, "norequest"
		}
		switch kind {
		case "obsOK":
			e.feed(codes.Content, q.Token, message.Options{{ID: message.Observe, Value: []byte{1}}}, []byte("v"))
		case "obsNoObs205": // the peer does not support observing: a plain 2.05 / 2.03 without the Observe option - nothing is registered
			e.feed(codes.Content, q.Token, nil, []byte("v"))
		case "obsNoObs203":
			e.feed(codes.Valid, q.Token, nil, []byte("v"))
		case "obsFail":
			e.feed(codes.NotFound, q.Token, nil, nil)
		default:
			cancel()
		}
		okw := c.wait()
		if kind == "obsOK" && c.err == nil {
			e.obs = append(e.obs, o)
		}
		return okw, toutcome(c)
	case "obsCancel", "obsCancelRefused", "obsCancelGiveUp":
		if len(e.obs) == 0 {
			return false, "noobservation"
		}
		o := e.obs[len(e.obs)-1]
		e.obs = e.obs[:len(e.obs)-1]
		c := e.async(func() (*pool.Message, error) { return nil, o.Cancel(ctx) })
		q, ok := e.waitOut(func(f conns.TFrame) bool {
			v, err := f.Opts.Observe()
			return f.Code == int(codes.GET) && err == nil && v == 1
		})
		if !ok {
			return false, "norequest"
		}
		switch kind {
		case "obsCancelRefused":
			e.feed(codes.NotFound, q.Token, nil, nil)
		case "obsCancelGiveUp":
			cancel()
		default:
			e.feed(codes.Content, q.Token, nil, []byte("v"))
		}
		return c.wait(), toutcome(c)
	case "pingOK", "pingCancel":
		c := e.async(func() (*pool.Message, error) { return nil, cc.Ping(ctx) })
		q, ok := e.waitOut(func(f conns.TFrame) bool { return f.Code == int(codes.Ping) })
		if !ok {
			return false, "norequest"
		}
		if kind == "pingOK" {
			e.feed(codes.Pong, q.Token, nil, nil)
		} else {
			cancel()
		}
		return c.wait(), toutcome(c)
	case "pingAsyncOK":
		// an asynchronous ping that is answered; the function AsyncPing returned is never called - the Pong ends the exchange
		pong := make(chan struct{}, 1)
		if _, err := cc.AsyncPing(func() {
			select {
			case pong <- struct{}{}:
			default:
			}
		}); err != nil {
			return true, "err"
		}
		q, ok := e.waitOut(func(f conns.TFrame) bool { return f.Code == int(codes.Ping) })
		if !ok {
			return false, "norequest"
		}
		e.feed(codes.Pong, q.Token, nil, nil)
		select {
		case <-pong:
			return true, "ok"
		case <-time.After(conns.WD):
			return false, "nopong"
		}
	case "kaMissed":
		// the keep-alive (the library's KeepAlive object driven on this connection, as options.WithKeepAlive composes it) pings
		// three times; the peer leaves the first two pings unanswered for good and answers the third: a ping that is superseded
		// is cancelled, the answered one is ended by its Pong - nothing of the three stays
		ka := inactivity.NewKeepAlive(5, func(*tcpclient.Conn) {}, func(cc *tcpclient.Conn, receivePong func()) (func(), error) {
			return cc.AsyncPing(receivePong)
		})
		var last conns.TFrame
		for k := 0; k < 3; k++ {
			ka.OnInactive(cc)
			q, ok := e.waitOut(func(f conns.TFrame) bool { return f.Code == int(codes.Ping) })
			if !ok {
				return false, "norequest"
			}
			last = q
		}
		e.feed(codes.Pong, last.Token, nil, nil)
		return true, "ok"
	case "oneWay":
		c := e.async(func() (*pool.Message, error) {
			req, err := cc.NewGetRequest(ctx, p)
			if err != nil {
				return nil, err
			}
			defer cc.ReleaseMessage(req)
			return nil, cc.WriteMessage(req)
		})
		okw := c.wait()
		_, _ = e.waitOut(tpathIs(p))
		return okw, toutcome(c)
	case "srvReq", "srvReqNoResp":
		tok := []byte{0x5e, byte(e.n)}
		before := len(e.t.Stream.Written(0))
		if kind == "srvReq" {
			e.feed(codes.GET, tok, message.Options{{ID: message.URIPath, Value: []byte("small")}}, nil)
			ok := hooks.WaitFor(conns.WD, func() bool { return len(e.t.Stream.Written(0)) > before })
			e.scan()
			for i := range e.frames {
				e.taken[i] = true
			}
			return ok, "served"
		}
		e.feed(codes.PUT, tok, message.Options{{ID: message.URIPath, Value: []byte("quiet")}}, []byte("x"))
		return true, "served"
	case "bwDownOK", "bwDownAbandon":
		c := get()
		q, ok := e.waitOut(tpathIs(p))
		if !ok {
			return false, "norequest"
		}
		e.feed(codes.Content, q.Token, message.Options{{ID: message.Block2, Value: blk(0, 0, true)}}, bytes.Repeat([]byte{2}, 16))
		q2, ok := e.waitOut(func(f conns.TFrame) bool { x, _ := f.Opts.Path(); return x == p && f.Opts.HasOption(message.Block2) })
		if !ok {
			return false, "nosecondblock"
		}
		if kind == "bwDownAbandon" {
			cancel()
			return c.wait(), toutcome(c)
		}
		e.feed(codes.Content, q2.Token, message.Options{{ID: message.Block2, Value: blk(0, 1, false)}}, []byte{2, 2, 2, 2})
		return c.wait(), toutcome(c)
	case "tickEarly":
		cc.CheckExpirations(time.Now().Add(1 * time.Second))
		return true, "tick"
	case "tickBw":
		cc.CheckExpirations(time.Now().Add(4 * time.Second))
		return true, "tick"
	case "tickLate":
		cc.CheckExpirations(time.Now().Add(248 * time.Second))
		return true, "tick"
	}
	return true, "skipped" // a kind that does not exist on a stream connection: nothing happens
}

// RunHistoryTCP executes one history on a real tcp client connection.
func RunHistoryTCP(t int, kinds []string) Trace {
	tr := Trace{T: t, Transport: "tcp", Ev: []Ev{}}
	e := &tenv{taken: map[int]bool{}}
	e.t = conns.NewTCP(func(cfg *tcpclient.Config) {
		cfg.BlockwiseEnable = true
		cfg.BlockwiseSZX = blockwise.SZX16
		cfg.BlockwiseTransferTimeout = 3 * time.Second
		cfg.LimitClientParallelRequests = 4
		cfg.LimitClientEndpointParallelRequests = 1
		cfg.Handler = func(w *responsewriter.ResponseWriter[*tcpclient.Conn], r *pool.Message) {
			p, _ := r.Path()
			if p == "/small" {
				_ = w.SetResponse(codes.Content, message.TextPlain, bytes.NewReader([]byte("s")))
			}
		}
	})
	defer e.t.Close()
	e.t.Feed(conns.Frame(int(codes.CSM), []byte{1}, message.Options{{ID: message.TCPBlockWiseTransfer, Value: []byte{}}}, nil))
	for _, k := range kinds {
		done, out := e.run(k)
		e.t.Settle()
		time.Sleep(300 * time.Microsecond)
		e.t.Settle()
		tr.Ev = append(tr.Ev, Ev{Kind: k, Done: done, Outcome: out, T: e.tables()})
	}
	tr.Errs = e.t.Errs.Len()
	return tr
}
