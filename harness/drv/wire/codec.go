package wire

import (
	"bytes"
	"errors"
	"math/rand"
	"time"

	"github.com/plgd-dev/go-coap/v3/message"
	"github.com/plgd-dev/go-coap/v3/message/codes"
	"github.com/plgd-dev/go-coap/v3/message/pool"
	tcpcoder "github.com/plgd-dev/go-coap/v3/tcp/coder"
	udpcoder "github.com/plgd-dev/go-coap/v3/udp/coder"

	"verifharness/internal/rec"
)

type coderI interface {
	Size(m message.Message) (int, error)
	Encode(m message.Message, buf []byte) (int, error)
	Decode(data []byte, m *message.Message) (int, error)
}

func coderFor(tcp bool) coderI {
	if tcp {
		return tcpcoder.DefaultCoder
	}
	return udpcoder.DefaultCoder
}

func trName(tcp bool) string {
	if tcp {
		return "tcp"
	}
	return "udp"
}

func toLib(m M) message.Message {
	lm := message.Message{Type: message.Type(m.Type), MessageID: int32(m.MID), Code: codes.Code(m.Code), Token: m.Tok, Payload: m.Pay}
	for _, o := range m.Opts {
		lm.Options = append(lm.Options, message.Option{ID: message.OptionID(o.ID), Value: o.Val})
	}
	return lm
}

func fromLib(lm message.Message) Msg {
	j := Msg{Type: int(lm.Type), MID: int(lm.MessageID), Code: int(lm.Code), Tok: rec.Bytes(lm.Token), Pay: rec.Bytes(lm.Payload), Opts: []Opt{}}
	for _, o := range lm.Options {
		j.Opts = append(j.Opts, Opt{int(o.ID), rec.Bytes(o.Value)})
	}
	return j
}

func fromPool(p *pool.Message) (Msg, error) {
	j := Msg{Type: int(p.Type()), MID: int(p.MessageID()), Code: int(p.Code()), Tok: rec.Bytes(p.Token()), Opts: []Opt{}}
	for _, o := range p.Options() {
		j.Opts = append(j.Opts, Opt{int(o.ID), rec.Bytes(o.Value)})
	}
	body, err := p.ReadBody()
	j.Pay = rec.Bytes(body)
	return j, err
}

type res struct {
	Err   bool  `json:"err"`
	Short bool  `json:"short"`
	N     int   `json:"n"`
	Bytes []int `json:"bytes,omitempty"`
	M     *Msg  `json:"m,omitempty"`
}

type small struct {
	K      int  `json:"k"`
	Err    bool `json:"err"`
	N      int  `json:"n"`
	Canary bool `json:"canary"`
	Panic  bool `json:"panic"`
}

type encRec struct {
	Op    string  `json:"op"`
	Tr    string  `json:"tr"`
	API   string  `json:"api"`
	M     Msg     `json:"m"`
	Size  res     `json:"size"`
	Enc   res     `json:"enc"`
	Dec   res     `json:"dec"`
	Small []small `json:"small"`
	Panic bool    `json:"panic"`
}

func protect(f func()) (panicked bool) {
	defer func() {
		if r := recover(); r != nil {
			panicked = true
		}
	}()
	f()
	return false
}

// encRaw: Size, Encode into an exact buffer, Decode of the produced bytes, Encode into every (or a
// sample of) too-small buffer length with canaries behind the slice.
func encRaw(tcp bool, m M, rng *rand.Rand, allSmall bool) encRec {
	c := coderFor(tcp)
	lm := toLib(m)
	r := encRec{Op: "enc", Tr: trName(tcp), API: "raw", M: m.JSON(), Small: []small{}}
	r.Panic = protect(func() {
		size, err := c.Size(lm)
		r.Size = res{Err: err != nil, N: size}
		bufLen := size
		if err != nil || size < 0 {
			bufLen = 4096 + len(m.Pay) + len(m.Tok)
		}
		buf := make([]byte, bufLen+32)
		for i := range buf {
			buf[i] = 0xA5
		}
		n, err := c.Encode(lm, buf[:bufLen])
		r.Enc = res{Err: err != nil, N: n}
		if err != nil {
			return
		}
		out := append([]byte(nil), buf[:n]...)
		r.Enc.Bytes = rec.Bytes(out)
		var dm message.Message
		dm.Options = make(message.Options, 0, len(m.Opts)+4)
		dn, derr := c.Decode(out, &dm)
		r.Dec = res{Err: derr != nil, N: dn}
		if derr == nil {
			j := fromLib(dm)
			r.Dec.M = &j
		}
		// too-small destinations
		var ks []int
		if allSmall && size <= 80 {
			for k := 0; k < size; k++ {
				ks = append(ks, k)
			}
		} else if size > 0 {
			ks = []int{0, 1, 2, 3, 4, size / 2, size - 2, size - 1}
			for i := 0; i < 4; i++ {
				ks = append(ks, rng.Intn(size))
			}
		}
		for _, k := range ks {
			if k < 0 || k >= size {
				continue
			}
			b := make([]byte, size+32)
			for i := range b {
				b[i] = 0xA5
			}
			s := small{K: k}
			s.Panic = protect(func() {
				sn, serr := c.Encode(lm, b[:k])
				s.Err, s.N = serr != nil, sn
			})
			s.Canary = true
			for _, x := range b[k:] {
				if x != 0xA5 {
					s.Canary = false
				}
			}
			r.Small = append(r.Small, s)
		}
	})
	return r
}

// build a pooled message through the builder API
func buildPool(p *pool.Message, m M) {
	p.SetType(message.Type(m.Type))
	p.SetMessageID(int32(m.MID))
	p.SetCode(codes.Code(m.Code))
	p.SetToken(m.Tok)
	for _, o := range m.Opts {
		p.AddOptionBytes(message.OptionID(o.ID), o.Val)
	}
	if len(m.Pay) > 0 {
		p.SetBody(bytes.NewReader(m.Pay))
	}
}

func encPool(tcp bool, m M, pl *pool.Pool, api string) encRec {
	c := coderFor(tcp)
	r := encRec{Op: "enc", Tr: trName(tcp), API: api, M: m.JSON(), Small: []small{}}
	r.Panic = protect(func() {
		src := pl.AcquireMessage(nil)
		buildPool(src, m)
		data, err := src.MarshalWithEncoder(c)
		r.Enc = res{Err: err != nil, N: len(data)}
		if err != nil {
			pl.ReleaseMessage(src)
			return
		}
		out := append([]byte(nil), data...)
		r.Enc.Bytes = rec.Bytes(out)
		pl.ReleaseMessage(src)
		dst := pl.AcquireMessage(nil)
		n, derr := dst.UnmarshalWithDecoder(c, out)
		r.Dec = res{Err: derr != nil, N: n}
		if derr == nil {
			j, berr := fromPool(dst)
			if berr != nil {
				r.Dec.Err = true
			}
			r.Dec.M = &j
		}
		pl.ReleaseMessage(dst)
	})
	return r
}

// ---------------------------------------------------------------------------------------------
// C02: decoding arbitrary bytes
// ---------------------------------------------------------------------------------------------
type hdrRes struct {
	Err   bool  `json:"err"`
	Short bool  `json:"short"`
	N     int   `json:"n"`
	Len   int   `json:"len"`
	MLHi  int   `json:"mlhi"`
	MLLo  int   `json:"mllo"`
	Code  int   `json:"code"`
	Tok   []int `json:"tok"`
}

type decRec struct {
	Op      string  `json:"op"`
	Tr      string  `json:"tr"`
	API     string  `json:"api"`
	B       []int   `json:"b"`
	D1      res     `json:"d1"`
	Re      res     `json:"re"`
	D2      res     `json:"d2"`
	Hdr     *hdrRes `json:"hdr,omitempty"`
	After   *Msg    `json:"after,omitempty"` // the decoded message read again after the input buffer was overwritten
	Panic   bool    `json:"panic"`
	Timeout bool    `json:"timeout"`
}

func isShort(err error) bool { return errors.Is(err, message.ErrShortRead) }

func decRaw(tcp bool, b []byte) decRec {
	c := coderFor(tcp)
	r := decRec{Op: "dec", Tr: trName(tcp), API: "raw", B: rec.Bytes(b)}
	r.Panic = protect(func() {
		if tcp {
			var h tcpcoder.MessageHeader
			n, err := tcpcoder.DefaultCoder.DecodeHeader(b, &h)
			r.Hdr = &hdrRes{Err: err != nil, Short: isShort(err), N: n, Tok: []int{}}
			if err == nil {
				r.Hdr.Len = int(h.Length)
				r.Hdr.MLHi, r.Hdr.MLLo = int(h.MessageLength>>16), int(h.MessageLength&0xffff)
				r.Hdr.Code = int(h.Code)
				r.Hdr.Tok = rec.Bytes(h.Token)
			}
		}
		var dm message.Message
		dm.Options = make(message.Options, 0, len(b)+1)
		in := append([]byte(nil), b...)
		n, err := c.Decode(in, &dm)
		r.D1 = res{Err: err != nil, Short: isShort(err), N: n}
		if err != nil {
			return
		}
		j := fromLib(dm)
		r.D1.M = &j
		size, err := c.Size(dm)
		if err != nil {
			r.Re = res{Err: true}
			return
		}
		buf := make([]byte, size)
		n2, err := c.Encode(dm, buf)
		r.Re = res{Err: err != nil, N: n2}
		if err != nil {
			return
		}
		r.Re.Bytes = rec.Bytes(buf[:n2])
		var dm2 message.Message
		dm2.Options = make(message.Options, 0, len(b)+1)
		n3, err := c.Decode(buf[:n2], &dm2)
		r.D2 = res{Err: err != nil, N: n3}
		if err == nil {
			j2 := fromLib(dm2)
			r.D2.M = &j2
		}
	})
	return r
}

// decPool decodes through pool.Message.UnmarshalWithDecoder on a message prepared by prep (fresh,
// recycled, ...), overwrites the input buffer afterwards and reads the message again (aliasing).
func decPool(tcp bool, b []byte, api string, get func() *pool.Message, put func(*pool.Message)) decRec {
	c := coderFor(tcp)
	r := decRec{Op: "dec", Tr: trName(tcp), API: api, B: rec.Bytes(b)}
	done := make(chan struct{})
	go func() {
		defer close(done)
		r.Panic = protect(func() {
			p := get()
			in := append([]byte(nil), b...)
			n, err := p.UnmarshalWithDecoder(c, in)
			r.D1 = res{Err: err != nil, Short: isShort(err), N: n}
			if err != nil {
				put(p)
				return
			}
			j, berr := fromPool(p)
			if berr != nil {
				r.D1.Err = true
				put(p)
				return
			}
			r.D1.M = &j
			for i := range in {
				in[i] = 0xA5
			}
			j1b, _ := fromPool(p)
			r.After = &j1b
			data, err := p.MarshalWithEncoder(c)
			r.Re = res{Err: err != nil, N: len(data)}
			if err != nil {
				put(p)
				return
			}
			out := append([]byte(nil), data...)
			r.Re.Bytes = rec.Bytes(out)
			put(p)
			p2 := get()
			n3, err := p2.UnmarshalWithDecoder(c, out)
			r.D2 = res{Err: err != nil, N: n3}
			if err == nil {
				j2, _ := fromPool(p2)
				r.D2.M = &j2
			}
			put(p2)
		})
	}()
	select {
	case <-done:
	case <-time.After(3 * time.Second):
		// bounded time is part of the property: the call did not return. The goroutine is abandoned.
		return decRec{Op: "dec", Tr: trName(tcp), API: api, B: rec.Bytes(b), Timeout: true, D1: res{Err: true}}
	}
	return r
}
