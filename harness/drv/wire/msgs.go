// Package wire drives the real datagram and stream coders (raw and pooled API) and records inputs and
// results for C01 (encode/size/round trip) and C02 (decode of arbitrary bytes). No judgement here.
package wire

import (
	"math/rand"

	"verifharness/internal/rec"
)

// Msg is the JSON form of a message (TLA+ record [type, mid, code, tok, opts, pay]).
type Opt struct {
	ID  int   `json:"id"`
	Val []int `json:"val"`
}

type Msg struct {
	Type int   `json:"type"`
	MID  int   `json:"mid"`
	Code int   `json:"code"`
	Tok  []int `json:"tok"`
	Opts []Opt `json:"opts"`
	Pay  []int `json:"pay"`
}

type M struct {
	Type int
	MID  int
	Code int
	Tok  []byte
	Opts []O
	Pay  []byte
}

type O struct {
	ID  int
	Val []byte
}

func (m M) JSON() Msg {
	j := Msg{Type: m.Type, MID: m.MID, Code: m.Code, Tok: rec.Bytes(m.Tok), Pay: rec.Bytes(m.Pay), Opts: []Opt{}}
	for _, o := range m.Opts {
		j.Opts = append(j.Opts, Opt{o.ID, rec.Bytes(o.Val)})
	}
	return j
}

func fill(n int, seed int) []byte {
	b := make([]byte, n)
	for i := range b {
		b[i] = byte((seed + i*7) % 256)
		if (seed+i)%5 == 0 {
			b[i] = 0xff // payload-marker bytes inside values and payloads
		}
	}
	return b
}

// registry bounds (only used to GENERATE legal lengths; the judge has its own table in CoapWire.tla)
var coapLens = map[int][2]int{1: {0, 8}, 3: {1, 255}, 4: {1, 8}, 5: {0, 0}, 6: {0, 3}, 7: {0, 2}, 8: {0, 255}, 11: {0, 255}, 12: {0, 2}, 14: {0, 4},
	15: {0, 255}, 17: {0, 2}, 20: {0, 255}, 23: {0, 3}, 27: {0, 3}, 28: {0, 4}, 35: {1, 1034}, 39: {1, 255}, 60: {0, 4}, 258: {0, 1}}

var sigLens = map[int]map[int][2]int{225: {2: {0, 4}, 4: {0, 0}}, 226: {2: {0, 0}}, 227: {2: {0, 0}}, 228: {2: {1, 255}, 4: {0, 3}}, 229: {2: {0, 2}}}

func bounds(tcp bool, code, id int) (int, int) {
	if tcp {
		if t, ok := sigLens[code]; ok {
			if b, ok := t[id]; ok {
				return b[0], b[1]
			}
			return 0, 65804
		}
	}
	if b, ok := coapLens[id]; ok {
		return b[0], b[1]
	}
	return 0, 65804
}

var lenClasses = []int{0, 1, 2, 3, 4, 8, 12, 13, 14, 255, 256, 268, 269, 270, 1034, 1035}

func legalLens(tcp bool, code, id int) []int {
	lo, hi := bounds(tcp, code, id)
	var out []int
	seen := map[int]bool{}
	add := func(n int) {
		if n >= lo && n <= hi && !seen[n] {
			seen[n] = true
			out = append(out, n)
		}
	}
	add(lo)
	add(hi)
	for _, n := range lenClasses {
		if n <= 1100 {
			add(n)
		}
	}
	return out
}

var allIDs = []int{1, 3, 4, 5, 6, 7, 8, 9, 11, 12, 13, 14, 15, 17, 20, 23, 27, 28, 35, 39, 60, 258, 259, 270, 271, 2000, 65000, 65535}

// Messages returns the well-formed messages of this tier for a transport (systematic + seeded random).
func Messages(tcp bool, thorough bool, rng *rand.Rand) []M {
	var ms []M
	base := func(i int) M {
		return M{Type: i % 4, MID: []int{0, 1, 255, 256, 4660, 65535}[i%6], Code: []int{0, 1, 2, 69, 132, 160, 255}[i%7]}
	}
	n := 0
	next := func() M { n++; return base(n) }
	// token lengths, no options, payload lengths incl. the stream length classes
	for tl := 0; tl <= 8; tl++ {
		for _, pl := range []int{0, 1, 11, 12, 13, 267, 268, 269} {
			m := next()
			m.Tok = fill(tl, tl*3)
			m.Pay = fill(pl, pl)
			ms = append(ms, m)
		}
	}
	for _, pl := range []int{65803, 65804, 65805, 65806, 70000} {
		m := next()
		m.Tok = fill(n%9, 1)
		m.Pay = fill(pl, pl)
		ms = append(ms, m)
	}
	// every single option at every legal length class, with and without payload
	codes := []int{69}
	if tcp {
		codes = []int{69, 225, 226, 227, 228, 229}
	}
	for _, code := range codes {
		for _, id := range allIDs {
			for _, l := range legalLens(tcp, code, id) {
				m := next()
				m.Code = code
				m.Tok = fill(n%9, n)
				m.Opts = []O{{id, fill(l, id+l)}}
				if n%2 == 0 {
					m.Pay = fill(1+n%20, n)
				}
				ms = append(ms, m)
			}
		}
	}
	// delta classes: second option so that delta = 0,1,12,13,14,268,269,270, big
	for _, first := range []int{1, 11, 258} {
		for _, d := range []int{0, 1, 12, 13, 14, 268, 269, 270, 65535 - first} {
			id2 := first + d
			if id2 > 65535 {
				continue
			}
			l1 := legalLens(tcp, 69, first)
			l2 := legalLens(tcp, 69, id2)
			m := next()
			m.Code = 69
			m.Tok = fill(n%9, n)
			m.Opts = []O{{first, fill(l1[n%len(l1)], 1)}, {id2, fill(l2[n%len(l2)], 2)}}
			ms = append(ms, m)
		}
	}
	// first option number 65535 (delta from 0), value of the largest legal size
	{
		m := next()
		m.Opts = []O{{65535, fill(65804, 9)}}
		ms = append(ms, m)
		m = next()
		m.Opts = []O{{13, fill(269, 9)}, {13, fill(0, 9)}, {13, fill(13, 9)}, {283, fill(270, 9)}}
		m.Pay = fill(3, 1)
		ms = append(ms, m)
	}
	// many options (capacity growth in the pooled decoder): 15,16,17,32,33,64,65 options
	for _, k := range []int{15, 16, 17, 32, 33, 64, 65, 130} {
		m := next()
		m.Tok = fill(k%9, k)
		for i := 0; i < k; i++ {
			m.Opts = append(m.Opts, O{2000 + (i/10)*3, fill(i%5, i)})
		}
		// keep ids ascending with repeats
		ms = append(ms, m)
	}
	// seeded random messages
	nr := 1500
	if thorough {
		nr = 8000 // (30000 took the judge more than 30 min on 16 cores)
	}
	for i := 0; i < nr; i++ {
		m := next()
		m.Type = rng.Intn(4)
		m.MID = rng.Intn(65536)
		m.Code = rng.Intn(256)
		if tcp && rng.Intn(4) == 0 {
			m.Code = 225 + rng.Intn(5)
		}
		m.Tok = fill(rng.Intn(9), rng.Intn(256))
		k := rng.Intn(6)
		id := 0
		for j := 0; j < k; j++ {
			switch rng.Intn(4) {
			case 0: // repeat
				if id == 0 {
					id = 1 + rng.Intn(20)
				}
			case 1:
				id += 1 + rng.Intn(14)
			case 2:
				id += 13 + rng.Intn(260)
			default:
				id += allIDs[rng.Intn(len(allIDs))] % 300
			}
			if id < 1 {
				id = 1
			}
			if id > 65535 {
				id = 65535
			}
			ls := legalLens(tcp, m.Code, id)
			l := ls[rng.Intn(len(ls))]
			lo, hi := bounds(tcp, m.Code, id)
			if rng.Intn(3) == 0 && hi > lo {
				l = lo + rng.Intn(minInt(hi, 400)-lo+1)
			}
			m.Opts = append(m.Opts, O{id, fill(l, rng.Intn(256))})
		}
		switch rng.Intn(5) {
		case 0:
		case 1:
			m.Pay = fill(1+rng.Intn(12), rng.Intn(256))
		case 2:
			m.Pay = fill(1+rng.Intn(300), rng.Intn(256))
		case 3:
			m.Pay = []byte{0xff}
		default:
			m.Pay = fill(1+rng.Intn(40), rng.Intn(256))
		}
		ms = append(ms, m)
	}
	return ms
}

func minInt(a, b int) int {
	if a < b {
		return a
	}
	return b
}

// Refusals returns messages outside the preconditions for the reasons the statement names.
func Refusals(tcp bool) []M {
	var ms []M
	good := M{Type: 0, MID: 7, Code: 69, Tok: fill(2, 1), Opts: []O{{11, []byte("a")}}, Pay: []byte("x")}
	for _, tl := range []int{9, 10, 15, 16, 17, 255, 300} {
		m := good
		m.Tok = fill(tl, 5)
		ms = append(ms, m)
	}
	if !tcp {
		for _, t := range []int{-1, 4, 5, 7, 8, 16, 64, 255, 256, 1000, -2} {
			m := good
			m.Type = t
			ms = append(ms, m)
		}
		for _, mid := range []int{-1, -2, 65536, 65537, 1 << 20, 1<<31 - 1, -1 << 31} {
			m := good
			m.MID = mid
			ms = append(ms, m)
		}
	}
	return ms
}
