package wire

import (
	"math/rand"

	"github.com/plgd-dev/go-coap/v3/message"
	"github.com/plgd-dev/go-coap/v3/message/pool"

	"verifharness/internal/rec"
)

// RunC01 writes the encode/size/round-trip records.
func RunC01(out string) {
	w := rec.Create(out)
	defer w.Close()
	thorough := rec.Tier() == "thorough"
	for _, tcp := range []bool{false, true} {
		rng := rand.New(rand.NewSource(rec.Seed()*2 + 101))
		pl := pool.New(8, 2048)
		// a second pool whose objects went through arbitrary builder use before being recycled
		ms := Messages(tcp, thorough, rng)
		for i, m := range ms {
			big := len(m.Pay) > 4000 || (len(m.Opts) > 0 && len(m.Opts[0].Val) > 4000)
			w.Put(encRaw(tcp, m, rng, !big))
			if big && i%2 == 1 {
				continue
			}
			api := "pool"
			if i%3 == 0 {
				// recycle: dirty a message with unrelated content, release it, so that the next acquire reuses it
				d := pl.AcquireMessage(nil)
				buildPool(d, ms[(i*7+3)%len(ms)])
				pl.ReleaseMessage(d)
				api = "poolrec"
			}
			w.Put(encPool(tcp, m, pl, api))
		}
		for _, m := range Refusals(tcp) {
			w.Put(encRaw(tcp, m, rng, false))
			w.Put(encPool(tcp, m, pl, "pool"))
		}
	}
}

var alphaUDP = []byte{0x40, 0x48, 0x49, 0x4f, 0x00, 0x0d, 0xd0, 0xe1, 0xf0, 0xff}
var alphaTCP = []byte{0x00, 0x01, 0x09, 0x10, 0xd0, 0xe0, 0xf0, 0xff, 0x0d, 0x41}

func enumStrings(alpha []byte, maxLen int, f func([]byte)) {
	var recur func(cur []byte)
	recur = func(cur []byte) {
		f(cur)
		if len(cur) == maxLen {
			return
		}
		for _, a := range alpha {
			recur(append(append([]byte(nil), cur...), a))
		}
	}
	recur(nil)
}

func encodeOf(tcp bool, m M) []byte {
	c := coderFor(tcp)
	lm := toLib(m)
	size, err := c.Size(lm)
	if err != nil {
		return nil
	}
	buf := make([]byte, size)
	n, err := c.Encode(lm, buf)
	if err != nil {
		return nil
	}
	return buf[:n]
}

// Inputs returns the byte strings of this tier.
func Inputs(tcp bool, thorough bool, rng *rand.Rand) [][]byte {
	var in [][]byte
	add := func(b []byte) { in = append(in, append([]byte(nil), b...)) }
	alpha := alphaUDP
	if tcp {
		alpha = alphaTCP
	}
	maxLen := 4
	if thorough {
		maxLen = 5
	}
	enumStrings(alpha, maxLen, add)
	// every first byte x a few lengths of following bytes
	for fb := 0; fb < 256; fb++ {
		for _, k := range []int{0, 1, 2, 4, 5, 9, 13} {
			b := []byte{byte(fb)}
			for i := 0; i < k; i++ {
				b = append(b, byte(0x41+i))
			}
			add(b)
			if k > 0 {
				z := append([]byte{byte(fb)}, make([]byte, k)...)
				add(z)
			}
		}
	}
	// valid encodings: whole, truncated at every offset, and with trailing bytes
	ms := Messages(tcp, false, rand.New(rand.NewSource(77)))
	var valid [][]byte
	for i, m := range ms {
		if len(m.Pay) > 400 || (len(m.Opts) > 0 && len(m.Opts[0].Val) > 400) {
			continue
		}
		if i%3 != 0 && i > 400 {
			continue
		}
		e := encodeOf(tcp, m)
		if e == nil {
			continue
		}
		valid = append(valid, e)
		add(e)
		add(append(append([]byte(nil), e...), 0xff, 0x41))
		add(append(append([]byte(nil), e...), 0x00))
	}
	nt := 200
	if thorough {
		nt = len(valid)
	}
	for i, e := range valid {
		if i >= nt || len(e) > 120 {
			continue
		}
		for k := 0; k < len(e); k++ {
			add(e[:k])
		}
	}
	// option-count around the pooled decoder's capacity steps; options that are dropped count too
	for _, k := range []int{15, 16, 17, 31, 32, 33, 64, 65} {
		for _, kind := range []int{0, 1, 2} {
			var b []byte
			if tcp {
				b = nil
			} else {
				b = []byte{0x40, 0x01, 0x12, 0x34}
			}
			var body []byte
			for i := 0; i < k; i++ {
				switch kind {
				case 0:
					body = append(body, 0x10) // delta 1, length 0
				case 1:
					body = append(body, 0x00) // delta 0: repeated / number 0
				default:
					body = append(body, 0x01, byte(i)) // delta 0, length 1
				}
			}
			if tcp {
				b = encodeTCPHeader(len(body), 0x01, nil)
			}
			add(append(b, body...))
		}
	}
	// ... and far beyond them: 1024 / 1025 / 2100 kept options (If-Match repeated)
	for _, k := range []int{1024, 1025, 2100} {
		body := []byte{0x10}
		for i := 1; i < k; i++ {
			body = append(body, 0x00)
		}
		if tcp {
			add(append(encodeTCPHeader(len(body), 0x01, nil), body...))
		} else {
			add(append([]byte{0x40, 0x01, 0x12, 0x34}, body...))
		}
	}
	// extended fields at their maxima, option number overflow, reserved nibbles
	tails := [][]byte{
		{0xe0, 0xff, 0xff}, {0xe0, 0xfe, 0xf2}, {0xe0, 0xfe, 0xf3}, {0xd0, 0xff}, {0xd0, 0xff, 0xd0, 0xff},
		{0xe0, 0xfe, 0xf2, 0x10}, {0xe0, 0xfe, 0xf2, 0x00}, {0xe0, 0xff, 0x00, 0xe0, 0xff, 0x00},
		{0x0e, 0xff, 0xff}, {0x0d, 0xff}, {0x0d, 0x00}, {0x0e, 0x00, 0x00}, {0xee, 0x00, 0x00, 0x00, 0x00},
		{0xf0}, {0x0f}, {0xff}, {0xff, 0xff}, {0x10, 0xff}, {0x11, 0x01, 0xff, 0xff}, {0xb1, 0x61, 0xff}, {0xb1, 0x61, 0xff, 0x00},
		{0x30}, {0x31, 0x00}, {0x41, 0x01}, {0x40}, {0x49, 1, 2, 3, 4, 5, 6, 7, 8, 9}, {0x50}, {0x51, 0x01},
	}
	for _, t := range tails {
		if tcp {
			add(append(encodeTCPHeader(len(t), 0x45, []byte{7}), t...))
			add(append(encodeTCPHeader(len(t), 0xe1, nil), t...)) // CSM: signalling option table
			add(append(encodeTCPHeader(len(t), 0xe2, nil), t...))
		} else {
			add(append([]byte{0x41, 0x45, 0x00, 0x01, 0x07}, t...))
		}
	}
	if tcp {
		// stream length field: every class boundary, huge declared lengths, wrap candidates
		for _, h := range [][]byte{
			{0xd0, 0x00}, {0xd0, 0xff, 0x45}, {0xe0, 0x00, 0x00, 0x45}, {0xe0, 0xff, 0xff, 0x45},
			{0xf0, 0x00, 0x00, 0x00, 0x00, 0x45}, {0xf0, 0xff, 0xff, 0xff, 0xff, 0x45}, {0xf0, 0xff, 0xfe, 0xff, 0x05, 0x45},
			{0xf0, 0xff, 0xfe, 0xfe, 0xed, 0x45}, {0xf0, 0xff, 0xfe, 0xfe, 0xee, 0x45}, {0xf1, 0xff, 0xfe, 0xfe, 0xec, 0x45, 0x01},
			{0xf0, 0x7f, 0xff, 0xff, 0xff, 0x45}, {0xf0, 0x80, 0x00, 0x00, 0x00, 0x45}, {0xf8, 0xff, 0xff, 0xff, 0xff, 0x45, 1, 2, 3, 4, 5, 6, 7, 8},
			{0x00, 0x01, 0xff, 0x41}, {0x10, 0x01, 0xff, 0x41}, {0x20, 0x01, 0xff, 0x41, 0x42}, {0x01, 0x45, 0x07, 0xff, 0x41},
		} {
			add(h)
			add(append(append([]byte(nil), h...), 0xff, 0x41, 0x42))
		}
	}
	// seeded mutations of valid encodings
	nm := 4000
	if thorough {
		nm = 100000
	}
	special := []byte{0x00, 0x0d, 0x0e, 0x0f, 0xd0, 0xe0, 0xf0, 0xff, 0x40, 0x48, 0x49, 0x4f, 0x10, 0x11}
	for i := 0; i < nm && len(valid) > 0; i++ {
		e := append([]byte(nil), valid[rng.Intn(len(valid))]...)
		if len(e) > 300 {
			e = e[:300]
		}
		for k := 0; k <= rng.Intn(3); k++ {
			if len(e) == 0 {
				break
			}
			p := rng.Intn(len(e))
			switch rng.Intn(6) {
			case 0:
				e[p] ^= 1 << uint(rng.Intn(8))
			case 1:
				e[p] = special[rng.Intn(len(special))]
			case 2:
				e = append(e[:p], e[p+1:]...)
			case 3:
				e = append(e[:p], append([]byte{special[rng.Intn(len(special))]}, e[p:]...)...)
			case 4:
				e = e[:p]
			default:
				e[p] = byte(rng.Intn(256))
			}
		}
		add(e)
	}
	return in
}

func encodeTCPHeader(bodyLen int, code byte, tok []byte) []byte {
	var b []byte
	switch {
	case bodyLen < 13:
		b = []byte{byte(bodyLen<<4) | byte(len(tok))}
	case bodyLen < 269:
		b = []byte{0xd0 | byte(len(tok)), byte(bodyLen - 13)}
	default:
		b = []byte{0xe0 | byte(len(tok)), byte((bodyLen - 269) >> 8), byte(bodyLen - 269)}
	}
	b = append(b, code)
	return append(b, tok...)
}

// RunC02 writes the decode records.
func RunC02(out string) {
	w := rec.Create(out)
	defer w.Close()
	thorough := rec.Tier() == "thorough"
	timeouts := 0
	for _, tcp := range []bool{false, true} {
		rng := rand.New(rand.NewSource(rec.Seed()*2 + 202))
		inputs := Inputs(tcp, thorough, rng)
		fresh := func() *pool.Message { return pool.NewMessage(nil) }
		drop := func(*pool.Message) {}
		pl := pool.New(4, 2048)
		dirty := Messages(tcp, false, rand.New(rand.NewSource(5)))
		di := 0
		recycled := func() *pool.Message {
			// put a message with an arbitrary builder history back, then take it out again
			d := pl.AcquireMessage(nil)
			di++
			dm := dirty[(di*13)%len(dirty)]
			if di%2 == 0 {
				buildPool(d, dm)
			} else {
				// ... or whose previous use was the decoding of another message (one with a payload)
				if len(dm.Pay) == 0 {
					dm.Pay = []byte("payload-of-the-previous-message")
				}
				src := pool.NewMessage(nil)
				buildPool(src, dm)
				if prev, err := src.MarshalWithEncoder(coderFor(tcp)); err == nil {
					_, _ = d.UnmarshalWithDecoder(coderFor(tcp), append([]byte(nil), prev...))
				}
			}
			pl.ReleaseMessage(d)
			return pl.AcquireMessage(nil)
		}
		plz := pool.New(4, 2048)
		zeroed := func() *pool.Message {
			// message reset through SetMessage with an empty message (nil option slice), then recycled
			d := plz.AcquireMessage(nil)
			d.SetMessage(message.Message{})
			plz.ReleaseMessage(d)
			return plz.AcquireMessage(nil)
		}
		for i, b := range inputs {
			w.Put(decRaw(tcp, b))
			var r decRec
			switch i % 4 {
			case 0, 1:
				r = decPool(tcp, b, "pool", fresh, drop)
			case 2:
				r = decPool(tcp, b, "poolrec", recycled, pl.ReleaseMessage)
			default:
				if timeouts > 0 {
					continue // one abandoned spinning goroutine is enough evidence
				}
				r = decPool(tcp, b, "poolzero", zeroed, plz.ReleaseMessage)
			}
			if r.Timeout {
				timeouts++
			}
			w.Put(r)
		}
	}
}
