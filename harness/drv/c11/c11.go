// Package c11 replays TLC-generated event sequences (specs/reader) on the real ReceivedMessageReader with a
// fake client whose ProcessReceivedMessage is owned by the driver, using the verif gate between dequeue and
// dispatch, and records the observable state after every event. A second part runs nested blocking requests
// inside handlers of real udp/tcp connections. TLC (RecC11.tla) judges.
package c11

import (
	"bufio"
	"context"
	"encoding/json"
	"os"
	"sort"
	"sync"
	"time"

	"github.com/plgd-dev/go-coap/v3/message/pool"
	netclient "github.com/plgd-dev/go-coap/v3/net/client"

	"verifharness/internal/hooks"
	"verifharness/internal/rec"
)

type Act struct {
	A string `json:"a"`
	M int    `json:"m"`
}

type Proj struct {
	QLen    int   `json:"qlen"`
	Gated   []int `json:"gated"`
	Busy    []int `json:"busy"`
	Started []int `json:"started"`
	Fin     []int `json:"fin"`
}

type Step struct {
	Act  Act    `json:"act"`
	Alts []Proj `json:"alts"`
}

type Stim struct {
	T     int    `json:"t"`
	QCap  int    `json:"qcap"`
	Steps []Step `json:"steps"`
}

type Event struct {
	Act       Act  `json:"act"`
	Applied   bool `json:"applied"` // false: the action was not applicable in the observed state (unrealized step)
	St        Proj `json:"st"`
	GatedAtRe bool `json:"gatedAtReplace"` // a replace was issued while some message was parked at the gate
	Stable    bool `json:"stable"`
}

type Trace struct {
	Op      string  `json:"op"`
	T       int     `json:"t"`
	QCap    int     `json:"qcap"`
	Ev      []Event `json:"ev"`
	Pushed  int     `json:"pushed"`
	Closed  bool    `json:"closed"`
	Final   Proj    `json:"final"` // after the drain: all gates released, all handlers returned
	Drained bool    `json:"drained"`
}

type fake struct {
	done chan struct{}
	w    *world
}

func (f *fake) Done() <-chan struct{} { return f.done }
func (f *fake) ProcessReceivedMessage(req *pool.Message) {
	w := f.w
	m := int(req.MessageID())
	cmd := make(chan string)
	ack := make(chan struct{})
	w.mu.Lock()
	w.started = append(w.started, m)
	w.busy[m] = cmd
	w.acks[m] = ack
	w.mu.Unlock()
	for c := range cmd {
		if c == "replace" {
			w.reader.TryToReplaceLoop() // what a nested blocking request does on this goroutine
			ack <- struct{}{}
			continue
		}
		break
	}
	w.mu.Lock()
	delete(w.busy, m)
	w.fin[m] = true
	w.mu.Unlock()
	ack <- struct{}{}
}

type world struct {
	mu      sync.Mutex
	reader  *netclient.ReceivedMessageReader[*fake]
	gated   map[int]chan struct{}
	busy    map[int]chan string
	acks    map[int]chan struct{}
	started []int
	fin     map[int]bool
}

var (
	worldsMu sync.Mutex
	worlds   = map[*pool.Message]*world{}
)

func gate(obj any, _ int64) {
	req, ok := obj.(*pool.Message)
	if !ok {
		return
	}
	worldsMu.Lock()
	w := worlds[req]
	worldsMu.Unlock()
	if w == nil {
		return
	}
	ch := make(chan struct{})
	w.mu.Lock()
	w.gated[int(req.MessageID())] = ch
	w.mu.Unlock()
	<-ch
}

func (w *world) snap() Proj {
	w.mu.Lock()
	p := Proj{Gated: []int{}, Busy: []int{}, Started: append([]int{}, w.started...), Fin: []int{}}
	for m := range w.gated {
		p.Gated = append(p.Gated, m)
	}
	for m := range w.busy {
		p.Busy = append(p.Busy, m)
	}
	for m := range w.fin {
		p.Fin = append(p.Fin, m)
	}
	w.mu.Unlock()
	sort.Ints(p.Gated)
	sort.Ints(p.Busy)
	sort.Ints(p.Fin)
	p.QLen = w.reader.VerifQueueLen()
	return p
}

func eq(a, b Proj) bool {
	x, _ := json.Marshal(a)
	y, _ := json.Marshal(b)
	return string(x) == string(y)
}

// settle waits until the observable state is one the model predicts (fast path) or has stopped changing.
func (w *world) settle(alts []Proj) (Proj, bool) {
	deadline := time.Now().Add(2 * time.Second)
	last := w.snap()
	since := time.Now()
	for {
		cur := w.snap()
		if !eq(cur, last) {
			last, since = cur, time.Now()
		}
		quiet := time.Since(since)
		for _, a := range alts {
			if eq(cur, a) && quiet > 300*time.Microsecond {
				return cur, true
			}
		}
		// a state the model does not predict is taken for settled only after it has not moved for much longer: on a loaded
		// machine a goroutine that has been woken may need many milliseconds to get a processor
		if quiet > 3*time.Millisecond && (len(alts) == 0 || quiet > 100*time.Millisecond) {
			return cur, true
		}
		if time.Now().After(deadline) {
			return cur, false
		}
		time.Sleep(50 * time.Microsecond)
	}
}

func runOne(st Stim) Trace {
	tr := Trace{Op: "reader", T: st.T, QCap: st.QCap, Ev: []Event{}}
	w := &world{gated: map[int]chan struct{}{}, busy: map[int]chan string{}, acks: map[int]chan struct{}{}, fin: map[int]bool{}}
	f := &fake{done: make(chan struct{}), w: w}
	w.reader = netclient.NewReceivedMessageReader(f, st.QCap)
	var mine []*pool.Message
	defer func() {
		worldsMu.Lock()
		for _, m := range mine {
			delete(worlds, m)
		}
		worldsMu.Unlock()
	}()
	pushed := 0
	closed := false
	for _, step := range st.Steps {
		ev := Event{Act: step.Act}
		cur := w.snap()
		switch step.Act.A {
		case "push":
			if !closed && cur.QLen < st.QCap {
				pushed++
				m := pool.NewMessage(context.Background())
				m.SetMessageID(int32(pushed))
				worldsMu.Lock()
				worlds[m] = w
				worldsMu.Unlock()
				mine = append(mine, m)
				w.reader.C() <- m
				ev.Applied = true
			}
		case "start":
			w.mu.Lock()
			ch, ok := w.gated[step.Act.M]
			if ok {
				delete(w.gated, step.Act.M)
			}
			w.mu.Unlock()
			if ok {
				close(ch)
				ev.Applied = true
			}
		case "ret":
			w.mu.Lock()
			cmd, ok := w.busy[step.Act.M]
			ack := w.acks[step.Act.M]
			w.mu.Unlock()
			if ok {
				cmd <- "ret"
				<-ack
				ev.Applied = true
			}
		case "replace":
			ev.GatedAtRe = len(cur.Gated) > 0
			if step.Act.M == 0 {
				w.reader.TryToReplaceLoop()
				ev.Applied = true
			} else {
				w.mu.Lock()
				cmd, ok := w.busy[step.Act.M]
				ack := w.acks[step.Act.M]
				w.mu.Unlock()
				if ok {
					cmd <- "replace"
					<-ack
					ev.Applied = true
				}
			}
		case "close":
			if !closed {
				closed = true
				close(f.done)
				ev.Applied = true
			}
		}
		ev.St, ev.Stable = w.settle(step.Alts)
		tr.Ev = append(tr.Ev, ev)
	}
	tr.Pushed, tr.Closed = pushed, closed
	// drain: release every gate and return every handler until nothing moves any more
	deadline := time.Now().Add(5 * time.Second)
	for time.Now().Before(deadline) {
		p, _ := w.settle(nil)
		if len(p.Gated) == 0 && len(p.Busy) == 0 {
			tr.Drained = true
			break
		}
		w.mu.Lock()
		for m, ch := range w.gated {
			delete(w.gated, m)
			close(ch)
		}
		var rets []int
		for m := range w.busy {
			rets = append(rets, m)
		}
		w.mu.Unlock()
		for _, m := range rets {
			w.mu.Lock()
			cmd, ok := w.busy[m]
			ack := w.acks[m]
			w.mu.Unlock()
			if ok {
				cmd <- "ret"
				<-ack
			}
		}
	}
	tr.Final, _ = w.settle(nil)
	if !closed {
		close(f.done)
	}
	return tr
}

// Run replays reader stimuli.
func Run(stimPath, out string) {
	g := gate
	hooks.Gate.Store(&g)
	defer hooks.Gate.Store(nil)
	f, err := os.Open(stimPath)
	if err != nil {
		rec.Die("open: %v", err)
	}
	defer f.Close()
	w := rec.Create(out)
	defer w.Close()
	sc := bufio.NewScanner(f)
	sc.Buffer(make([]byte, 1<<20), 64<<20)
	var stims []Stim
	for sc.Scan() {
		var st Stim
		if err := json.Unmarshal(sc.Bytes(), &st); err != nil {
			rec.Die("stimulus: %v", err)
		}
		stims = append(stims, st)
	}
	res := make([]Trace, len(stims))
	var wg sync.WaitGroup
	sem := make(chan struct{}, 8)
	for i := range stims {
		wg.Add(1)
		sem <- struct{}{}
		go func(i int) {
			defer wg.Done()
			res[i] = runOne(stims[i])
			<-sem
		}(i)
	}
	wg.Wait()
	for _, t := range res {
		w.Put(t)
	}
}
