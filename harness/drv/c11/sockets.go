package c11

import (
	"bytes"
	"context"
	"crypto/tls"
	"fmt"
	"os"
	"time"

	"github.com/plgd-dev/go-coap/v3/dtls"
	"github.com/plgd-dev/go-coap/v3/message"
	"github.com/plgd-dev/go-coap/v3/message/codes"
	"github.com/plgd-dev/go-coap/v3/message/pool"
	"github.com/plgd-dev/go-coap/v3/mux"
	coapNet "github.com/plgd-dev/go-coap/v3/net"
	"github.com/plgd-dev/go-coap/v3/options"
	"github.com/plgd-dev/go-coap/v3/tcp"
	"github.com/plgd-dev/go-coap/v3/udp"

	"verifharness/internal/rec"
	"verifharness/internal/tlsutil"
)

// nestedSockets: the library's own server and client of one transport over loopback sockets. The client asks for /n<depth>;
// the server's handler asks the client for /q<depth> on the same connection; with depth 2 the client's handler in turn asks
// the server for /p2 - handlers of BOTH ends wait for nested requests while the messages they wait for (and, on the server,
// a further request) keep arriving on the connection they occupy.
// (Deeper SERVER-side nesting is not possible on a real server: server-side connections always run with the default limit
// of ONE client request at a time - the servers accept WithLimitClientParallelRequest but do not hand it on to the
// connections they create (observation O5) - so a second nested request waits for the first one by configuration.)
type getter interface {
	Get(ctx context.Context, path string, opts ...message.Option) (*pool.Message, error)
	ReleaseMessage(m *pool.Message)
	Close() error
}

func nestedSockets(transport string, depth, qsize int) NestedRec {
	r := NestedRec{Op: "nested", Transport: transport + "-sockets", How: "con", Depth: depth, QSize: qsize, Dispatch: []disp{}, Log: []string{}, Ev: []int{}}
	handler := func(side string) mux.HandlerFunc {
		return func(w mux.ResponseWriter, q *mux.Message) {
			p, _ := q.Path()
			if os.Getenv("VERIF_DEBUG") != "" {
				println(time.Now().Format("05.000"), side, "handler", p)
				defer func() { println(time.Now().Format("05.000"), side, "handler done", p) }()
			}
			var k int
			var kind byte
			if _, err := fmt.Sscanf(p, "/%c%d", &kind, &k); err != nil {
				_ = w.SetResponse(codes.BadRequest, message.TextPlain, bytes.NewReader([]byte("?")))
				return
			}
			next := ""
			switch {
			case kind == 'n': // (server) ask the client
				next = fmt.Sprintf("/q%d", k)
			case kind == 'q' && k > 1: // (client) ask the server for a plain resource while the server's handler waits for us
				next = fmt.Sprintf("/p%d", k)
			}
			body := []byte(fmt.Sprintf("%c%d", kind, k))
			if next != "" {
				ctx, cancel := context.WithTimeout(context.Background(), 2*wd)
				resp, err := w.Conn().Get(ctx, next)
				cancel()
				if os.Getenv("VERIF_DEBUG") != "" {
					println(time.Now().Format("05.000"), side, "nested", next, "returned", fmt.Sprint(err))
				}
				if err != nil {
					_ = w.SetResponse(codes.InternalServerError, message.TextPlain, bytes.NewReader([]byte(side+" nested "+next+" failed: "+err.Error())))
					return
				}
				b, _ := resp.ReadBody()
				w.Conn().ReleaseMessage(resp)
				body = append(append(body, '<'), b...)
			}
			_ = w.SetResponse(codes.Content, message.TextPlain, bytes.NewReader(body))
		}
	}
	sm, cm := mux.NewRouter(), mux.NewRouter()
	sm.DefaultHandle(handler("server"))
	cm.DefaultHandle(handler("client"))
	noErr := options.WithErrors(func(error) {})
	qs := options.WithReceivedMessageQueueSize(qsize)
	// (datagram transports: a handler's reply doubles as the acknowledgement of its request, so while a handler waits for a
	// nested exchange its request stays unacknowledged and holds one of the peer's NSTART slots - with the default NSTART = 1
	// cross-nesting deeper than one level waits for itself, by RFC 7252 4.7, not by the read loop: NSTART is raised here)
	nst := options.WithTransmission(8, 2*time.Second, 4)
	// (and the default limit of ONE client request at a time per connection would make the inner request of a cross-nested
	// exchange wait for the outer one: the limits are raised as well - they are C16's subject)
	lim, elim := options.WithLimitClientParallelRequest(8), options.WithLimitClientEndpointParallelRequest(8)
	var addr string
	var stop func()
	switch transport {
	case "udp":
		l, err := coapNet.NewListenUDP("udp4", "127.0.0.1:0")
		if err != nil {
			rec.Die("listen: %v", err)
		}
		sv := udp.NewServer(options.WithMux(sm), noErr, qs, nst, lim, elim)
		go func() { _ = sv.Serve(l) }()
		addr, stop = l.LocalAddr().String(), func() { sv.Stop(); _ = l.Close() }
	case "dtls":
		l, err := coapNet.NewDTLSListener("udp4", "127.0.0.1:0", tlsutil.PSK())
		if err != nil {
			rec.Die("listen: %v", err)
		}
		sv := dtls.NewServer(options.WithMux(sm), noErr, qs, nst, lim, elim)
		go func() { _ = sv.Serve(l) }()
		addr, stop = l.Addr().String(), func() { sv.Stop(); _ = l.Close() }
	case "tcp":
		l, err := coapNet.NewTCPListener("tcp4", "127.0.0.1:0")
		if err != nil {
			rec.Die("listen: %v", err)
		}
		sv := tcp.NewServer(options.WithMux(sm), noErr, qs, lim, elim)
		go func() { _ = sv.Serve(l) }()
		addr, stop = l.Addr().String(), func() { sv.Stop(); _ = l.Close() }
	default:
		l, err := coapNet.NewTLSListener("tcp4", "127.0.0.1:0", &tls.Config{Certificates: []tls.Certificate{tlsutil.Cert()}})
		if err != nil {
			rec.Die("listen: %v", err)
		}
		sv := tcp.NewServer(options.WithMux(sm), noErr, qs, lim, elim)
		go func() { _ = sv.Serve(l) }()
		addr, stop = l.Addr().String(), func() { sv.Stop(); _ = l.Close() }
	}
	defer stop()
	var cc getter
	var err error
	switch transport {
	case "udp":
		cc, err = udp.Dial(addr, noErr, qs, nst, lim, elim, options.WithMux(cm))
	case "dtls":
		cc, err = dtls.Dial(addr, tlsutil.PSK(), noErr, qs, nst, lim, elim, options.WithMux(cm))
	case "tcp":
		cc, err = tcp.Dial(addr, noErr, qs, lim, elim, options.WithMux(cm))
	default:
		cc, err = tcp.Dial(addr, noErr, qs, lim, elim, options.WithMux(cm), options.WithTLS(&tls.Config{InsecureSkipVerify: true})) //nolint:gosec
	}
	if err != nil {
		r.Log = append(r.Log, "dial: "+err.Error())
		r.Watchdog = true
		return r
	}
	defer cc.Close()
	want := fmt.Sprintf("n%d<q%d", depth, depth)
	if depth > 1 {
		want += fmt.Sprintf("<p%d", depth)
	}
	start := time.Now()
	ctx, cancel := context.WithTimeout(context.Background(), 3*wd)
	defer cancel()
	resp, err := cc.Get(ctx, fmt.Sprintf("/n%d", depth))
	if err != nil {
		r.Log = append(r.Log, "outer request: "+err.Error())
		r.Watchdog = time.Since(start) > wd
		return r
	}
	b, _ := resp.ReadBody()
	code := resp.Code()
	cc.ReleaseMessage(resp)
	if code != codes.Content || string(b) != want {
		r.Log = append(r.Log, fmt.Sprintf("outer response %v %q, want %q", code, b, want))
		return r
	}
	r.Completed = true
	return r
}

// NestedSocketsForTest exposes nestedSockets to ad-hoc tests.
func NestedSocketsForTest(transport string, depth, qsize int) NestedRec {
	return nestedSockets(transport, depth, qsize)
}
