package c11

import (
	"bytes"
	"context"
	"fmt"
	"github.com/plgd-dev/go-coap/v3/net/blockwise"
	"sync"
	"time"

	"github.com/plgd-dev/go-coap/v3/message"
	"github.com/plgd-dev/go-coap/v3/message/codes"
	"github.com/plgd-dev/go-coap/v3/message/pool"
	"github.com/plgd-dev/go-coap/v3/net/responsewriter"
	tcpclient "github.com/plgd-dev/go-coap/v3/tcp/client"
	udpclient "github.com/plgd-dev/go-coap/v3/udp/client"

	"verifharness/internal/conns"
	"verifharness/internal/hooks"
	"verifharness/internal/memnet"
	"verifharness/internal/rec"
)

type disp struct {
	Tok string `json:"tok"`
	N   int    `json:"n"`
}

type NestedRec struct {
	Op        string   `json:"op"`
	Transport string   `json:"transport"`
	How       string   `json:"how"`
	Depth     int      `json:"depth"`
	QSize     int      `json:"qsize"`
	Completed bool     `json:"completed"`
	Watchdog  bool     `json:"watchdog"`
	Dispatch  []disp   `json:"dispatch"`
	Log       []string `json:"log"`
	Ev        []int    `json:"ev"`
}

type counts struct {
	mu sync.Mutex
	n  map[string]int
}

func (c *counts) inc(tok []byte) {
	c.mu.Lock()
	c.n[fmt.Sprintf("%x", tok)]++
	c.mu.Unlock()
}

const wd = 3 * time.Second

// handler: "/n<d>" issues a blocking GET "/q<d>" on the same connection and answers with what it got;
// "/plain" answers at once.
func serve(path string, get func(ctx context.Context, p string) ([]byte, error), set func(code codes.Code, body []byte)) {
	if len(path) >= 2 && path[:2] == "/n" {
		ctx, cancel := context.WithTimeout(context.Background(), 2*wd)
		defer cancel()
		b, err := get(ctx, "/q"+path[2:])
		if err != nil {
			set(codes.InternalServerError, []byte("nested failed: "+err.Error()))
			return
		}
		set(codes.Content, append([]byte("r"+path[2:]+":"), b...))
		return
	}
	set(codes.Content, []byte("plain"))
}

// how: the blocking call the handler issues - "con" (confirmable GET), "non" (non-confirmable GET), "blockwise"
// (GET through the block-wise layer)
func nestedUDP(depth, qsize int, how string) NestedRec {
	r := NestedRec{Op: "nested", Transport: "udp", How: how, Depth: depth, QSize: qsize, Dispatch: []disp{}, Log: []string{}, Ev: []int{}}
	cnt := &counts{n: map[string]int{}}
	u := conns.NewUDP(func(cfg *udpclient.Config) {
		cfg.ReceivedMessageQueueSize = qsize
		cfg.BlockwiseEnable = how == "blockwise"
		cfg.Handler = func(w *responsewriter.ResponseWriter[*udpclient.Conn], req *pool.Message) {
			cnt.inc(req.Token())
			p, _ := req.Path()
			serve(p, func(ctx context.Context, q string) ([]byte, error) {
				var resp *pool.Message
				var err error
				if how == "non" {
					var nreq *pool.Message
					nreq, err = w.Conn().NewGetRequest(ctx, q)
					if err != nil {
						return nil, err
					}
					nreq.SetType(message.NonConfirmable)
					resp, err = w.Conn().Do(nreq)
					w.Conn().ReleaseMessage(nreq)
				} else {
					resp, err = w.Conn().Get(ctx, q)
				}
				if err != nil {
					return nil, err
				}
				defer w.Conn().ReleaseMessage(resp)
				return resp.ReadBody()
			}, func(code codes.Code, body []byte) {
				_ = w.SetResponse(code, message.TextPlain, bytes.NewReader(body))
			})
		}
	})
	defer u.Close()
	seen := 0
	// waitOut waits for the next datagram that satisfies pred
	waitOut := func(what string, pred func(d memnet.Dgram) bool) (memnet.Dgram, bool) {
		var got memnet.Dgram
		ok := hooks.WaitFor(wd, func() bool {
			for _, raw := range u.Sess.Out(seen) {
				seen++
				d, err := memnet.Parse(raw)
				if err != nil {
					continue
				}
				if pred(d) {
					got = d
					return true
				}
			}
			return false
		})
		if !ok {
			r.Watchdog = true
			r.Log = append(r.Log, "watchdog waiting for "+what)
		}
		return got, ok
	}
	pathOf := func(d memnet.Dgram) string { p, _ := d.Opts.Path(); return p }
	// one goroutine hands the datagrams to the connection in order, as the session's single socket reader does: when the
	// receive queue is full it is parked in Process and everything behind it (an ACK included) waits
	injq := make(chan []byte, 256)
	go func() {
		for raw := range injq {
			_ = u.CC.Process(nil, raw)
		}
	}()
	defer close(injq)
	inject := func(raw []byte) { injq <- raw }
	nestedReqs := make([]memnet.Dgram, depth+1)
	outerMID := make([]int32, depth+1)
	mid := int32(1000)
	for d := depth; d >= 1; d-- {
		mid++
		if how == "samemid" {
			// the peer's request carries exactly the message ID the connection would use next for a message of its own:
			// the nested request must not end up with the ID of the request whose handler is waiting for it
			mid = int32(uint16(u.CC.VerifState().NextMID + 1))
		}
		tok := []byte{0xA0, byte(d)}
		outerMID[d] = mid
		inject(memnet.Build(message.Confirmable, int(codes.GET), mid, tok, message.Options{{ID: message.URIPath, Value: []byte(fmt.Sprintf("n%d", d))}}, nil))
		q, ok := waitOut(fmt.Sprintf("nested GET /q%d", d), func(x memnet.Dgram) bool { return x.Code == int(codes.GET) && pathOf(x) == fmt.Sprintf("/q%d", d) })
		if !ok {
			return finishNested(r, cnt)
		}
		nestedReqs[d] = q
		if how == "lateack" {
			// before the nested request is acknowledged the peer sends more requests than the receive queue holds: they
			// must be served while the handler waits for its acknowledgement (which sits behind them on the socket)
			for k := 0; k <= qsize; k++ {
				mid++
				ltok := []byte{0xC0, byte(d), byte(k)}
				inject(memnet.Build(message.NonConfirmable, int(codes.GET), mid, ltok, message.Options{{ID: message.URIPath, Value: []byte("plain")}}, nil))
			}
		}
		// acknowledge the nested request (the response will come separately), so that the
		// connection's NSTART=1 budget does not keep the next nested request from being sent
		inject(memnet.Build(message.Acknowledgement, int(codes.Empty), q.MID, nil, nil, nil))
		if how == "dupouter" {
			// the peer has no answer yet and retransmits its request (same message ID) while the handler waits for its nested
			// request: the copy is not processed a second time - and it does not stall the connection either
			// (a retransmission comes seconds later: the handler has long settled down to wait for the nested response)
			// ... twice, as a peer does that still has no answer
			for k := 0; k < 2; k++ {
				time.Sleep(5 * time.Millisecond)
				inject(memnet.Build(message.Confirmable, int(codes.GET), outerMID[d], tok, message.Options{{ID: message.URIPath, Value: []byte(fmt.Sprintf("n%d", d))}}, nil))
			}
		}
		// while the handler is blocked an unrelated request must still be served
		mid++
		ptok := []byte{0xB0, byte(d)}
		inject(memnet.Build(message.Confirmable, int(codes.GET), mid, ptok, message.Options{{ID: message.URIPath, Value: []byte("plain")}}, nil))
		if _, ok := waitOut("answer to /plain", func(x memnet.Dgram) bool {
			return x.Code == int(codes.Content) && bytes.Equal(x.Token, ptok) && string(x.Payload) == "plain"
		}); !ok {
			return finishNested(r, cnt)
		}
	}
	for d := 1; d <= depth; d++ {
		q := nestedReqs[d]
		mid++
		inject(memnet.Build(message.NonConfirmable, int(codes.Content), mid, q.Token, nil, []byte(fmt.Sprintf("a%d", d))))
		tok := []byte{0xA0, byte(d)}
		want := fmt.Sprintf("r%d:a%d", d, d)
		if _, ok := waitOut("answer to /n"+fmt.Sprint(d), func(x memnet.Dgram) bool {
			return x.Code == int(codes.Content) && bytes.Equal(x.Token, tok) && string(x.Payload) == want
		}); !ok {
			return finishNested(r, cnt)
		}
	}
	r.Completed = true
	return finishNested(r, cnt)
}

func finishNested(r NestedRec, cnt *counts) NestedRec {
	cnt.mu.Lock()
	for k, v := range cnt.n {
		r.Dispatch = append(r.Dispatch, disp{k, v})
	}
	cnt.mu.Unlock()
	return r
}

// how: "con" - the handler issues a GET; "ping" - the handler issues a blocking Ping on its own connection (the Pong is
// a signal message: it must find its way to the waiting call although the handler occupies the read loop)
func nestedTCP(depth, qsize int, how string) NestedRec {
	r := NestedRec{Op: "nested", Transport: "tcp", How: how, Depth: depth, QSize: qsize, Dispatch: []disp{}, Log: []string{}, Ev: []int{}}
	cnt := &counts{n: map[string]int{}}
	t := conns.NewTCP(func(cfg *tcpclient.Config) {
		cfg.ReceivedMessageQueueSize = qsize
		cfg.Handler = func(w *responsewriter.ResponseWriter[*tcpclient.Conn], req *pool.Message) {
			cnt.inc(req.Token())
			p, _ := req.Path()
			serve(p, func(ctx context.Context, q string) ([]byte, error) {
				if how == "ping" {
					if err := w.Conn().Ping(ctx); err != nil {
						return nil, err
					}
					return []byte("a" + q[2:]), nil
				}
				resp, err := w.Conn().Get(ctx, q)
				if err != nil {
					return nil, err
				}
				defer w.Conn().ReleaseMessage(resp)
				return resp.ReadBody()
			}, func(code codes.Code, body []byte) {
				_ = w.SetResponse(code, message.TextPlain, bytes.NewReader(body))
			})
		}
	})
	defer t.Close()
	off := 0
	var pending []conns.TFrame
	waitOut := func(what string, pred func(f conns.TFrame) bool) (conns.TFrame, bool) {
		var got conns.TFrame
		ok := hooks.WaitFor(wd, func() bool {
			b := t.Stream.Written(off)
			frames, rest := conns.Frames(b)
			off += len(b) - len(rest)
			pending = append(pending, frames...)
			for len(pending) > 0 {
				f := pending[0]
				pending = pending[1:]
				if pred(f) {
					got = f
					return true
				}
			}
			return false
		})
		if !ok {
			r.Watchdog = true
			r.Log = append(r.Log, "watchdog waiting for "+what)
		}
		return got, ok
	}
	pathOf := func(f conns.TFrame) string { p, _ := f.Opts.Path(); return p }
	nestedReqs := make([]conns.TFrame, depth+1)
	for d := depth; d >= 1; d-- {
		tok := []byte{0xA0, byte(d)}
		t.Stream.Feed(conns.Frame(int(codes.GET), tok, message.Options{{ID: message.URIPath, Value: []byte(fmt.Sprintf("n%d", d))}}, nil))
		q, ok := waitOut(fmt.Sprintf("nested GET /q%d", d), func(x conns.TFrame) bool {
			if how == "ping" {
				return x.Code == int(codes.Ping)
			}
			return x.Code == int(codes.GET) && pathOf(x) == fmt.Sprintf("/q%d", d)
		})
		if !ok {
			return finishNested(r, cnt)
		}
		nestedReqs[d] = q
		if how == "ping" {
			// (a Ping is a signal, not a request: the statement does not promise that later messages are processed while a
			// handler waits for a Pong - only that the awaited answer gets through)
			continue
		}
		ptok := []byte{0xB0, byte(d)}
		t.Stream.Feed(conns.Frame(int(codes.GET), ptok, message.Options{{ID: message.URIPath, Value: []byte("plain")}}, nil))
		if _, ok := waitOut("answer to /plain", func(x conns.TFrame) bool {
			return x.Code == int(codes.Content) && bytes.Equal(x.Token, ptok) && string(x.Payload) == "plain"
		}); !ok {
			return finishNested(r, cnt)
		}
	}
	for d := 1; d <= depth; d++ {
		q := nestedReqs[d]
		if how == "ping" {
			t.Stream.Feed(conns.Frame(int(codes.Pong), q.Token, nil, nil))
		} else {
			t.Stream.Feed(conns.Frame(int(codes.Content), q.Token, nil, []byte(fmt.Sprintf("a%d", d))))
		}
		tok := []byte{0xA0, byte(d)}
		want := fmt.Sprintf("r%d:a%d", d, d)
		if _, ok := waitOut("answer to /n"+fmt.Sprint(d), func(x conns.TFrame) bool {
			return x.Code == int(codes.Content) && bytes.Equal(x.Token, tok) && string(x.Payload) == want
		}); !ok {
			return finishNested(r, cnt)
		}
	}
	if how == "ping" { // and afterwards the connection serves on
		ptok := []byte{0xB0, 0x01}
		t.Stream.Feed(conns.Frame(int(codes.GET), ptok, message.Options{{ID: message.URIPath, Value: []byte("plain")}}, nil))
		if _, ok := waitOut("answer to /plain", func(x conns.TFrame) bool {
			return x.Code == int(codes.Content) && bytes.Equal(x.Token, ptok) && string(x.Payload) == "plain"
		}); !ok {
			return finishNested(r, cnt)
		}
	}
	r.Completed = true
	return finishNested(r, cnt)
}

// obsNested: "a handler OR CALLBACK may itself issue blocking requests": the callback of an observation issues a request on its
// connection; before that request is answered another notification of the SAME observation arrives. The request completes, and
// both notifications reach the callback.
func obsNested(transport string, qsize int) NestedRec {
	r := NestedRec{Op: "nested", Transport: transport, How: "obs-callback", Depth: 1, QSize: qsize, Dispatch: []disp{}, Log: []string{}, Ev: []int{}}
	var mu sync.Mutex
	var seqs []uint32
	nestedRes := make(chan error, 1)
	var get func(ctx context.Context, p string) error
	first := true
	cb := func(n *pool.Message) {
		o, _ := n.Observe()
		mu.Lock()
		seqs = append(seqs, o)
		f := first
		first = false
		mu.Unlock()
		if f {
			ctx, cancel := context.WithTimeout(context.Background(), 2*wd)
			defer cancel()
			nestedRes <- get(ctx, "/inner")
		}
	}
	fail := func(what string) NestedRec { r.Watchdog = true; r.Log = append(r.Log, what); return r }
	if transport == "tcp" {
		t := conns.NewTCP(func(cfg *tcpclient.Config) { cfg.ReceivedMessageQueueSize = qsize })
		defer t.Close()
		get = func(ctx context.Context, p string) error {
			resp, err := t.CC.Get(ctx, p)
			if err == nil {
				t.CC.ReleaseMessage(resp)
			}
			return err
		}
		off := 0
		waitFrame := func(pred func(f conns.TFrame) bool) (conns.TFrame, bool) {
			var got conns.TFrame
			ok := hooks.WaitFor(wd, func() bool {
				b := t.Stream.Written(off)
				frames, rest := conns.Frames(b)
				off += len(b) - len(rest)
				for _, f := range frames {
					if pred(f) {
						got = f
						return true
					}
				}
				return false
			})
			return got, ok
		}
		octx, ocancel := context.WithTimeout(context.Background(), 4*wd)
		defer ocancel()
		go func() { _, _ = t.CC.Observe(octx, "/o", cb) }()
		reg, ok := waitFrame(func(f conns.TFrame) bool {
			v, err := f.Opts.Observe()
			return f.Code == int(codes.GET) && err == nil && v == 0
		})
		if !ok {
			return fail("registration not seen")
		}
		t.Stream.Feed(conns.Frame(int(codes.Content), reg.Token, message.Options{{ID: message.Observe, Value: []byte{1}}}, []byte("n1")))
		inner, ok := waitFrame(func(f conns.TFrame) bool { p, _ := f.Opts.Path(); return f.Code == int(codes.GET) && p == "/inner" })
		if !ok {
			return fail("the callback's request not seen")
		}
		t.Stream.Feed(conns.Frame(int(codes.Content), reg.Token, message.Options{{ID: message.Observe, Value: []byte{2}}}, []byte("n2")))
		t.Stream.Feed(conns.Frame(int(codes.Content), inner.Token, nil, []byte("nested")))
	} else {
		u := conns.NewUDP(func(cfg *udpclient.Config) { cfg.ReceivedMessageQueueSize = qsize; cfg.TransmissionNStart = 4 })
		defer u.Close()
		get = func(ctx context.Context, p string) error {
			resp, err := u.CC.Get(ctx, p)
			if err == nil {
				u.CC.ReleaseMessage(resp)
			}
			return err
		}
		injq := make(chan []byte, 16)
		go func() {
			for raw := range injq {
				_ = u.CC.Process(nil, raw)
			}
		}()
		defer close(injq)
		seen := 0
		waitDg := func(pred func(d memnet.Dgram) bool) (memnet.Dgram, bool) {
			var got memnet.Dgram
			ok := hooks.WaitFor(wd, func() bool {
				for _, raw := range u.Sess.Out(seen) {
					seen++
					if d, err := memnet.Parse(raw); err == nil && pred(d) {
						got = d
						return true
					}
				}
				return false
			})
			return got, ok
		}
		octx, ocancel := context.WithTimeout(context.Background(), 4*wd)
		defer ocancel()
		go func() { _, _ = u.CC.Observe(octx, "/o", cb) }()
		reg, ok := waitDg(func(d memnet.Dgram) bool {
			v, err := d.Opts.Observe()
			return d.Code == int(codes.GET) && err == nil && v == 0
		})
		if !ok {
			return fail("registration not seen")
		}
		injq <- memnet.Build(message.Acknowledgement, int(codes.Content), reg.MID, reg.Token, message.Options{{ID: message.Observe, Value: []byte{1}}}, []byte("n1"))
		inner, ok := waitDg(func(d memnet.Dgram) bool { p, _ := d.Opts.Path(); return d.Code == int(codes.GET) && p == "/inner" })
		if !ok {
			return fail("the callback's request not seen")
		}
		injq <- memnet.Build(message.Acknowledgement, int(codes.Empty), inner.MID, nil, nil, nil)
		injq <- memnet.Build(message.NonConfirmable, int(codes.Content), 31000, reg.Token, message.Options{{ID: message.Observe, Value: []byte{2}}}, []byte("n2"))
		injq <- memnet.Build(message.Confirmable, int(codes.Content), 31001, inner.Token, nil, []byte("nested"))
	}
	select {
	case err := <-nestedRes:
		if err != nil {
			r.Log = append(r.Log, "the callback's request failed: "+err.Error())
			return r
		}
	case <-time.After(wd):
		return fail("watchdog: the callback's request did not return although it was answered")
	}
	if !hooks.WaitFor(wd, func() bool { mu.Lock(); defer mu.Unlock(); return len(seqs) == 2 }) {
		mu.Lock()
		r.Log = append(r.Log, fmt.Sprintf("notifications delivered: %v, want [1 2]", seqs))
		mu.Unlock()
		return r
	}
	r.Completed = true
	return r
}

// burstUDP: "as long as handlers return without blocking, in arrival order" under load: n non-confirmable requests are handed
// to the connection back to back by ONE goroutine (as the socket reader does), many more than the receive queue holds; the
// handler only records their numbers. Every message is dispatched once, in the order it arrived.
func burstUDP(qsize, n int) NestedRec {
	r := NestedRec{Op: "nested", Transport: "udp", How: "burst", Depth: 0, QSize: qsize, Dispatch: []disp{}, Log: []string{}, Ev: []int{}}
	var mu sync.Mutex
	var order []int
	u := conns.NewUDP(func(cfg *udpclient.Config) {
		cfg.ReceivedMessageQueueSize = qsize
		cfg.Handler = func(_ *responsewriter.ResponseWriter[*udpclient.Conn], req *pool.Message) {
			t := req.Token()
			if len(t) == 3 {
				mu.Lock()
				order = append(order, int(t[1])<<8|int(t[2]))
				mu.Unlock()
			}
		}
	})
	defer u.Close()
	for k := 1; k <= n; k++ {
		_ = u.CC.Process(nil, memnet.Build(message.NonConfirmable, int(codes.GET), int32(1000+k), []byte{0xBB, byte(k >> 8), byte(k)}, message.Options{{ID: message.URIPath, Value: []byte("b")}}, nil))
	}
	hooks.WaitFor(wd, func() bool { mu.Lock(); defer mu.Unlock(); return len(order) >= n })
	u.Quiesce()
	mu.Lock()
	defer mu.Unlock()
	inv, seen := 0, map[int]int{}
	for i, x := range order {
		seen[x]++
		if i > 0 && x < order[i-1] {
			inv++
		}
	}
	miss, rep := 0, 0
	for k := 1; k <= n; k++ {
		if seen[k] == 0 {
			miss++
		}
		if seen[k] > 1 {
			rep++
		}
	}
	r.Completed = inv == 0 && miss == 0 && rep == 0
	if !r.Completed {
		r.Log = append(r.Log, fmt.Sprintf("burst of %d: %d dispatched, %d out of arrival order, %d missing, %d repeated", n, len(order), inv, miss, rep))
	}
	return r
}

// bwOuterUDP: the outer request is a block-wise upload (two Block1 blocks); its handler issues a nested request. While it waits,
// the peer sends the last block once more as a fresh transmission (new message ID, same token): whatever the layer answers to
// that, an unrelated request and the awaited response are processed.
func bwOuterUDP(qsize int) NestedRec {
	r := NestedRec{Op: "nested", Transport: "udp", How: "bwouter", Depth: 1, QSize: qsize, Dispatch: []disp{}, Log: []string{}, Ev: []int{}}
	cnt := &counts{n: map[string]int{}}
	u := conns.NewUDP(func(cfg *udpclient.Config) {
		cfg.ReceivedMessageQueueSize = qsize
		cfg.BlockwiseEnable = true
		cfg.BlockwiseSZX = blockwise.SZX16
		cfg.BlockwiseTransferTimeout = 3 * time.Second
		cfg.Handler = func(w *responsewriter.ResponseWriter[*udpclient.Conn], req *pool.Message) {
			cnt.inc(req.Token())
			p, _ := req.Path()
			serve(p, func(ctx context.Context, q string) ([]byte, error) {
				resp, err := w.Conn().Get(ctx, q)
				if err != nil {
					return nil, err
				}
				defer w.Conn().ReleaseMessage(resp)
				return resp.ReadBody()
			}, func(code codes.Code, body []byte) {
				_ = w.SetResponse(code, message.TextPlain, bytes.NewReader(body))
			})
		}
	})
	defer u.Close()
	seen := 0
	waitOut := func(what string, pred func(d memnet.Dgram) bool) (memnet.Dgram, bool) {
		var got memnet.Dgram
		ok := hooks.WaitFor(wd, func() bool {
			for _, raw := range u.Sess.Out(seen) {
				seen++
				if d, err := memnet.Parse(raw); err == nil && pred(d) {
					got = d
					return true
				}
			}
			return false
		})
		if !ok {
			r.Watchdog = true
			r.Log = append(r.Log, "watchdog waiting for "+what)
		}
		return got, ok
	}
	injq := make(chan []byte, 64)
	go func() {
		for raw := range injq {
			_ = u.CC.Process(nil, raw)
		}
	}()
	defer close(injq)
	tok := []byte{0xA0, 0x01}
	blk := func(num int, more bool) message.Option {
		v := byte(num << 4)
		if more {
			v |= 8
		}
		return message.Option{ID: message.Block1, Value: []byte{v}}
	}
	path := message.Option{ID: message.URIPath, Value: []byte("n1")}
	injq <- memnet.Build(message.Confirmable, int(codes.POST), 2001, tok, message.Options{path, blk(0, true)}, bytes.Repeat([]byte{1}, 16))
	if _, ok := waitOut("2.31 for block 0", func(x memnet.Dgram) bool { return x.Code == int(codes.Continue) }); !ok {
		return finishNested(r, cnt)
	}
	injq <- memnet.Build(message.Confirmable, int(codes.POST), 2002, tok, message.Options{path, blk(1, false)}, []byte{2})
	q, ok := waitOut("nested GET /q1", func(x memnet.Dgram) bool { p, _ := x.Opts.Path(); return x.Code == int(codes.GET) && p == "/q1" })
	if !ok {
		return finishNested(r, cnt)
	}
	injq <- memnet.Build(message.Acknowledgement, int(codes.Empty), q.MID, nil, nil, nil)
	time.Sleep(5 * time.Millisecond)
	// the last block once more, as a fresh transmission
	injq <- memnet.Build(message.Confirmable, int(codes.POST), 2003, tok, message.Options{path, blk(1, false)}, []byte{2})
	ptok := []byte{0xB0, 0x01}
	injq <- memnet.Build(message.Confirmable, int(codes.GET), 2004, ptok, message.Options{{ID: message.URIPath, Value: []byte("plain")}}, nil)
	if _, ok := waitOut("answer to /plain", func(x memnet.Dgram) bool {
		return x.Code == int(codes.Content) && bytes.Equal(x.Token, ptok) && string(x.Payload) == "plain"
	}); !ok {
		return finishNested(r, cnt)
	}
	injq <- memnet.Build(message.NonConfirmable, int(codes.Content), 2005, q.Token, nil, []byte("a1"))
	if _, ok := waitOut("answer to /n1", func(x memnet.Dgram) bool {
		return x.Code == int(codes.Content) && bytes.Equal(x.Token, tok) && string(x.Payload) == "r1:a1"
	}); !ok {
		return finishNested(r, cnt)
	}
	r.Completed = true
	return finishNested(r, cnt)
}

// refusedTCP: "never dropped while the connection is open": the application's request monitor refuses one message (it is not
// dispatched, by design); the messages that arrive behind it IN THE SAME READ are dispatched like any other.
func refusedTCP(qsize int) NestedRec {
	r := NestedRec{Op: "nested", Transport: "tcp", How: "refused", Depth: 0, QSize: qsize, Dispatch: []disp{}, Log: []string{}, Ev: []int{}}
	cnt := &counts{n: map[string]int{}}
	t := conns.NewTCP(func(cfg *tcpclient.Config) {
		cfg.ReceivedMessageQueueSize = qsize
		cfg.Handler = func(w *responsewriter.ResponseWriter[*tcpclient.Conn], req *pool.Message) {
			cnt.inc(req.Token())
			_ = w.SetResponse(codes.Content, message.TextPlain, bytes.NewReader([]byte("plain")))
		}
	}, tcpclient.WithRequestMonitor(func(_ *tcpclient.Conn, m *pool.Message) (bool, error) {
		return len(m.Token()) == 1 && m.Token()[0] == 0xDD, nil
	}))
	defer t.Close()
	one := append([]byte{}, conns.Frame(int(codes.GET), []byte{0xDD}, message.Options{{ID: message.URIPath, Value: []byte("refused")}}, nil)...)
	for k := 1; k <= 3; k++ {
		one = append(one, conns.Frame(int(codes.GET), []byte{0xB0, byte(k)}, message.Options{{ID: message.URIPath, Value: []byte("plain")}}, nil)...)
	}
	t.Stream.Feed(one) // one read
	answered := func() int {
		fs, _ := conns.Frames(t.Stream.Written(0))
		n := 0
		for _, f := range fs {
			if f.Code == int(codes.Content) && len(f.Token) == 2 && f.Token[0] == 0xB0 {
				n++
			}
		}
		return n
	}
	if hooks.WaitFor(wd, func() bool { return answered() == 3 }) {
		r.Completed = true
	} else {
		r.Watchdog = true
		r.Log = append(r.Log, "watchdog waiting for the answers to the three requests behind the refused one")
	}
	return finishNested(r, cnt)
}

// RunNested writes the nested-request records.
func RunNested(out string) {
	w := rec.Create(out)
	defer w.Close()
	reps := 2
	if rec.Tier() == "thorough" {
		reps = 20
	}
	for k := 0; k < reps; k++ {
		for _, q := range []int{0, 1, 16} {
			w.Put(burstUDP(q, 400))
			w.Put(refusedTCP(q))
			w.Put(bwOuterUDP(q))
			w.Put(obsNested("tcp", q))
			w.Put(obsNested("udp", q))
			for d := 1; d <= 3; d++ {
				for _, how := range []string{"con", "non", "blockwise", "lateack", "dupouter", "samemid", "samemid", "samemid", "samemid"} {
					w.Put(nestedUDP(d, q, how))
				}
				w.Put(nestedTCP(d, q, "con"))
				if d <= 2 && (k == 0 || rec.Tier() == "thorough") { // the library's own servers and clients over loopback sockets, all four transports
					for _, tr := range []string{"udp", "dtls", "tcp", "tls"} {
						w.Put(nestedSockets(tr, d, q))
					}
				}
				if d == 1 { // (no loop replacement while a handler waits for a Pong: one level only)
					w.Put(nestedTCP(1, q, "ping"))
				}
			}
		}
	}
}
