package c16

import (
	"context"
	"os"
	"sync"
	"sync/atomic"
	"time"

	"github.com/plgd-dev/go-coap/v3/message/codes"
	"github.com/plgd-dev/go-coap/v3/message/pool"
	limiter "github.com/plgd-dev/go-coap/v3/net/client/limitParallelRequests"
)

// runStorm: one request holds the only slot of a path, W requests wait behind it with one shared context, the context is
// cancelled - all waiters give up at the same instant, on all cores. "A cancelled waiter neither takes nor gives away a slot
// it does not own, and once all calls have returned the limiter is idle again so that a new request is admitted immediately":
// after the storm and the holder's end the limiter's table is empty, and two fresh requests for the path are admitted one
// after the other. Recorded like a connection run (op "conn", transport "storm").
func runStorm(rounds, waiters int) ConnRec {
	r := ConnRec{Op: "conn", Transport: "storm", L: 1, EL: 1, AllReturned: true, Idle: true}
	for k := 0; k < rounds && r.AllReturned && r.Idle; k++ {
		var per, maxPer atomic.Int64
		hold := make(chan struct{})
		entered := make(chan struct{}, 4)
		do := func(req *pool.Message) (*pool.Message, error) {
			v := per.Add(1)
			for {
				m := maxPer.Load()
				if v <= m || maxPer.CompareAndSwap(m, v) {
					break
				}
			}
			entered <- struct{}{}
			if req.Context().Value(ctxKey{}).(int) == 0 {
				<-hold
			} else {
				time.Sleep(2 * time.Millisecond)
			}
			per.Add(-1)
			resp := pool.NewMessage(context.Background())
			resp.SetCode(codes.Content)
			return resp, nil
		}
		lim := limiter.New(1, 1, do, func(req *pool.Message, _ func(*pool.Message)) (limiter.Observation, error) {
			_, err := do(req)
			return noObs{}, err
		})
		var wg sync.WaitGroup
		wg.Add(1)
		go func() {
			defer wg.Done()
			_, _ = lim.Do(newReq(context.WithValue(context.Background(), ctxKey{}, 0), 1, 0))
		}()
		<-entered
		ctx, cancel := context.WithCancel(context.WithValue(context.Background(), ctxKey{}, 1))
		var queued sync.WaitGroup
		for w := 0; w < waiters; w++ {
			wg.Add(1)
			queued.Add(1)
			go func(w int) {
				defer wg.Done()
				req := newReq(ctx, 1, w+1)
				queued.Done()
				_, _ = lim.Do(req)
				r.callsAdd()
			}(w)
		}
		queued.Wait()
		// every waiter is in the queue (or about to be) before the context ends
		for t := 0; t < 200; t++ {
			qs := lim.VerifQueues()
			if len(qs) == 1 && qs[0].Waiting == waiters {
				break
			}
			time.Sleep(100 * time.Microsecond)
		}
		cancel()
		close(hold)
		done := make(chan struct{})
		go func() { wg.Wait(); close(done) }()
		select {
		case <-done:
		case <-time.After(10 * time.Second):
			r.AllReturned = false
			continue
		}
		if len(lim.VerifQueues()) != 0 {
			r.Idle = false
		}
		// two fresh requests: admitted at once, and one after the other
		var pw sync.WaitGroup
		for p := 0; p < 2; p++ {
			pw.Add(1)
			go func(p int) {
				defer pw.Done()
				_, _ = lim.Do(newReq(context.WithValue(context.Background(), ctxKey{}, 2), 1, 1000+p))
			}(p)
		}
		pdone := make(chan struct{})
		go func() { pw.Wait(); close(pdone) }()
		select {
		case <-pdone:
		case <-time.After(5 * time.Second):
			r.Idle = false
		}
		if v := int(maxPer.Load()); v > r.MaxPerPath {
			r.MaxPerPath = v
			r.MaxTotal = v
		}
		r.Rounds++
	}
	return r
}

var callsMu sync.Mutex

func (r *ConnRec) callsAdd() { callsMu.Lock(); r.Calls++; callsMu.Unlock() }

func stormRounds() int {
	if os.Getenv("VERIF_TIER") == "thorough" {
		return 1500
	}
	return 250
}
