// Package c16 replays TLC-generated histories of arrive / cancel / finish events (specs/limiter) on the real
// LimitParallelRequests with a driver-supplied do function (in-flight gauge, admission log, parked until
// "finish"), and records the observable state after every event. TLC (RecC16.tla) judges the traces.
package c16

import (
	"bufio"
	"context"
	"encoding/json"
	"os"
	"sort"
	"sync"
	"time"

	"github.com/plgd-dev/go-coap/v3/message"
	"github.com/plgd-dev/go-coap/v3/message/codes"
	"github.com/plgd-dev/go-coap/v3/message/pool"
	limiter "github.com/plgd-dev/go-coap/v3/net/client/limitParallelRequests"

	"verifharness/internal/hooks"
	"verifharness/internal/rec"
)

type Act struct {
	A string `json:"a"`
	R int    `json:"r"`
	C int    `json:"c"`
}

type QSt struct {
	Processed int `json:"processed"`
	Waiting   int `json:"waiting"`
}

type St struct {
	InDo []int    `json:"inDo"`
	Ret  []string `json:"ret"`
	Q    []QSt    `json:"q"`
	Dos  []int    `json:"dos"`
}

type Step struct {
	Act  Act  `json:"act"`
	Exp  St   `json:"exp"`
	Alts int  `json:"alts"`
	Exps []St `json:"exps"`
}

type Stim struct {
	T      int    `json:"t"`
	EL     int    `json:"el"`
	L      int    `json:"l"`
	PathOf []int  `json:"pathOf"`
	Steps  []Step `json:"steps"`
}

type Event struct {
	Act        Act  `json:"act"`
	St         St   `json:"st"`
	Exp        St   `json:"exp"`
	Alts       int  `json:"alts"`
	Exps       []St `json:"exps"`
	MaxTotal   int  `json:"maxTotal"`   // largest number of requests ever seen inside do at once
	MaxPerPath int  `json:"maxPerPath"` // largest number inside do for one path
	Settled    bool `json:"settled"`    // the observed state reached the state M predicts
}

type Trace struct {
	T             int     `json:"t"`
	EL            int     `json:"el"`
	L             int     `json:"l"`
	PathOf        []int   `json:"pathOf"`
	Ev            []Event `json:"ev"`
	AllReturned   bool    `json:"allReturned"`
	FinalQ        []QSt   `json:"finalQ"`
	QueueObjects  int     `json:"queueObjects"`
	ProbeAdmitted bool    `json:"probeAdmitted"`
	Hung          []int   `json:"hung"`
}

type ctxKey struct{}

type world struct {
	mu         sync.Mutex
	inDo       map[int]bool
	dos        []int
	ret        map[int]string
	finish     map[int]chan struct{}
	maxTotal   int
	maxPerPath int
	pathOf     []int
	lim        *limiter.LimitParallelRequests
	keys       []uint64 // endpoint key per path (index path-1)
	msgs       map[int]*pool.Message
	cancels    map[int]context.CancelFunc
	onFinish   map[int]func() // what the do function of a request does as its very last action
}

func (w *world) do(req *pool.Message) (*pool.Message, error) {
	r := req.Context().Value(ctxKey{}).(int)
	w.mu.Lock()
	w.inDo[r] = true
	w.dos = append(w.dos, r)
	per := 0
	for x := range w.inDo {
		if w.pathOf[x-1] == w.pathOf[r-1] {
			per++
		}
	}
	if len(w.inDo) > w.maxTotal {
		w.maxTotal = len(w.inDo)
	}
	if per > w.maxPerPath {
		w.maxPerPath = per
	}
	ch := w.finish[r]
	w.mu.Unlock()
	<-ch
	w.mu.Lock()
	delete(w.inDo, r)
	last := w.onFinish[r]
	w.mu.Unlock()
	resp := pool.NewMessage(context.Background())
	resp.SetCode(codes.Content)
	if last != nil {
		last() // e.g. cancel another request's context at the instant this one returns ("fincan")
	}
	return resp, nil
}

// doObserve: the wrapped observe function (every request with an even number goes through DoObserve: the limiter treats a
// registration like any request)
type noObs struct{}

func (noObs) Cancel(context.Context, ...message.Option) error { return nil }
func (noObs) Canceled() bool                                  { return false }

func (w *world) doObserve(req *pool.Message, _ func(*pool.Message)) (limiter.Observation, error) {
	if _, err := w.do(req); err != nil {
		return nil, err
	}
	return noObs{}, nil
}

func (w *world) snapshot(n int) St {
	w.mu.Lock()
	st := St{InDo: []int{}, Ret: make([]string, n), Dos: append([]int{}, w.dos...), Q: make([]QSt, len(w.keys))}
	for r := range w.inDo {
		st.InDo = append(st.InDo, r)
	}
	for r := 1; r <= n; r++ {
		st.Ret[r-1] = "none"
		if v, ok := w.ret[r]; ok {
			st.Ret[r-1] = v
		}
	}
	w.mu.Unlock()
	sort.Ints(st.InDo)
	for _, q := range w.lim.VerifQueues() {
		for i, k := range w.keys {
			if k == q.Key {
				st.Q[i] = QSt{int(q.Processed), q.Waiting}
			}
		}
	}
	return st
}

func same(a, b St) bool {
	x, _ := json.Marshal(a)
	y, _ := json.Marshal(b)
	return string(x) == string(y)
}

func pathName(p int) string { return []string{"", "/p1", "/p2", "/p3"}[p] }

func newReq(ctx context.Context, p int, r int) *pool.Message {
	m := pool.NewMessage(ctx)
	m.SetCode(codes.GET)
	m.SetToken([]byte{byte(r)})
	m.MustSetPath(pathName(p))
	return m
}

func runOne(st Stim) Trace {
	n := len(st.PathOf)
	tr := Trace{T: st.T, EL: st.EL, L: st.L, PathOf: st.PathOf, Ev: []Event{}, Hung: []int{}, FinalQ: []QSt{}}
	w := &world{inDo: map[int]bool{}, ret: map[int]string{}, finish: map[int]chan struct{}{}, pathOf: st.PathOf,
		msgs: map[int]*pool.Message{}, cancels: map[int]context.CancelFunc{}, onFinish: map[int]func(){}}
	w.lim = limiter.New(int64(st.L), int64(st.EL), w.do, w.doObserve)
	np := 0
	for _, p := range st.PathOf {
		if p > np {
			np = p
		}
	}
	for p := 1; p <= np; p++ {
		w.keys = append(w.keys, limiter.VerifKey(newReq(context.Background(), p, 0).Options()))
	}
	started := map[int]bool{}
	dead := map[int]bool{} // cancelled before it arrived: issued with a context that is already done
	for _, step := range st.Steps {
		r := step.Act.R
		switch step.Act.A {
		case "arrive":
			ctx, cancel := context.WithCancel(context.WithValue(context.Background(), ctxKey{}, r))
			w.mu.Lock()
			w.finish[r] = make(chan struct{})
			w.cancels[r] = cancel
			w.mu.Unlock()
			if dead[r] {
				cancel()
			}
			req := newReq(ctx, st.PathOf[r-1], r)
			started[r] = true
			go func() {
				var err error
				if r%2 == 0 {
					_, err = w.lim.DoObserve(req, func(*pool.Message) {})
				} else {
					_, err = w.lim.Do(req)
				}
				w.mu.Lock()
				if err != nil {
					w.ret[r] = "err"
				} else {
					w.ret[r] = "ok"
				}
				w.mu.Unlock()
			}()
		case "cancel":
			if c := w.cancels[r]; c != nil {
				c()
			} else {
				dead[r] = true
			}
		case "finish":
			w.mu.Lock()
			ch := w.finish[r]
			w.mu.Unlock()
			close(ch)
		case "fincan":
			w.mu.Lock()
			ch := w.finish[r]
			w.onFinish[r] = w.cancels[step.Act.C]
			w.mu.Unlock()
			close(ch)
		}
		exps := step.Exps
		if len(exps) == 0 {
			exps = []St{step.Exp}
		}
		anyOf := func() bool {
			sn := w.snapshot(n)
			for _, e := range exps {
				if same(sn, e) {
					return true
				}
			}
			return false
		}
		settled := hooks.WaitFor(2*time.Second, anyOf)
		if settled {
			// the predicted state must also be stable: give woken goroutines a chance to run on
			for i := 0; i < 20; i++ {
				time.Sleep(100 * time.Microsecond)
				if !anyOf() {
					settled = false
					break
				}
			}
		}
		w.mu.Lock()
		ev := Event{Act: step.Act, Exp: step.Exp, Alts: step.Alts, Exps: exps, MaxTotal: w.maxTotal, MaxPerPath: w.maxPerPath, Settled: settled}
		w.mu.Unlock()
		ev.St = w.snapshot(n)
		tr.Ev = append(tr.Ev, ev)
	}
	// drain: let everything that is inside do return until all started calls have returned
	deadline := time.Now().Add(5 * time.Second)
	for time.Now().Before(deadline) {
		w.mu.Lock()
		for r := range w.inDo {
			select {
			case <-w.finish[r]:
			default:
				close(w.finish[r])
			}
		}
		done := true
		for r := range started {
			if _, ok := w.ret[r]; !ok {
				done = false
			}
		}
		w.mu.Unlock()
		if done {
			tr.AllReturned = true
			break
		}
		time.Sleep(200 * time.Microsecond)
	}
	w.mu.Lock()
	for r := range started {
		if _, ok := w.ret[r]; !ok {
			tr.Hung = append(tr.Hung, r)
		}
	}
	sort.Ints(tr.Hung)
	tr.Ev = append(tr.Ev, Event{Act: Act{A: "drain"}, Exps: []St{}, MaxTotal: w.maxTotal, MaxPerPath: w.maxPerPath, Settled: tr.AllReturned})
	w.mu.Unlock()
	last := &tr.Ev[len(tr.Ev)-1]
	last.St = w.snapshot(n)
	last.Exp = last.St
	last.Exps = []St{last.St}
	last.Alts = 1
	tr.FinalQ = last.St.Q
	tr.QueueObjects = len(w.lim.VerifQueues())
	if tr.AllReturned {
		// probe: a new request on each path must be admitted at once
		ok := true
		for p := 1; p <= np; p++ {
			pr := 100 + p
			ctx := context.WithValue(context.Background(), ctxKey{}, pr)
			w.mu.Lock()
			w.finish[pr] = make(chan struct{})
			w.pathOf = append(w.pathOf, make([]int, pr-len(w.pathOf))...)
			w.pathOf[pr-1] = p
			w.mu.Unlock()
			go func() { _, _ = w.lim.Do(newReq(ctx, p, pr)) }()
			in := hooks.WaitFor(2*time.Second, func() bool { w.mu.Lock(); defer w.mu.Unlock(); return w.inDo[pr] })
			if !in {
				ok = false
			}
			w.mu.Lock()
			close(w.finish[pr])
			w.mu.Unlock()
			hooks.WaitFor(2*time.Second, func() bool { w.mu.Lock(); defer w.mu.Unlock(); return !w.inDo[pr] })
		}
		tr.ProbeAdmitted = ok
	}
	return tr
}

// Run replays every stimulus (one JSON object per line).
func Run(stimPath, out string) {
	f, err := os.Open(stimPath)
	if err != nil {
		rec.Die("open: %v", err)
	}
	defer f.Close()
	w := rec.Create(out)
	defer w.Close()
	sc := bufio.NewScanner(f)
	sc.Buffer(make([]byte, 1<<20), 64<<20)
	var stims []Stim
	for sc.Scan() {
		var st Stim
		if err := json.Unmarshal(sc.Bytes(), &st); err != nil {
			rec.Die("stimulus: %v", err)
		}
		stims = append(stims, st)
	}
	res := make([]Trace, len(stims))
	var wg sync.WaitGroup
	sem := make(chan struct{}, 8)
	for i := range stims {
		wg.Add(1)
		sem <- struct{}{}
		go func(i int) {
			defer wg.Done()
			res[i] = runOne(stims[i])
			<-sem
		}(i)
	}
	wg.Wait()
	for _, t := range res {
		w.Put(t)
	}
	for _, c := range RunConns() {
		w.Put(c)
	}
}
