package c16

import (
	"context"
	"runtime"
	"sync"
	"sync/atomic"
	"time"

	"github.com/plgd-dev/go-coap/v3/message/codes"
	"github.com/plgd-dev/go-coap/v3/message/pool"
	limiter "github.com/plgd-dev/go-coap/v3/net/client/limitParallelRequests"
)

// runChurn: free-running callers on a few paths against the limiter alone, with requests that complete at once - entries of
// the per-path table are created and deleted all the time (no waiter keeps them alive). "At every instant the number of
// requests in flight is at most the total limit and, per path, at most the per-endpoint limit": the wrapped do function
// counts. Recorded like a connection run (op "conn", transport "churn").
func runChurn(l, el int, d time.Duration) ConnRec {
	r := ConnRec{Op: "conn", Transport: "churn", L: l, EL: el, Idle: true}
	const paths = 3
	var total, maxTotal atomic.Int64
	var per, maxPer [paths]atomic.Int64
	bump := func(cur, max *atomic.Int64) {
		v := cur.Add(1)
		for {
			m := max.Load()
			if v <= m || max.CompareAndSwap(m, v) {
				return
			}
		}
	}
	do := func(req *pool.Message) (*pool.Message, error) {
		p := req.Context().Value(ctxKey{}).(int)
		bump(&total, &maxTotal)
		bump(&per[p], &maxPer[p])
		runtime.Gosched()
		per[p].Add(-1)
		total.Add(-1)
		resp := pool.NewMessage(context.Background())
		resp.SetCode(codes.Content)
		return resp, nil
	}
	lim := limiter.New(int64(l), int64(el), do, func(req *pool.Message, _ func(*pool.Message)) (limiter.Observation, error) {
		_, err := do(req)
		return noObs{}, err
	})
	var calls atomic.Int64
	var wg sync.WaitGroup
	deadline := time.Now().Add(d)
	returned := make(chan struct{})
	for g := 0; g < 6; g++ {
		wg.Add(1)
		go func(g int) {
			defer wg.Done()
			for k := 0; time.Now().Before(deadline); k++ {
				p := (g + k) % paths
				ctx, cancel := context.WithTimeout(context.WithValue(context.Background(), ctxKey{}, p), 2*time.Second)
				req := newReq(ctx, p+1, g*1000000+k)
				_, _ = lim.Do(req)
				cancel()
				calls.Add(1)
			}
		}(g)
	}
	go func() { wg.Wait(); close(returned) }()
	select {
	case <-returned:
		r.AllReturned = true
	case <-time.After(d + 5*time.Second):
	}
	r.Calls = int(calls.Load())
	r.MaxTotal = int(maxTotal.Load())
	for p := 0; p < paths; p++ {
		if v := int(maxPer[p].Load()); v > r.MaxPerPath {
			r.MaxPerPath = v
		}
	}
	return r
}
