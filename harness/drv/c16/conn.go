package c16

import (
	"context"
	"fmt"
	"sync"
	"time"

	"github.com/plgd-dev/go-coap/v3/message"
	"github.com/plgd-dev/go-coap/v3/message/codes"
	"github.com/plgd-dev/go-coap/v3/message/pool"
	tcpclient "github.com/plgd-dev/go-coap/v3/tcp/client"
	udpclient "github.com/plgd-dev/go-coap/v3/udp/client"

	"verifharness/internal/conns"
	"verifharness/internal/hooks"
	"verifharness/internal/memnet"
)

// ConnRec: the limits as configured on a real client connection (option plumbing included): concurrent requests to
// several paths, the peer (the driver) withholds its answers and counts the requests that are on the wire unanswered.
type ConnRec struct {
	Op          string `json:"op"` // conn
	Transport   string `json:"transport"`
	L           int    `json:"l"`  // configured total limit (0 = unlimited)
	EL          int    `json:"el"` // configured per-endpoint limit (0 = unlimited)
	Calls       int    `json:"calls"`
	MaxTotal    int    `json:"maxTotal"`
	MaxPerPath  int    `json:"maxPerPath"`
	AllReturned bool   `json:"allReturned"`
	Idle        bool   `json:"idle"`   // after all calls returned: no entry left in the limiter, fresh requests admitted at once
	Rounds      int    `json:"rounds"` // storm: rounds run
}

type out struct {
	tok  []byte
	mid  int32
	path string
	obs  int // value of the Observe option of the request, -1 if none
}

func runConn(transport string, l, el int) ConnRec {
	r := ConnRec{Op: "conn", Transport: transport, L: l, EL: el, Idle: true}
	var pending func() []out // requests written by the connection and not yet answered
	var answer func(o out)
	var get func(ctx context.Context, p string, opts ...message.Option) error
	var observe func(ctx context.Context, p string) (interface {
		Cancel(ctx context.Context, opts ...message.Option) error
	}, error)
	var closeFn func()
	answered := map[string]bool{}
	if transport == "udp" {
		u := conns.NewUDP(func(cfg *udpclient.Config) {
			cfg.TransmissionNStart = 32
			cfg.LimitClientParallelRequests = int64(l)
			cfg.LimitClientEndpointParallelRequests = int64(el)
		})
		closeFn = u.Close
		get = func(ctx context.Context, p string, opts ...message.Option) error {
			resp, err := u.CC.Get(ctx, p, opts...)
			if err == nil {
				u.CC.ReleaseMessage(resp)
			}
			return err
		}
		observe = func(ctx context.Context, p string) (interface {
			Cancel(ctx context.Context, opts ...message.Option) error
		}, error) {
			return u.CC.Observe(ctx, p, func(*pool.Message) {})
		}
		pending = func() []out {
			var os []out
			for _, raw := range u.Sess.Out(0) {
				d, err := memnet.Parse(raw)
				if err != nil || d.Code != int(codes.GET) {
					continue
				}
				p, _ := d.Opts.Path()
				ob := -1
				if v, err := d.Opts.Observe(); err == nil {
					ob = int(v)
				}
				if k := fmt.Sprintf("%x/%d", d.Token, ob); !answered[k] { // (a deregistration re-uses the observation's token)
					os = append(os, out{d.Token, d.MID, p, ob})
				}
			}
			return os
		}
		answer = func(o out) {
			answered[fmt.Sprintf("%x/%d", o.tok, o.obs)] = true
			var opts message.Options
			if o.obs == 0 {
				opts = message.Options{{ID: message.Observe, Value: []byte{1}}}
			}
			_ = u.Inject(memnet.Build(message.Acknowledgement, int(codes.Content), o.mid, o.tok, opts, []byte("a")))
		}
	} else {
		t := conns.NewTCP(func(cfg *tcpclient.Config) {
			cfg.LimitClientParallelRequests = int64(l)
			cfg.LimitClientEndpointParallelRequests = int64(el)
		})
		closeFn = t.Close
		t.Feed(conns.Frame(int(codes.CSM), []byte{1}, nil, nil))
		get = func(ctx context.Context, p string, opts ...message.Option) error {
			resp, err := t.CC.Get(ctx, p, opts...)
			if err == nil {
				t.CC.ReleaseMessage(resp)
			}
			return err
		}
		observe = func(ctx context.Context, p string) (interface {
			Cancel(ctx context.Context, opts ...message.Option) error
		}, error) {
			return t.CC.Observe(ctx, p, func(*pool.Message) {})
		}
		pending = func() []out {
			var os []out
			fs, _ := conns.Frames(t.Stream.Written(0))
			for _, f := range fs {
				if f.Code != int(codes.GET) {
					continue
				}
				p, _ := f.Opts.Path()
				ob := -1
				if v, err := f.Opts.Observe(); err == nil {
					ob = int(v)
				}
				if k := fmt.Sprintf("%x/%d", f.Token, ob); !answered[k] {
					os = append(os, out{f.Token, 0, p, ob})
				}
			}
			return os
		}
		answer = func(o out) {
			answered[fmt.Sprintf("%x/%d", o.tok, o.obs)] = true
			var opts message.Options
			if o.obs == 0 {
				opts = message.Options{{ID: message.Observe, Value: []byte{1}}}
			}
			t.Feed(conns.Frame(int(codes.Content), o.tok, opts, []byte("a")))
		}
	}
	defer closeFn()
	paths := []string{"/p1", "/p2", "/obs"} // (the observed path too: its deregistration competes with plain requests for the same path)
	const perPath = 3
	ctx, cancel := context.WithTimeout(context.Background(), 5*time.Second)
	defer cancel()
	var wg sync.WaitGroup
	// an observation registered beforehand; it is cancelled while the other requests are in flight: the deregistration
	// is a request like any other and has to wait for its slots
	var obsH interface {
		Cancel(ctx context.Context, opts ...message.Option) error
	}
	regDone := make(chan struct{})
	go func() {
		defer close(regDone)
		if o, err := observe(ctx, "/obs"); err == nil {
			obsH = o
		}
	}()
	hooks.WaitFor(time.Second, func() bool { return len(pending()) > 0 })
	for _, o := range pending() {
		answer(o)
	}
	<-regDone
	cancelled := false
	for _, p := range paths {
		for k := 0; k < perPath; k++ {
			wg.Add(1)
			r.Calls++
			// requests for one path count against that path whatever other options they carry - also options that sort
			// before Uri-Path (ETag 4, Uri-Host 3)
			var opts []message.Option
			switch k {
			case 1:
				opts = []message.Option{{ID: message.ETag, Value: []byte{7}}}
			case 2:
				opts = []message.Option{{ID: message.URIHost, Value: []byte("h")}}
			}
			go func(p string, opts []message.Option) { defer wg.Done(); _ = get(ctx, p, opts...) }(p, opts)
		}
	}
	done := make(chan struct{})
	go func() { wg.Wait(); close(done) }()
	deadline := time.Now().Add(4 * time.Second)
	for time.Now().Before(deadline) {
		// wait until the set of unanswered requests on the wire is stable
		last, since := -1, time.Now()
		hooks.WaitFor(200*time.Millisecond, func() bool {
			n := len(pending())
			if n != last {
				last, since = n, time.Now()
			}
			return time.Since(since) > 3*time.Millisecond
		})
		ps := pending()
		per := map[string]int{}
		for _, o := range ps {
			per[o.path]++
			if per[o.path] > r.MaxPerPath {
				r.MaxPerPath = per[o.path]
			}
		}
		if len(ps) > r.MaxTotal {
			r.MaxTotal = len(ps)
		}
		if !cancelled && obsH != nil && len(ps) > 0 {
			cancelled = true
			wg.Add(1)
			r.Calls++
			go func() { defer wg.Done(); _ = obsH.Cancel(ctx) }()
			continue // measure again with the deregistration competing for a slot
		}
		if len(ps) == 0 {
			select {
			case <-done:
				r.AllReturned = true
				return r
			default:
				time.Sleep(200 * time.Microsecond)
				continue
			}
		}
		answer(ps[0]) // one at a time: the next waiter is admitted
	}
	return r
}

// RunConns: the configured limits on real udp and tcp client connections.
func RunConns() []ConnRec {
	var rs []ConnRec
	for _, tr := range []string{"udp", "tcp"} {
		for _, c := range [][2]int{{1, 2}, {2, 0}, {2, 1}, {3, 2}, {1, 1}, {0, 1}} {
			rs = append(rs, runConn(tr, c[0], c[1]))
		}
	}
	for _, c := range [][2]int{{0, 1}, {2, 1}, {3, 2}, {1, 0}} {
		rs = append(rs, runChurn(c[0], c[1], 150*time.Millisecond))
	}
	rs = append(rs, runStorm(stormRounds(), 256))
	return rs
}
