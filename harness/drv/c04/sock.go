package c04

import (
	"bytes"
	"context"
	"crypto/tls"
	"io"
	"sync"
	"time"

	"github.com/plgd-dev/go-coap/v3/dtls"
	"github.com/plgd-dev/go-coap/v3/message"
	"github.com/plgd-dev/go-coap/v3/message/codes"
	"github.com/plgd-dev/go-coap/v3/message/pool"
	"github.com/plgd-dev/go-coap/v3/mux"
	coapNet "github.com/plgd-dev/go-coap/v3/net"
	"github.com/plgd-dev/go-coap/v3/net/blockwise"
	"github.com/plgd-dev/go-coap/v3/options"
	"github.com/plgd-dev/go-coap/v3/tcp"
	"github.com/plgd-dev/go-coap/v3/udp"

	"verifharness/internal/rec"
	"verifharness/internal/tlsutil"
)

// RunSock: one fault-free exchange between the library's own server and its own client of one of the four transports over
// loopback sockets, both configured through the public options (WithBlockwise with the scenario's SZX): the request body
// reaches the server application whole, once; the response body reaches the caller whole.
func RunSock(transport string, p Params) E2ETrace {
	tr := E2ETrace{Op: "e2e", Tr: transport + "-sockets", P: p, Acts: []Act{}, Applied: []bool{}, Msgs: []MsgRec{}, App: []Delivery{}, Got: []Delivery{}, Ret: "none", Quiet: true}
	up := Body(p.L, 1)
	var mu sync.Mutex
	m := mux.NewRouter()
	m.DefaultHandle(mux.HandlerFunc(func(w mux.ResponseWriter, r *mux.Message) {
		if r.Code() < codes.GET || r.Code() > codes.DELETE {
			return
		}
		mu.Lock()
		tr.App = append(tr.App, deliveryOf(r.Message, up, 0, 0))
		v := len(tr.App)
		mu.Unlock()
		code := codes.Content
		if r.Code() == codes.POST || r.Code() == codes.PUT {
			code = codes.Changed
		}
		_ = w.SetResponse(code, message.AppOctets, bytes.NewReader(DownBody(p.L2, v)), message.Option{ID: message.MaxAge, Value: []byte{7}}, message.Option{ID: message.ETag, Value: []byte{byte(v)}})
	}))
	noErr := options.WithErrors(func(error) {})
	bwS := options.WithBlockwise(true, blockwise.SZX(p.SS), 3*time.Second)
	bwC := options.WithBlockwise(true, blockwise.SZX(p.CS), 3*time.Second)
	var addr string
	var stop func()
	switch transport {
	case "udp":
		l, err := coapNet.NewListenUDP("udp4", "127.0.0.1:0")
		if err != nil {
			rec.Die("listen: %v", err)
		}
		sv := udp.NewServer(options.WithMux(m), noErr, bwS)
		go func() { _ = sv.Serve(l) }()
		addr, stop = l.LocalAddr().String(), func() { sv.Stop(); _ = l.Close() }
	case "dtls":
		l, err := coapNet.NewDTLSListener("udp4", "127.0.0.1:0", tlsutil.PSK())
		if err != nil {
			rec.Die("listen: %v", err)
		}
		sv := dtls.NewServer(options.WithMux(m), noErr, bwS)
		go func() { _ = sv.Serve(l) }()
		addr, stop = l.Addr().String(), func() { sv.Stop(); _ = l.Close() }
	case "tcp":
		l, err := coapNet.NewTCPListener("tcp4", "127.0.0.1:0")
		if err != nil {
			rec.Die("listen: %v", err)
		}
		sv := tcp.NewServer(options.WithMux(m), noErr, bwS)
		go func() { _ = sv.Serve(l) }()
		addr, stop = l.Addr().String(), func() { sv.Stop(); _ = l.Close() }
	default:
		l, err := coapNet.NewTLSListener("tcp4", "127.0.0.1:0", &tls.Config{Certificates: []tls.Certificate{tlsutil.Cert()}})
		if err != nil {
			rec.Die("listen: %v", err)
		}
		sv := tcp.NewServer(options.WithMux(m), noErr, bwS)
		go func() { _ = sv.Serve(l) }()
		addr, stop = l.Addr().String(), func() { sv.Stop(); _ = l.Close() }
	}
	defer stop()
	type cli interface {
		Get(ctx context.Context, path string, opts ...message.Option) (*pool.Message, error)
		Post(ctx context.Context, path string, contentFormat message.MediaType, payload io.ReadSeeker, opts ...message.Option) (*pool.Message, error)
		Close() error
	}
	var cc cli
	var err error
	switch transport {
	case "udp":
		cc, err = udp.Dial(addr, noErr, bwC)
	case "dtls":
		cc, err = dtls.Dial(addr, tlsutil.PSK(), noErr, bwC)
	case "tcp":
		cc, err = tcp.Dial(addr, noErr, bwC)
	default:
		cc, err = tcp.Dial(addr, noErr, bwC, options.WithTLS(&tls.Config{InsecureSkipVerify: true})) //nolint:gosec
	}
	if err != nil {
		tr.Ret = "err"
		return tr
	}
	defer cc.Close()
	ctx, cancel := context.WithTimeout(context.Background(), 5*time.Second)
	defer cancel()
	q := message.Option{ID: message.URIQuery, Value: []byte("k=v")}
	var resp *pool.Message
	if p.L > 0 {
		resp, err = cc.Post(ctx, "/res", message.AppOctets, bytes.NewReader(up), q)
	} else {
		resp, err = cc.Get(ctx, "/res", q)
	}
	mu.Lock()
	defer mu.Unlock()
	if err != nil {
		tr.Ret = "err"
		if ctx.Err() != nil {
			tr.Ret = "hung"
		}
		return tr
	}
	tr.Ret, tr.RetCode = "ok", int(resp.Code())
	tr.Got = append(tr.Got, deliveryOf(resp, nil, p.L2, len(tr.App)))
	return tr
}
