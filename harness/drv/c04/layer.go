// Package c04 drives block-wise transfers through the real net/blockwise layer.
// layer.go: two real BlockWise instances (client role, server role) joined by a relay owned by the driver,
// which executes TLC-generated schedules of deliver / duplicate / drop / replay actions (specs/bw). It records
// every relayed message (block option triples, payload as an interval of the sender's body) and every delivery
// to the applications as pieces of the original bodies. TLC (RecC04.tla) judges.
package c04

import (
	"bytes"
	"context"
	"encoding/binary"
	"fmt"
	"sync"
	"time"

	"github.com/plgd-dev/go-coap/v3/message"
	"github.com/plgd-dev/go-coap/v3/message/codes"
	"github.com/plgd-dev/go-coap/v3/message/pool"
	"github.com/plgd-dev/go-coap/v3/net/blockwise"
	"github.com/plgd-dev/go-coap/v3/net/responsewriter"

	"verifharness/internal/hooks"
)

// fakeCC is the layer's view of its connection. In lock-step mode (two goroutines handling the two copies of a
// duplicated message at the same time) every AcquireMessage call of one goroutine waits - briefly - for the same
// call of the other, which walks both through the layer's critical sections side by side.
type fakeCC struct {
	p    *pool.Pool
	mu   sync.Mutex
	step map[int64]int // lock-step: AcquireMessage calls made by each participating goroutine
}

func (f *fakeCC) AcquireMessage(ctx context.Context) *pool.Message {
	f.mu.Lock()
	if f.step != nil {
		g := hooks.GID()
		if _, in := f.step[g]; in {
			f.step[g]++
			mine := f.step[g]
			f.mu.Unlock()
			deadline := time.Now().Add(2 * time.Millisecond)
			for time.Now().Before(deadline) {
				f.mu.Lock()
				ok := f.step != nil
				for _, n := range f.step {
					ok = ok && n >= mine
				}
				f.mu.Unlock()
				if ok {
					break
				}
				time.Sleep(20 * time.Microsecond)
			}
			return f.p.AcquireMessage(ctx)
		}
	}
	f.mu.Unlock()
	return f.p.AcquireMessage(ctx)
}
func (f *fakeCC) ReleaseMessage(m *pool.Message) { f.p.ReleaseMessage(m) }

// Body returns n bytes in which every aligned 4-byte word is its own index (so any payload of >= 4 aligned
// bytes locates itself in the body); salt distinguishes request and response bodies.
func Body(n int, salt byte) []byte {
	b := make([]byte, n+4)
	for i := 0; i+4 <= len(b); i += 4 {
		binary.BigEndian.PutUint32(b[i:], uint32(i/4)|uint32(salt)<<24)
	}
	return b[:n]
}

// Pieces describes data as pieces <<position, a, b>> of body (a = -1: bytes that are not from the body there).
func Pieces(data, body []byte) [][]int {
	out := [][]int{}
	pos := 0
	for pos < len(data) {
		// longest run starting at pos that matches the body at some offset; try the natural offset first
		best, at := 0, -1
		try := func(off int) {
			if off < 0 || off >= len(body) {
				return
			}
			n := 0
			for pos+n < len(data) && off+n < len(body) && data[pos+n] == body[off+n] {
				n++
			}
			if n > best {
				best, at = n, off
			}
		}
		try(pos)
		if best < len(data)-pos {
			if len(data)-pos >= 4 {
				if k := bytes.Index(body, data[pos:pos+4]); k >= 0 {
					try(k)
				}
			}
			for off := 0; off < len(body) && best < 4 && len(data)-pos < 4; off++ {
				try(off)
			}
		}
		if best == 0 {
			out = append(out, []int{pos, -1, -1 + 1})
			pos++
			continue
		}
		out = append(out, []int{pos, at, at + best})
		pos += best
	}
	return out
}

// DownBody is version v (1, 2, ...) of the response body: every execution of the server application yields a new
// representation, announced by ETag = [v].
func DownBody(n, v int) []byte { return Body(n, byte(0x60+v)) }

// PiecesV describes data as pieces <<position, a, b, version>> of the response bodies of versions 1..nver
// (version 0, a = -1: bytes that belong to none of them).
func PiecesV(data []byte, n, nver int) [][]int {
	out := [][]int{}
	pos := 0
	for pos < len(data) {
		bestV, best := 0, []int{pos, 0, 0}
		for v := 1; v <= nver; v++ {
			ps := Pieces(data[pos:], DownBody(n, v))
			if len(ps) > 0 && ps[0][1] >= 0 && ps[0][2]-ps[0][1] > best[2]-best[1] {
				bestV, best = v, []int{pos, ps[0][1], ps[0][2]}
			}
		}
		if bestV == 0 {
			out = append(out, []int{pos, -1, 0, 0})
			pos++
			continue
		}
		out = append(out, []int{best[0], best[1], best[2], bestV})
		pos += best[2] - best[1]
	}
	return out
}

func etagOf(o message.Options) int {
	for _, x := range o {
		if x.ID == message.ETag && len(x.Value) == 1 {
			return int(x.Value[0])
		}
	}
	return 0
}

type Blk struct {
	Szx  int  `json:"szx"` // -1: option absent
	Num  int  `json:"num"`
	More bool `json:"more"`
}

type MsgRec struct {
	Dir   string `json:"dir"`
	Kind  string `json:"kind"` // req | cont | resp | incomplete | other
	Code  int    `json:"code"`
	B1    Blk    `json:"b1"`
	B2    Blk    `json:"b2"`
	Size1 int    `json:"size1"`
	Size2 int    `json:"size2"`
	Pay   []int  `json:"pay"` // <<a, b>> of the sender's body (a = -1 if not locatable), <<0,0>> if empty
	PLen  int    `json:"plen"`
	Ver   int    `json:"ver"` // response: the representation it is taken from (ETag), else 0
}

type wireMsg struct {
	code codes.Code
	tok  []byte
	opts message.Options
	body []byte
	typ  message.Type
	rec  MsgRec
}

func blkOf(o message.Options, id message.OptionID) Blk {
	v, err := o.GetUint32(id)
	if err != nil {
		return Blk{Szx: -1}
	}
	szx, num, more, err := blockwise.DecodeBlockOption(v)
	if err != nil {
		return Blk{Szx: -2}
	}
	return Blk{int(szx), int(num), more}
}

func snapshot(m *pool.Message, dir string, upBody []byte, downLen int) wireMsg {
	w := wireMsg{code: m.Code(), tok: append([]byte(nil), m.Token()...), typ: m.Type()}
	for _, o := range m.Options() {
		w.opts = append(w.opts, message.Option{ID: o.ID, Value: append([]byte(nil), o.Value...)})
	}
	if m.Body() != nil {
		b, _ := m.ReadBody()
		w.body = append([]byte(nil), b...)
	}
	r := MsgRec{Dir: dir, Code: int(m.Code()), B1: blkOf(w.opts, message.Block1), B2: blkOf(w.opts, message.Block2), Size1: -1, Size2: -1, PLen: len(w.body), Pay: []int{0, 0}}
	if v, err := w.opts.GetUint32(message.Size1); err == nil {
		r.Size1 = int(v)
	}
	if v, err := w.opts.GetUint32(message.Size2); err == nil {
		r.Size2 = int(v)
	}
	body := upBody
	if dir == "s2c" {
		r.Ver = etagOf(w.opts)
		body = DownBody(downLen, r.Ver)
	}
	if len(w.body) > 0 {
		ps := Pieces(w.body, body)
		if len(ps) == 1 && ps[0][1] >= 0 {
			r.Pay = []int{ps[0][1], ps[0][2]}
		} else {
			r.Pay = []int{-1, -1}
		}
	}
	switch {
	case dir == "c2s":
		r.Kind = "req"
	case m.Code() == codes.Continue:
		r.Kind = "cont"
	case m.Code() == codes.RequestEntityIncomplete:
		r.Kind = "incomplete"
	default:
		r.Kind = "resp"
	}
	w.rec = r
	return w
}

func (w wireMsg) toPool(p *pool.Pool, ctx context.Context) *pool.Message {
	m := p.AcquireMessage(ctx)
	m.SetCode(w.code)
	m.SetToken(w.tok)
	m.ResetOptionsTo(w.opts)
	if w.typ == message.Confirmable || w.typ == message.NonConfirmable {
		m.SetType(w.typ)
	}
	if len(w.body) > 0 {
		m.SetBody(bytes.NewReader(w.body))
	}
	return m
}

type Params struct {
	L    int `json:"l"`
	L2   int `json:"l2"`
	CS   int `json:"cs"`
	SS   int `json:"ss"`
	CMMS int `json:"cmms"`
	SMMS int `json:"smms"`
	// OW: the one-way style - the client application hands the request to WriteMessage and returns; whatever comes back
	// reaches the client connection's handler (e2e modes only)
	OW bool `json:"ow"`
	// NE: the server application does not announce its representations with an ETag (layer mode, directed retry schedules only:
	// without ETags a representation change in mid-transfer cannot be noticed by anyone, so only schedules without one use it)
	NE bool `json:"ne"`
	// L2B > 0: the representations produced by the second and later executions of the server application are L2B bytes long
	// (layer mode, directed "again" schedules: a second exchange with the same token right after a completed one)
	L2B int `json:"l2b"`
}

func (p Params) downLen(v int) int {
	if v >= 2 && p.L2B > 0 {
		return p.L2B
	}
	return p.L2
}
func (p Params) downMax() int {
	if p.L2B > p.L2 {
		return p.L2B
	}
	return p.L2
}

type Act struct {
	A string `json:"a"`
	D string `json:"d"`
	K int    `json:"k"`
}

type Delivery struct {
	Pieces [][]int `json:"pieces"`
	Len    int     `json:"len"`
	Opts   []int   `json:"opts"` // option ids seen by the application
	Query  bool    `json:"query"`
	CF     int     `json:"cf"`
}

type LayerTrace struct {
	Op         string     `json:"op"`
	Concurrent bool       `json:"concurrent"`
	P          Params     `json:"p"`
	Acts       []Act      `json:"acts"`
	Applied    []bool     `json:"applied"`
	Msgs       []MsgRec   `json:"msgs"` // everything the two sides sent, in order
	App        []Delivery `json:"app"`  // deliveries to the server application (request bodies)
	Got        []Delivery `json:"got"`  // what Do returned to the client application (response body)
	Ret        string     `json:"ret"`  // none | ok | err
	RetCode    int        `json:"retcode"`
	Faulty     bool       `json:"faulty"` // some dup / drop / replay was applied
	Quiet      bool       `json:"quiet"`  // both queues empty at the end
	Panics     int        `json:"panics"`
	Calls      int        `json:"calls"`  // calls of Do that have returned (a retry after an abandoned transfer is a second call)
	RcvSrv     int        `json:"rcvSrv"` // reassembly / send cache sizes at the end (before expiry)
	SndSrv     int        `json:"sndSrv"`
	RcvCli     int        `json:"rcvCli"`
	SndCli     int        `json:"sndCli"`
	RcvSrvX    int        `json:"rcvSrvX"` // ... and after the expiry sweep
	SndSrvX    int        `json:"sndSrvX"`
	RcvCliX    int        `json:"rcvCliX"`
	SndCliX    int        `json:"sndCliX"`
}

// RunLayer executes one schedule on two fresh BlockWise instances.
// concurrent: a "dup" action hands the two copies to the layer from two goroutines at the same time
func RunLayer(p Params, acts []Act, concurrent bool) LayerTrace {
	tr := LayerTrace{Op: "layer", Concurrent: concurrent, P: p, Acts: acts, Applied: make([]bool, len(acts)), Msgs: []MsgRec{}, App: []Delivery{}, Got: []Delivery{}, Ret: "none"}
	plc, pls := pool.New(64, 2048), pool.New(64, 2048)
	ccC, ccS := &fakeCC{p: plc}, &fakeCC{p: pls}
	var errs int
	var mu sync.Mutex
	onErr := func(error) { mu.Lock(); errs++; mu.Unlock() }
	cli := blockwise.New(ccC, 3*time.Second, onErr, nil)
	srv := blockwise.New(ccS, 3*time.Second, onErr, nil)
	up := Body(p.L, 1)
	tok := []byte{0x04, 0xC4}
	var c2s, s2c, sent []wireMsg
	emit := func(m *pool.Message, dir string) {
		w := snapshot(m, dir, up, p.downMax())
		mu.Lock()
		if dir == "c2s" {
			c2s = append(c2s, w)
		} else {
			s2c = append(s2c, w)
		}
		sent = append(sent, w)
		tr.Msgs = append(tr.Msgs, w.rec)
		mu.Unlock()
	}
	respCh := make(chan wireMsg, 4)
	ctx, cancel := context.WithCancel(context.Background())
	defer cancel()
	delivery := func(m *pool.Message, body []byte) Delivery {
		b, _ := m.ReadBody()
		d := Delivery{Len: len(b), Opts: []int{}, CF: -1}
		if body != nil {
			d.Pieces = Pieces(b, body)
		} else {
			d.Pieces = PiecesV(b, p.downMax(), len(tr.App)) // a response body: pieces of the representations produced so far
		}
		for _, o := range m.Options() {
			d.Opts = append(d.Opts, int(o.ID))
		}
		if q, err := m.Queries(); err == nil && len(q) == 1 && q[0] == "k=v" {
			d.Query = true
		}
		if cf, err := m.ContentFormat(); err == nil {
			d.CF = int(cf)
		}
		return d
	}
	serverApp := func(w *responsewriter.ResponseWriter[*fakeCC], r *pool.Message) {
		if r.Code() < codes.GET || r.Code() > codes.DELETE {
			return // not a request (e.g. a stray error message of the peer): nothing is "delivered as a request body"
		}
		mu.Lock()
		first := delivery(r, up)
		tr.App = append(tr.App, first)
		v := len(tr.App) // every execution produces a new representation
		mu.Unlock()
		if concurrent && p.L > 0 {
			// the request is the application's while its handler runs: it looks at it again a moment later (copies of the last
			// block that are handled at the same time must not reach into it)
			time.Sleep(time.Millisecond)
			if again := delivery(r, up); again.Len != first.Len || fmt.Sprint(again.Pieces) != fmt.Sprint(first.Pieces) || fmt.Sprint(again.Opts) != fmt.Sprint(first.Opts) {
				mu.Lock()
				tr.App = append(tr.App, again) // what the application now holds is not what it was handed
				mu.Unlock()
			}
		}
		code := codes.Content
		if r.Code() == codes.POST || r.Code() == codes.PUT {
			code = codes.Changed
		}
		opts := []message.Option{{ID: message.MaxAge, Value: []byte{7}}}
		if !p.NE {
			opts = append(opts, message.Option{ID: message.ETag, Value: []byte{byte(v)}})
		}
		_ = w.SetResponse(code, message.AppOctets, bytes.NewReader(DownBody(p.downLen(v), v)), opts...)
	}
	clientNext := func(_ *responsewriter.ResponseWriter[*fakeCC], r *pool.Message) {
		respCh <- snapshot(r, "s2c", up, p.downMax())
	}
	handle := func(bw *blockwise.BlockWise[*fakeCC], cc *fakeCC, w wireMsg, szx, mms int, dirOut string, next func(*responsewriter.ResponseWriter[*fakeCC], *pool.Message)) {
		defer func() {
			if x := recover(); x != nil {
				mu.Lock()
				tr.Panics++
				mu.Unlock()
			}
		}()
		r := w.toPool(cc.p, ctx)
		resp := cc.AcquireMessage(ctx)
		resp.SetToken(r.Token())
		rw := responsewriter.New(resp, cc, r.Options()...)
		rw.Message().SetModified(false)
		bw.Handle(rw, r, blockwise.SZX(szx), uint32(mms), next)
		if rw.Message().IsModified() {
			emit(rw.Message(), dirOut)
		}
	}
	started := false
	done := make(chan struct{})
	callCtx, callCancel := context.WithCancel(ctx)
	defer func() { callCancel() }()
	start := func() {
		started = true
		done = make(chan struct{})
		callCtx, callCancel = context.WithCancel(ctx)
		cctx, cdone := callCtx, done
		go func() {
			defer close(cdone)
			req := ccC.AcquireMessage(cctx)
			code := codes.GET
			if p.L > 0 {
				code = codes.POST
			}
			req.SetCode(code)
			req.SetToken(tok)
			req.MustSetPath("/res")
			req.AddQuery("k=v")
			if p.L > 0 {
				req.SetContentFormat(message.AppOctets)
				req.SetBody(bytes.NewReader(up))
			}
			resp, err := cli.Do(req, blockwise.SZX(p.CS), uint32(p.CMMS), func(bwReq *pool.Message) (*pool.Message, error) {
				emit(bwReq, "c2s")
				select {
				case w := <-respCh:
					return w.toPool(plc, ctx), nil
				case <-cctx.Done():
					return nil, cctx.Err()
				}
			})
			mu.Lock()
			defer mu.Unlock()
			tr.Calls++
			if err != nil {
				tr.Ret = "err"
				return
			}
			tr.Ret = "ok"
			tr.RetCode = int(resp.Code())
			tr.Got = append(tr.Got, delivery(resp, nil))
		}()
	}
	qlen := func() (int, int) { mu.Lock(); defer mu.Unlock(); return len(c2s), len(s2c) }
	settle := func() {
		// the client goroutine reacts to what the relay handed it: wait until nothing changes for a moment
		last, since := -1, time.Now()
		hooks.WaitFor(2*time.Second, func() bool {
			mu.Lock()
			cur := len(sent)*100 + len(tr.Got) + len(tr.App)*10
			if tr.Ret != "none" {
				cur += 7
			}
			mu.Unlock()
			if cur != last {
				last, since = cur, time.Now()
			}
			return time.Since(since) > 1500*time.Microsecond
		})
	}
	pop := func(d string, keep bool) (wireMsg, bool) {
		mu.Lock()
		defer mu.Unlock()
		q := &c2s
		if d == "s2c" {
			q = &s2c
		}
		if len(*q) == 0 {
			return wireMsg{}, false
		}
		w := (*q)[0]
		if !keep {
			*q = (*q)[1:]
		}
		return w, true
	}
	stuck := false
	recv1 := func(w wireMsg) {
		if w.rec.Dir == "c2s" {
			handle(srv, ccS, w, p.SS, p.SMMS, "s2c", serverApp)
		} else {
			handle(cli, ccC, w, p.CS, p.CMMS, "c2s", clientNext)
		}
	}
	// the layer must come back from every message (watchdog: "never by hanging")
	recvN := func(w wireMsg, copies int) {
		side := ccS
		if w.rec.Dir != "c2s" {
			side = ccC
		}
		var wg sync.WaitGroup
		if copies > 1 {
			side.mu.Lock()
			side.step = map[int64]int{}
			side.mu.Unlock()
		}
		ready := make(chan struct{})
		for k := 0; k < copies; k++ {
			wg.Add(1)
			go func() {
				defer wg.Done()
				if copies > 1 {
					side.mu.Lock()
					side.step[hooks.GID()] = 0
					side.mu.Unlock()
					<-ready
				}
				recv1(w)
			}()
		}
		if copies > 1 {
			hooks.WaitFor(time.Second, func() bool { side.mu.Lock(); defer side.mu.Unlock(); return len(side.step) == copies })
			close(ready)
		}
		fin := make(chan struct{})
		go func() { wg.Wait(); close(fin) }()
		select {
		case <-fin:
		case <-time.After(2 * time.Second):
			stuck = true
		}
		side.mu.Lock()
		side.step = nil
		side.mu.Unlock()
	}
	recv := func(w wireMsg) { recvN(w, 1) }
	abandoned := false
	for i, a := range acts {
		switch a.A {
		case "start":
			if !started {
				start()
				tr.Applied[i] = true
			}
		case "deliver":
			if w, ok := pop(a.D, false); ok {
				recv(w)
				tr.Applied[i] = true
			}
		case "dup":
			if concurrent {
				if w, ok := pop(a.D, false); ok { // the message and its duplicate, at the same time
					recvN(w, 2)
					tr.Applied[i], tr.Faulty = true, true
				}
			} else if w, ok := pop(a.D, true); ok {
				recv(w)
				tr.Applied[i], tr.Faulty = true, true
			}
		case "drop":
			if _, ok := pop(a.D, false); ok {
				tr.Applied[i], tr.Faulty = true, true
			}
		case "abandon": // the peer goes silent (everything in flight is lost) and the caller gives up
			mu.Lock()
			running := started && tr.Ret == "none"
			mu.Unlock()
			if running {
				mu.Lock()
				c2s, s2c = nil, nil
				mu.Unlock()
				callCancel()
				select {
				case <-done:
					abandoned = true
					tr.Applied[i], tr.Faulty = true, true
				case <-time.After(3 * time.Second):
					mu.Lock()
					tr.Ret = "hung"
					mu.Unlock()
					stuck = true
				}
				for len(respCh) > 0 {
					<-respCh
				}
			}
		case "lapse": // the transfer timeout (3 s) elapses on both sides; only one side has run its sweep since
			if abandoned {
				if a.D == "c2s" { // the client's entries still sit in its caches, expired
					cli.VerifAge(4 * time.Second)
					srv.CheckExpirations(time.Now().Add(4 * time.Second))
				} else { // the server's do
					srv.VerifAge(4 * time.Second)
					cli.CheckExpirations(time.Now().Add(4 * time.Second))
				}
				tr.Applied[i] = true
			}
		case "restart", "retry": // the same request again, same token (retry: at once, nothing has timed out)
			if abandoned {
				abandoned = false
				mu.Lock()
				tr.Ret = "none"
				mu.Unlock()
				start()
				tr.Applied[i] = true
			}
		case "again": // the exchange has completed; the application issues the next request with the same token at once
			mu.Lock()
			completed := started && tr.Ret == "ok"
			if completed {
				tr.Ret, tr.Faulty = "none", true
			}
			mu.Unlock()
			if completed {
				<-done
				start()
				tr.Applied[i] = true
			}
		case "stale": // the transfer timeout passes on the client while the request is still waiting; no sweep has run: what the
			// client holds of the response sits in its cache, expired
			if rcv, _ := cli.VerifSizes(); rcv > 0 {
				cli.VerifAge(4 * time.Second)
				tr.Applied[i], tr.Faulty = true, true
			}
		case "stalesrv": // the same on the server, for what it holds of a request body (and the response it is sending)
			if rcv, snd := srv.VerifSizes(); rcv+snd > 0 {
				srv.VerifAge(4 * time.Second)
				tr.Applied[i], tr.Faulty = true, true
			}
		case "lose": // the server's buffers time out (transfer timeout 3 s)
			if rcv, snd := srv.VerifSizes(); rcv+snd > 0 {
				srv.CheckExpirations(time.Now().Add(4 * time.Second))
				tr.Applied[i], tr.Faulty = true, true
			}
		case "replay":
			mu.Lock()
			ok := a.K >= 1 && a.K <= len(sent)
			var w wireMsg
			if ok {
				w = sent[a.K-1]
			}
			mu.Unlock()
			if ok {
				recv(w)
				tr.Applied[i], tr.Faulty = true, true
			}
		}
		if stuck {
			break
		}
		settle()
	}
	a, b := qlen()
	tr.Quiet = a == 0 && b == 0
	tr.RcvSrv, tr.SndSrv = srv.VerifSizes()
	tr.RcvCli, tr.SndCli = cli.VerifSizes()
	cancel()
	if started {
		select {
		case <-done:
		case <-time.After(3 * time.Second):
			mu.Lock()
			tr.Ret = "hung"
			mu.Unlock()
		}
	}
	if stuck { // a Handle call never came back
		mu.Lock()
		tr.Ret = "hung"
		mu.Unlock()
	}
	// housekeeping after the transfer timeout: nothing may be left
	srv.CheckExpirations(time.Now().Add(time.Hour))
	cli.CheckExpirations(time.Now().Add(time.Hour))
	tr.RcvSrvX, tr.SndSrvX = srv.VerifSizes()
	tr.RcvCliX, tr.SndCliX = cli.VerifSizes()
	return tr
}
