package c04

import (
	"bytes"
	"context"
	"sync"
	"time"

	"github.com/plgd-dev/go-coap/v3/message"
	"github.com/plgd-dev/go-coap/v3/message/codes"
	"github.com/plgd-dev/go-coap/v3/message/pool"
	"github.com/plgd-dev/go-coap/v3/net/blockwise"
	"github.com/plgd-dev/go-coap/v3/net/responsewriter"
	tcpclient "github.com/plgd-dev/go-coap/v3/tcp/client"
	udpclient "github.com/plgd-dev/go-coap/v3/udp/client"

	"verifharness/internal/conns"
	"verifharness/internal/hooks"
	"verifharness/internal/memnet"
)

// E2ETrace: a block-wise exchange between two real connections joined by a relay owned by the driver.
type E2ETrace struct {
	Op      string     `json:"op"` // e2e
	Tr      string     `json:"transport"`
	P       Params     `json:"p"`
	Acts    []Act      `json:"acts"`
	Applied []bool     `json:"applied"`
	Msgs    []MsgRec   `json:"msgs"`
	App     []Delivery `json:"app"`
	Got     []Delivery `json:"got"`
	Ret     string     `json:"ret"`
	RetCode int        `json:"retcode"`
	Faulty  bool       `json:"faulty"`
	Quiet   bool       `json:"quiet"`
	Panics  int        `json:"panics"`
	RcvSrvX int        `json:"rcvSrvX"`
	SndSrvX int        `json:"sndSrvX"`
	RcvCliX int        `json:"rcvCliX"`
	SndCliX int        `json:"sndCliX"`
	TokCliX int        `json:"tokCliX"`
	MidCliX int        `json:"midCliX"`
}

func recOfDgram(d memnet.Dgram, dir string, up []byte, downLen int) MsgRec {
	r := MsgRec{Dir: dir, Code: d.Code, B1: blkOf(d.Opts, message.Block1), B2: blkOf(d.Opts, message.Block2), Size1: -1, Size2: -1, PLen: len(d.Payload), Pay: []int{0, 0}}
	body := up
	if dir == "s2c" {
		r.Ver = etagOf(d.Opts)
		body = DownBody(downLen, r.Ver)
	}
	if len(d.Payload) > 0 {
		ps := Pieces(d.Payload, body)
		if len(ps) == 1 && ps[0][1] >= 0 {
			r.Pay = []int{ps[0][1], ps[0][2]}
		} else {
			r.Pay = []int{-1, -1}
		}
	}
	switch {
	case d.Code == int(codes.Empty):
		r.Kind = "empty"
	case dir == "c2s":
		r.Kind = "req"
	case d.Code == int(codes.Continue):
		r.Kind = "cont"
	case d.Code == int(codes.RequestEntityIncomplete):
		r.Kind = "incomplete"
	default:
		r.Kind = "resp"
	}
	return r
}

// deliveryOf: body = the request body for a delivery to the server application; nil for a response body handed to
// the client application (pieces of the nver representations of length downLen produced so far)
func deliveryOf(m *pool.Message, body []byte, downLen, nver int) Delivery {
	b, _ := m.ReadBody()
	d := Delivery{Len: len(b), Opts: []int{}, CF: -1}
	if body != nil {
		d.Pieces = Pieces(b, body)
	} else {
		d.Pieces = PiecesV(b, downLen, nver)
	}
	for _, o := range m.Options() {
		d.Opts = append(d.Opts, int(o.ID))
	}
	if q, err := m.Queries(); err == nil && len(q) == 1 && q[0] == "k=v" {
		d.Query = true
	}
	if cf, err := m.ContentFormat(); err == nil {
		d.CF = int(cf)
	}
	return d
}

// owGot: one-way style - what reaches the client connection's handler is what the client application gets
func owGot(mu *sync.Mutex, tr *E2ETrace, p Params, r *pool.Message) {
	mu.Lock()
	defer mu.Unlock()
	if tr.Ret != "ok" {
		tr.Ret, tr.RetCode = "ok", int(r.Code())
	}
	if r.Code() == codes.Content || r.Code() == codes.Changed {
		tr.Got = append(tr.Got, deliveryOf(r, nil, p.L2, len(tr.App)))
	}
}

// RunUDP runs one exchange between two real udp connections with a fault schedule on the datagrams.
func RunUDP(p Params, acts []Act) E2ETrace {
	tr := E2ETrace{Op: "e2e", Tr: "udp", P: p, Acts: acts, Applied: make([]bool, len(acts)), Msgs: []MsgRec{}, App: []Delivery{}, Got: []Delivery{}, Ret: "none"}
	up := Body(p.L, 1)
	var mu sync.Mutex
	mk := func(szx, mms int, handler udpclient.HandlerFunc) *conns.UDP {
		u := conns.NewUDP(func(cfg *udpclient.Config) {
			cfg.BlockwiseEnable = true
			cfg.BlockwiseSZX = blockwise.SZX(szx)
			cfg.BlockwiseTransferTimeout = 3 * time.Second
			cfg.TransmissionNStart = 4
			if handler != nil {
				cfg.Handler = handler
			}
		})
		u.Sess.MaxMsg = uint32(mms)
		return u
	}
	S := mk(p.SS, p.SMMS, func(w *responsewriter.ResponseWriter[*udpclient.Conn], r *pool.Message) {
		if r.Code() < codes.GET || r.Code() > codes.DELETE {
			return // not a request (e.g. a stray error message of the peer): nothing is "delivered as a request body"
		}
		mu.Lock()
		tr.App = append(tr.App, deliveryOf(r, up, 0, 0))
		v := len(tr.App) // every execution produces a new representation
		mu.Unlock()
		code := codes.Content
		if r.Code() == codes.POST || r.Code() == codes.PUT {
			code = codes.Changed
		}
		_ = w.SetResponse(code, message.AppOctets, bytes.NewReader(DownBody(p.L2, v)), message.Option{ID: message.MaxAge, Value: []byte{7}}, message.Option{ID: message.ETag, Value: []byte{byte(v)}})
	})
	var hc udpclient.HandlerFunc
	if p.OW {
		hc = func(_ *responsewriter.ResponseWriter[*udpclient.Conn], r *pool.Message) { owGot(&mu, &tr, p, r) }
	}
	C := mk(p.CS, p.CMMS, hc)
	defer S.Close()
	defer C.Close()
	ctx, cancel := context.WithCancel(context.Background())
	defer cancel()
	var c2s, s2c, sent [][]byte
	var sentDir []string
	seenC, seenS := 0, 0
	pump := func() {
		for _, raw := range C.Sess.Out(seenC) {
			seenC++
			c2s = append(c2s, raw)
			sent = append(sent, raw)
			sentDir = append(sentDir, "c2s")
			if d, err := memnet.Parse(raw); err == nil {
				tr.Msgs = append(tr.Msgs, recOfDgram(d, "c2s", up, p.L2))
			}
		}
		for _, raw := range S.Sess.Out(seenS) {
			seenS++
			s2c = append(s2c, raw)
			sent = append(sent, raw)
			sentDir = append(sentDir, "s2c")
			if d, err := memnet.Parse(raw); err == nil {
				tr.Msgs = append(tr.Msgs, recOfDgram(d, "s2c", up, p.L2))
			}
		}
	}
	settle := func() {
		last, since := -1, time.Now()
		hooks.WaitFor(2*time.Second, func() bool {
			C.Quiesce()
			S.Quiesce()
			mu.Lock()
			cur := C.Sess.OutLen()*1000 + S.Sess.OutLen() + len(tr.App)*7
			if tr.Ret != "none" {
				cur += 3
			}
			mu.Unlock()
			if cur != last {
				last, since = cur, time.Now()
			}
			return time.Since(since) > 1500*time.Microsecond
		})
		pump()
	}
	done := make(chan struct{})
	started := false
	start := func() {
		started = true
		go func() {
			defer close(done)
			var resp *pool.Message
			var err error
			if p.OW {
				var req *pool.Message
				if p.L > 0 {
					req, err = C.CC.NewPostRequest(ctx, "/res", message.AppOctets, bytes.NewReader(up), message.Option{ID: message.URIQuery, Value: []byte("k=v")})
				} else {
					req, err = C.CC.NewGetRequest(ctx, "/res", message.Option{ID: message.URIQuery, Value: []byte("k=v")})
				}
				if err == nil {
					err = C.CC.WriteMessage(req)
				}
				mu.Lock()
				if err != nil && tr.Ret == "none" {
					tr.Ret = "err"
				}
				mu.Unlock()
				return
			}
			if p.L > 0 {
				resp, err = C.CC.Post(ctx, "/res", message.AppOctets, bytes.NewReader(up), message.Option{ID: message.URIQuery, Value: []byte("k=v")})
			} else {
				resp, err = C.CC.Get(ctx, "/res", message.Option{ID: message.URIQuery, Value: []byte("k=v")})
			}
			mu.Lock()
			defer mu.Unlock()
			if err != nil {
				tr.Ret = "err"
				return
			}
			tr.Ret, tr.RetCode = "ok", int(resp.Code())
			tr.Got = append(tr.Got, deliveryOf(resp, nil, p.L2, len(tr.App)))
		}()
	}
	tick := 0
	for i, a := range acts {
		switch a.A {
		case "start":
			if !started {
				start()
				tr.Applied[i] = true
			}
		case "deliver", "dup", "drop":
			q := &c2s
			to := S
			if a.D == "s2c" {
				q, to = &s2c, C
			}
			if len(*q) > 0 {
				raw := (*q)[0]
				if a.A != "dup" {
					*q = (*q)[1:]
				}
				if a.A != "drop" {
					_ = to.InjectNoWait(raw)
				}
				tr.Applied[i] = true
				tr.Faulty = tr.Faulty || a.A != "deliver"
			}
		case "replay":
			if a.K >= 1 && a.K <= len(sent) {
				to := S
				if sentDir[a.K-1] == "s2c" {
					to = C
				}
				_ = to.InjectNoWait(sent[a.K-1])
				tr.Applied[i], tr.Faulty = true, true
			}
		case "tick":
			// housekeeping 3 s later on both sides: unacknowledged confirmable messages are retransmitted
			tick++
			C.CC.CheckExpirations(time.Now().Add(time.Duration(tick) * 2500 * time.Millisecond))
			S.CC.CheckExpirations(time.Now().Add(time.Duration(tick) * 2500 * time.Millisecond))
			tr.Applied[i] = true
		}
		settle()
	}
	tr.Quiet = len(c2s) == 0 && len(s2c) == 0
	cancel()
	if started {
		select {
		case <-done:
		case <-time.After(3 * time.Second):
			mu.Lock()
			tr.Ret = "hung"
			mu.Unlock()
		}
	}
	far := time.Now().Add(time.Hour)
	S.CC.CheckExpirations(far)
	C.CC.CheckExpirations(far)
	_, tr.RcvSrvX, tr.SndSrvX = S.CC.VerifAux()
	_, tr.RcvCliX, tr.SndCliX = C.CC.VerifAux()
	vs := C.CC.VerifState()
	tr.TokCliX, tr.MidCliX = len(vs.Tokens), len(vs.Mids)
	return tr
}

// RunTCP runs one fault-free exchange between two real tcp connections (BERT when SZX 7).
func RunTCP(p Params) E2ETrace {
	tr := E2ETrace{Op: "e2e", Tr: "tcp", P: p, Acts: []Act{}, Applied: []bool{}, Msgs: []MsgRec{}, App: []Delivery{}, Got: []Delivery{}, Ret: "none"}
	up := Body(p.L, 1)
	var mu sync.Mutex
	mk := func(szx, mms int, handler tcpclient.HandlerFunc) *conns.TCP {
		return conns.NewTCP(func(cfg *tcpclient.Config) {
			cfg.BlockwiseEnable = true
			cfg.BlockwiseSZX = blockwise.SZX(szx)
			cfg.BlockwiseTransferTimeout = 3 * time.Second
			cfg.MaxMessageSize = uint32(mms)
			if handler != nil {
				cfg.Handler = handler
			}
		})
	}
	S := mk(p.SS, p.SMMS, func(w *responsewriter.ResponseWriter[*tcpclient.Conn], r *pool.Message) {
		if r.Code() < codes.GET || r.Code() > codes.DELETE {
			return // not a request (e.g. a stray error message of the peer): nothing is "delivered as a request body"
		}
		mu.Lock()
		tr.App = append(tr.App, deliveryOf(r, up, 0, 0))
		v := len(tr.App) // every execution produces a new representation
		mu.Unlock()
		code := codes.Content
		if r.Code() == codes.POST || r.Code() == codes.PUT {
			code = codes.Changed
		}
		_ = w.SetResponse(code, message.AppOctets, bytes.NewReader(DownBody(p.L2, v)), message.Option{ID: message.MaxAge, Value: []byte{7}}, message.Option{ID: message.ETag, Value: []byte{byte(v)}})
	})
	var hc tcpclient.HandlerFunc
	if p.OW {
		hc = func(_ *responsewriter.ResponseWriter[*tcpclient.Conn], r *pool.Message) { owGot(&mu, &tr, p, r) }
	}
	C := mk(p.CS, p.CMMS, hc)
	defer S.Close()
	defer C.Close()
	// each side learns from the peer's CSM that block-wise transfer is supported (go-coap itself does not advertise it)
	csm := conns.Frame(int(codes.CSM), []byte{1}, message.Options{{ID: message.TCPBlockWiseTransfer, Value: []byte{}}}, nil)
	C.Feed(csm)
	S.Feed(csm)
	offC, offS := len(C.Stream.Written(0)), len(S.Stream.Written(0))
	ctx, cancel := context.WithCancel(context.Background())
	defer cancel()
	done := make(chan struct{})
	go func() {
		defer close(done)
		var resp *pool.Message
		var err error
		if p.OW {
			var req *pool.Message
			if p.L > 0 {
				req, err = C.CC.NewPostRequest(ctx, "/res", message.AppOctets, bytes.NewReader(up), message.Option{ID: message.URIQuery, Value: []byte("k=v")})
			} else {
				req, err = C.CC.NewGetRequest(ctx, "/res", message.Option{ID: message.URIQuery, Value: []byte("k=v")})
			}
			if err == nil {
				err = C.CC.WriteMessage(req)
			}
			mu.Lock()
			if err != nil && tr.Ret == "none" {
				tr.Ret = "err"
			}
			mu.Unlock()
			return
		}
		if p.L > 0 {
			resp, err = C.CC.Post(ctx, "/res", message.AppOctets, bytes.NewReader(up), message.Option{ID: message.URIQuery, Value: []byte("k=v")})
		} else {
			resp, err = C.CC.Get(ctx, "/res", message.Option{ID: message.URIQuery, Value: []byte("k=v")})
		}
		mu.Lock()
		defer mu.Unlock()
		if err != nil {
			tr.Ret = "err"
			return
		}
		tr.Ret, tr.RetCode = "ok", int(resp.Code())
		tr.Got = append(tr.Got, deliveryOf(resp, nil, p.L2, len(tr.App)))
	}()
	recF := func(f conns.TFrame, dir string) {
		d := memnet.Dgram{Code: f.Code, Token: f.Token, Opts: f.Opts, Payload: f.Payload}
		tr.Msgs = append(tr.Msgs, recOfDgram(d, dir, up, p.L2))
	}
	// relay until nothing moves for a while or the call returned
	deadline := time.Now().Add(4 * time.Second)
	idleSince := time.Now()
	for time.Now().Before(deadline) {
		moved := false
		if b := C.Stream.Written(offC); len(b) > 0 {
			frames, rest := conns.Frames(b)
			n := len(b) - len(rest)
			if n > 0 {
				for _, f := range frames {
					recF(f, "c2s")
				}
				// the relay hands the bytes over in reads of at most 2000 bytes
				for k := 0; k < n; k += 2000 {
					e := k + 2000
					if e > n {
						e = n
					}
					S.Feed(b[k:e])
				}
				offC += n
				moved = true
			}
		}
		if b := S.Stream.Written(offS); len(b) > 0 {
			frames, rest := conns.Frames(b)
			n := len(b) - len(rest)
			if n > 0 {
				for _, f := range frames {
					recF(f, "s2c")
				}
				for k := 0; k < n; k += 2000 {
					e := k + 2000
					if e > n {
						e = n
					}
					C.Feed(b[k:e])
				}
				offS += n
				moved = true
			}
		}
		mu.Lock()
		ret := tr.Ret
		mu.Unlock()
		if moved {
			idleSince = time.Now()
		} else if ret != "none" || time.Since(idleSince) > 300*time.Millisecond {
			break
		} else {
			time.Sleep(100 * time.Microsecond)
		}
	}
	tr.Quiet = true
	cancel()
	select {
	case <-done:
	case <-time.After(3 * time.Second):
		mu.Lock()
		tr.Ret = "hung"
		mu.Unlock()
	}
	far := time.Now().Add(time.Hour)
	S.CC.CheckExpirations(far)
	C.CC.CheckExpirations(far)
	_, tr.RcvSrvX, tr.SndSrvX = S.CC.VerifAux()
	_, tr.RcvCliX, tr.SndCliX = C.CC.VerifAux()
	tr.TokCliX = len(C.CC.VerifState().Tokens)
	return tr
}
