package c04

import (
	"bytes"
	"context"
	"sync"
	"time"

	"github.com/plgd-dev/go-coap/v3/message"
	"github.com/plgd-dev/go-coap/v3/message/codes"
	"github.com/plgd-dev/go-coap/v3/message/pool"
	"github.com/plgd-dev/go-coap/v3/net/blockwise"
	"github.com/plgd-dev/go-coap/v3/net/responsewriter"
	tcpclient "github.com/plgd-dev/go-coap/v3/tcp/client"

	"verifharness/internal/conns"
)

// ConcX is one of the N exchanges that run at the same time on one pair of connections.
type ConcX struct {
	Ret     string     `json:"ret"`
	RetCode int        `json:"retcode"`
	Got     []Delivery `json:"got"` // the response body handed to this caller: pieces of the representations
	App     []Delivery `json:"app"` // what the server application received for this exchange: pieces of ITS request body
	UpLen   int        `json:"uplen"`
}

// ConcTrace: "concurrent transfers with different tokens never mix".
type ConcTrace struct {
	Op    string  `json:"op"` // conc
	Tr    string  `json:"transport"`
	P     Params  `json:"p"`
	N     int     `json:"n"`
	X     []ConcX `json:"x"`
	NApp  int     `json:"napp"` // executions of the server application
	Stray int     `json:"stray"`
}

// RunTCPConc runs n block-wise exchanges (different tokens, different bodies, one path) at the same time between two
// real tcp connections joined by the driver's relay (fault-free). Exchange k uploads Body(L + k, salt k) when L > 0
// and is told apart at the server by its query "x=<k>".
func RunTCPConc(p Params, n int) ConcTrace { return runTCPConc(p, n, false) }

// RunTCPConcZ: the same with tokens that differ only in leading zero bytes (2a, 00 2a, 00 00 2a, ...): different tokens
func RunTCPConcZ(p Params, n int) ConcTrace { return runTCPConc(p, n, true) }

func runTCPConc(p Params, n int, zeroTokens bool) ConcTrace {
	tr := ConcTrace{Op: "conc", Tr: "tcp", P: p, N: n, X: make([]ConcX, n)}
	ups := make([][]byte, n)
	for k := range ups {
		l := 0
		if p.L > 0 {
			l = p.L + k
		}
		ups[k] = Body(l, byte(k+1))
		tr.X[k] = ConcX{Ret: "none", Got: []Delivery{}, App: []Delivery{}, UpLen: l}
	}
	var mu sync.Mutex
	mk := func(szx, mms int, handler tcpclient.HandlerFunc) *conns.TCP {
		return conns.NewTCP(func(cfg *tcpclient.Config) {
			cfg.BlockwiseEnable = true
			cfg.BlockwiseSZX = blockwise.SZX(szx)
			cfg.BlockwiseTransferTimeout = 3 * time.Second
			cfg.MaxMessageSize = uint32(mms)
			if handler != nil {
				cfg.Handler = handler
			} else if zeroTokens {
				var tmu sync.Mutex
				nt := 0
				cfg.GetToken = func() (message.Token, error) {
					tmu.Lock()
					defer tmu.Unlock()
					nt++
					return append(make([]byte, (nt-1)%8), 0x2a+byte((nt-1)/8)), nil
				}
			}
		})
	}
	S := mk(p.SS, p.SMMS, func(w *responsewriter.ResponseWriter[*tcpclient.Conn], r *pool.Message) {
		if r.Code() < codes.GET || r.Code() > codes.DELETE {
			return
		}
		k := -1
		if q, err := r.Queries(); err == nil && len(q) == 1 && len(q[0]) == 3 && q[0][:2] == "x=" {
			k = int(q[0][2] - '1')
		}
		mu.Lock()
		tr.NApp++
		v := tr.NApp
		if k >= 0 && k < n {
			tr.X[k].App = append(tr.X[k].App, deliveryOf(r, ups[k], 0, 0))
		} else {
			tr.Stray++
		}
		mu.Unlock()
		code := codes.Content
		if r.Code() == codes.POST || r.Code() == codes.PUT {
			code = codes.Changed
		}
		_ = w.SetResponse(code, message.AppOctets, bytes.NewReader(DownBody(p.L2, v)), message.Option{ID: message.MaxAge, Value: []byte{7}}, message.Option{ID: message.ETag, Value: []byte{byte(v)}})
	})
	C := mk(p.CS, p.CMMS, nil)
	if zeroTokens {
		tr.Tr = "tcp-zero-tokens"
	}
	defer S.Close()
	defer C.Close()
	csm := conns.Frame(int(codes.CSM), []byte{1}, message.Options{{ID: message.TCPBlockWiseTransfer, Value: []byte{}}}, nil)
	C.Feed(csm)
	S.Feed(csm)
	offC, offS := len(C.Stream.Written(0)), len(S.Stream.Written(0))
	ctx, cancel := context.WithCancel(context.Background())
	defer cancel()
	var wg sync.WaitGroup
	for k := 0; k < n; k++ {
		wg.Add(1)
		go func(k int) {
			defer wg.Done()
			var resp *pool.Message
			var err error
			q := message.Option{ID: message.URIQuery, Value: []byte{'x', '=', byte('1' + k)}}
			if p.L > 0 {
				resp, err = C.CC.Post(ctx, "/res", message.AppOctets, bytes.NewReader(ups[k]), q)
			} else {
				resp, err = C.CC.Get(ctx, "/res", q)
			}
			mu.Lock()
			defer mu.Unlock()
			if err != nil {
				tr.X[k].Ret = "err"
				return
			}
			tr.X[k].Ret, tr.X[k].RetCode = "ok", int(resp.Code())
			tr.X[k].Got = append(tr.X[k].Got, deliveryOf(resp, nil, p.L2, tr.NApp))
		}(k)
	}
	done := make(chan struct{})
	go func() { wg.Wait(); close(done) }()
	relay := func(from, to *conns.TCP, off *int) bool {
		b := from.Stream.Written(*off)
		if len(b) == 0 {
			return false
		}
		_, rest := conns.Frames(b)
		m := len(b) - len(rest)
		if m == 0 {
			return false
		}
		for k := 0; k < m; k += 700 { // segment boundaries that do not respect frames
			e := k + 700
			if e > m {
				e = m
			}
			to.Feed(b[k:e])
		}
		*off += m
		return true
	}
	deadline := time.Now().Add(5 * time.Second)
	idleSince := time.Now()
	for time.Now().Before(deadline) {
		moved := relay(C, S, &offC)
		moved = relay(S, C, &offS) || moved
		finished := false
		select {
		case <-done:
			finished = true
		default:
		}
		if moved {
			idleSince = time.Now()
		} else if finished || time.Since(idleSince) > 300*time.Millisecond {
			break
		} else {
			time.Sleep(100 * time.Microsecond)
		}
	}
	cancel()
	select {
	case <-done:
	case <-time.After(3 * time.Second):
		mu.Lock()
		for k := range tr.X {
			if tr.X[k].Ret == "none" {
				tr.X[k].Ret = "hung"
			}
		}
		mu.Unlock()
	}
	mu.Lock()
	defer mu.Unlock()
	return tr
}
