package c04

import (
	"bufio"
	"encoding/json"
	"os"
	"sync"

	"verifharness/internal/rec"
)

type Job struct {
	Mode  string   `json:"mode"` // layer | udp | tcp
	P     Params   `json:"p"`
	Acts  []Act    `json:"acts"`
	Plan  []string `json:"plan"` // obsbw
	TokA  []int    `json:"tokA"` // mix
	TokB  []int    `json:"tokB"`
	NB    int      `json:"nb"`
	Order []int    `json:"order"`
	SB    int      `json:"sb"` // mix: the senders' block size (0 = 16)
}

func toBytes(x []int) []byte {
	b := make([]byte, len(x))
	for i, v := range x {
		b[i] = byte(v)
	}
	return b
}

// Run executes every job (one JSON object per line).
func Run(jobPath, out string) {
	f, err := os.Open(jobPath)
	if err != nil {
		rec.Die("open: %v", err)
	}
	defer f.Close()
	w := rec.Create(out)
	defer w.Close()
	sc := bufio.NewScanner(f)
	sc.Buffer(make([]byte, 1<<20), 64<<20)
	var jobs []Job
	for sc.Scan() {
		var j Job
		if err := json.Unmarshal(sc.Bytes(), &j); err != nil {
			rec.Die("job: %v", err)
		}
		jobs = append(jobs, j)
	}
	res := make([]any, len(jobs))
	var wg sync.WaitGroup
	sem := make(chan struct{}, 12)
	for i := range jobs {
		wg.Add(1)
		sem <- struct{}{}
		go func(i int) {
			defer wg.Done()
			switch jobs[i].Mode {
			case "layer":
				res[i] = RunLayer(jobs[i].P, jobs[i].Acts, false)
			case "layerc":
				res[i] = RunLayer(jobs[i].P, jobs[i].Acts, true)
			case "udp":
				res[i] = RunUDP(jobs[i].P, jobs[i].Acts)
			case "sock-udp", "sock-dtls", "sock-tcp", "sock-tls":
				res[i] = RunSock(jobs[i].Mode[5:], jobs[i].P)
			case "mix":
				if jobs[i].SB == 64 {
					res[i] = RunMixSB(toBytes(jobs[i].TokA), toBytes(jobs[i].TokB), jobs[i].NB, jobs[i].Order, 64)
				} else {
					res[i] = RunMix(toBytes(jobs[i].TokA), toBytes(jobs[i].TokB), jobs[i].NB, jobs[i].Order)
				}
			case "obsbw":
				res[i] = RunObsBW(jobs[i].P, jobs[i].Plan)
			case "tcpconcz":
				res[i] = RunTCPConcZ(jobs[i].P, 3)
			case "tcpconc":
				res[i] = RunTCPConc(jobs[i].P, 3)
			default:
				res[i] = RunTCP(jobs[i].P)
			}
			<-sem
		}(i)
	}
	wg.Wait()
	for _, r := range res {
		w.Put(r)
	}
}
