package c04

import (
	"bytes"
	"context"
	"sync"
	"time"

	"github.com/plgd-dev/go-coap/v3/message"
	"github.com/plgd-dev/go-coap/v3/message/codes"
	"github.com/plgd-dev/go-coap/v3/message/pool"
	"github.com/plgd-dev/go-coap/v3/net/blockwise"
	"github.com/plgd-dev/go-coap/v3/net/responsewriter"
)

// MixTrace: "concurrent transfers with different tokens never mix", at the server's block-wise layer with the
// interleaving fixed by the schedule: two peers' uploads A and B (bodies of NB blocks of 16 bytes, different tokens) reach
// the REAL net/blockwise layer block by block in the order `order` (0 = next block of A, 1 = next block of B). Every
// body handed to the application must be the body of the transfer whose token it carries, whole; each transfer is
// answered 2.31 for every block but the last and with the application's response for the last.
type MixDelivery struct {
	Who int     `json:"who"` // 0 / 1: whose token the delivered request carries (-1: neither)
	Len int     `json:"len"`
	Own [][]int `json:"own"` // the delivered bytes as pieces <<position, a, b>> of THAT transfer's body
}
type MixTrace struct {
	Op     string        `json:"op"` // mix
	Tokens [][]int       `json:"tokens"`
	NB     int           `json:"nb"`
	Order  []int         `json:"order"`
	Codes  []int         `json:"codes"` // response code per step (0: none)
	App    []MixDelivery `json:"app"`
	Panics int           `json:"panics"`
	Left   int           `json:"left"` // reassembly entries left after the transfer timeout
}

func RunMix(tokA, tokB []byte, nb int, order []int) MixTrace { return RunMixSB(tokA, tokB, nb, order, 16) }

// RunMixSB: the same with senders that keep their own block size sb (64: larger than the receiver's maximum of 16 - a foreign
// peer that does not adopt the size the receiver answers with); the bodies still have 16*nb bytes
func RunMixSB(tokA, tokB []byte, nb int, order []int, sb int) MixTrace {
	tr := MixTrace{Op: "mix", Tokens: [][]int{toInts(tokA), toInts(tokB)}, NB: nb, Order: order, Codes: []int{}, App: []MixDelivery{}}
	pl := pool.New(64, 2048)
	cc := &fakeCC{p: pl}
	srv := blockwise.New(cc, 3*time.Second, func(error) {}, nil)
	bodies := [][]byte{Body(16*nb, 0x21), Body(16*nb, 0x22)}
	toks := [][]byte{tokA, tokB}
	var mu sync.Mutex
	app := func(w *responsewriter.ResponseWriter[*fakeCC], r *pool.Message) {
		b, _ := r.ReadBody()
		d := MixDelivery{Who: -1, Len: len(b), Own: [][]int{}}
		for k := range toks {
			if bytes.Equal(r.Token(), toks[k]) {
				d.Who = k
				d.Own = Pieces(b, bodies[k])
			}
		}
		mu.Lock()
		tr.App = append(tr.App, d)
		mu.Unlock()
		_ = w.SetResponse(codes.Changed, message.TextPlain, bytes.NewReader([]byte("ok")))
	}
	next := []int{0, 0}
	ctx := context.Background()
	for _, who := range order {
		num := next[who]
		next[who]++
		func() {
			defer func() {
				if recover() != nil {
					tr.Panics++
				}
			}()
			r := pl.AcquireMessage(ctx)
			r.SetCode(codes.POST)
			r.SetToken(toks[who])
			r.MustSetPath("/res")
			r.SetContentFormat(message.AppOctets)
			szx := blockwise.SZX16
			if sb == 64 {
				szx = blockwise.SZX64
			}
			v, _ := blockwise.EncodeBlockOption(szx, int64(num), num < 16*nb/sb-1)
			r.SetOptionUint32(message.Block1, v)
			r.SetBody(bytes.NewReader(bodies[who][sb*num : sb*num+sb]))
			resp := cc.AcquireMessage(ctx)
			resp.SetToken(r.Token())
			rw := responsewriter.New(resp, cc, r.Options()...)
			rw.Message().SetModified(false)
			srv.Handle(rw, r, blockwise.SZX16, 2048, app)
			code := 0
			if rw.Message().IsModified() {
				code = int(rw.Message().Code())
			}
			tr.Codes = append(tr.Codes, code)
		}()
	}
	srv.CheckExpirations(time.Now().Add(time.Hour))
	tr.Left, _ = srv.VerifSizes()
	return tr
}

func toInts(b []byte) []int {
	out := make([]int, len(b))
	for i, x := range b {
		out[i] = int(x)
	}
	return out
}
