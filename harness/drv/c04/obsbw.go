package c04

import (
	"bytes"
	"context"
	"sync"
	"time"

	"github.com/plgd-dev/go-coap/v3/message"
	"github.com/plgd-dev/go-coap/v3/message/codes"
	"github.com/plgd-dev/go-coap/v3/message/pool"
	"github.com/plgd-dev/go-coap/v3/net/blockwise"
	"github.com/plgd-dev/go-coap/v3/net/responsewriter"
	udpclient "github.com/plgd-dev/go-coap/v3/udp/client"

	"verifharness/internal/conns"
	"verifharness/internal/hooks"
)

// ObsTrace: an observation whose representations need block-wise transfer (RFC 7959 2.6: the notification carries the
// first block, the client fetches the rest with a GET under a new token, which the server answers from the CURRENT
// representation), between two real udp connections joined by an in-order relay. The resource changes between and
// during the transfers (plan). Every body handed to the observer must be ONE representation, whole.
type ObsNote struct {
	Seq    int     `json:"seq"` // Observe value (-1: none)
	Len    int     `json:"len"`
	Pieces [][]int `json:"pieces"` // <<position, a, b, version>>
}
type ObsTrace struct {
	Op        string    `json:"op"` // obsbw
	P         Params    `json:"p"`
	Plan      []string  `json:"plan"`
	NVer      int       `json:"nver"`     // representations the resource went through
	Reg       string    `json:"reg"`      // ok | err | hung
	Notes     []ObsNote `json:"notes"`    // callback invocations, in order
	Final     int       `json:"final"`    // the version of the last notification sent
	LastSeen  int       `json:"lastSeen"` // the version of the last body handed to the observer
	Cancel    string    `json:"cancel"`   // ok | err | hung
	Panics    int       `json:"panics"`
	RcvSrvX   int       `json:"rcvSrvX"`
	SndSrvX   int       `json:"sndSrvX"`
	RcvCliX   int       `json:"rcvCliX"`
	SndCliX   int       `json:"sndCliX"`
	ObsCliX   int       `json:"obsCliX"`
	RcvCliNow int       `json:"rcvCliNow"` // the client's reassembly / send cache sizes when every notification of the plan has been
	SndCliNow int       `json:"sndCliNow"` // handed over and nothing is in flight - BEFORE any timeout has passed
	RcvSrvNow int       `json:"rcvSrvNow"`
}

// plan steps: "notify" (the resource changes and a notification is sent, the driver waits until the observer has it),
// "notify2" (two changes, two notifications back to back), "change" (the resource changes silently - the next blocks come
// from the new representation), "sendchange" (a notification is sent and the resource changes again at once, silently: the first block is of one
// representation, the blocks fetched afterwards of the next), "midchange" (a notification is sent and the resource changes again, silently, while its
// blocks are being fetched)
func RunObsBW(p Params, plan []string) ObsTrace {
	tr := ObsTrace{Op: "obsbw", P: p, Plan: plan, Notes: []ObsNote{}, Reg: "hung", Cancel: "hung"}
	var mu sync.Mutex
	cur := 1
	var obsTok []byte
	var srvConn *udpclient.Conn
	seq := uint32(10)
	mk := func(szx int, handler udpclient.HandlerFunc) *conns.UDP {
		return conns.NewUDP(func(cfg *udpclient.Config) {
			cfg.BlockwiseEnable = true
			cfg.BlockwiseSZX = blockwise.SZX(szx)
			cfg.BlockwiseTransferTimeout = 3 * time.Second
			cfg.TransmissionNStart = 4
			if handler != nil {
				cfg.Handler = handler
			}
		})
	}
	var blocksServed int
	bumpOnCont := false
	var onBlock func(n int) // called (unlocked) after the n-th continuation block was served
	S := mk(p.SS, func(w *responsewriter.ResponseWriter[*udpclient.Conn], r *pool.Message) {
		if r.Code() != codes.GET {
			return
		}
		mu.Lock()
		if _, err := r.GetOptionUint32(message.Block2); err == nil && bumpOnCont {
			bumpOnCont = false // the resource changed just before the client came for the rest of the notification
			cur++
		}
		v := cur
		opts := []message.Option{{ID: message.ETag, Value: []byte{byte(v)}}}
		if o, err := r.Observe(); err == nil && o == 0 {
			obsTok = append([]byte(nil), r.Token()...)
			srvConn = w.Conn()
			seq++
			opts = append(opts, message.Option{ID: message.Observe, Value: encU(seq)})
		}
		var cb func(int)
		n := 0
		if _, err := r.GetOptionUint32(message.Block2); err == nil {
			blocksServed++
			n, cb = blocksServed, onBlock
		}
		mu.Unlock()
		_ = w.SetResponse(codes.Content, message.AppOctets, bytes.NewReader(DownBody(p.L2, v)), opts...)
		if cb != nil {
			cb(n)
		}
	})
	C := mk(p.CS, nil)
	defer S.Close()
	defer C.Close()
	// in-order relays (one goroutine per direction)
	relay := func(from, to *conns.UDP) {
		ch := make(chan []byte, 1024)
		from.Sess.OnWrite = func(raw []byte) { ch <- raw }
		go func() {
			for raw := range ch {
				func() {
					defer func() {
						if recover() != nil {
							mu.Lock()
							tr.Panics++
							mu.Unlock()
						}
					}()
					_ = to.CC.Process(nil, raw)
				}()
			}
		}()
	}
	relay(C, S)
	relay(S, C)
	cb := func(n *pool.Message) {
		b, _ := n.ReadBody()
		mu.Lock()
		nv := cur
		mu.Unlock()
		note := ObsNote{Seq: -1, Len: len(b), Pieces: PiecesV(b, p.L2, nv+1)}
		if o, err := n.Observe(); err == nil {
			note.Seq = int(o)
		}
		mu.Lock()
		tr.Notes = append(tr.Notes, note)
		mu.Unlock()
	}
	ctx, cancel := context.WithTimeout(context.Background(), 10*time.Second)
	defer cancel()
	type regRes struct {
		o interface {
			Cancel(context.Context, ...message.Option) error
		}
		err error
	}
	rc := make(chan regRes, 1)
	go func() { o, err := C.CC.Observe(ctx, "/obs", cb); rc <- regRes{o, err} }()
	var obs interface {
		Cancel(context.Context, ...message.Option) error
	}
	select {
	case r := <-rc:
		if r.err != nil {
			tr.Reg = "err"
			return tr
		}
		tr.Reg, obs = "ok", r.o
	case <-time.After(4 * time.Second):
		return tr
	}
	nNotes := func() int { mu.Lock(); defer mu.Unlock(); return len(tr.Notes) }
	waitNotes := func(n int) { hooks.WaitFor(2*time.Second, func() bool { return nNotes() >= n }) }
	waitNotes(1)
	send := func() {
		mu.Lock()
		cur++
		v := cur
		seq++
		s := seq
		tok, sc := obsTok, srvConn
		mu.Unlock()
		if sc == nil {
			return
		}
		m := sc.AcquireMessage(sc.Context())
		defer sc.ReleaseMessage(m)
		m.SetCode(codes.Content)
		m.SetToken(tok)
		m.SetContentFormat(message.AppOctets)
		m.SetObserve(s)
		m.SetETag([]byte{byte(v)})
		m.SetBody(bytes.NewReader(DownBody(p.L2, v)))
		_ = sc.WriteMessage(m)
		tr.Final = v
	}
	for _, step := range plan {
		before := nNotes()
		switch step {
		case "notify":
			send()
			waitNotes(before + 1)
		case "notify2":
			send()
			send()
			waitNotes(before + 1)
			time.Sleep(3 * time.Millisecond)
		case "change":
			mu.Lock()
			cur++
			mu.Unlock()
		case "sendchange": // a notification, and the resource changes again before the client has fetched the rest of it
			mu.Lock()
			bumpOnCont = true
			mu.Unlock()
			send()
			waitNotes(before + 1)
			mu.Lock()
			if bumpOnCont { // (a body that fits one block is not fetched)
				bumpOnCont = false
				cur++
			}
			mu.Unlock()
		case "midchange":
			mu.Lock()
			base := blocksServed
			onBlock = func(n int) {
				if n == base+1 { // after the first continuation block of this transfer was served
					mu.Lock()
					cur++
					onBlock = nil
					mu.Unlock()
				}
			}
			mu.Unlock()
			send()
			waitNotes(before + 1)
			mu.Lock()
			onBlock = nil
			mu.Unlock()
		}
		C.Quiesce()
		S.Quiesce()
	}
	time.Sleep(2 * time.Millisecond)
	_, tr.RcvCliNow, tr.SndCliNow = C.CC.VerifAux()
	_, tr.RcvSrvNow, _ = S.CC.VerifAux()
	cc := make(chan error, 1)
	go func() { cc <- obs.Cancel(ctx) }()
	select {
	case err := <-cc:
		if err != nil {
			tr.Cancel = "err"
		} else {
			tr.Cancel = "ok"
		}
	case <-time.After(4 * time.Second):
	}
	mu.Lock()
	tr.NVer = cur
	if n := len(tr.Notes); n > 0 {
		ps := tr.Notes[n-1].Pieces
		if len(ps) > 0 {
			tr.LastSeen = ps[0][3]
		}
	}
	mu.Unlock()
	far := time.Now().Add(time.Hour)
	S.CC.CheckExpirations(far)
	C.CC.CheckExpirations(far)
	_, tr.RcvSrvX, tr.SndSrvX = S.CC.VerifAux()
	var ob []uint64
	ob, tr.RcvCliX, tr.SndCliX = C.CC.VerifAux()
	tr.ObsCliX = len(ob)
	return tr
}

func encU(v uint32) []byte {
	b := []byte{byte(v >> 16), byte(v >> 8), byte(v)}
	for len(b) > 0 && b[0] == 0 {
		b = b[1:]
	}
	return b
}
