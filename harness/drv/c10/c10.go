// Package c10 runs real go-coap servers (UDP, TCP, DTLS-PSK, TLS) on loopback sockets and executes TLC-generated
// interleavings (specs/srv) of well-behaved peers and adversarial peers (arbitrary bytes, truncated and oversize
// messages, responses with unknown tokens, unsolicited ACK/RST, connect-and-stall, connect-and-close), each peer
// being a socket of its own. It records what the well-behaved peers received. A second part exercises discovery
// routing on the UDP server. TLC (specs/srv/RecC10.tla) judges.
package c10

import (
	"bufio"
	"bytes"
	"context"
	"crypto/ecdsa"
	"crypto/elliptic"
	"crypto/rand"
	"crypto/tls"
	"crypto/x509"
	"crypto/x509/pkix"
	"encoding/json"
	"fmt"
	"math/big"
	"net"
	"os"
	"sync"
	"sync/atomic"
	"syscall"
	"time"

	piondtls "github.com/pion/dtls/v3"
	"github.com/plgd-dev/go-coap/v3/dtls"
	dtlsserver "github.com/plgd-dev/go-coap/v3/dtls/server"
	"github.com/plgd-dev/go-coap/v3/message"
	"github.com/plgd-dev/go-coap/v3/message/codes"
	"github.com/plgd-dev/go-coap/v3/message/pool"
	coapNet "github.com/plgd-dev/go-coap/v3/net"
	"github.com/plgd-dev/go-coap/v3/net/responsewriter"
	"github.com/plgd-dev/go-coap/v3/options"
	"github.com/plgd-dev/go-coap/v3/pkg/runner/periodic"
	"github.com/plgd-dev/go-coap/v3/tcp"
	tcpclient "github.com/plgd-dev/go-coap/v3/tcp/client"
	tcpserver "github.com/plgd-dev/go-coap/v3/tcp/server"
	"github.com/plgd-dev/go-coap/v3/udp"
	udpclient "github.com/plgd-dev/go-coap/v3/udp/client"
	udpserver "github.com/plgd-dev/go-coap/v3/udp/server"

	"verifharness/internal/conns"
	"verifharness/internal/hooks"
	"verifharness/internal/memnet"
	"verifharness/internal/rec"
)

type EvIn struct {
	E string `json:"e"`
	P int    `json:"p"`
	C string `json:"c"`
}

type EvOut struct {
	E        string `json:"e"`
	P        int    `json:"p"`
	C        string `json:"c"`
	Answered bool   `json:"answered"`
	TokOK    bool   `json:"tokok"`
	EchoOK   bool   `json:"echook"`
	Conn     int    `json:"conn"` // server-side connection number that served it
	Nth      int    `json:"nth"`  // this was the n-th request on that connection
}

type Trace struct {
	Op        string  `json:"op"`
	Transport string  `json:"transport"`
	Ev        []EvOut `json:"ev"`
	Serving   bool    `json:"serving"`  // Serve had not returned by the end
	NewConns  []int   `json:"newconns"` // per good peer (index 1..2): connections the server created for its address
	Errs      int     `json:"errs"`
	Announced int     `json:"announced"` // connections the server announced (OnNewConn)
	Undone    int     `json:"undone"`    // ... whose done signal had not completed after every peer was gone and the server had stopped
}

// ---- servers -----------------------------------------------------------------------------------------------
type srv struct {
	transport string
	addr      string
	stop      func()
	served    chan error
	mu        sync.Mutex
	connNo    map[string]int // remote address -> number of the (latest) server-side connection
	perConn   map[any]int    // connection object -> requests seen
	connID    map[any]int
	newByAddr map[string]int
	errs      int
	dones     []<-chan struct{}
}

func (s *srv) onNew(cc any, raddr string) {
	s.mu.Lock()
	s.newByAddr[raddr]++
	s.connID[cc] = len(s.connID) + 1
	if d, ok := cc.(interface{ Done() <-chan struct{} }); ok {
		s.dones = append(s.dones, d.Done())
	}
	s.mu.Unlock()
}

// serve: answer with "<connection id>:<n-th request on it>:<echo of the request payload>"
func (s *srv) serve(cc any, body []byte) []byte {
	s.mu.Lock()
	s.perConn[cc]++
	out := fmt.Sprintf("%d:%d:%s", s.connID[cc], s.perConn[cc], body)
	s.mu.Unlock()
	return []byte(out)
}

func pskConfig() *piondtls.Config {
	return &piondtls.Config{
		PSK:             func([]byte) ([]byte, error) { return []byte{0xAB, 0xC1, 0x23}, nil },
		PSKIdentityHint: []byte("verif"),
		CipherSuites:    []piondtls.CipherSuiteID{piondtls.TLS_PSK_WITH_AES_128_CCM_8},
	}
}

func selfSigned() (tls.Certificate, *x509.CertPool) {
	key, _ := ecdsa.GenerateKey(elliptic.P256(), rand.Reader)
	tpl := &x509.Certificate{SerialNumber: big.NewInt(1), Subject: pkix.Name{CommonName: "localhost"}, NotBefore: time.Now().Add(-time.Hour), NotAfter: time.Now().Add(time.Hour),
		KeyUsage: x509.KeyUsageDigitalSignature | x509.KeyUsageCertSign, ExtKeyUsage: []x509.ExtKeyUsage{x509.ExtKeyUsageServerAuth}, IsCA: true, BasicConstraintsValid: true,
		IPAddresses: []net.IP{net.IPv4(127, 0, 0, 1)}, DNSNames: []string{"localhost"}}
	der, _ := x509.CreateCertificate(rand.Reader, tpl, tpl, &key.PublicKey, key)
	cert, _ := x509.ParseCertificate(der)
	cp := x509.NewCertPool()
	cp.AddCert(cert)
	return tls.Certificate{Certificate: [][]byte{der}, PrivateKey: key}, cp
}

var tlsCert, tlsPool = selfSigned()

func start(transport string) *srv {
	s := &srv{transport: transport, served: make(chan error, 1), connNo: map[string]int{}, perConn: map[any]int{}, connID: map[any]int{}, newByAddr: map[string]int{}}
	onErr := func(error) { s.mu.Lock(); s.errs++; s.mu.Unlock() }
	udpH := func(w *responsewriter.ResponseWriter[*udpclient.Conn], r *pool.Message) {
		if r.Code() < codes.GET || r.Code() > codes.DELETE {
			return
		}
		b, _ := r.ReadBody()
		_ = w.SetResponse(codes.Content, message.TextPlain, bytes.NewReader(s.serve(w.Conn(), b)))
	}
	tcpH := func(w *responsewriter.ResponseWriter[*tcpclient.Conn], r *pool.Message) {
		if r.Code() < codes.GET || r.Code() > codes.DELETE {
			return
		}
		b, _ := r.ReadBody()
		_ = w.SetResponse(codes.Content, message.TextPlain, bytes.NewReader(s.serve(w.Conn(), b)))
	}
	switch transport {
	case "udp":
		l, err := coapNet.NewListenUDP("udp4", "127.0.0.1:0")
		if err != nil {
			rec.Die("listen udp: %v", err)
		}
		sv := udp.NewServer(options.WithHandlerFunc(udpH), options.WithErrors(onErr), options.WithOnNewConn(func(cc *udpclient.Conn) { s.onNew(cc, cc.RemoteAddr().String()) }))
		s.addr = l.LocalAddr().String()
		s.stop = func() { sv.Stop(); _ = l.Close() }
		go func() { s.served <- sv.Serve(l) }()
	case "dtls":
		l, err := coapNet.NewDTLSListener("udp4", "127.0.0.1:0", pskConfig())
		if err != nil {
			rec.Die("listen dtls: %v", err)
		}
		sv := dtls.NewServer(options.WithHandlerFunc(udpH), options.WithErrors(onErr), options.WithOnNewConn(func(cc *udpclient.Conn) { s.onNew(cc, cc.RemoteAddr().String()) }),
			options.WithDTLSHandshakeTimeout(500*time.Millisecond))
		s.addr = l.Addr().String()
		s.stop = func() { sv.Stop(); _ = l.Close() }
		go func() { s.served <- sv.Serve(&flakyListener{inner: l}) }()
		_ = dtlsserver.DefaultConfig
	case "tcp":
		l, err := coapNet.NewTCPListener("tcp4", "127.0.0.1:0")
		if err != nil {
			rec.Die("listen tcp: %v", err)
		}
		sv := tcp.NewServer(options.WithHandlerFunc(tcpH), options.WithErrors(onErr), options.WithOnNewConn(func(cc *tcpclient.Conn) { s.onNew(cc, cc.RemoteAddr().String()) }))
		s.addr = l.Addr().String()
		s.stop = func() { sv.Stop(); _ = l.Close() }
		go func() { s.served <- sv.Serve(&flakyListener{inner: l}) }()
		_ = tcpserver.DefaultConfig
	case "tls":
		l, err := coapNet.NewTLSListener("tcp4", "127.0.0.1:0", &tls.Config{Certificates: []tls.Certificate{tlsCert}})
		if err != nil {
			rec.Die("listen tls: %v", err)
		}
		sv := tcp.NewServer(options.WithHandlerFunc(tcpH), options.WithErrors(onErr), options.WithOnNewConn(func(cc *tcpclient.Conn) { s.onNew(cc, cc.RemoteAddr().String()) }))
		s.addr = l.Addr().String()
		s.stop = func() { sv.Stop(); _ = l.Close() }
		go func() { s.served <- sv.Serve(&flakyListener{inner: l}) }()
	}
	_ = udpserver.DefaultConfig
	return s
}

// flakyListener: every second Accept fails once with a transient error (EMFILE: the process is out of file descriptors for a
// moment - connect-and-stall peers are enough to cause that) before the real accept is tried: the server goes on accepting
type flakyListener struct {
	inner interface {
		AcceptWithContext(ctx context.Context) (net.Conn, error)
		Close() error
	}
	n atomic.Int64
}

func (f *flakyListener) AcceptWithContext(ctx context.Context) (net.Conn, error) {
	if f.n.Add(1)%2 == 0 {
		return nil, &net.OpError{Op: "accept", Net: "tcp", Err: syscall.EMFILE}
	}
	return f.inner.AcceptWithContext(ctx)
}
func (f *flakyListener) Close() error { return f.inner.Close() }

// ---- peers -------------------------------------------------------------------------------------------------
type goodPeer interface {
	request(n int) (answered bool, tokOK bool, body []byte)
	localAddr() string
	close()
}

const rto = 2 * time.Second

// raw UDP peer
type udpPeer struct {
	c   *net.UDPConn
	id  int
	mid int32
}

func (p *udpPeer) localAddr() string { return p.c.LocalAddr().String() }
func (p *udpPeer) close()            { _ = p.c.Close() }
func (p *udpPeer) request(n int) (bool, bool, []byte) {
	p.mid++
	tok := []byte{byte(p.id), byte(n), 0x10}
	pay := []byte(fmt.Sprintf("p%d-r%d", p.id, n))
	_, _ = p.c.Write(memnet.Build(message.Confirmable, int(codes.GET), p.mid, tok, message.Options{{ID: message.URIPath, Value: []byte("e")}}, pay))
	buf := make([]byte, 2048)
	deadline := time.Now().Add(rto)
	for {
		_ = p.c.SetReadDeadline(deadline)
		k, err := p.c.Read(buf)
		if err != nil {
			return false, false, nil
		}
		d, err := memnet.Parse(buf[:k])
		if err != nil || d.Code == int(codes.Empty) {
			continue
		}
		return true, bytes.Equal(d.Token, tok), d.Payload
	}
}

// raw TCP peer
type tcpPeer struct {
	c   net.Conn
	id  int
	buf []byte
}

func (p *tcpPeer) localAddr() string { return p.c.LocalAddr().String() }
func (p *tcpPeer) close()            { _ = p.c.Close() }
func (p *tcpPeer) request(n int) (bool, bool, []byte) {
	tok := []byte{byte(p.id), byte(n), 0x20}
	pay := []byte(fmt.Sprintf("p%d-r%d", p.id, n))
	if _, err := p.c.Write(conns.Frame(int(codes.GET), tok, message.Options{{ID: message.URIPath, Value: []byte("e")}}, pay)); err != nil {
		return false, false, nil
	}
	deadline := time.Now().Add(rto)
	tmp := make([]byte, 4096)
	for {
		frames, rest := conns.Frames(p.buf)
		p.buf = rest
		for _, f := range frames {
			if f.Code == int(codes.Content) {
				return true, bytes.Equal(f.Token, tok), f.Payload
			}
		}
		_ = p.c.SetReadDeadline(deadline)
		k, err := p.c.Read(tmp)
		if err != nil {
			return false, false, nil
		}
		p.buf = append(p.buf, tmp[:k]...)
	}
}

// library clients for the secured transports
type libUDP struct {
	cc *udpclient.Conn
	id int
}

func (p *libUDP) localAddr() string { return p.cc.LocalAddr().String() }
func (p *libUDP) close()            { _ = p.cc.Close() }
func (p *libUDP) request(n int) (bool, bool, []byte) {
	ctx, cancel := context.WithTimeout(context.Background(), rto)
	defer cancel()
	pay := []byte(fmt.Sprintf("p%d-r%d", p.id, n))
	resp, err := p.cc.Post(ctx, "/e", message.TextPlain, bytes.NewReader(pay))
	if err != nil {
		return false, false, nil
	}
	b, _ := resp.ReadBody()
	return true, true, b
}

type libTCP struct {
	cc *tcpclient.Conn
	id int
}

func (p *libTCP) localAddr() string { return p.cc.LocalAddr().String() }
func (p *libTCP) close()            { _ = p.cc.Close() }
func (p *libTCP) request(n int) (bool, bool, []byte) {
	ctx, cancel := context.WithTimeout(context.Background(), rto)
	defer cancel()
	pay := []byte(fmt.Sprintf("p%d-r%d", p.id, n))
	resp, err := p.cc.Post(ctx, "/e", message.TextPlain, bytes.NewReader(pay))
	if err != nil {
		return false, false, nil
	}
	b, _ := resp.ReadBody()
	return true, true, b
}

func newGood(s *srv, id int) goodPeer {
	switch s.transport {
	case "udp":
		ra, _ := net.ResolveUDPAddr("udp4", s.addr)
		c, err := net.DialUDP("udp4", nil, ra)
		if err != nil {
			rec.Die("dial udp: %v", err)
		}
		return &udpPeer{c: c, id: id, mid: int32(id * 1000)}
	case "tcp":
		c, err := net.DialTimeout("tcp4", s.addr, rto)
		if err != nil {
			return deadPeer{} // the server does not accept: recorded as an unanswered request, judged by TLC
		}
		return &tcpPeer{c: c, id: id}
	case "dtls":
		// the context also becomes the connection's context: cancel it only if the handshake is still stuck after rto
		ctx, cancel := context.WithCancel(context.Background())
		timer := time.AfterFunc(rto, cancel)
		cc, err := dtls.Dial(s.addr, pskConfig(), options.WithContext(ctx))
		if !timer.Stop() && err == nil {
			_ = cc.Close()
			return deadPeer{}
		}
		if err != nil {
			return deadPeer{}
		}
		return &libUDP{cc: cc, id: id}
	default:
		cc, err := tcp.Dial(s.addr, options.WithTLS(&tls.Config{RootCAs: tlsPool, ServerName: "localhost"}), options.WithDialer(&net.Dialer{Timeout: rto}))
		if err != nil {
			return deadPeer{}
		}
		return &libTCP{cc: cc, id: id}
	}
}

// deadPeer: a well-behaved peer that could not even connect (handshake never answered)
type deadPeer struct{}

func (deadPeer) request(int) (bool, bool, []byte) { return false, false, nil }
func (deadPeer) localAddr() string                { return "" }
func (deadPeer) close()                           {}

// adversary: a socket of its own per adversary id (re-opened when the server or the peer closed it)
type badPeer struct {
	s   *srv
	udp *net.UDPConn
	tcp net.Conn
	n   int
}

// ask: a well-formed confirmable request from the bad peer's own socket (datagram transports), answered or not within a second
func (b *badPeer) ask() bool {
	if b.s.transport != "udp" {
		return true // (stream / dtls peers that sent garbage have lost their connection: nothing to ask on)
	}
	if b.udp == nil {
		b.send("stall")
	}
	if b.udp == nil {
		return true
	}
	b.n++
	mid := int32(7000 + b.n)
	tok := []byte{0xBA, byte(b.n)}
	_, _ = b.udp.Write(memnet.Build(message.Confirmable, int(codes.GET), mid, tok, message.Options{{ID: message.URIPath, Value: []byte("e")}}, []byte("again")))
	buf := make([]byte, 2048)
	deadline := time.Now().Add(time.Second)
	for {
		_ = b.udp.SetReadDeadline(deadline)
		k, err := b.udp.Read(buf)
		if err != nil {
			return false
		}
		if d, err := memnet.Parse(buf[:k]); err == nil && bytes.Equal(d.Token, tok) && d.Code != int(codes.Empty) {
			return true
		}
	}
}

func (b *badPeer) send(class string) {
	b.n++
	datagram := b.s.transport == "udp" || b.s.transport == "dtls"
	var payload []byte
	switch class {
	case "garbage":
		payload = []byte{0xff, 0x00, 0xfe, byte(b.n), 0x13, 0x37, 0xf0, 0x0f, 0xff, 0xff}
		// ... in turn with messages whose header is fine and whose option list is cut inside an extended delta / length
		// (one byte into a two-byte extension, in front of a one-byte extension) or uses the reserved nibble 15
		tails := [][]byte{nil, {0xE0, 0x00}, {0xD0}, {0x0E, 0x00}, {0xF1}, {0xEE, 0x00, 0x00, 0x00}}
		if tl := tails[b.n%len(tails)]; tl != nil {
			if datagram {
				payload = append([]byte{0x40, 0x01, byte(b.n >> 8), byte(b.n)}, tl...)
			} else {
				payload = append([]byte{byte(len(tl) << 4), 0x01}, tl...)
			}
		}
	case "trunc":
		if datagram {
			payload = memnet.Build(message.Confirmable, int(codes.GET), int32(b.n), []byte{1, 2, 3, 4}, message.Options{{ID: message.URIPath, Value: []byte("abcdef")}}, []byte("xyz"))[:7]
		} else {
			payload = conns.Frame(int(codes.GET), []byte{1, 2, 3, 4}, message.Options{{ID: message.URIPath, Value: []byte("abcdef")}}, []byte("xyz"))[:5]
		}
	case "oversize":
		if datagram {
			payload = memnet.Build(message.NonConfirmable, int(codes.POST), int32(b.n), []byte{9}, nil, bytes.Repeat([]byte{1}, 1400))
		} else {
			payload = []byte{0xf0, 0x7f, 0xff, 0xff, 0x00, 0x02}
		}
	case "unktok":
		if datagram {
			payload = memnet.Build(message.NonConfirmable, int(codes.Content), int32(b.n), []byte{0xde, 0xad, byte(b.n)}, nil, []byte("stray"))
		} else {
			payload = conns.Frame(int(codes.Content), []byte{0xde, 0xad, byte(b.n)}, nil, []byte("stray"))
		}
	case "ack":
		if datagram {
			payload = memnet.Build(message.Acknowledgement, int(codes.Empty), int32(4000+b.n), nil, nil, nil)
		} else {
			payload = conns.Frame(int(codes.Pong), []byte{byte(b.n)}, nil, nil)
		}
	case "rst":
		if datagram {
			payload = memnet.Build(message.Reset, int(codes.Empty), int32(5000+b.n), nil, nil, nil)
		} else {
			payload = conns.Frame(int(codes.Abort), nil, nil, nil)
		}
	case "stall":
		payload = nil
	case "close":
		if b.udp != nil {
			_ = b.udp.Close()
			b.udp = nil
		}
		if b.tcp != nil {
			_ = b.tcp.Close()
			b.tcp = nil
		}
		return
	}
	if datagram {
		if b.udp == nil {
			ra, _ := net.ResolveUDPAddr("udp4", b.s.addr)
			b.udp, _ = net.DialUDP("udp4", nil, ra)
		}
		if payload != nil && b.udp != nil {
			_, _ = b.udp.Write(payload)
		}
		return
	}
	if b.tcp == nil {
		c, err := net.DialTimeout("tcp4", b.s.addr, rto)
		if err != nil {
			return
		}
		b.tcp = c
	}
	if payload != nil {
		if _, err := b.tcp.Write(payload); err != nil {
			_ = b.tcp.Close()
			b.tcp = nil
		}
	}
}

func runServer(transport string, evs []EvIn) Trace {
	tr := Trace{Op: "server", Transport: transport, Ev: []EvOut{}, NewConns: []int{0, 0, 0}}
	s := start(transport)
	good := map[int]goodPeer{}
	bad := map[int]*badPeer{}
	counts := map[int]int{}
	for _, e := range evs {
		o := EvOut{E: e.E, P: e.P, C: e.C}
		if e.E == "good" {
			g := good[e.P]
			if _, dead := g.(deadPeer); g == nil || dead {
				g = newGood(s, e.P)
				good[e.P] = g
			}
			counts[e.P]++
			ans, tokOK, body := g.request(counts[e.P])
			o.Answered, o.TokOK = ans, tokOK
			if ans {
				var echo string
				fmt.Sscanf(string(body), "%d:%d:%s", &o.Conn, &o.Nth, &echo)
				o.EchoOK = echo == fmt.Sprintf("p%d-r%d", e.P, counts[e.P])
			}
		} else {
			b := bad[e.P]
			if b == nil {
				b = &badPeer{s: s}
				bad[e.P] = b
			}
			if e.C == "wellformed" {
				// a peer that has misbehaved now sends a proper request from the same address: it is served like anybody's
				o.Answered = b.ask()
			} else {
				b.send(e.C)
			}
			time.Sleep(500 * time.Microsecond) // let the server look at it
		}
		tr.Ev = append(tr.Ev, o)
	}
	select {
	case <-s.served:
		tr.Serving = false
	default:
		tr.Serving = true
	}
	s.mu.Lock()
	for id, g := range good {
		if id >= 1 && id <= 2 {
			tr.NewConns[id] = s.newByAddr[g.localAddr()]
		}
	}
	tr.Errs = s.errs
	s.mu.Unlock()
	for _, g := range good {
		g.close()
	}
	for _, b := range bad {
		b.send("close")
	}
	s.stop()
	select {
	case <-s.served:
	case <-time.After(3 * time.Second):
	}
	tr.NewConns = tr.NewConns[:3]
	// every peer is gone and the server has stopped: every connection it announced has been dismantled (a connection that
	// is never dismantled keeps its socket and its goroutines: enough of them and the server stops accepting)
	s.mu.Lock()
	dones := append([]<-chan struct{}(nil), s.dones...)
	s.mu.Unlock()
	tr.Announced = len(dones)
	deadline := time.After(2 * time.Second)
	for _, d := range dones {
		select {
		case <-d:
		case <-deadline:
			tr.Undone++
			deadline = time.After(time.Millisecond)
		}
	}
	return tr
}

// ---- discovery ----------------------------------------------------------------------------------------------
type Got struct {
	Receiver int `json:"receiver"` // which Discover call's receiver was invoked (its token number)
	Tok      int `json:"tok"`      // token number carried by the response
	FromPort int `json:"fromport"` // source port the response was sent from
	CCPort   int `json:"ccport"`   // remote port of the connection handed to the receiver
}

type DiscTrace struct {
	DupOnWire     bool   `json:"dupOnWire"`  // ... although refused, it was transmitted
	DupRefused    bool   `json:"dupRefused"` // a discovery with the token of a pending one was refused
	Op            string `json:"op"`
	Got           []Got  `json:"got"`
	Expected      int    `json:"expected"`
	Strays        int    `json:"strays"`        // responses sent with a token nobody registered
	HandlerStrays int    `json:"handlerStrays"` // ... that reached the server's ordinary handler
}

func runDiscovery(seed int64) DiscTrace {
	tr := DiscTrace{Op: "discover", Got: []Got{}}
	var mu sync.Mutex
	l, err := coapNet.NewListenUDP("udp4", "127.0.0.1:0")
	if err != nil {
		rec.Die("listen udp: %v", err)
	}
	toks := map[string]int{}
	sv := udp.NewServer(options.WithHandlerFunc(func(_ *responsewriter.ResponseWriter[*udpclient.Conn], r *pool.Message) {
		if r.Code() == codes.Content {
			mu.Lock()
			tr.HandlerStrays++
			mu.Unlock()
		}
	}), options.WithGetToken(func() (message.Token, error) {
		mu.Lock()
		defer mu.Unlock()
		t := message.Token{0xD1, byte(len(toks) + 1)}
		toks[string(t)] = len(toks) + 1
		return t, nil
	}))
	go func() { _ = sv.Serve(l) }()
	defer func() { sv.Stop(); _ = l.Close() }()
	// responders: raw sockets that answer every GET they see, and also send answers with foreign / unknown tokens
	nResp := 3
	resp := make([]*net.UDPConn, nResp)
	for i := range resp {
		c, err := net.ListenUDP("udp4", &net.UDPAddr{IP: net.IPv4(127, 0, 0, 1)})
		if err != nil {
			rec.Die("listen responder: %v", err)
		}
		resp[i] = c
		defer c.Close()
	}
	serverAddr, _ := net.ResolveUDPAddr("udp4", l.LocalAddr().String())
	// two discoveries, each addressed to one responder; responder 3 answers both tokens although it was never asked
	ctx, cancel := context.WithTimeout(context.Background(), 1500*time.Millisecond)
	defer cancel()
	var wg sync.WaitGroup
	for d := 1; d <= 2; d++ {
		wg.Add(1)
		go func(d int) {
			defer wg.Done()
			_ = sv.Discover(ctx, resp[d-1].LocalAddr().String(), "/oic/res", func(cc *udpclient.Conn, r *pool.Message) {
				mu.Lock()
				defer mu.Unlock()
				port := 0
				if ua, ok := cc.RemoteAddr().(*net.UDPAddr); ok {
					port = ua.Port
				}
				var from int
				b, _ := r.ReadBody()
				fmt.Sscanf(string(b), "from:%d", &from)
				tr.Got = append(tr.Got, Got{Receiver: d, Tok: toks[string(r.Token())], FromPort: from, CCPort: port})
			})
		}(d)
		time.Sleep(20 * time.Millisecond) // tokens are handed out in call order
	}
	// responders 1 and 2 read their request and answer it
	seenTok := make([][]byte, 2)
	for i := 0; i < 2; i++ {
		buf := make([]byte, 1500)
		_ = resp[i].SetReadDeadline(time.Now().Add(time.Second))
		k, _, err := resp[i].ReadFromUDP(buf)
		if err != nil {
			continue
		}
		d, err := memnet.Parse(buf[:k])
		if err != nil {
			continue
		}
		seenTok[i] = d.Token
	}
	// a third caller tries to discover with the token of the first, still pending discovery: it must be refused and
	// must not disturb the first (its responses still reach receiver 1)
	if seenTok[0] != nil {
		dreq := pool.NewMessage(ctx)
		if err := dreq.SetupGet("/oic/res", message.Token(seenTok[0])); err == nil {
			dreq.SetType(message.NonConfirmable)
			dreq.SetMessageID(0x5d5d)
			derr := make(chan error, 1)
			go func() {
				derr <- sv.DiscoveryRequest(dreq, resp[2].LocalAddr().String(), func(cc *udpclient.Conn, r *pool.Message) {
					mu.Lock()
					tr.Got = append(tr.Got, Got{Receiver: 3, Tok: toks[string(r.Token())]})
					mu.Unlock()
				})
			}()
			select {
			case e := <-derr:
				tr.DupRefused = e != nil
			case <-time.After(300 * time.Millisecond):
				tr.DupRefused = false // accepted: it is now waiting for responses
			}
			// a refused request has no effect: the responder it was addressed to (the third, which nobody else asks) sees nothing
			buf := make([]byte, 1500)
			_ = resp[2].SetReadDeadline(time.Now().Add(150 * time.Millisecond))
			if k, _, err := resp[2].ReadFromUDP(buf); err == nil {
				if d, err := memnet.Parse(buf[:k]); err == nil && d.Code == int(codes.GET) {
					tr.DupOnWire = true
				}
			}
		}
	}
	send := func(i int, tok []byte, mid int32) {
		port := resp[i].LocalAddr().(*net.UDPAddr).Port
		_, _ = resp[i].WriteToUDP(memnet.Build(message.NonConfirmable, int(codes.Content), mid, tok, nil, []byte(fmt.Sprintf("from:%d", port))), serverAddr)
	}
	mid := int32(seed % 1000)
	for i := 0; i < 2; i++ {
		if seenTok[i] != nil {
			mid++
			send(i, seenTok[i], mid)
			tr.Expected++
			// the third responder answers with the same token from its own address
			mid++
			send(2, seenTok[i], mid)
			tr.Expected++
			// and the OTHER asked responder answers with this token too
			mid++
			send(1-i, seenTok[i], mid)
			tr.Expected++
		}
	}
	// answers with a token nobody registered
	mid++
	send(2, []byte{0xEE, 0x01}, mid)
	tr.Strays++
	time.Sleep(300 * time.Millisecond)
	cancel()
	wg.Wait()
	mu.Lock()
	defer mu.Unlock()
	return tr
}

// StuckTrace: peer A keeps a handler of the udp server busy and fills its connection's receive queue (the server's one
// read loop is then parked handing A's next datagram over); A's server-side connection is closed; from then on the
// server must serve peer B again ("the closure of one peer never changes what other peers receive", "never deadlocks").
type StuckTrace struct {
	Op        string `json:"op"` // stuck
	QSize     int    `json:"qsize"`
	Busy      bool   `json:"busy"`      // A's handler was entered (steering succeeded)
	BBefore   bool   `json:"bBefore"`   // B was served before A got stuck (sanity)
	AnsweredB bool   `json:"answeredB"` // B was served after A's connection was closed
	Stopped   bool   `json:"stopped"`   // Serve returned after Stop
}

func runStuck(qsize int) StuckTrace {
	tr := StuckTrace{Op: "stuck", QSize: qsize}
	l, err := coapNet.NewListenUDP("udp4", "127.0.0.1:0")
	if err != nil {
		rec.Die("listen udp: %v", err)
	}
	release := make(chan struct{})
	var entered atomic.Int64
	var mu sync.Mutex
	connOf := map[string]*udpclient.Conn{}
	sv := udp.NewServer(options.WithReceivedMessageQueueSize(qsize), options.WithErrors(func(error) {}),
		options.WithOnNewConn(func(cc *udpclient.Conn) { mu.Lock(); connOf[cc.RemoteAddr().String()] = cc; mu.Unlock() }),
		options.WithHandlerFunc(func(w *responsewriter.ResponseWriter[*udpclient.Conn], r *pool.Message) {
			if p, _ := r.Path(); p == "/hang" {
				entered.Add(1)
				<-release
				return
			}
			_ = w.SetResponse(codes.Content, message.TextPlain, bytes.NewReader([]byte("ok")))
		}))
	served := make(chan error, 1)
	go func() { served <- sv.Serve(l) }()
	defer func() { _ = l.Close() }()
	saddr, _ := net.ResolveUDPAddr("udp4", l.LocalAddr().String())
	dial := func() *net.UDPConn {
		c, err := net.DialUDP("udp4", nil, saddr)
		if err != nil {
			rec.Die("dial: %v", err)
		}
		return c
	}
	A, B := dial(), dial()
	defer A.Close()
	defer B.Close()
	askB := func(n int) bool {
		tok := []byte{0xB0, byte(n)}
		_, _ = B.Write(memnet.Build(message.Confirmable, int(codes.GET), int32(700+n), tok, message.Options{{ID: message.URIPath, Value: []byte("e")}}, nil))
		buf := make([]byte, 1500)
		deadline := time.Now().Add(1500 * time.Millisecond)
		for {
			_ = B.SetReadDeadline(deadline)
			k, err := B.Read(buf)
			if err != nil {
				return false
			}
			if d, err := memnet.Parse(buf[:k]); err == nil && bytes.Equal(d.Token, tok) && d.Code == int(codes.Content) {
				return true
			}
		}
	}
	tr.BBefore = askB(1)
	for k := 0; k < qsize+4; k++ {
		_, _ = A.Write(memnet.Build(message.NonConfirmable, int(codes.GET), int32(800+k), []byte{0xA0, byte(k)}, message.Options{{ID: message.URIPath, Value: []byte("hang")}}, nil))
		time.Sleep(300 * time.Microsecond)
	}
	tr.Busy = hooks.WaitFor(time.Second, func() bool { return entered.Load() >= 1 })
	time.Sleep(10 * time.Millisecond) // the queue is full, the read loop is parked
	mu.Lock()
	ccA := connOf[A.LocalAddr().String()]
	mu.Unlock()
	if ccA != nil {
		_ = ccA.Close()
	}
	time.Sleep(5 * time.Millisecond)
	tr.AnsweredB = askB(2)
	close(release)
	stopped := make(chan struct{})
	go func() { sv.Stop(); close(stopped) }()
	select {
	case <-served:
		tr.Stopped = true
	case <-time.After(2 * time.Second):
	}
	return tr
}

// WildTrace: a udp server bound to the wildcard address is reachable on every local address; one remote socket that
// talks to 127.0.0.1:p, 127.0.0.2:p and 127.0.0.3:p talks to three endpoints: "one logical connection per (remote,
// local) address pair" - each with its own message-ID space, its own life cycle, answering from the address contacted.
type WildDst struct {
	Dst      string `json:"dst"`
	Answered bool   `json:"answered"`
	TokOK    bool   `json:"tokok"`
	EchoOK   bool   `json:"echook"`   // the response carries the path of THIS request (not a remembered reply to another endpoint)
	From     string `json:"from"`     // source address of the response
	CCLocal  string `json:"cclocal"`  // LocalAddr of the connection the handler ran on
	Conn     int    `json:"conn"`     // identity of that connection (0 = the handler never ran)
	Nth      int    `json:"nth"`      // how many requests that connection had served, this one included
	Again    bool   `json:"again"`    // a second request (new MID) was answered ...
	AgainNth int    `json:"againNth"` // ... as the n-th request of the same connection
	Closed   bool   `json:"closed"`   // the connection was closed when the scenario ended
}
type WildTrace struct {
	Op       string    `json:"op"` // wild
	Usable   bool      `json:"usable"`
	NewConns int       `json:"newconns"`
	D        []WildDst `json:"d"`
	// a request the server itself sent over a connection it opened with NewConn, answered by the peer
	SrvAsked    bool `json:"srvAsked"`
	SrvReqSeen  bool `json:"srvReqSeen"`
	SrvAnswered bool `json:"srvAnswered"`
	// ... and after that connection was closed the peer's next request was served (retransmitted up to three times)
	AfterCloseServed bool `json:"afterCloseServed"`
}

func runWild() WildTrace {
	tr := WildTrace{Op: "wild", D: []WildDst{}}
	l, err := coapNet.NewListenUDP("udp4", "0.0.0.0:0")
	if err != nil {
		rec.Die("listen udp: %v", err)
	}
	defer func() { _ = l.Close() }()
	port := l.LocalAddr().(*net.UDPAddr).Port
	var mu sync.Mutex
	ids := map[*udpclient.Conn]int{}
	nth := map[*udpclient.Conn]int{}
	closed := map[int]bool{}
	type ran struct {
		conn, nth int
		local     string
	}
	runs := map[string]ran{} // by token
	sv := udp.NewServer(options.WithErrors(func(error) {}),
		options.WithOnNewConn(func(cc *udpclient.Conn) {
			mu.Lock()
			ids[cc] = len(ids) + 1
			id := ids[cc]
			mu.Unlock()
			cc.AddOnClose(func() { mu.Lock(); closed[id] = true; mu.Unlock() })
		}),
		options.WithHandlerFunc(func(w *responsewriter.ResponseWriter[*udpclient.Conn], r *pool.Message) {
			cc := w.Conn()
			mu.Lock()
			nth[cc]++
			runs[string(r.Token())] = ran{ids[cc], nth[cc], cc.LocalAddr().String()}
			mu.Unlock()
			p, _ := r.Path()
			_ = w.SetResponse(codes.Content, message.TextPlain, bytes.NewReader([]byte(p)))
		}))
	served := make(chan error, 1)
	go func() { served <- sv.Serve(l) }()
	defer func() { sv.Stop(); <-served }()
	sock, err := net.ListenUDP("udp4", &net.UDPAddr{IP: net.IPv4(127, 0, 0, 1)})
	if err != nil {
		rec.Die("listen: %v", err)
	}
	defer sock.Close()
	ask := func(dst *net.UDPAddr, mid int32, tok []byte, path string) (ok, tokok, echook bool, from string, sendErr bool) {
		if _, err := sock.WriteToUDP(memnet.Build(message.Confirmable, int(codes.GET), mid, tok, message.Options{{ID: message.URIPath, Value: []byte(path)}}, nil), dst); err != nil {
			return false, false, false, "", true
		}
		buf := make([]byte, 1500)
		_ = sock.SetReadDeadline(time.Now().Add(1500 * time.Millisecond))
		k, src, err := sock.ReadFromUDP(buf)
		if err != nil {
			return false, false, false, "", false
		}
		d, err := memnet.Parse(buf[:k])
		if err != nil || d.MID != mid {
			return false, false, false, src.String(), false
		}
		return true, bytes.Equal(d.Token, tok), string(d.Payload) == "/"+path, src.String(), false
	}
	tr.Usable = true
	octets := []byte{1, 2, 3}
	for _, o := range octets {
		dst := &net.UDPAddr{IP: net.IPv4(127, 0, 0, o), Port: port}
		tok := []byte{0xD0, o}
		// the SAME message ID towards every endpoint: each endpoint has its own de-duplication
		ok, tokok, echook, from, sendErr := ask(dst, 0x1234, tok, fmt.Sprintf("w%d", o))
		if sendErr {
			tr.Usable = false // this host cannot reach 127.0.0.x: nothing to judge
			return tr
		}
		mu.Lock()
		r := runs[string(tok)]
		mu.Unlock()
		tr.D = append(tr.D, WildDst{Dst: dst.String(), Answered: ok, TokOK: tokok, EchoOK: echook, From: from, CCLocal: r.local, Conn: r.conn, Nth: r.nth})
	}
	// the connection of the first endpoint is closed: the others live on and keep counting
	mu.Lock()
	var first *udpclient.Conn
	for cc, id := range ids {
		if id == tr.D[0].Conn {
			first = cc
		}
	}
	mu.Unlock()
	if first != nil {
		_ = first.Close()
	}
	for k := 1; k < len(octets); k++ {
		dst := &net.UDPAddr{IP: net.IPv4(127, 0, 0, octets[k]), Port: port}
		tok := []byte{0xD1, octets[k]}
		ok, tokok, echook, _, _ := ask(dst, int32(0x2000+k), tok, fmt.Sprintf("x%d", octets[k]))
		mu.Lock()
		r := runs[string(tok)]
		mu.Unlock()
		tr.D[k].Again = ok && tokok && echook && r.conn == tr.D[k].Conn
		tr.D[k].AgainNth = r.nth
	}
	mu.Lock()
	tr.NewConns = len(ids)
	for k := range tr.D {
		tr.D[k].Closed = closed[tr.D[k].Conn]
	}
	mu.Unlock()
	// the server talks first: a connection it opens itself to peer B (NewConn) and a request on it; B answers to where the request
	// came from. The answer belongs to that connection, whichever local addresses other peers have been talking to.
	peerB, err := net.ListenUDP("udp4", &net.UDPAddr{IP: net.IPv4(127, 0, 0, 1)})
	if err != nil {
		rec.Die("listen: %v", err)
	}
	defer peerB.Close()
	if cc, err := sv.NewConn(peerB.LocalAddr().(*net.UDPAddr)); err == nil {
		tr.SrvAsked = true
		got := make(chan bool, 1)
		go func() {
			ctx, cancel := context.WithTimeout(context.Background(), 1500*time.Millisecond)
			defer cancel()
			resp, err := cc.Get(ctx, "/from-the-server")
			if err == nil {
				b, _ := resp.ReadBody()
				got <- resp.Code() == codes.Content && string(b) == "B"
				cc.ReleaseMessage(resp)
				return
			}
			got <- false
		}()
		buf := make([]byte, 1500)
		_ = peerB.SetReadDeadline(time.Now().Add(1500 * time.Millisecond))
		if k, src, err := peerB.ReadFromUDP(buf); err == nil {
			if d, err := memnet.Parse(buf[:k]); err == nil && d.Code == int(codes.GET) {
				tr.SrvReqSeen = true
				_, _ = peerB.WriteToUDP(memnet.Build(message.Acknowledgement, int(codes.Content), d.MID, d.Token, nil, []byte("B")), src)
			}
		}
		tr.SrvAnswered = <-got
		// that connection is closed (by the application here; a malformed datagram or the inactivity monitor do the same): the
		// peer's next request is served all the same - by a connection of its own
		_ = cc.Close()
		req := memnet.Build(message.Confirmable, int(codes.GET), 0x4444, []byte{0xD3, 0x01}, message.Options{{ID: message.URIPath, Value: []byte("afterclose")}}, nil)
		for try := 0; try < 3 && !tr.AfterCloseServed; try++ {
			if _, err := peerB.WriteToUDP(req, &net.UDPAddr{IP: net.IPv4(127, 0, 0, 1), Port: port}); err != nil {
				break
			}
			_ = peerB.SetReadDeadline(time.Now().Add(500 * time.Millisecond))
			for {
				k, _, err := peerB.ReadFromUDP(buf)
				if err != nil {
					break
				}
				if d, err := memnet.Parse(buf[:k]); err == nil && d.MID == 0x4444 && d.Code == int(codes.Content) && string(d.Payload) == "/afterclose" {
					tr.AfterCloseServed = true
					break
				}
			}
		}
	}
	return tr
}

// KATrace: a tcp server with keep-alive probing; peer X connects and stalls (never answers a ping), the well-behaved
// peer G (the library's own client, which answers pings) is idle meanwhile. "the closure of one peer never changes what
// other peers receive": G's connection survives X's and still gets its answers.
type KATrace struct {
	Op        string `json:"op"` // kastall
	GBefore   bool   `json:"gBefore"`
	XDropped  bool   `json:"xDropped"`  // the server declared X (connected after G) inactive
	X0Dropped bool   `json:"x0Dropped"` // ... and X0, which connected and stalled BEFORE G arrived
	GDropped  int    `json:"gDropped"`  // times the server declared G inactive
	GClosed   bool   `json:"gClosed"`   // G's connection was closed
	GAfter    bool   `json:"gAfter"`    // G's request after X was dropped was answered
}

func runKAStall() KATrace {
	tr := KATrace{Op: "kastall"}
	l, err := coapNet.NewTCPListener("tcp4", "127.0.0.1:0")
	if err != nil {
		rec.Die("listen tcp: %v", err)
	}
	defer func() { _ = l.Close() }()
	var mu sync.Mutex
	dropped := map[string]int{}
	done := make(chan struct{})
	sv := tcp.NewServer(options.WithErrors(func(error) {}),
		options.WithPeriodicRunner(periodic.New(done, 20*time.Millisecond)),
		options.WithKeepAlive(2, 450*time.Millisecond, func(cc *tcpclient.Conn) {
			mu.Lock()
			dropped[cc.RemoteAddr().String()]++
			mu.Unlock()
			_ = cc.Close()
		}),
		options.WithHandlerFunc(func(w *responsewriter.ResponseWriter[*tcpclient.Conn], r *pool.Message) {
			_ = w.SetResponse(codes.Content, message.TextPlain, bytes.NewReader([]byte("ok")))
		}))
	served := make(chan error, 1)
	go func() { served <- sv.Serve(l) }()
	defer func() { sv.Stop(); <-served; close(done) }()
	X0, err := net.DialTimeout("tcp4", l.Addr().String(), time.Second)
	if err != nil {
		rec.Die("dial: %v", err)
	}
	defer X0.Close()
	x0addr := X0.LocalAddr().String()
	time.Sleep(20 * time.Millisecond)
	G, err := tcp.Dial(l.Addr().String(), options.WithErrors(func(error) {}))
	if err != nil {
		rec.Die("dial: %v", err)
	}
	defer G.Close()
	ask := func() bool {
		ctx, cancel := context.WithTimeout(context.Background(), time.Second)
		defer cancel()
		resp, err := G.Get(ctx, "/e")
		if err != nil {
			return false
		}
		defer G.ReleaseMessage(resp)
		return resp.Code() == codes.Content
	}
	tr.GBefore = ask()
	X, err := net.DialTimeout("tcp4", l.Addr().String(), time.Second)
	if err != nil {
		rec.Die("dial: %v", err)
	}
	defer X.Close()
	xaddr := X.LocalAddr().String()
	tr.XDropped = hooks.WaitFor(3*time.Second, func() bool { mu.Lock(); defer mu.Unlock(); return dropped[xaddr] > 0 })
	tr.X0Dropped = hooks.WaitFor(time.Second, func() bool { mu.Lock(); defer mu.Unlock(); return dropped[x0addr] > 0 })
	time.Sleep(400 * time.Millisecond) // G idle for several probe intervals after X's end
	mu.Lock()
	tr.GDropped = dropped[G.LocalAddr().String()]
	mu.Unlock()
	select {
	case <-G.Done():
		tr.GClosed = true
	default:
	}
	tr.GAfter = ask()
	return tr
}

// Run replays every stimulus on every transport of this tier, then the discovery scenario.
func Run(stimPath, out string) {
	fh, err := os.Open(stimPath)
	if err != nil {
		rec.Die("open: %v", err)
	}
	defer fh.Close()
	wr := rec.Create(out)
	defer wr.Close()
	sc := bufio.NewScanner(fh)
	sc.Buffer(make([]byte, 1<<20), 64<<20)
	transports := []string{"udp", "tcp", "dtls", "tls"}
	type job struct {
		tr string
		ev []EvIn
	}
	var jobs []job
	i := 0
	for sc.Scan() {
		var st struct {
			Ev  []EvIn `json:"ev"`
			All bool   `json:"all"` // directed interleaving: on every transport
		}
		if err := json.Unmarshal(sc.Bytes(), &st); err != nil {
			rec.Die("stimulus: %v", err)
		}
		if rec.Tier() == "thorough" || st.All {
			for _, t := range transports {
				jobs = append(jobs, job{t, st.Ev})
			}
		} else {
			jobs = append(jobs, job{transports[i%2], st.Ev})
			if i%4 == 0 {
				jobs = append(jobs, job{transports[2+(i/4)%2], st.Ev})
			}
		}
		i++
	}
	res := make([]Trace, len(jobs))
	var wg sync.WaitGroup
	sem := make(chan struct{}, 6) // every run has its own server and sockets
	for k := range jobs {
		wg.Add(1)
		sem <- struct{}{}
		go func(k int) {
			defer wg.Done()
			res[k] = runServer(jobs[k].tr, jobs[k].ev)
			<-sem
		}(k)
	}
	wg.Wait()
	for _, t := range res {
		wr.Put(t)
	}
	for k := 0; k < 3; k++ {
		wr.Put(runDiscovery(rec.Seed() + int64(k)))
	}
	for _, q := range []int{1, 2, 16} {
		wr.Put(runStuck(q))
	}
	wr.Put(runWild())
	wr.Put(runKAStall())
}
