// Package c14 replays TLC-generated schedules (specs/sync/MC_SyncMap.tla) on the real pkg/sync.Map and
// pkg/cache.Cache under a cooperative scheduler: exactly one program thread runs at a time, from one
// scheduling point (start of a method call, or a verif hook between two critical sections) to the next.
// It records the call/return stamped history; TLC (RecC14.tla) decides linearizability.
package c14

import (
	"encoding/json"
	"os"
	"runtime"
	"sync"
	"sync/atomic"
	"time"

	"github.com/plgd-dev/go-coap/v3/pkg/cache"
	coapsync "github.com/plgd-dev/go-coap/v3/pkg/sync"

	"verifharness/internal/hooks"
	"verifharness/internal/rec"
)

type Op struct {
	M string `json:"m"`
	K int    `json:"k"`
	V int    `json:"v"`
}

type Program struct {
	Keys []int  `json:"keys"`
	Init []Op   `json:"init"`
	Prog [][]Op `json:"prog"`
}

type Done struct {
	T    int   `json:"t"`
	I    int   `json:"i"`
	Op   Op    `json:"op"`
	Call int   `json:"call"`
	Ret  int   `json:"ret"`
	Res  []any `json:"res"` // [value, flag]; for a sweep: the element ids handed to the expiry callback
}

type Trace struct {
	PI       int     `json:"pi"`
	Keys     []int   `json:"keys"`
	Init     []Op    `json:"init"`
	Sched    []int   `json:"sched"`
	Realized []int   `json:"realized"`
	Ops      []Done  `json:"ops"`
	EK       [][]int `json:"ek"` // element id -> key
	Stuck    bool    `json:"stuck"`
	Panic    bool    `json:"panic"`
}

// ---- cooperative scheduler ------------------------------------------------------------------------
type sched struct {
	mu      sync.Mutex
	gidToT  map[int64]int
	parked  map[int]chan struct{} // thread -> channel to release it
	arrived chan int              // a thread parked (its id) or finished (-id)
}

var cur *sched
var curMu sync.Mutex

func hook(ev string, obj any) {
	curMu.Lock()
	s := cur
	curMu.Unlock()
	if s == nil {
		return
	}
	switch ev {
	case "LoadOrStore.gap", "Range.unlocked", "CheckExpirations.gap":
	default:
		return
	}
	s.mu.Lock()
	t, ok := s.gidToT[hooks.GID()]
	s.mu.Unlock()
	if !ok {
		return
	}
	s.park(t)
}

func (s *sched) park(t int) {
	ch := make(chan struct{})
	s.mu.Lock()
	s.parked[t] = ch
	s.mu.Unlock()
	s.arrived <- t
	<-ch
}

func init() {
	coapsync.VerifHook = hook
	cache.VerifHook = hook
}

type elem = cache.Element[int]

func runOne(pi int, p Program, schedule []int) Trace {
	tr := Trace{PI: pi, Keys: p.Keys, Init: p.Init, Sched: schedule, Realized: []int{}, Ops: []Done{}, EK: [][]int{}}
	m := coapsync.NewMap[int, int]()
	c := cache.NewCache[int, int]()
	now := time.Now()
	var cbMu sync.Mutex
	cbs := map[int64][]int{} // goroutine -> callbacks seen
	mkElem := func(e int) *elem {
		until := now.Add(time.Hour)
		if e%2 == 1 {
			until = now.Add(-time.Hour)
		}
		return cache.NewElement(e, until, func(d int) {
			cbMu.Lock()
			g := hooks.GID()
			cbs[g] = append(cbs[g], d)
			cbMu.Unlock()
		})
	}
	exec := func(op Op) []any {
		if r, ok := execExtra(m, op); ok {
			return r
		}
		switch op.M {
		case "store":
			m.Store(op.K, op.V)
			return []any{0, false}
		case "load":
			v, ok := m.Load(op.K)
			return []any{v, ok}
		case "los":
			v, loaded := m.LoadOrStore(op.K, op.V)
			return []any{v, loaded}
		case "losf":
			seen := -1
			v, loaded := m.LoadOrStoreWithFunc(op.K, func(x int) int { seen = x; return x }, func() int { return op.V })
			if loaded {
				return []any{seen, loaded} // what the callback saw must be the value in the map
			}
			return []any{v, loaded}
		case "delete":
			m.Delete(op.K)
			return []any{0, false}
		case "lad":
			v, ok := m.LoadAndDelete(op.K)
			return []any{v, ok}
		case "replace":
			v, ok := m.Replace(op.K, op.V)
			return []any{v, ok}
		case "length":
			return []any{m.Length(), false}
		case "clos":
			a, loaded := c.LoadOrStore(op.K, mkElem(op.V))
			return []any{a.Data(), loaded}
		case "cload":
			a := c.Load(op.K)
			if a == nil {
				return []any{0, false}
			}
			return []any{a.Data(), true}
		case "cdelete":
			c.Delete(op.K)
			return []any{0, false}
		case "sweep":
			g := hooks.GID()
			cbMu.Lock()
			cbs[g] = nil
			cbMu.Unlock()
			c.CheckExpirations(time.Now())
			cbMu.Lock()
			out := []any{}
			for _, d := range cbs[g] {
				out = append(out, d)
			}
			cbMu.Unlock()
			return out
		}
		rec.Die("c14: unknown method %q", op.M)
		return nil
	}
	for _, op := range p.Init {
		exec(op)
		if op.M == "clos" {
			tr.EK = append(tr.EK, []int{op.V, op.K})
		}
	}
	for _, th := range p.Prog {
		for _, op := range th {
			if op.M == "clos" {
				tr.EK = append(tr.EK, []int{op.V, op.K})
			}
		}
	}
	s := &sched{gidToT: map[int64]int{}, parked: map[int]chan struct{}{}, arrived: make(chan int, 16)}
	curMu.Lock()
	cur = s
	curMu.Unlock()
	defer func() { curMu.Lock(); cur = nil; curMu.Unlock() }()
	clk := 0
	var hmu sync.Mutex
	n := len(p.Prog)
	finished := map[int]bool{}
	for t := 1; t <= n; t++ {
		t := t
		go func() {
			defer func() {
				if r := recover(); r != nil {
					hmu.Lock()
					tr.Panic = true
					hmu.Unlock()
				}
				s.arrived <- -t
			}()
			s.mu.Lock()
			s.gidToT[hooks.GID()] = t
			s.mu.Unlock()
			for i, op := range p.Prog[t-1] {
				s.park(t) // scheduling point: start of a method call
				hmu.Lock()
				clk++
				call := clk
				hmu.Unlock()
				res := exec(op)
				hmu.Lock()
				clk++
				tr.Ops = append(tr.Ops, Done{T: t, I: i + 1, Op: op, Call: call, Ret: clk, Res: res})
				hmu.Unlock()
			}
		}()
	}
	// wait until every thread is parked at its first call
	wait := func() bool {
		select {
		case x := <-s.arrived:
			if x < 0 {
				finished[-x] = true
			}
			return true
		case <-time.After(5 * time.Second):
			return false
		}
	}
	for k := 0; k < n; k++ {
		if !wait() {
			tr.Stuck = true
			return tr
		}
	}
	release := func(t int) bool {
		s.mu.Lock()
		ch, ok := s.parked[t]
		if ok {
			delete(s.parked, t)
		}
		s.mu.Unlock()
		if !ok {
			return true
		}
		tr.Realized = append(tr.Realized, t)
		close(ch)
		return wait()
	}
	for _, t := range schedule {
		if finished[t] {
			continue
		}
		if !release(t) {
			tr.Stuck = true
			return tr
		}
	}
	for len(finished) < n {
		progressed := false
		for t := 1; t <= n; t++ {
			if !finished[t] {
				progressed = true
				if !release(t) {
					tr.Stuck = true
					return tr
				}
			}
		}
		if !progressed {
			break
		}
	}
	return tr
}

// Run replays every schedule of every program file listed in the job file.
// job: ndjson lines {"pi": n, "program": {...}, "scheds": [[...], ...]}
func Run(jobPath, out string) {
	f, err := os.ReadFile(jobPath)
	if err != nil {
		rec.Die("read job: %v", err)
	}
	w := rec.Create(out)
	defer w.Close()
	dec := json.NewDecoder(bytesReader(f))
	for dec.More() {
		var job struct {
			PI      int     `json:"pi"`
			Program Program `json:"program"`
			Scheds  [][]int `json:"scheds"`
		}
		if err := dec.Decode(&job); err != nil {
			rec.Die("job: %v", err)
		}
		for _, sc := range job.Scheds {
			w.Put(runOne(job.PI, job.Program, sc))
		}
	}
}

// Stress runs free-running bursts (no scheduler): nThreads goroutines x 2 random operations on one
// fresh map/cache per burst, stamped with a global atomic counter at call and return.
// snap is a whole-map result as one number (keys 1..3, values < 1024), as Snap in SeqMap.tla
func snap(d map[int]int) int {
	pow := []int{1, 1024, 1048576}
	s := 0
	for k, v := range d {
		if k >= 1 && k <= 3 {
			s += v * pow[k-1]
		}
	}
	return s
}

// execExtra: the ...WithFunc variants and the whole-map operations of sync.Map
func execExtra(m *coapsync.Map[int, int], op Op) ([]any, bool) {
	switch op.M {
	case "storef":
		m.StoreWithFunc(op.K, func() int { return op.V })
		return []any{0, false}, true
	case "loadf":
		seen := 0
		v, ok := m.LoadWithFunc(op.K, func(x int) int { seen = x; return x })
		if ok {
			return []any{seen, ok}, true
		}
		return []any{v, ok}, true
	case "replacef":
		old, loaded := m.ReplaceWithFunc(op.K, func(o int, l bool) (int, bool) { return op.V, op.V == 0 })
		if !loaded {
			old = 0
		}
		return []any{old, loaded}, true
	case "deletef":
		seen, called := 0, false
		m.DeleteWithFunc(op.K, func(x int) { seen, called = x, true })
		return []any{seen, called}, true
	case "ladf":
		seen := 0
		v, ok := m.LoadAndDeleteWithFunc(op.K, func(x int) int { seen = x; return x })
		if ok {
			return []any{seen, ok}, true
		}
		return []any{v, ok}, true
	case "ladall":
		return []any{snap(m.LoadAndDeleteAll()), false}, true
	case "copy":
		return []any{snap(m.CopyData()), false}, true
	case "range2":
		d := map[int]int{}
		m.Range2(func(k, v int) bool { d[k] = v; return true })
		return []any{snap(d), false}, true
	}
	return nil, false
}

func Stress(out string, bursts int) {
	w := rec.Create(out)
	defer w.Close()
	seed := uint64(rec.Seed())*2654435761 + 12345
	next := func() uint64 { seed = seed*6364136223846793005 + 1442695040888963407; return seed >> 33 }
	mapM := []string{"store", "load", "los", "losf", "delete", "lad", "replace", "length", "los", "los", "storef", "loadf", "replacef", "deletef", "ladf", "ladall", "copy", "range2"}
	cacheM := []string{"clos", "cload", "cdelete", "sweep", "clos", "clos", "sweep"}
	for b := 0; b < bursts; b++ {
		p := Program{Keys: []int{1, 2}}
		isCache := b%2 == 1
		nT := 3 + int(next()%2)
		elem := 10
		if isCache {
			for k := 1; k <= 2; k++ {
				if next()%2 == 0 {
					elem += 2
					e := elem + int(next()%2) // odd = expired
					p.Init = append(p.Init, Op{"clos", k, e})
				}
			}
		}
		if p.Init == nil {
			p.Init = []Op{}
		}
		for t := 0; t < nT; t++ {
			var th []Op
			for j := 0; j < 2; j++ {
				k := 1 + int(next()%2)
				if isCache {
					m := cacheM[next()%uint64(len(cacheM))]
					elem += 2
					th = append(th, Op{m, k, elem + int(next()%4)/3})
				} else {
					th = append(th, Op{mapM[next()%uint64(len(mapM))], k, 100 + t*10 + j})
				}
			}
			p.Prog = append(p.Prog, th)
		}
		w.Put(runFree(p))
	}
	// contended bursts: two kinds of mutators, two threads each, all on ONE key, released together by a spin barrier -
	// the overlap a free-running burst rarely gets (every pair of critical sections of the two methods meets); every
	// thread then reads the key, so that a value that was lost or handed out twice shows in the history
	mut := []string{"store", "los", "losf", "delete", "lad", "replace", "storef", "replacef", "deletef", "ladf", "ladall"}
	reps := bursts / 4
	if reps < 8 {
		reps = 8
	}
	for a := 0; a < len(mut); a++ {
		for b := a; b < len(mut); b++ {
			for rep := 0; rep < reps; rep++ {
				p := Program{Keys: []int{1, 2}, Init: []Op{}}
				if rep%4 != 3 {
					p.Init = append(p.Init, Op{"store", 1, 7})
				}
				for t, m := range []string{mut[a], mut[b], mut[a], mut[b]} {
					p.Prog = append(p.Prog, []Op{{m, 1, 100 + t*10}, {"load", 1, 0}})
				}
				w.Put(runFree(p))
			}
		}
	}
	// the same for the expiring cache: the key holds nothing / a valid element / an expired element (odd = expired)
	cmut := []string{"clos", "cload", "cdelete", "sweep"}
	for a := 0; a < len(cmut); a++ {
		for b := a; b < len(cmut); b++ {
			for rep := 0; rep < reps; rep++ {
				p := Program{Keys: []int{1, 2}, Init: []Op{}}
				switch rep % 3 {
				case 0:
					p.Init = append(p.Init, Op{"clos", 1, 12})
				case 1:
					p.Init = append(p.Init, Op{"clos", 1, 13})
				}
				for t, m := range []string{cmut[a], cmut[b], cmut[a], cmut[b]} {
					p.Prog = append(p.Prog, []Op{{m, 1, 20 + t*4 + int(next()%2)}, {"cload", 1, 0}})
				}
				w.Put(runFree(p))
			}
		}
	}
}

func runFree(p Program) Trace {
	tr := Trace{PI: 0, Keys: p.Keys, Init: p.Init, Sched: []int{}, Realized: []int{}, Ops: []Done{}, EK: [][]int{}}
	m := coapsync.NewMap[int, int]()
	c := cache.NewCache[int, int]()
	now := time.Now()
	var cbMu sync.Mutex
	cbs := map[int64][]int{}
	mkElem := func(e int) *elem {
		until := now.Add(time.Hour)
		if e%2 == 1 {
			until = now.Add(-time.Hour)
		}
		return cache.NewElement(e, until, func(d int) {
			cbMu.Lock()
			g := hooks.GID()
			cbs[g] = append(cbs[g], d)
			cbMu.Unlock()
		})
	}
	exec := func(op Op) []any {
		if r, ok := execExtra(m, op); ok {
			return r
		}
		switch op.M {
		case "store":
			m.Store(op.K, op.V)
			return []any{0, false}
		case "load":
			v, ok := m.Load(op.K)
			return []any{v, ok}
		case "los":
			v, loaded := m.LoadOrStore(op.K, op.V)
			return []any{v, loaded}
		case "losf":
			seen := -1
			v, loaded := m.LoadOrStoreWithFunc(op.K, func(x int) int { seen = x; return x }, func() int { return op.V })
			if loaded {
				return []any{seen, loaded}
			}
			return []any{v, loaded}
		case "delete":
			m.Delete(op.K)
			return []any{0, false}
		case "lad":
			v, ok := m.LoadAndDelete(op.K)
			return []any{v, ok}
		case "replace":
			v, ok := m.Replace(op.K, op.V)
			return []any{v, ok}
		case "length":
			return []any{m.Length(), false}
		case "clos":
			a, loaded := c.LoadOrStore(op.K, mkElem(op.V))
			return []any{a.Data(), loaded}
		case "cload":
			a := c.Load(op.K)
			if a == nil {
				return []any{0, false}
			}
			return []any{a.Data(), true}
		case "cdelete":
			c.Delete(op.K)
			return []any{0, false}
		case "sweep":
			g := hooks.GID()
			cbMu.Lock()
			cbs[g] = nil
			cbMu.Unlock()
			c.CheckExpirations(time.Now())
			cbMu.Lock()
			out := []any{}
			for _, d := range cbs[g] {
				out = append(out, d)
			}
			cbMu.Unlock()
			return out
		}
		return nil
	}
	for _, op := range p.Init {
		exec(op)
		tr.EK = append(tr.EK, []int{op.V, op.K})
	}
	for _, th := range p.Prog {
		for _, op := range th {
			if op.M == "clos" {
				tr.EK = append(tr.EK, []int{op.V, op.K})
			}
		}
	}
	var clk atomicInt
	var hmu sync.Mutex
	var wg sync.WaitGroup
	var ready atomic.Int64
	for t := range p.Prog {
		wg.Add(1)
		go func(t int) {
			defer wg.Done()
			defer func() {
				if r := recover(); r != nil {
					hmu.Lock()
					tr.Panic = true
					hmu.Unlock()
				}
			}()
			// spin barrier: all threads enter their first operation within nanoseconds of each other
			ready.Add(1)
			for ready.Load() < int64(len(p.Prog)) {
				runtime.Gosched()
			}
			for i, op := range p.Prog[t] {
				call := clk.inc()
				res := exec(op)
				ret := clk.inc()
				hmu.Lock()
				tr.Ops = append(tr.Ops, Done{T: t + 1, I: i + 1, Op: op, Call: call, Ret: ret, Res: res})
				hmu.Unlock()
			}
		}(t)
	}
	wg.Wait()
	return tr
}
