package c14

import (
	"fmt"
	"sync"
	"sync/atomic"
	"time"

	"github.com/plgd-dev/go-coap/v3/pkg/cache"
	coapsync "github.com/plgd-dev/go-coap/v3/pkg/sync"

	"verifharness/internal/rec"
)

// "callbacks run against the value actually in the map": while the callback of a ...WithFunc operation (or of Range2) runs on a
// key, no writer of that key takes effect (for the callbacks that run under the write lock: no reader either) - the operation and
// its callback are one atomic step. The callback waits (bounded) for a concurrent operation on its key to RETURN; on a map that
// keeps its lock around the callback that operation cannot return before the callback has.
type ExclRec struct {
	Op      string `json:"op"` // excl
	F       string `json:"f"`  // the operation whose callback is running
	W       string `json:"w"`  // the concurrent operation on the same key
	Entered bool   `json:"entered"`
	During  bool   `json:"during"` // w returned while f's callback was still running
	WDone   bool   `json:"wdone"`  // w returned at all (after the callback)
}

func exclOne(f, w string) ExclRec {
	r := ExclRec{Op: "excl", F: f, W: w}
	m := coapsync.NewMap[int, int]()
	m.Store(1, 100)
	inCB := make(chan struct{})
	wDone := make(chan struct{})
	var entered atomic.Bool
	cb := func() {
		if !entered.CompareAndSwap(false, true) {
			return
		}
		close(inCB)
		select {
		case <-wDone:
			r.During = true
		case <-time.After(40 * time.Millisecond):
		}
	}
	fDone := make(chan struct{})
	go func() {
		defer close(fDone)
		switch f {
		case "loadf":
			m.LoadWithFunc(1, func(v int) int { cb(); return v })
		case "losf":
			m.LoadOrStoreWithFunc(1, func(v int) int { cb(); return v }, func() int { return 7 })
		case "losf-create":
			m.LoadOrStoreWithFunc(2, nil, func() int { cb(); return 7 })
		case "storef":
			m.StoreWithFunc(1, func() int { cb(); return 101 })
		case "replacef":
			m.ReplaceWithFunc(1, func(v int, _ bool) (int, bool) { cb(); return v + 1, false })
		case "deletef":
			m.DeleteWithFunc(1, func(int) { cb() })
		case "ladf":
			m.LoadAndDeleteWithFunc(1, func(v int) int { cb(); return v })
		case "range2":
			m.Range2(func(int, int) bool { cb(); return true })
		}
	}()
	select {
	case <-inCB:
		r.Entered = true
	case <-time.After(2 * time.Second):
		return r
	}
	key := 1
	if f == "losf-create" {
		key = 2
	}
	go func() {
		defer close(wDone)
		switch w {
		case "store":
			m.Store(key, 55)
		case "delete":
			m.Delete(key)
		case "replace":
			m.Replace(key, 56)
		case "lad":
			m.LoadAndDelete(key)
		case "replacef":
			m.ReplaceWithFunc(key, func(v int, _ bool) (int, bool) { return v, true })
		case "load":
			m.Load(key)
		}
	}()
	<-fDone
	select {
	case <-wDone:
		r.WDone = true
	case <-time.After(2 * time.Second):
	}
	return r
}

func exclChecked(f, w string) ExclRec {
	r := exclOne(f, w)
	if !r.Entered {
		rec.Die("c14 excl: the callback of %s never ran", f)
	}
	return r
}

// aliasOne: what an operation hands out is a result - a snapshot taken at the instant the operation took effect - not a window
// into the map: a store made after LoadAndDeleteAll / CopyData returned does not show up in what they returned (recorded as a
// pair f = the operation, w = "store-after": during = the later store is visible in the earlier result).
func aliasOne(f string, prefill int) ExclRec {
	r := ExclRec{Op: "excl", F: f, W: "store-after", Entered: true, WDone: true}
	m := coapsync.NewMap[int, int]()
	for k := 1; k <= prefill; k++ {
		m.Store(k, 100+k)
	}
	var res map[int]int
	if f[:6] == "ladall" {
		res = m.LoadAndDeleteAll()
	} else {
		res = m.CopyData()
	}
	before := len(res)
	m.Store(77, 7)
	m.Store(78, 8)
	_, leaked := res[77]
	r.During = leaked || len(res) != before
	return r
}

// RunExcl writes one record per (callback operation, concurrent operation) pair.
func RunExcl(out string) {
	wr := rec.Create(out)
	defer wr.Close()
	writers := []string{"store", "delete", "replace", "lad", "replacef"}
	for _, f := range []string{"loadf", "range2"} { // callbacks under the read lock: writers wait
		for _, w := range writers {
			wr.Put(exclChecked(f, w))
		}
	}
	for _, pre := range []int{0, 1, 3} {
		wr.Put(aliasOne(fmt.Sprintf("ladall-%d", pre), pre))
		wr.Put(aliasOne(fmt.Sprintf("copydata-%d", pre), pre))
	}
	for _, w := range []string{"cload", "clos", "sweep"} {
		wr.Put(flipOne(w, 300000))
	}
	for _, f := range []string{"losf", "losf-create", "storef", "replacef", "deletef", "ladf"} { // under the write lock: everybody waits
		for _, w := range append([]string{"load"}, writers...) {
			wr.Put(exclChecked(f, w))
		}
	}
}

// flipOne: "the expiry sweep never removes or replaces an entry that has not expired" while the owner of a live element moves
// its (exported, atomic) ValidUntil between two values that both mean "not expired" - an hour ahead and the zero time
// (never expires): for the sequential cache nothing happens at all, so a concurrent look-up finds the element, a concurrent
// store-if-absent is refused with it, and the sweep leaves it alone and runs no expiry callback.
func flipOne(w string, rounds int) map[string]any {
	c := cache.NewCache[int, int]()
	future := time.Now().Add(time.Hour)
	var expired atomic.Int64
	e := cache.NewElement(42, future, func(int) { expired.Add(1) })
	c.LoadOrStore(1, e)
	stop := make(chan struct{})
	var wg sync.WaitGroup
	wg.Add(1)
	go func() {
		defer wg.Done()
		for {
			select {
			case <-stop:
				return
			default:
			}
			e.ValidUntil.Store(time.Time{})
			e.ValidUntil.Store(future)
		}
	}()
	lost := 0
	for r := 0; r < rounds; r++ {
		switch w {
		case "cload":
			if c.Load(1) != e {
				lost++
			}
		case "clos":
			if a, loaded := c.LoadOrStore(1, cache.NewElement(43, future, nil)); !loaded || a != e {
				lost++
				c.Store(1, e)
			}
		case "sweep":
			c.CheckExpirations(time.Now())
			if a, ok := c.Map.Load(1); !ok || a != e || expired.Load() != 0 {
				lost++
				expired.Store(0)
				c.Store(1, e)
			}
		}
	}
	close(stop)
	wg.Wait()
	return map[string]any{"f": "cache-flip", "w": w, "entered": true, "during": false, "wdone": true, "rounds": rounds, "lost": lost}
}
