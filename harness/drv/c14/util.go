package c14

import (
	"bytes"
	"sync/atomic"
)

func bytesReader(b []byte) *bytes.Reader { return bytes.NewReader(b) }

type atomicInt struct{ v atomic.Int64 }

func (a *atomicInt) inc() int { return int(a.v.Add(1)) }
