package c06

import (
	"net"
	"sync"
	"time"

	"github.com/plgd-dev/go-coap/v3/message"
	"github.com/plgd-dev/go-coap/v3/message/codes"
	"github.com/plgd-dev/go-coap/v3/message/pool"
	coapNet "github.com/plgd-dev/go-coap/v3/net"
	"github.com/plgd-dev/go-coap/v3/net/responsewriter"
	"github.com/plgd-dev/go-coap/v3/options"
	"github.com/plgd-dev/go-coap/v3/udp"
	udpclient "github.com/plgd-dev/go-coap/v3/udp/client"

	"verifharness/internal/conns"
	"verifharness/internal/hooks"
	"verifharness/internal/memnet"
	"verifharness/internal/rec"
)

// link: the connection under test and the driver's side of its transport.
//
//	mem     udp/client.Conn over the in-memory session, configured through its Config
//	dial    the library's own client: udp.Dial(..., options.WithTransmission(...)) over a loopback socket
//	server  a server-side connection of a real udp server configured with options.WithTransmission(...)
//
// With the socket variants every datagram the connection wrote has reached onWrite when settle() returns (a barrier
// ping of the peer is answered after everything written before it).
type link struct {
	mode     string
	cc       *udpclient.Conn
	onWrite  func(raw []byte)
	inject   func(raw []byte)
	out      func() [][]byte
	settle   func()
	close    func()
	errs     func() int
	failNext func(n int) // mem only: the next n writes fail with a transient network error
}

func newLink(mode string, maxR, at int, onWrite func(raw []byte)) *link {
	ack := time.Duration(at) * time.Second
	if mode == "mem" || mode == "memset" {
		u := conns.NewUDP(func(cfg *udpclient.Config) {
			cfg.TransmissionAcknowledgeTimeout = ack
			cfg.TransmissionMaxRetransmit = uint32(maxR)
			cfg.TransmissionNStart = 1
			if mode == "memset" { // created with other parameters; the ones of the history are set at run time (below)
				cfg.TransmissionAcknowledgeTimeout = ack / 2
				cfg.TransmissionMaxRetransmit = uint32(maxR) + 3
				cfg.TransmissionNStart = 3
			}
		})
		if mode == "memset" {
			u.CC.Transmission().SetTransmissionAcknowledgeTimeout(ack)
			u.CC.Transmission().SetTransmissionMaxRetransmit(uint32(maxR))
			u.CC.Transmission().SetTransmissionNStart(1)
		}
		u.Sess.OnWrite = onWrite
		return &link{mode: mode, cc: u.CC, inject: func(raw []byte) { _ = u.Inject(raw) }, out: func() [][]byte { return u.Sess.Out(0) },
			settle: func() {}, close: u.Close, errs: u.Errs.Len, failNext: func(n int) { u.Sess.FailNext.Store(int64(n)) }}
	}
	l := &link{mode: mode}
	var mu sync.Mutex
	var all [][]byte
	rsts := map[int32]bool{}
	var peer *net.UDPConn
	var to *net.UDPAddr
	read := func() {
		buf := make([]byte, 4096)
		for {
			n, from, err := peer.ReadFromUDP(buf)
			if err != nil {
				return
			}
			raw := append([]byte(nil), buf[:n]...)
			d, perr := memnet.Parse(raw)

			mu.Lock()
			if to == nil {
				to = from
			}
			barrier := perr == nil && d.Type == message.Reset && d.MID >= 0x6000 && d.MID < 0x7000
			if barrier {
				rsts[d.MID] = true
			} else {
				all = append(all, raw)
			}
			mu.Unlock()
			if !barrier {
				onWrite(raw)
			}
		}
	}
	send := func(raw []byte) {
		mu.Lock()
		t := to
		mu.Unlock()
		if t != nil {
			_, _ = peer.WriteToUDP(raw, t)
		}
	}
	bar := int32(0x6000)
	l.settle = func() {
		bar++
		if bar >= 0x7000 {
			bar = 0x6001
		}
		b := bar
		mu.Lock()
		delete(rsts, b)
		mu.Unlock()
		send(memnet.Build(message.Confirmable, int(codes.Empty), b, nil, nil, nil))
		hooks.WaitFor(500*time.Millisecond, func() bool { mu.Lock(); defer mu.Unlock(); return rsts[b] })
		hooks.Quiesce(l.cc, 500*time.Millisecond)
	}
	l.inject = func(raw []byte) { send(raw); l.settle() }
	l.out = func() [][]byte { mu.Lock(); defer mu.Unlock(); return append([][]byte(nil), all...) }
	nerr := 0
	onErr := func(error) { mu.Lock(); nerr++; mu.Unlock() }
	l.errs = func() int { mu.Lock(); defer mu.Unlock(); return nerr }
	var err error
	switch mode {
	case "dial":
		peer, err = net.ListenUDP("udp4", &net.UDPAddr{IP: net.IPv4(127, 0, 0, 1)})
		if err != nil {
			rec.Die("listen: %v", err)
		}
		go read()
		l.cc, err = udp.Dial(peer.LocalAddr().String(), options.WithTransmission(1, ack, uint32(maxR)), options.WithErrors(onErr),
			options.WithPeriodicRunner(func(func(time.Time) bool) {})) // no housekeeping of its own: the driver sweeps
		if err != nil {
			rec.Die("dial: %v", err)
		}
		if a, ok := l.cc.LocalAddr().(*net.UDPAddr); ok {
			mu.Lock()
			to = a
			mu.Unlock()
		}
		cc := l.cc
		l.close = func() { _ = cc.Close(); _ = peer.Close() }
	case "server":
		ls, err := coapNet.NewListenUDP("udp4", "127.0.0.1:0")
		if err != nil {
			rec.Die("listen: %v", err)
		}
		got := make(chan *udpclient.Conn, 4)
		sv := udp.NewServer(options.WithTransmission(1, ack, uint32(maxR)), options.WithErrors(onErr),
			options.WithPeriodicRunner(func(func(time.Time) bool) {}),
			options.WithOnNewConn(func(cc *udpclient.Conn) { got <- cc }),
			options.WithHandlerFunc(func(*responsewriter.ResponseWriter[*udpclient.Conn], *pool.Message) {}))
		go func() { _ = sv.Serve(ls) }()
		saddr, _ := net.ResolveUDPAddr("udp4", ls.LocalAddr().String())
		peer, err = net.ListenUDP("udp4", &net.UDPAddr{IP: net.IPv4(127, 0, 0, 1)})
		if err != nil {
			rec.Die("listen: %v", err)
		}
		mu.Lock()
		to = saddr
		mu.Unlock()
		go read()
		send(memnet.Build(message.NonConfirmable, int(codes.GET), 0x5fff, []byte{0x0f}, message.Options{{ID: message.URIPath, Value: []byte("hello")}}, nil))
		select {
		case l.cc = <-got:
		case <-time.After(time.Second):
			rec.Die("c06: the server created no connection")
		}
		l.close = func() { sv.Stop(); _ = ls.Close(); _ = peer.Close() }
	}
	l.settle()
	return l
}
