// Package c06 replays TLC-generated event histories (specs/udp/Retransmit.tla) on a real udp/client.Conn: one
// confirmable request is issued through Conn.Do over the in-memory session, the housekeeping sweep is called
// with a virtual clock, acknowledgements / responses / resets are injected, the caller's context is cancelled.
// It records every copy written (virtual time, bytes) and the outcome of the call. TLC (RecC06.tla) judges.
package c06

import (
	"bufio"
	"bytes"
	"context"
	"encoding/json"
	"io"
	"os"
	"sync"
	"time"

	"github.com/plgd-dev/go-coap/v3/message"
	"github.com/plgd-dev/go-coap/v3/message/codes"
	coapsync "github.com/plgd-dev/go-coap/v3/pkg/sync"

	"verifharness/internal/conns"
	"verifharness/internal/hooks"
	"verifharness/internal/memnet"
	"verifharness/internal/rec"
)

type Act struct {
	A string `json:"a"`
	T int    `json:"t"`
	Y string `json:"y,omitempty"` // race: the event (ack | rst | piggy) that arrives while the sweep of tick T holds the entry it has just fetched
}

// the sweep goroutine of a "race" step parks at the map's hook between fetching an entry and acting on it
var gates sync.Map // goroutine id -> *gate

type gate struct {
	arrived chan struct{}
	release chan struct{}
	once    sync.Once
}

func syncHook(ev string, _ any) {
	if ev != "Range.unlocked" {
		return
	}
	if g, ok := gates.Load(hooks.GID()); ok {
		gt := g.(*gate)
		first := false
		gt.once.Do(func() { first = true })
		if first {
			close(gt.arrived)
			<-gt.release
		}
	}
}

type Stim struct {
	Mode  string `json:"mode"` // mem (default) | dial | server
	T     int    `json:"t"`
	MaxR  int    `json:"maxr"`
	AT    int    `json:"at"`
	Steps []Act  `json:"steps"`
	Post  bool   `json:"post"` // the request is a POST whose body reader the application has already read to its end (e.g. to hash it)
}

type Copy struct {
	At    int  `json:"at"`    // virtual tick during which it was written (0 = the initial transmission)
	Same  bool `json:"same"`  // byte-identical to the first copy
	Con   bool `json:"con"`   // a confirmable GET with the request's token and MID
	After int  `json:"after"` // index of the event during which it was written (0 = before any event)
}

type Ev struct {
	Act     Act    `json:"act"`
	Copies  int    `json:"copies"`
	Ret     string `json:"ret"` // none | ok | err
	Pay     []int  `json:"pay"` // payload of the returned response
	Code    int    `json:"code"`
	Entry   bool   `json:"entry"` // the message-ID continuation still exists
	Waiting bool   `json:"waiting"`
}

type Trace struct {
	Mode      string `json:"mode"`
	T         int    `json:"t"`
	MaxR      int    `json:"maxr"`
	AT        int    `json:"at"`
	Slow      bool   `json:"slow"`   // real time came too close to a near context deadline: not judged
	Queued    int    `json:"queued"` // ms the request waited behind NSTART before its first transmission
	Ev        []Ev   `json:"ev"`
	Copies    []Copy `json:"copies"`
	Others    int    `json:"others"` // datagrams that are not copies of the request (e.g. ACKs for a CON separate response)
	Errs      int    `json:"errs"`
	WFail     bool   `json:"wfail"` // the first transmission was refused by the network (transient write error)
	NextOK    bool   `json:"nextSent"`
	SweepHung bool   `json:"sweepHung"` // a housekeeping sweep did not return within 3 s // wfail: a request issued afterwards was transmitted (the NSTART slot was given back)
	Final     Ev     `json:"final"`     // after cancelling the caller (if it was still waiting)
}

func runOne(st Stim) Trace {
	mode := st.Mode
	if mode == "" {
		mode = "mem"
	}
	tr := Trace{T: st.T, Mode: mode, MaxR: st.MaxR, AT: st.AT, Ev: []Ev{}, Copies: []Copy{}}
	var u *link
	var mu sync.Mutex
	var first []byte
	curTick, curEv := 0, 0
	var mid int32
	tok := []byte{0xD1, 0x06}
	onWrite := func(raw []byte) {
		mu.Lock()
		defer mu.Unlock()
		d, err := memnet.Parse(raw)
		if err != nil {
			tr.Others++
			return
		}
		if first == nil && bytes.Equal(d.Token, tok) {
			first = raw
			mid = d.MID
		}
		if d.Type == message.Confirmable && (d.Code == int(codes.GET) || d.Code == int(codes.POST)) && bytes.Equal(d.Token, tok) {
			tr.Copies = append(tr.Copies, Copy{At: curTick, Same: bytes.Equal(raw, first), Con: d.MID == mid, After: curEv})
		} else {
			tr.Others++
		}
	}
	u = newLink(mode, st.MaxR, st.AT, onWrite)
	defer u.close()
	// "deadline": the caller's context carries a deadline, t seconds from now (virtual ticks are seconds too)
	dlSec := 0
	for _, a := range st.Steps {
		if a.A == "deadline" {
			dlSec = a.T
		}
	}
	began := time.Now()
	ctx, cancel := context.WithCancel(context.Background())
	if dlSec > 0 {
		ctx, cancel = context.WithDeadline(context.Background(), began.Add(time.Duration(dlSec)*time.Second))
	}
	defer cancel()
	type result struct {
		ok   bool
		pay  []byte
		code int
	}
	resCh := make(chan result, 1)
	// "queue": the request under test first waits behind another request that holds the NSTART slot
	steps := st.Steps
	queueMs := 0
	if len(steps) > 0 && steps[0].A == "queue" {
		queueMs = steps[0].T
		steps = steps[1:]
	}
	if len(steps) > 0 && steps[0].A == "deadline" {
		steps = steps[1:]
	}
	if len(steps) > 0 && steps[0].A == "wfail" {
		if u.failNext == nil {
			rec.Die("c06: wfail needs the in-memory link")
		}
		tr.WFail = true
		steps = steps[1:]
		u.failNext(1)
	}
	var occDone chan struct{}
	var occMID int32
	occTok := []byte{0x0C, 0xC0}
	if queueMs > 0 {
		occDone = make(chan struct{})
		go func() {
			defer close(occDone)
			oreq, err := u.cc.NewGetRequest(context.Background(), "/occ")
			if err != nil {
				return
			}
			oreq.SetToken(occTok)
			if resp, err := u.cc.Do(oreq); err == nil {
				u.cc.ReleaseMessage(resp)
			}
			u.cc.ReleaseMessage(oreq)
		}()
		ok := hooks.WaitFor(conns.WD, func() bool {
			for _, raw := range u.out() {
				if d, err := memnet.Parse(raw); err == nil && bytes.Equal(d.Token, occTok) {
					occMID = d.MID
					return true
				}
			}
			return false
		})
		if !ok {
			rec.Die("c06: occupant request not seen")
		}
	}
	go func() {
		req, err := u.cc.NewGetRequest(ctx, "/r")
		if st.Post && err == nil {
			u.cc.ReleaseMessage(req)
			body := bytes.NewReader([]byte("the-payload-of-the-request-under-test"))
			_, _ = io.Copy(io.Discard, body) // the application has looked at the body: the reader is at its end
			req, err = u.cc.NewPostRequest(ctx, "/r", message.TextPlain, body)
		}
		if err != nil {
			resCh <- result{}
			return
		}
		req.SetToken(tok)
		resp, err := u.cc.Do(req)
		u.cc.ReleaseMessage(req)
		if err != nil {
			resCh <- result{}
			return
		}
		b, _ := resp.ReadBody()
		resCh <- result{ok: true, pay: b, code: int(resp.Code())}
	}()
	if queueMs > 0 {
		time.Sleep(time.Duration(queueMs) * time.Millisecond)
		mu.Lock()
		early := len(tr.Copies)
		mu.Unlock()
		if early != 0 {
			rec.Die("c06: the request under test did not wait behind NSTART")
		}
		u.inject(memnet.Build(message.Acknowledgement, int(codes.Content), occMID, occTok, nil, []byte("O")))
		<-occDone
	}
	if tr.WFail {
		// nothing reaches the wire; the call returns the error
		hooks.WaitFor(conns.WD, func() bool { return len(resCh) == 1 })
	} else if !hooks.WaitFor(conns.WD, func() bool { mu.Lock(); defer mu.Unlock(); return len(tr.Copies) == 1 }) {
		rec.Die("c06: first transmission not seen")
	}
	base := time.Now()
	tr.Queued = queueMs
	ret := "none"
	var pay []byte
	code := 0
	poll := func() {
		select {
		case r := <-resCh:
			if r.ok {
				ret, pay, code = "ok", r.pay, r.code
			} else {
				ret = "err"
			}
		default:
		}
	}
	snap := func(a Act) Ev {
		// give the caller goroutine a moment to return if it is going to
		hooks.WaitFor(2*time.Millisecond, func() bool { poll(); return false })
		vs := u.cc.VerifState()
		mu.Lock()
		n := len(tr.Copies)
		mu.Unlock()
		return Ev{Act: a, Copies: n, Ret: ret, Pay: rec.Bytes(pay), Code: code, Entry: len(vs.Mids) > 0, Waiting: ret == "none"}
	}
	nextMID := int32(20000)
	for i, a := range steps {
		mu.Lock()
		_ = i
		curEv = len(tr.Ev) + 1
		if a.A == "tick" {
			curTick = a.T
		}
		mu.Unlock()
		switch a.A {
		case "tick", "tickfail":
			at := base.Add(time.Duration(a.T)*time.Second - 50*time.Millisecond)
			swept := make(chan struct{})
			if a.A == "tickfail" && u.failNext != nil {
				// the copy of this tick cannot be written (a transient error of the network): the attempt is spent, the exchange goes on
				u.failNext(1)
			}
			go func() {
				defer close(swept)
				u.cc.CheckExpirations(at)
				if a.A == "tickfail" && u.failNext != nil {
					u.failNext(0)
				}
			}()
			select {
			case <-swept:
			case <-time.After(3 * time.Second): // a sweep that never returns must not hang the driver: recorded, history abandoned
				tr.SweepHung = true
			}
			if tr.SweepHung {
				tr.Ev = append(tr.Ev, Ev{Act: a, Ret: "none", Pay: []int{}, Waiting: true, Entry: true})
				tr.Final = Ev{Act: Act{A: "end"}, Ret: "none", Pay: []int{}}
				return tr
			}
			u.settle()
		case "race":
			// the sweep of tick T fetches the pending entry, then - before it acts on it - the answer arrives and is processed
			// completely; only then does the sweep go on. The answer came first: nothing may be sent any more.
			gt := &gate{arrived: make(chan struct{}), release: make(chan struct{})}
			swept := make(chan struct{})
			go func() {
				defer close(swept)
				gates.Store(hooks.GID(), gt)
				defer gates.Delete(hooks.GID())
				u.cc.CheckExpirations(base.Add(time.Duration(a.T)*time.Second - 50*time.Millisecond))
			}()
			select {
			case <-gt.arrived:
			case <-swept: // nothing pending: the sweep had no entry to fetch
			case <-time.After(time.Second):
			}
			switch a.Y {
			case "ack":
				u.inject(memnet.Build(message.Acknowledgement, int(codes.Empty), mid, nil, nil, nil))
			case "rst":
				u.inject(memnet.Build(message.Reset, int(codes.Empty), mid, nil, nil, nil))
			case "cancel": // the caller gives up, and its call returns, while the sweep holds the entry
				cancel()
				hooks.WaitFor(conns.WD, func() bool { poll(); return ret != "none" })
			default:
				u.inject(memnet.Build(message.Acknowledgement, int(codes.Content), mid, tok, nil, []byte("P")))
			}
			tr.Ev = append(tr.Ev, snap(Act{A: a.Y}))
			mu.Lock()
			curEv = len(tr.Ev) + 1
			curTick = a.T
			mu.Unlock()
			gt.once.Do(func() {})
			close(gt.release)
			<-swept
			u.settle()
			a = Act{A: "tick", T: a.T}
		case "ack":
			u.inject(memnet.Build(message.Acknowledgement, int(codes.Empty), mid, nil, nil, nil))
		case "rst":
			u.inject(memnet.Build(message.Reset, int(codes.Empty), mid, nil, nil, nil))
		case "piggy":
			u.inject(memnet.Build(message.Acknowledgement, int(codes.Content), mid, tok, nil, []byte("P")))
		case "sep":
			nextMID++
			u.inject(memnet.Build(message.NonConfirmable, int(codes.Content), nextMID, tok, nil, []byte("S")))
		case "cancel":
			cancel()
			hooks.WaitFor(conns.WD, func() bool { poll(); return ret != "none" })
		}
		tr.Ev = append(tr.Ev, snap(a))
	}
	// end of history: one more sweep far in the future must not write anything for a finished exchange; then
	// cancel the caller if it is still waiting
	cancel()
	hooks.WaitFor(conns.WD, func() bool { poll(); return ret != "none" })
	mu.Lock()
	curEv = len(tr.Ev) + 1
	curTick = 1000
	mu.Unlock()
	u.cc.CheckExpirations(base.Add(1000 * time.Second))
	u.settle()
	tr.Final = snap(Act{A: "end"})
	if tr.WFail {
		// the connection is alive: its next request must go out (NSTART = 1: the failed request gave its slot back)
		nctx, ncancel := context.WithCancel(context.Background())
		ntok := []byte{0xD2, 0x06}
		ndone := make(chan struct{})
		go func() {
			defer close(ndone)
			if nreq, err := u.cc.NewGetRequest(nctx, "/next"); err == nil {
				nreq.SetToken(ntok)
				if resp, err := u.cc.Do(nreq); err == nil {
					u.cc.ReleaseMessage(resp)
				}
				u.cc.ReleaseMessage(nreq)
			}
		}()
		tr.NextOK = hooks.WaitFor(500*time.Millisecond, func() bool {
			for _, raw := range u.out() {
				if d, err := memnet.Parse(raw); err == nil && bytes.Equal(d.Token, ntok) {
					return true
				}
			}
			return false
		})
		ncancel()
		<-ndone
	}
	// a run that took a sizeable part of a real-time deadline says nothing about the virtual schedule
	tr.Slow = dlSec > 0 && dlSec < 100 && time.Since(began) > time.Duration(dlSec)*time.Second/3
	tr.Errs = u.errs()
	return tr
}

// Run replays every stimulus.
func Run(stimPath, out string) {
	coapsync.VerifHook = syncHook
	f, err := os.Open(stimPath)
	if err != nil {
		rec.Die("open: %v", err)
	}
	defer f.Close()
	wr := rec.Create(out)
	defer wr.Close()
	sc := bufio.NewScanner(f)
	sc.Buffer(make([]byte, 1<<20), 64<<20)
	var stims []Stim
	for sc.Scan() {
		var st Stim
		if err := json.Unmarshal(sc.Bytes(), &st); err != nil {
			rec.Die("stimulus: %v", err)
		}
		stims = append(stims, st)
	}
	res := make([]Trace, len(stims))
	var wg sync.WaitGroup
	sem := make(chan struct{}, 16)
	for i := range stims {
		wg.Add(1)
		sem <- struct{}{}
		go func(i int) {
			defer wg.Done()
			res[i] = runOne(stims[i])
			<-sem
		}(i)
	}
	wg.Wait()
	for _, t := range res {
		wr.Put(t)
	}
}
