// Package c19 drives the real Block option codec over its complete domain and records what it
// returned; TLC (specs/wire/RecC19.tla) judges every record against the RFC 7959 operators.
package c19

import (
	"bytes"
	"context"
	"math/rand"
	"sync"
	"time"

	"github.com/plgd-dev/go-coap/v3/message"
	"github.com/plgd-dev/go-coap/v3/message/codes"
	"github.com/plgd-dev/go-coap/v3/message/pool"
	"github.com/plgd-dev/go-coap/v3/net/blockwise"

	"verifharness/internal/rec"
)

const (
	p1 = 32749
	p2 = 32719
)

type decRec struct {
	Op   string `json:"op"`
	Hi   int    `json:"hi"` // v = hi*65536 + lo  (TLC integers are 32-bit signed)
	Lo   int    `json:"lo"`
	Err  bool   `json:"err"`
	Szx  int    `json:"szx"`
	Num  int    `json:"num"`
	More bool   `json:"more"`
}

type encRec struct {
	Op     string `json:"op"`
	S      int    `json:"s"`
	NClass string `json:"nclass"` // "int" | "neg" | "huge"
	N      int    `json:"n"`
	M      bool   `json:"m"`
	Err    bool   `json:"err"`
	Val    int    `json:"val"`
	ValOK  bool   `json:"valok"` // val < 2^31 (representable for TLC)
}

func dec(v uint32) decRec {
	szx, num, more, err := blockwise.DecodeBlockOption(v)
	r := decRec{Op: "dec", Hi: int(v >> 16), Lo: int(v & 0xffff), Err: err != nil}
	if err == nil {
		r.Szx, r.More = int(szx), more
		if num >= 0 && num < 1<<31 {
			r.Num = int(num)
		} else {
			r.Num = -1
		}
	}
	return r
}

func enc(s int, n int64, m bool) encRec {
	val, err := blockwise.EncodeBlockOption(blockwise.SZX(s), n, m)
	r := encRec{Op: "enc", S: s, M: m, Err: err != nil, NClass: "int"}
	switch {
	case n < 0:
		r.NClass = "neg"
	case n >= 1<<30:
		r.NClass = "huge"
	default:
		r.N = int(n)
	}
	if err == nil {
		r.ValOK = val < 1<<31
		if r.ValOK {
			r.Val = int(val)
		}
	}
	return r
}

func hDec(v uint32) uint64 {
	szx, num, more, err := blockwise.DecodeBlockOption(v)
	if err != nil {
		return 1
	}
	h := uint64(2) + uint64(szx)*3
	if more {
		h += 5
	}
	un := uint64(num)
	return h + (un%30011)*7 + un/30011
}

func hEnc(s int, n int64, m bool) uint64 {
	val, err := blockwise.EncodeBlockOption(blockwise.SZX(s), n, m)
	if err != nil {
		return 1
	}
	e := uint64(val)
	return 2 + (e%30011)*3 + e/30011
}

// Run writes the records file.
func Run(out string) {
	w := rec.Create(out)
	defer w.Close()
	thorough := rec.Tier() == "thorough"
	rng := rand.New(rand.NewSource(rec.Seed()))

	// (i) explicit records: class boundaries, strata, seeded random values
	seen := map[uint32]bool{}
	putDec := func(v uint32) {
		if !seen[v] {
			seen[v] = true
			w.Put(dec(v))
		}
	}
	for _, b := range []uint32{0, 1 << 4, 1 << 8, 1 << 12, 1 << 16, 1 << 20, 1 << 24, 1 << 28, 1 << 31, 0xffff7 << 4, 0xffff8 << 4, 0xfffff << 4} {
		for d := -40; d <= 40; d++ {
			putDec(uint32(int64(b) + int64(d)))
		}
	}
	for v := uint32(0xffffff) - 300; v <= 0xffffff+300; v++ {
		putDec(v)
	}
	for v := uint64(0xffffffff) - 64; v <= 0xffffffff; v++ {
		putDec(uint32(v))
	}
	nr := 3000
	if thorough {
		nr = 40000
	}
	for i := 0; i < nr; i++ {
		putDec(uint32(rng.Int63n(1 << 24)))
		if i%4 == 0 {
			putDec(rng.Uint32())
		}
	}
	for s := 0; s <= 9; s++ {
		for _, m := range []bool{false, true} {
			for _, n := range []int64{0, 1, 15, 16, 255, 256, 4095, 4096, 65535, 65536, 0xffff6, 0xffff7, 0xffff8, 0xffff9, 0xffffe, 0xfffff, 0x100000, 0x100001,
				0xfffffff, 0x10000000, 1 << 31, 1<<32 - 1, 1 << 32, 1<<32 + 5, 1 << 40, 1<<63 - 1, -1, -2, -16, -1 << 20, -1 << 63} {
				w.Put(enc(s, n, m))
			}
			for i := 0; i < nr/20; i++ {
				w.Put(enc(s, rng.Int63n(1<<20), m))
			}
		}
	}
	for _, s := range []int{10, 15, 16, 127, 128, 255} {
		w.Put(enc(s, 0, false))
		w.Put(enc(s, 5, true))
	}
	for s := 0; s <= 7; s++ {
		w.Put(map[string]any{"op": "size", "s": s, "size": blockwise.SZX(s).Size()})
	}
	// BERT buffer sizing (bufferSize is not exported: observed through the first block BlockWise.Do cuts from a large body): "blocks
	// are whole multiples of 1024 bounded by the maximum message size"; for the other exponents the first block is Size(s)
	for _, mms := range []int{1024, 1025, 1152, 1500, 2047, 2048, 2049, 2500, 4096, 5000, 65535, 65536} {
		w.Put(map[string]any{"op": "bertbuf", "s": 7, "mms": mms, "first": firstBlockLen(7, mms)})
	}
	for s := 0; s < 7; s++ {
		w.Put(map[string]any{"op": "bertbuf", "s": s, "mms": 1152, "first": firstBlockLen(s, 1152)})
	}

	// (ii) digests over the COMPLETE domain, one per chunk; TLC recomputes each from Dec/Enc
	const chunk = 4096
	type dig struct {
		Op string `json:"op"`
		Lo int    `json:"lo"`
		N  int    `json:"n"`
		S  int    `json:"s"`
		M  bool   `json:"m"`
		D1 int    `json:"d1"`
		D2 int    `json:"d2"`
	}
	nchunks := (1 << 24) / chunk
	decd := make([]dig, nchunks)
	var wg sync.WaitGroup
	for g := 0; g < 16; g++ {
		wg.Add(1)
		go func(g int) {
			defer wg.Done()
			for c := g; c < nchunks; c += 16 {
				var d1, d2 uint64
				lo := uint32(c * chunk)
				for j := uint32(0); j < chunk; j++ {
					h := hDec(lo + j)
					d1 = (d1 + (uint64(j+1)%p1)*(h%p1)) % p1
					d2 = (d2 + (uint64(j+1)%p2)*(h%p2)) % p2
				}
				decd[c] = dig{Op: "decdig", Lo: int(lo), N: chunk, D1: int(d1), D2: int(d2)}
			}
		}(g)
	}
	wg.Wait()
	// quick: a seeded stratified third of the chunks is judged by TLC (all are computed); thorough: all
	for c := 0; c < nchunks; c++ {
		if thorough || c < 8 || c >= nchunks-24 || rng.Intn(16) == 0 {
			w.Put(decd[c])
		}
	}
	// encoder: all 8 x 2^20 x 2 triples
	echunks := (1 << 20) / chunk
	for s := 0; s <= 7; s++ {
		for _, m := range []bool{false, true} {
			encd := make([]dig, echunks+1)
			for g := 0; g < 16; g++ {
				wg.Add(1)
				go func(g int) {
					defer wg.Done()
					for c := g; c <= echunks; c += 16 { // the chunk after the last legal one is all-refused
						var d1, d2 uint64
						lo := int64(c * chunk)
						for j := int64(0); j < chunk; j++ {
							h := hEnc(s, lo+j, m)
							d1 = (d1 + (uint64(j+1)%p1)*(h%p1)) % p1
							d2 = (d2 + (uint64(j+1)%p2)*(h%p2)) % p2
						}
						encd[c] = dig{Op: "encdig", Lo: int(lo), N: chunk, S: s, M: m, D1: int(d1), D2: int(d2)}
					}
				}(g)
			}
			wg.Wait()
			for c := 0; c <= echunks; c++ {
				if thorough || c < 2 || c >= echunks-3 || rng.Intn(24) == 0 {
					w.Put(encd[c])
				}
			}
		}
	}
	// decoder inputs above 24 bits: every one of them must be refused. Counted per 2^24 block.
	if thorough {
		type blk struct {
			Op   string `json:"op"`
			Hi8  int    `json:"hi8"` // v>>24
			N    int    `json:"n"`
			Errs int    `json:"errs"`
		}
		res := make([]blk, 256)
		for g := 0; g < 16; g++ {
			wg.Add(1)
			go func(g int) {
				defer wg.Done()
				for b := 1 + g; b < 256; b += 16 {
					errs := 0
					base := uint32(b) << 24
					for j := uint32(0); j < 1<<24; j++ {
						if _, _, _, err := blockwise.DecodeBlockOption(base + j); err != nil {
							errs++
						}
					}
					res[b] = blk{Op: "decblk", Hi8: b, N: 1 << 24, Errs: errs}
				}
			}(g)
		}
		wg.Wait()
		for b := 1; b < 256; b++ {
			w.Put(res[b])
		}
	}
}

// Explicit re-emits one digest chunk as explicit records (refinement of a digest mismatch).
func Explicit(out, op string, lo, n, s int, m bool) {
	w := rec.Create(out)
	defer w.Close()
	for j := 0; j < n; j++ {
		if op == "decdig" {
			w.Put(dec(uint32(lo + j)))
		} else {
			w.Put(enc(s, int64(lo+j), m))
		}
	}
}

type bwCC struct{ p *pool.Pool }

func (c *bwCC) AcquireMessage(ctx context.Context) *pool.Message { return c.p.AcquireMessage(ctx) }
func (c *bwCC) ReleaseMessage(m *pool.Message)                   { c.p.ReleaseMessage(m) }

// firstBlockLen: payload length of the first Block1 request BlockWise.Do sends for a body of 200 000 bytes with the given
// exponent and maximum message size (-1: nothing was sent).
func firstBlockLen(szx, mms int) int {
	cc := &bwCC{p: pool.New(8, 2048)}
	bw := blockwise.New(cc, time.Second, func(error) {}, nil)
	ctx, cancel := context.WithCancel(context.Background())
	defer cancel()
	req := cc.AcquireMessage(ctx)
	req.SetCode(codes.POST)
	req.SetToken([]byte{0x19, byte(szx)})
	req.MustSetPath("/b")
	req.SetContentFormat(message.AppOctets)
	req.SetBody(bytes.NewReader(make([]byte, 200000)))
	first := -1
	_, _ = bw.Do(req, blockwise.SZX(szx), uint32(mms), func(r *pool.Message) (*pool.Message, error) {
		if first < 0 {
			b, _ := r.ReadBody()
			first = len(b)
		}
		return nil, context.Canceled // one block is all we want to see
	})
	return first
}
