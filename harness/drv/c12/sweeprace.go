package c12

import (
	"context"
	"sync"
	"time"

	"github.com/plgd-dev/go-coap/v3/message"
	"github.com/plgd-dev/go-coap/v3/message/codes"
	"github.com/plgd-dev/go-coap/v3/message/pool"
	coapsync "github.com/plgd-dev/go-coap/v3/pkg/sync"
	udpclient "github.com/plgd-dev/go-coap/v3/udp/client"

	"verifharness/internal/conns"
	"verifharness/internal/hooks"
	"verifharness/internal/memnet"
	"verifharness/internal/track"
)

// the sweep goroutine of a sweeprace run parks at the map's hook between fetching the pending entry and acting on it
var sweepGates sync.Map // goroutine id -> *sweepGate

type sweepGate struct {
	arrived chan struct{}
	release chan struct{}
	once    sync.Once
}

func sweepHook(ev string, _ any) {
	if ev != "Range.unlocked" {
		return
	}
	if g, ok := sweepGates.Load(hooks.GID()); ok {
		gt := g.(*sweepGate)
		first := false
		gt.once.Do(func() { first = true })
		if first {
			close(gt.arrived)
			<-gt.release
		}
	}
}

// sweeprace: the housekeeping sweep has fetched the entry of a pending confirmable request and - before it acts on it - the
// acknowledgement arrives and is processed completely: the entry is taken out of the table and its pending copy goes back to
// the pool. The sweep then goes on with the entry it holds. variant "expired": the sweep finds the attempts exhausted (it
// would give the copy back: a second time?); variant "due": a retransmission is due (it would copy the pending copy: which is
// now somebody else's message - the application has issued its next message in between).
func sweeprace(poolSize uint32, variant string) Trace {
	coapsync.VerifHook = sweepHook
	t := start()
	defer track.Stop()
	tr := Trace{Mode: "sweeprace", PoolSize: int(poolSize), Kinds: []string{variant}}
	u := conns.NewUDP(func(cfg *udpclient.Config) {
		cfg.MessagePool = pool.New(poolSize, 2048)
		cfg.TransmissionNStart = 4
		cfg.TransmissionMaxRetransmit = 1
		cfg.TransmissionAcknowledgeTimeout = 2 * time.Second
	})
	defer u.Close()
	base := time.Now()
	ctx, cancel := context.WithCancel(context.Background())
	defer cancel()
	done := make(chan struct{})
	go func() {
		defer close(done)
		resp, err := u.CC.Get(ctx, "/a")
		if err == nil {
			t.Hold(resp)
			t.AppRelease(resp)
			u.CC.ReleaseMessage(resp)
		}
	}()
	var first memnet.Dgram
	if !hooks.WaitFor(2*time.Second, func() bool {
		for _, raw := range u.Sess.Out(0) {
			if d, err := memnet.Parse(raw); err == nil && d.Type == message.Confirmable && d.Code == int(codes.GET) {
				first = d
				return true
			}
		}
		return false
	}) {
		return tr
	}
	at := 3 * time.Second
	if variant == "expired" {
		u.CC.CheckExpirations(base.Add(3 * time.Second)) // the one retransmission
		at = 5 * time.Second
	}
	wire := u.Sess.OutLen()
	gt := &sweepGate{arrived: make(chan struct{}), release: make(chan struct{})}
	swept := make(chan struct{})
	go func() {
		defer close(swept)
		sweepGates.Store(hooks.GID(), gt)
		defer sweepGates.Delete(hooks.GID())
		u.CC.CheckExpirations(base.Add(at))
	}()
	select {
	case <-gt.arrived:
		tr.Calls = 1
	case <-swept:
	case <-time.After(2 * time.Second):
	}
	// the acknowledgement and the response, processed completely; the request call returns
	_ = u.Inject(memnet.Build(message.Acknowledgement, int(codes.Content), first.MID, first.Token, nil, []byte("v")))
	select {
	case <-done:
	case <-time.After(2 * time.Second):
	}
	// the application's next message (non-confirmable: nothing of it stays pending)
	extra := 0
	if variant == "due" {
		if req, err := u.CC.NewGetRequest(ctx, "/next-owner"); err == nil {
			req.SetType(message.NonConfirmable)
			if u.CC.WriteMessage(req) == nil {
				extra = 1
			}
			t.Hold(req)
			// (still held by the application while the sweep goes on)
			defer func() { t.AppRelease(req); u.CC.ReleaseMessage(req) }()
		}
	}
	gt.once.Do(func() {})
	close(gt.release)
	select {
	case <-swept:
	case <-time.After(3 * time.Second):
		return tr
	}
	u.Quiesce()
	time.Sleep(2 * time.Millisecond)
	// nothing but the application's next message went on the wire after the acknowledgement
	tr.Copies = u.Sess.OutLen() - wire
	if tr.Copies > extra {
		tr.Garbled = tr.Copies - extra
	}
	tr.Done = tr.Calls == 1
	tr.Log = t.Finish(poolSize == 0)
	return tr
}
