package c12

import (
	"bytes"
	"context"
	"fmt"
	"sync"
	"time"

	"github.com/plgd-dev/go-coap/v3/message"
	"github.com/plgd-dev/go-coap/v3/message/codes"
	"github.com/plgd-dev/go-coap/v3/message/pool"
	"github.com/plgd-dev/go-coap/v3/net/blockwise"
	"github.com/plgd-dev/go-coap/v3/net/responsewriter"
	tcpclient "github.com/plgd-dev/go-coap/v3/tcp/client"

	"verifharness/internal/conns"
	"verifharness/internal/track"
)

// tcpbw: two real tcp connections that have announced Block-Wise-Transfer to each other (CSM), joined by the driver's
// relay; block-wise uploads and downloads (the block-wise layer replaces the response writer's message on both sides),
// plain requests in between, with the ownership tracker on.
func tcpbw(seed int64, poolSize uint32, rounds int) Trace {
	t := start()
	defer track.Stop()
	tr := Trace{Mode: "tcpbw", PoolSize: int(poolSize), Kinds: []string{}}
	big := bytes.Repeat([]byte{7}, 100)
	mk := func(handler tcpclient.HandlerFunc) *conns.TCP {
		return conns.NewTCP(func(cfg *tcpclient.Config) {
			cfg.MessagePool = pool.New(poolSize, 2048)
			cfg.BlockwiseEnable = true
			cfg.BlockwiseSZX = blockwise.SZX32
			cfg.BlockwiseTransferTimeout = 2 * time.Second
			if handler != nil {
				cfg.Handler = handler
			}
		})
	}
	S := mk(func(w *responsewriter.ResponseWriter[*tcpclient.Conn], r *pool.Message) {
		t.Hold(r)
		defer t.Unhold(r)
		p, _ := r.Path()
		switch {
		case p == "/big":
			_ = w.SetResponse(codes.Content, message.AppOctets, bytes.NewReader(big))
		case r.Code() == codes.POST:
			b, _ := r.ReadBody()
			_ = w.SetResponse(codes.Changed, message.TextPlain, bytes.NewReader([]byte(fmt.Sprint(len(b)))))
		default:
			_ = w.SetResponse(codes.Content, message.TextPlain, bytes.NewReader([]byte("v")))
		}
	})
	C := mk(nil)
	defer S.Close()
	defer C.Close()
	csm := conns.Frame(int(codes.CSM), []byte{1}, message.Options{{ID: message.TCPBlockWiseTransfer, Value: []byte{}}}, nil)
	C.Feed(csm)
	S.Feed(csm)
	offC, offS := len(C.Stream.Written(0)), len(S.Stream.Written(0))
	stop := make(chan struct{})
	var rw sync.WaitGroup
	rw.Add(1)
	go func() { // the relay
		defer rw.Done()
		move := func(from, to *conns.TCP, off *int) bool {
			b := from.Stream.Written(*off)
			_, rest := conns.Frames(b)
			m := len(b) - len(rest)
			if m == 0 {
				return false
			}
			to.Feed(b[:m])
			*off += m
			return true
		}
		for {
			select {
			case <-stop:
				return
			default:
			}
			a := move(C, S, &offC)
			b := move(S, C, &offS)
			if !a && !b {
				time.Sleep(50 * time.Microsecond)
			}
		}
	}()
	x := uint64(seed)*48271 + 11
	for k := 0; k < rounds; k++ {
		x = x*6364136223846793005 + 1442695040888963407
		ctx, cancel := context.WithTimeout(context.Background(), 2*time.Second)
		var resp *pool.Message
		var err error
		switch (x >> 33) % 3 {
		case 0:
			resp, err = C.CC.Get(ctx, "/a")
		case 1:
			resp, err = C.CC.Post(ctx, "/p", message.AppOctets, bytes.NewReader(big))
		default:
			resp, err = C.CC.Get(ctx, "/big")
		}
		if resp != nil {
			t.Hold(resp)
			t.AppRelease(resp)
			C.CC.ReleaseMessage(resp)
		}
		cancel()
		tr.Calls++
		if err != nil {
			tr.Fails++
		}
	}
	close(stop)
	rw.Wait()
	time.Sleep(2 * time.Millisecond)
	tr.Done = true
	tr.Log = t.Finish(poolSize == 0)
	return tr
}
