// Package c12 records pool ownership events (verif hooks in message/pool + the driver's own hold / release
// marks) while real connections run (a) the exchange histories of specs/leak one at a time and (b) many
// exchanges concurrently between two real udp connections joined by a forwarding relay, with the housekeeping
// sweep running alongside. TLC (specs/pool/RecC12.tla) runs every object's events through the Lifecycle automaton.
package c12

import (
	"bufio"
	"bytes"
	"context"
	"encoding/json"
	"fmt"
	"os"
	"sync"
	"time"

	"github.com/plgd-dev/go-coap/v3/message"
	"github.com/plgd-dev/go-coap/v3/message/codes"
	"github.com/plgd-dev/go-coap/v3/message/pool"
	"github.com/plgd-dev/go-coap/v3/net/blockwise"
	"github.com/plgd-dev/go-coap/v3/net/responsewriter"
	udpclient "github.com/plgd-dev/go-coap/v3/udp/client"

	"verifharness/drv/c13"
	"verifharness/internal/conns"
	"verifharness/internal/rec"
	"verifharness/internal/track"
)

type Trace struct {
	Mode     string        `json:"mode"` // history | stress
	PoolSize int           `json:"poolSize"`
	Kinds    []string      `json:"kinds"`
	Done     bool          `json:"done"`
	Log      []track.Event `json:"log"`
	Calls    int           `json:"calls"`
	Fails    int           `json:"fails"`
	Garbled  int           `json:"garbled"` // retx: copies written for a message ID that differ from the first one (or do not parse); bwpark: accesses to the request's body after the request call returned
	Copies   int           `json:"copies"`  // retx: retransmitted copies seen
}

// sweepraceRetry: a run that does not reach its scheduling point says nothing and is repeated
func sweepraceRetry(poolSize uint32, variant string) Trace {
	for k := 0; k < 3; k++ {
		if tr := sweeprace(poolSize, variant); tr.Done {
			return tr
		}
	}
	rec.Die("c12 sweeprace: the sweep never reached the scheduling point")
	return Trace{}
}

// noTrack: the race-detector pass - no tracker (its mutex would order the very accesses the detector looks for) and the
// application releases every response the moment it gets it
var noTrack = os.Getenv("VERIF_NOTRACK") == "1"

func start() *track.Tracker {
	if noTrack {
		return track.StartOff()
	}
	return track.Start()
}

func history(kinds []string, poolSize uint32) Trace {
	t := start()
	defer track.Stop()
	h := c13.RunHistoryOpt(0, kinds, poolSize, t, noTrack)
	done := true
	for _, e := range h.Ev {
		done = done && e.Done
	}
	return Trace{Mode: "history", PoolSize: int(poolSize), Kinds: kinds, Done: done, Log: t.Finish(poolSize == 0)}
}

// stress: client and server udp connections joined by a relay that forwards every datagram; G goroutines issue
// GET / block-wise POST / block-wise GET / observe+cancel / ping concurrently while a sweeper calls
// CheckExpirations on both connections.
func stress(seed int64, poolSize uint32, rounds int) Trace {
	t := start()
	defer track.Stop()
	tr := Trace{Mode: "stress", PoolSize: int(poolSize), Kinds: []string{}}
	big := bytes.Repeat([]byte{5}, 90)
	mk := func(handler udpclient.HandlerFunc) *conns.UDP {
		return conns.NewUDP(func(cfg *udpclient.Config) {
			cfg.MessagePool = pool.New(poolSize, 2048)
			cfg.BlockwiseEnable = true
			cfg.BlockwiseSZX = blockwise.SZX32
			cfg.BlockwiseTransferTimeout = 2 * time.Second
			cfg.TransmissionNStart = 64
			cfg.LimitClientParallelRequests = 8
			cfg.LimitClientEndpointParallelRequests = 4
			if handler != nil {
				cfg.Handler = handler
			}
		})
	}
	var S, C *conns.UDP
	var obsMu sync.Mutex
	S = mk(func(w *responsewriter.ResponseWriter[*udpclient.Conn], r *pool.Message) {
		t.Hold(r)
		defer t.Unhold(r)
		p, _ := r.Path()
		switch {
		case p == "/big":
			_ = w.SetResponse(codes.Content, message.AppOctets, bytes.NewReader(big))
		case r.Code() == codes.POST:
			b, _ := r.ReadBody()
			_ = w.SetResponse(codes.Changed, message.TextPlain, bytes.NewReader([]byte(fmt.Sprint(len(b)))))
		default:
			_ = w.SetResponse(codes.Content, message.TextPlain, bytes.NewReader([]byte("v")))
		}
	})
	C = mk(nil)
	defer S.Close()
	defer C.Close()
	// relay: forward synchronously from the writer's goroutine
	C.Sess.OnWrite = func(raw []byte) { go func() { _ = S.CC.Process(nil, raw) }() }
	S.Sess.OnWrite = func(raw []byte) { go func() { _ = C.CC.Process(nil, raw) }() }
	stop := make(chan struct{})
	var wg sync.WaitGroup
	wg.Add(1)
	go func() { // housekeeping alongside
		defer wg.Done()
		for {
			select {
			case <-stop:
				return
			default:
			}
			now := time.Now()
			C.CC.CheckExpirations(now)
			S.CC.CheckExpirations(now)
			time.Sleep(200 * time.Microsecond)
		}
	}()
	var cmu sync.Mutex
	var cwg sync.WaitGroup
	for g := 0; g < 6; g++ {
		cwg.Add(1)
		go func(g int) {
			defer cwg.Done()
			x := uint64(seed)*7919 + uint64(g)*104729 + 1
			for k := 0; k < rounds; k++ {
				x = x*6364136223846793005 + 1442695040888963407
				ctx, cancel := context.WithTimeout(context.Background(), 3*time.Second)
				var resp *pool.Message
				var err error
				switch (x >> 33) % 5 {
				case 0:
					resp, err = C.CC.Get(ctx, fmt.Sprintf("/a%d", g))
				case 1:
					resp, err = C.CC.Post(ctx, fmt.Sprintf("/p%d", g), message.AppOctets, bytes.NewReader(big))
				case 2:
					resp, err = C.CC.Get(ctx, "/big")
				case 3:
					obsMu.Lock() // one observation at a time per path
					o, e2 := C.CC.Observe(ctx, fmt.Sprintf("/o%d", g), func(n *pool.Message) { t.Hold(n); t.Unhold(n) })
					if e2 == nil {
						e2 = o.Cancel(ctx)
					}
					obsMu.Unlock()
					err = e2
				default:
					err = C.CC.Ping(ctx)
				}
				if resp != nil {
					t.Hold(resp)
					t.AppRelease(resp)
					C.CC.ReleaseMessage(resp)
				}
				cancel()
				cmu.Lock()
				tr.Calls++
				if err != nil {
					tr.Fails++
				}
				cmu.Unlock()
			}
		}(g)
	}
	cwg.Wait()
	close(stop)
	wg.Wait()
	C.Quiesce()
	S.Quiesce()
	time.Sleep(2 * time.Millisecond)
	tr.Done = true
	tr.Log = t.Finish(poolSize == 0)
	return tr
}

// Run: histories from the stimulus file (each with pool size 0 and 64), then stress rounds.
func Run(stimPath, out string) {
	f, err := os.Open(stimPath)
	if err != nil {
		rec.Die("open: %v", err)
	}
	defer f.Close()
	wr := rec.Create(out)
	defer wr.Close()
	sc := bufio.NewScanner(f)
	sc.Buffer(make([]byte, 1<<20), 64<<20)
	for sc.Scan() {
		var st struct {
			Kinds []string `json:"kinds"`
		}
		if err := json.Unmarshal(sc.Bytes(), &st); err != nil {
			rec.Die("stimulus: %v", err)
		}
		wr.Put(history(st.Kinds, 0))
		wr.Put(history(st.Kinds, 64))
	}
	n := 3
	rounds := 30
	if rec.Tier() == "thorough" {
		n, rounds = 20, 120
	}
	for k := 0; k < n; k++ {
		t0 := time.Now()
		wr.Put(retx(rec.Seed()*100+int64(k), 0, rounds*5))
		wr.Put(retx(rec.Seed()*100+int64(k), 64, rounds*5))
		if os.Getenv("VERIF_DEBUG") != "" {
			println("retx", time.Since(t0).String())
		}
		for _, v := range []string{"expired", "due"} {
			wr.Put(sweepraceRetry(0, v))
			wr.Put(sweepraceRetry(64, v))
		}
		wr.Put(bwpark(0))
		wr.Put(bwpark(64))
		wr.Put(dupcache(0, 70))
		wr.Put(dupcache(64, 70))
		wr.Put(tcpbw(rec.Seed()*100+int64(k), 0, rounds))
		wr.Put(tcpbw(rec.Seed()*100+int64(k), 64, rounds))
		wr.Put(stress(rec.Seed()*100+int64(k), 0, rounds))
		wr.Put(stress(rec.Seed()*100+int64(k), 64, rounds))
	}
}
