package c12

import (
	"bytes"
	"context"
	"io"
	"sync"
	"sync/atomic"
	"time"

	"github.com/plgd-dev/go-coap/v3/message"
	"github.com/plgd-dev/go-coap/v3/message/codes"
	"github.com/plgd-dev/go-coap/v3/message/pool"
	"github.com/plgd-dev/go-coap/v3/net/blockwise"
	udpclient "github.com/plgd-dev/go-coap/v3/udp/client"

	"verifharness/internal/conns"
	"verifharness/internal/hooks"
	"verifharness/internal/memnet"
	"verifharness/internal/rec"
	"verifharness/internal/track"
)

// parkBody: a request body supplied by the application. It counts every access the library makes to it after the request
// call has returned (the request is the application's again from that moment on) and can park one Seek - the scheduling
// point: the library is in the middle of cutting the next block out of the request.
type parkBody struct {
	mu       sync.Mutex
	r        *bytes.Reader
	armed    atomic.Bool
	parked   chan struct{}
	release  chan struct{}
	returned atomic.Bool
	after    atomic.Int32
}

func (b *parkBody) touch() {
	if b.returned.Load() {
		b.after.Add(1)
	}
}
func (b *parkBody) Read(p []byte) (int, error) {
	b.touch()
	b.mu.Lock()
	defer b.mu.Unlock()
	return b.r.Read(p)
}
func (b *parkBody) Seek(off int64, whence int) (int64, error) {
	b.touch()
	if b.armed.CompareAndSwap(true, false) {
		close(b.parked)
		select {
		case <-b.release:
		case <-time.After(5 * time.Second):
		}
		b.touch()
	}
	b.mu.Lock()
	defer b.mu.Unlock()
	return b.r.Seek(off, whence)
}

var _ io.ReadSeeker = (*parkBody)(nil)

// bwpark: a block-wise upload on a real udp connection. While the receive path cuts the second block out of the request
// (parked inside the body's Seek) the caller's context ends. The request call may return only when the library is done with
// the request: every access to the request's body after the return is a read of a message the application owns again.
// (Fails: blocks of the upload that carry other bytes than the upload's own; Copies: blocks seen)
func bwpark(poolSize uint32) Trace {
	// (the schedule needs the library to reach the body within the watchdog; a run that does not get there says nothing and is repeated)
	for k := 0; k < 3; k++ {
		if tr := bwparkOnce(poolSize); tr.Done {
			return tr
		}
	}
	rec.Die("c12 bwpark: the upload never reached the scheduling point")
	return Trace{}
}

func bwparkOnce(poolSize uint32) Trace {
	t := start()
	defer track.Stop()
	tr := Trace{Mode: "bwpark", PoolSize: int(poolSize), Kinds: []string{}}
	u := conns.NewUDP(func(cfg *udpclient.Config) {
		cfg.MessagePool = pool.New(poolSize, 2048)
		cfg.BlockwiseEnable = true
		cfg.BlockwiseSZX = blockwise.SZX16
		cfg.BlockwiseTransferTimeout = 2 * time.Second
	})
	defer u.Close()
	body := &parkBody{r: bytes.NewReader(bytes.Repeat([]byte("0123456789abcdef"), 4)), parked: make(chan struct{}), release: make(chan struct{})}
	ctx, cancel := context.WithCancel(context.Background())
	defer cancel()
	req, err := u.CC.NewPostRequest(ctx, "/upload", message.AppOctets, body)
	if err != nil {
		return tr
	}
	done := make(chan struct{})
	go func() {
		defer close(done)
		resp, _ := u.CC.Do(req)
		body.returned.Store(true)
		if resp != nil {
			u.CC.ReleaseMessage(resp)
		}
	}()
	var first memnet.Dgram
	seen := 0
	ok := hooks.WaitFor(2*time.Second, func() bool {
		for _, raw := range u.Sess.Out(seen) {
			seen++
			if d, err := memnet.Parse(raw); err == nil && d.Code == int(codes.POST) {
				first = d
				return true
			}
		}
		return false
	})
	if !ok {
		return tr
	}
	b1, _ := first.Opts.GetUint32(message.Block1)
	body.armed.Store(true)
	cont := memnet.Build(message.Acknowledgement, int(codes.Continue), first.MID, first.Token, message.Options{{ID: message.Block1, Value: encUint(b1)}}, nil)
	_ = u.InjectNoWait(cont)
	select {
	case <-body.parked:
		tr.Calls = 1
	case <-time.After(2 * time.Second):
		close(body.release)
		<-done
		return tr // the library did not come to the body: nothing to judge (C12_Ran reports it)
	}
	cancel() // the caller gives up while the library is inside its request
	select {
	case <-done:
		// the call has returned: the request is the application's again - it re-uses it for its next upload
		req.SetBody(bytes.NewReader(bytes.Repeat([]byte("NEXT-OWNER-BODY!"), 4)))
		req.SetPath("/another")
	case <-time.After(100 * time.Millisecond):
	}
	close(body.release)
	select {
	case <-done:
	case <-time.After(3 * time.Second):
		return tr
	}
	time.Sleep(20 * time.Millisecond)
	u.Quiesce()
	u.CC.ReleaseMessage(req) // the application is done with its request
	tr.Garbled = int(body.after.Load())
	// every block the connection put on the wire for this upload carries the upload's own bytes
	orig := bytes.Repeat([]byte("0123456789abcdef"), 4)
	for _, raw := range u.Sess.Out(0) {
		d, err := memnet.Parse(raw)
		if err != nil || d.Code != int(codes.POST) || !bytes.Equal(d.Token, first.Token) {
			continue
		}
		bv, _ := d.Opts.GetUint32(message.Block1)
		off := int(bv>>4) * 16
		if off+len(d.Payload) > len(orig) || !bytes.Equal(d.Payload, orig[off:off+len(d.Payload)]) {
			tr.Fails++
		}
		tr.Copies++
	}
	tr.Done = true
	tr.Log = t.Finish(poolSize == 0)
	return tr
}

// RunPark writes the bwpark records alone (C04 judges the blocks on the wire).
func RunPark(out string) {
	w := rec.Create(out)
	defer w.Close()
	for k := 0; k < 3; k++ {
		w.Put(bwpark(0))
		w.Put(bwpark(64))
	}
}

func encUint(v uint32) []byte {
	switch {
	case v == 0:
		return []byte{}
	case v < 1<<8:
		return []byte{byte(v)}
	case v < 1<<16:
		return []byte{byte(v >> 8), byte(v)}
	default:
		return []byte{byte(v >> 16), byte(v >> 8), byte(v)}
	}
}
