package c12

import (
	"bytes"
	"context"
	"sync"
	"sync/atomic"
	"time"

	"github.com/plgd-dev/go-coap/v3/message"
	"github.com/plgd-dev/go-coap/v3/message/codes"
	"github.com/plgd-dev/go-coap/v3/message/pool"
	udpclient "github.com/plgd-dev/go-coap/v3/udp/client"

	"verifharness/internal/conns"
	"verifharness/internal/memnet"
	"verifharness/internal/track"
)

// retx: the library's own copy of a pending confirmable request is read by the retransmission sweep and released by the
// acknowledgement path. Requests with a body of 256 KiB (copying it takes long enough to meet) are each swept - with a clock
// that makes a copy due - at the very moment their acknowledgement arrives. Every copy the connection writes for a
// message ID must be byte-identical to the first one (a copy made from a message that was already given back to the
// pool is empty or somebody else's), and nothing may crash.
func retx(seed int64, poolSize uint32, rounds int) Trace {
	t := start()
	defer track.Stop()
	tr := Trace{Mode: "retx", PoolSize: int(poolSize), Kinds: []string{}}
	u := conns.NewUDP(func(cfg *udpclient.Config) {
		cfg.MessagePool = pool.New(poolSize, 2048)
		cfg.MaxMessageSize = 4 << 20
		cfg.TransmissionNStart = 4
		cfg.TransmissionMaxRetransmit = 1000
	})
	defer u.Close()
	u.Sess.MaxMsg = 4 << 20
	body := bytes.Repeat([]byte{0xB7}, 256<<10)
	var mu sync.Mutex
	first := map[int32][]byte{}
	var garbled, copies atomic.Int64
	type seenReq struct {
		mid int32
		tok []byte
	}
	reqCh := make(chan seenReq, 16)
	u.Sess.OnWrite = func(raw []byte) {
		d, err := memnet.Parse(raw)
		if err != nil {
			garbled.Add(1)
			return
		}
		if d.Type != message.Confirmable {
			return
		}
		mu.Lock()
		f, ok := first[d.MID]
		if !ok {
			first[d.MID] = raw
		}
		mu.Unlock()
		if ok {
			copies.Add(1)
			if !bytes.Equal(f, raw) {
				garbled.Add(1)
			}
			return
		}
		select {
		case reqCh <- seenReq{d.MID, d.Token}:
		default:
		}
	}
	x := uint64(seed)*2654435761 + 977
	for k := 0; k < rounds; k++ {
		x = x*6364136223846793005 + 1442695040888963407
		delay := time.Duration((x>>33)%400) * time.Microsecond
		ctx, cancel := context.WithCancel(context.Background()) // (no deadline: the sweeper's clock runs far ahead)
		wdog := time.AfterFunc(3*time.Second, cancel)
		done := make(chan struct{})
		go func() {
			defer close(done)
			resp, err := u.CC.Post(ctx, "/big", message.AppOctets, bytes.NewReader(body))
			if err == nil {
				t.Hold(resp)
				t.AppRelease(resp)
				u.CC.ReleaseMessage(resp)
			} else {
				tr.Fails++
			}
			tr.Calls++
		}()
		var q seenReq
		select {
		case q = <-reqCh:
		case <-time.After(2 * time.Second):
			cancel()
			<-done
			continue
		}
		// the sweeper: every sweep finds a copy due (the clock is far enough ahead)
		stop := make(chan struct{})
		var sw sync.WaitGroup
		sw.Add(1)
		go func() {
			defer sw.Done()
			ahead := time.Duration(0)
			for {
				select {
				case <-stop:
					return
				default:
				}
				ahead += 10 * time.Second
				u.CC.CheckExpirations(time.Now().Add(ahead))
				time.Sleep(20 * time.Microsecond)
			}
		}()
		time.Sleep(delay)
		_ = u.InjectNoWait(memnet.Build(message.Acknowledgement, int(codes.Changed), q.mid, q.tok, nil, []byte("ok")))
		<-done
		close(stop)
		sw.Wait()
		wdog.Stop()
		cancel()
	}
	u.Quiesce()
	tr.Done = true
	tr.Garbled = int(garbled.Load())
	tr.Copies = int(copies.Load())
	tr.Log = t.Finish(poolSize == 0)
	return tr
}
