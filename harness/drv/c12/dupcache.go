package c12

import (
	"bytes"
	"fmt"

	"github.com/plgd-dev/go-coap/v3/message"
	"github.com/plgd-dev/go-coap/v3/message/codes"
	"github.com/plgd-dev/go-coap/v3/message/pool"
	"github.com/plgd-dev/go-coap/v3/net/responsewriter"
	udpclient "github.com/plgd-dev/go-coap/v3/udp/client"

	"verifharness/internal/conns"
	"verifharness/internal/memnet"
	"verifharness/internal/track"
)

// dupcache: what the library keeps for later must not live in a message it has given back. A confirmable request is
// answered (the reply is remembered for its message ID), `others` unrelated exchanges follow on the same connection (the
// pooled objects go round), then the request arrives again: the reply must be the first reply, byte for byte.
func dupcache(poolSize uint32, others int) Trace {
	t := start()
	defer track.Stop()
	tr := Trace{Mode: "dupcache", PoolSize: int(poolSize), Kinds: []string{}}
	u := conns.NewUDP(func(cfg *udpclient.Config) {
		cfg.MessagePool = pool.New(poolSize, 2048)
		cfg.Handler = func(w *responsewriter.ResponseWriter[*udpclient.Conn], r *pool.Message) {
			t.Hold(r)
			defer t.Unhold(r)
			p, _ := r.Path()
			_ = w.SetResponse(codes.Content, message.TextPlain, bytes.NewReader(bytes.Repeat([]byte(p), 6)))
		}
	})
	defer u.Close()
	ask := func(mid int32, tok []byte, path string) []byte {
		from := u.Sess.OutLen()
		_ = u.Inject(memnet.Build(message.Confirmable, int(codes.GET), mid, tok, message.Options{{ID: message.URIPath, Value: []byte(path)}}, nil))
		for _, raw := range u.Sess.Out(from) {
			if d, err := memnet.Parse(raw); err == nil && d.MID == mid {
				return raw
			}
		}
		return nil
	}
	for k := 0; k < 4; k++ {
		mid := int32(1000 + k)
		tok := []byte{0x0a, byte(k), 3, 4}
		first := ask(mid, tok, fmt.Sprintf("aaaa%d", k))
		for j := 0; j < others; j++ {
			ask(int32(2000+k*200+j), []byte{0x0b, byte(k), byte(j)}, "bbbbbbbb")
		}
		again := ask(mid, tok, fmt.Sprintf("aaaa%d", k))
		tr.Calls++
		tr.Copies++
		if first == nil || again == nil || !bytes.Equal(first, again) {
			tr.Garbled++
		}
	}
	u.Quiesce()
	tr.Done = true
	tr.Log = t.Finish(poolSize == 0)
	return tr
}
