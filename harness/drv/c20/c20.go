// Package c20 records what the real No-Response machinery does: the pure predicate over the whole
// table, ResponseWriter.SetResponse, and complete exchanges on real udp/tcp connections.
// TLC (specs/wire/RecC20.tla) judges every record against RFC 7967.
package c20

import (
	"bytes"
	"encoding/binary"
	"github.com/plgd-dev/go-coap/v3/net/blockwise"
	"sync/atomic"
	"time"

	"github.com/plgd-dev/go-coap/v3/message"
	"github.com/plgd-dev/go-coap/v3/message/codes"
	"github.com/plgd-dev/go-coap/v3/message/noresponse"
	"github.com/plgd-dev/go-coap/v3/message/pool"
	"github.com/plgd-dev/go-coap/v3/net/responsewriter"
	tcpclient "github.com/plgd-dev/go-coap/v3/tcp/client"
	udpclient "github.com/plgd-dev/go-coap/v3/udp/client"

	"verifharness/internal/conns"
	"verifharness/internal/memnet"
	"verifharness/internal/rec"
)

type isnr struct {
	Op      string `json:"op"`
	VHi     int    `json:"vhi"`
	VLo     int    `json:"vlo"`
	Code    int    `json:"code"`
	Refused bool   `json:"refused"`
}

type setresp struct {
	Op        string `json:"op"`
	Has       bool   `json:"has"`
	VHi       int    `json:"vhi"`
	VLo       int    `json:"vlo"`
	Code      int    `json:"code"`
	Refused   bool   `json:"refused"`
	Changed   bool   `json:"changed"`
	CodeAfter int    `json:"codeAfter"`
}

type wire struct {
	Op          string `json:"op"`
	Transport   string `json:"transport"`
	Con         bool   `json:"con"`
	VHi         int    `json:"vhi"`
	VLo         int    `json:"vlo"`
	Code        int    `json:"code"`
	Acks        int    `json:"acks"`
	Responses   int    `json:"responses"`
	RespCode    int    `json:"respCode"`
	RespTokOK   bool   `json:"respTokOK"`
	HandlerRuns int    `json:"handlerRuns"`
	SetRefused  bool   `json:"setRefused"`
}

type nopClient struct{}

func (nopClient) ReleaseMessage(*pool.Message) {}

func encUint(v uint32) []byte {
	var b [4]byte
	binary.BigEndian.PutUint32(b[:], v)
	i := 0
	for i < 4 && b[i] == 0 {
		i++
	}
	return b[i:]
}

func values(thorough bool) []uint32 {
	vs := []uint32{}
	for v := uint32(0); v < 64; v++ {
		vs = append(vs, v)
	}
	vs = append(vs, 126, 127, 128, 255, 256, 258, 0x11a, 0xff1a, 0xffff, 0x10002, 0x1001a, 0x7fffffff, 0x80000002, 0xffffffe5, 0xffffffff)
	if thorough {
		for v := uint32(64); v < 256; v++ {
			vs = append(vs, v)
		}
	}
	return vs
}

func Run(out string) {
	w := rec.Create(out)
	defer w.Close()
	thorough := rec.Tier() == "thorough"

	// (1) the predicate over the whole table
	for v := uint32(0); v < 256; v++ {
		for c := 0; c < 256; c++ {
			w.Put(isnr{"isnr", 0, int(v), c, noresponse.IsNoResponseCode(codes.Code(c), v) != nil})
		}
	}
	for _, v := range values(true) {
		if v < 256 {
			continue
		}
		for c := 0; c < 256; c++ {
			w.Put(isnr{"isnr", int(v >> 16), int(v & 0xffff), c, noresponse.IsNoResponseCode(codes.Code(c), v) != nil})
		}
	}

	// (2) ResponseWriter.SetResponse
	// (has = 2: No-Response is NOT the request's last option - options numbered above 258 follow it, e.g. OCF-Content-Format-Version 2053)
	for _, hasN := range []int{1, 2, 0} {
		has := hasN > 0
		for _, v := range values(thorough) {
			for c := 0; c < 256; c++ {
				resp := pool.NewMessage(nil)
				resp.SetCode(codes.Code(0))
				resp.SetModified(false)
				var ro []message.Option
				ro = append(ro, message.Option{ID: message.URIPath, Value: []byte("a")})
				if has {
					ro = append(ro, message.Option{ID: message.NoResponse, Value: encUint(v)})
				}
				if hasN == 2 {
					ro = append(ro, message.Option{ID: message.OptionID(292), Value: []byte{1}}, message.Option{ID: message.OptionID(2053), Value: []byte{8, 0}})
				}
				rw := responsewriter.New(resp, nopClient{}, ro...)
				err := rw.SetResponse(codes.Code(c), message.TextPlain, bytes.NewReader([]byte("x")))
				w.Put(setresp{"setresp", has, int(v >> 16), int(v & 0xffff), c, err != nil, rw.Message().IsModified(), int(rw.Message().Code())})
			}
			if !has {
				break
			}
		}
	}

	// (2b) SetResponse on a response the handler has already touched: after preparing it through Message() (how = 1) and after an
	// earlier SetResponse that was accepted (how = 2: a 2.05 first unless 2.xx is suppressed, then a 4.00, then a 5.00)
	for _, v := range values(thorough) {
		for how := 1; how <= 2; how++ {
			for c := 0; c < 256; c++ {
				resp := pool.NewMessage(nil)
				resp.SetCode(codes.Code(0))
				resp.SetModified(false)
				ro := []message.Option{{ID: message.URIPath, Value: []byte("a")}, {ID: message.NoResponse, Value: encUint(v)}}
				rw := responsewriter.New(resp, nopClient{}, ro...)
				first := 0
				if how == 1 {
					rw.Message().SetOptionUint32(message.MaxAge, 30)
				} else {
					for _, f := range []int{69, 128, 160} {
						if rw.SetResponse(codes.Code(f), message.TextPlain, bytes.NewReader([]byte("y"))) == nil {
							first = f
							break
						}
					}
					if first == 0 {
						continue // every class is suppressed: there is no accepted first response
					}
				}
				err := rw.SetResponse(codes.Code(c), message.TextPlain, bytes.NewReader([]byte("x")))
				after := int(rw.Message().Code())
				w.Put(map[string]any{"op": "setagain", "how": how, "first": first, "vhi": int(v >> 16), "vlo": int(v & 0xffff), "code": c, "refused": err != nil, "codeAfter": after})
			}
		}
	}

	// (3) wire level
	wcodes := []int{65, 66, 67, 68, 69, 95, 128, 132, 136, 137, 150, 157, 159, 160, 165, 168, 191, 192, 224, 255}
	if thorough {
		wcodes = nil
		for c := 64; c < 256; c++ {
			wcodes = append(wcodes, c)
		}
	}
	wvals := []uint32{}
	for v := uint32(0); v < 32; v++ {
		wvals = append(wvals, v)
	}
	wvals = append(wvals, 32, 34, 58, 128, 250, 255) // a request can carry 0..255 only: the option is 0-1 bytes long
	for _, v := range wvals {
		udpWire(w, v, wcodes)
		tcpWire(w, v, wcodes)
		if v%4 == 2 || v == 8 || v == 16 || v == 0 {
			udpWireBW(w, v, []int{68, 69, 132, 160})
		}
	}
}

func reqOpts(v uint32) message.Options {
	o := message.Options{{ID: message.URIPath, Value: []byte("a")}}
	if v%3 == 0 { // every third value: an option the parser skips (a Max-Age of 5 bytes - the legal maximum is 4) precedes No-Response
		o = append(o, message.Option{ID: message.MaxAge, Value: []byte{1, 2, 3, 4, 5}})
	}
	o = append(o, message.Option{ID: message.NoResponse, Value: encUint(v)})
	if v%2 == 1 { // every second value: No-Response is not the last option of the request
		o = append(o, message.Option{ID: message.OptionID(2053), Value: []byte{8, 0}})
	}
	return o
}

func udpWire(w *rec.W, v uint32, wcodes []int) {
	var runs atomic.Int64
	var refused atomic.Bool
	u := conns.NewUDP(func(cfg *udpclient.Config) {
		cfg.Handler = func(rw *responsewriter.ResponseWriter[*udpclient.Conn], r *pool.Message) {
			runs.Add(1)
			body, _ := r.ReadBody()
			if len(body) != 1 {
				return
			}
			err := rw.SetResponse(codes.Code(body[0]), message.TextPlain, bytes.NewReader([]byte("resp")))
			refused.Store(err != nil)
		}
	})
	defer u.Close()
	mid := int32(100)
	for _, con := range []bool{true, false} {
		for _, c := range wcodes {
			mid++
			tok := []byte{byte(mid >> 8), byte(mid), 0x5a}
			typ := message.NonConfirmable
			if con {
				typ = message.Confirmable
			}
			runs.Store(0)
			refused.Store(false)
			from := u.Sess.OutLen()
			// (every request method in turn: GET POST PUT DELETE and the RFC 8132 methods FETCH PATCH iPATCH)
			err := u.Inject(memnet.Build(typ, 1+int(mid)%7, mid, tok, reqOpts(v), []byte{byte(c)}))
			if err != nil {
				rec.Die("c20 udp inject: %v", err)
			}
			r := wire{Op: "wire", Transport: "udp", Con: con, VHi: int(v >> 16), VLo: int(v & 0xffff), Code: c, HandlerRuns: int(runs.Load()), SetRefused: refused.Load(), RespCode: -1}
			for _, raw := range u.Sess.Out(from) {
				d, err := memnet.Parse(raw)
				if err != nil {
					rec.Die("c20: cannot parse emitted datagram: %v", err)
				}
				if d.Code == int(codes.Empty) {
					if d.Type == message.Acknowledgement && d.MID == mid {
						r.Acks++
					} else {
						r.Responses += 100 // unexpected empty message: counted as a foreign emission
					}
					continue
				}
				r.Responses++
				r.RespCode = d.Code
				r.RespTokOK = bytes.Equal(d.Token, tok)
			}
			w.Put(r)
		}
	}
}

// udpWireBW: the request body arrives block-wise (two Block1 blocks, No-Response on both); the handler answers the reassembled
// request. What the last block's exchange puts on the wire is judged like the plain case.
func udpWireBW(w *rec.W, v uint32, wcodes []int) {
	var runs atomic.Int64
	var refused atomic.Bool
	u := conns.NewUDP(func(cfg *udpclient.Config) {
		cfg.BlockwiseEnable = true
		cfg.BlockwiseSZX = blockwise.SZX16
		cfg.BlockwiseTransferTimeout = time.Second
		cfg.Handler = func(rw *responsewriter.ResponseWriter[*udpclient.Conn], r *pool.Message) {
			runs.Add(1)
			body, _ := r.ReadBody()
			if len(body) != 17 {
				return
			}
			err := rw.SetResponse(codes.Code(body[0]), message.TextPlain, bytes.NewReader([]byte("resp")))
			refused.Store(err != nil)
		}
	})
	defer u.Close()
	mid := int32(300)
	for _, con := range []bool{true, false} {
		for _, c := range wcodes {
			typ := message.NonConfirmable
			if con {
				typ = message.Confirmable
			}
			mid += 2
			tok := []byte{byte(mid >> 8), byte(mid), 0x5c}
			opts := func(blk byte) message.Options {
				o := message.Options{{ID: message.URIPath, Value: []byte("a")}, {ID: message.Block1, Value: []byte{blk}}, {ID: message.NoResponse, Value: encUint(v)}}
				return o
			}
			first := append([]byte{byte(c)}, bytes.Repeat([]byte{7}, 15)...)
			runs.Store(0)
			refused.Store(false)
			if err := u.Inject(memnet.Build(typ, int(codes.POST), mid, tok, opts(0x08), first)); err != nil { // NUM 0, M, SZX 16
				rec.Die("c20 udp bw inject: %v", err)
			}
			from := u.Sess.OutLen()
			if err := u.Inject(memnet.Build(typ, int(codes.POST), mid+1, tok, opts(0x10), []byte{9})); err != nil { // NUM 1, last
				rec.Die("c20 udp bw inject: %v", err)
			}
			r := wire{Op: "wire", Transport: "udp-blockwise", Con: con, VHi: int(v >> 16), VLo: int(v & 0xffff), Code: c, HandlerRuns: int(runs.Load()), SetRefused: refused.Load(), RespCode: -1}
			for _, raw := range u.Sess.Out(from) {
				d, err := memnet.Parse(raw)
				if err != nil {
					rec.Die("c20: cannot parse emitted datagram: %v", err)
				}
				if d.Code == int(codes.Empty) && len(d.Token) == 0 && len(d.Opts) == 0 {
					if d.Type == message.Acknowledgement && d.MID == mid+1 {
						r.Acks++
					} else {
						r.Responses += 100
					}
					continue
				}
				r.Responses++
				r.RespCode = d.Code
				r.RespTokOK = bytes.Equal(d.Token, tok)
			}
			w.Put(r)
		}
	}
}

func tcpWire(w *rec.W, v uint32, wcodes []int) {
	var runs atomic.Int64
	var refused atomic.Bool
	t := conns.NewTCP(func(cfg *tcpclient.Config) {
		cfg.Handler = func(rw *responsewriter.ResponseWriter[*tcpclient.Conn], r *pool.Message) {
			runs.Add(1)
			body, _ := r.ReadBody()
			if len(body) != 1 {
				return
			}
			err := rw.SetResponse(codes.Code(body[0]), message.TextPlain, bytes.NewReader([]byte("resp")))
			refused.Store(err != nil)
		}
	})
	defer t.Close()
	if !t.Settle() {
		rec.Die("c20 tcp: connection did not settle")
	}
	n := 0
	for _, c := range wcodes {
		n++
		tok := []byte{byte(n >> 8), byte(n), 0x5b}
		runs.Store(0)
		refused.Store(false)
		from := len(t.Stream.Written(0))
		if !t.Feed(conns.Frame(1+n%7, tok, reqOpts(v), []byte{byte(c)})) {
			rec.Die("c20 tcp: feed did not settle")
		}
		r := wire{Op: "wire", Transport: "tcp", Con: false, VHi: int(v >> 16), VLo: int(v & 0xffff), Code: c, HandlerRuns: int(runs.Load()), SetRefused: refused.Load(), RespCode: -1}
		frames, rest := conns.Frames(t.Stream.Written(from))
		if len(rest) != 0 {
			rec.Die("c20 tcp: emitted bytes do not parse as frames")
		}
		for _, f := range frames {
			r.Responses++
			r.RespCode = f.Code
			r.RespTokOK = bytes.Equal(f.Token, tok)
		}
		w.Put(r)
	}
}
