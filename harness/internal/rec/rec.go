// Package rec writes ndjson record/trace files that TLC reads with ndJsonDeserialize.
package rec

import (
	"bufio"
	"encoding/json"
	"fmt"
	"os"
	"strconv"
	"sync"
)

type W struct {
	mu sync.Mutex
	f  *os.File
	w  *bufio.Writer
	N  int
}

func Create(path string) *W {
	f, err := os.Create(path)
	if err != nil {
		Die("create %s: %v", path, err)
	}
	return &W{f: f, w: bufio.NewWriterSize(f, 1<<20)}
}

// Put writes one record (any JSON-marshalable value) as one line.
func (w *W) Put(v any) {
	b, err := json.Marshal(v)
	if err != nil {
		Die("marshal: %v", err)
	}
	w.mu.Lock()
	w.w.Write(b)
	w.w.WriteByte('\n')
	w.N++
	w.mu.Unlock()
}

func (w *W) Close() {
	w.mu.Lock()
	defer w.mu.Unlock()
	if err := w.w.Flush(); err != nil {
		Die("flush: %v", err)
	}
	w.f.Close()
}

// Die reports a harness (machinery) failure: exit code 3 is never read as a property verdict.
func Die(format string, a ...any) {
	fmt.Fprintf(os.Stderr, "drv: "+format+"\n", a...)
	os.Exit(3)
}

func Seed() int64 {
	s, err := strconv.ParseInt(os.Getenv("VERIF_SEED"), 10, 64)
	if err != nil {
		return 1
	}
	return s
}

func Tier() string {
	if os.Getenv("VERIF_TIER") == "thorough" {
		return "thorough"
	}
	return "quick"
}

// Bytes renders a byte string as a JSON array of small integers (TLA+ sequence of 0..255).
func Bytes(b []byte) []int {
	out := make([]int, len(b))
	for i, x := range b {
		out[i] = int(x)
	}
	return out
}
