// Package hooks installs the verif-tag hook functions of go-coap and turns them into counters
// and optional gates. It contains no judgement.
package hooks

import (
	"bytes"
	"runtime"
	"strconv"
	"sync"
	"sync/atomic"
	"time"

	netclient "github.com/plgd-dev/go-coap/v3/net/client"
	tcpclient "github.com/plgd-dev/go-coap/v3/tcp/client"
	udpclient "github.com/plgd-dev/go-coap/v3/udp/client"
)

// Counters of the received-message queue of one connection.
type Counters struct {
	Enq, Deq, Proc atomic.Int64
}

var (
	mu   sync.Mutex
	byCC = map[any]*Counters{}
	// Gate, when set, is called on the loop goroutine right after a message was dequeued
	// (before it is processed): gate(message, goroutine id).
	Gate atomic.Pointer[func(cc any, gid int64)]
)

func For(cc any) *Counters {
	mu.Lock()
	defer mu.Unlock()
	c := byCC[cc]
	if c == nil {
		c = &Counters{}
		byCC[cc] = c
	}
	return c
}

// Forget drops the counters of a connection (keeps the registry small in long runs).
func Forget(cc any) {
	mu.Lock()
	delete(byCC, cc)
	mu.Unlock()
}

func hook(ev string, obj any) {
	switch ev {
	case "enqueue":
		For(obj).Enq.Add(1)
	case "dequeued": // obj is the dequeued *pool.Message
		if g := Gate.Load(); g != nil {
			(*g)(obj, GID())
		}
	case "processed":
		For(obj).Proc.Add(1)
	}
}

func init() {
	udpclient.VerifHook = hook
	tcpclient.VerifHook = hook
	netclient.VerifHook = hook
}

// GID returns the current goroutine id (identity of a receive loop in traces).
func GID() int64 {
	var buf [64]byte
	b := buf[:runtime.Stack(buf[:], false)]
	b = bytes.TrimPrefix(b, []byte("goroutine "))
	i := bytes.IndexByte(b, ' ')
	n, _ := strconv.ParseInt(string(b[:i]), 10, 64)
	return n
}

// Quiesce waits until every message pushed to the connection's receive queue has been processed.
// It returns false only on the failure path (watchdog).
func Quiesce(cc any, wd time.Duration) bool {
	c := For(cc)
	deadline := time.Now().Add(wd)
	for i := 0; ; i++ {
		if c.Enq.Load() == c.Proc.Load() {
			return true
		}
		if time.Now().After(deadline) {
			return false
		}
		if i < 200 {
			runtime.Gosched()
		} else {
			time.Sleep(50 * time.Microsecond)
		}
	}
}

// WaitFor polls cond until it holds or the watchdog expires.
func WaitFor(wd time.Duration, cond func() bool) bool {
	deadline := time.Now().Add(wd)
	for i := 0; ; i++ {
		if cond() {
			return true
		}
		if time.Now().After(deadline) {
			return false
		}
		if i < 200 {
			runtime.Gosched()
		} else {
			time.Sleep(50 * time.Microsecond)
		}
	}
}
