package memnet

import "github.com/plgd-dev/go-coap/v3/message/codes"

func codesCode(c int) codes.Code { return codes.Code(c) }

// Code converts an int to a CoAP code.
func Code(c int) codes.Code { return codes.Code(c) }
