package memnet

import (
	"io"
	"net"
	"os"
	"sync"
	"sync/atomic"
	"time"
)

// Stream is a scripted net.Conn: Read returns exactly the chunks the driver feeds (never more, never
// merged), Write appends to an output log.
type Stream struct {
	mu     sync.Mutex
	cond   *sync.Cond
	chunks [][]byte
	eof    bool
	closed bool
	out    []byte
	// Reads counts entries into Read (the session is back at the socket when it increases).
	Reads   atomic.Int64
	Waiting atomic.Bool
	OnWrite func(b []byte)
	// a peer that stopped reading with its buffers full: Write parks until the stream is closed or the write deadline passes
	stalled bool
	wdl     time.Time
	Parked  atomic.Int64 // writers currently parked
	// WriteErr makes every Write fail with this error (the stream itself stays open for reading until closed)
	WriteErr error
}

// Stall makes every Write from now on park like a write into the full buffers of a peer that does not read.
func (s *Stream) Stall() {
	s.mu.Lock()
	s.stalled = true
	s.mu.Unlock()
}

func NewStream() *Stream {
	s := &Stream{}
	s.cond = sync.NewCond(&s.mu)
	return s
}

// Feed makes the next Read return exactly b (b must fit the reader's buffer; the driver sizes chunks).
func (s *Stream) Feed(b []byte) {
	s.mu.Lock()
	s.chunks = append(s.chunks, append([]byte(nil), b...))
	s.mu.Unlock()
	s.cond.Broadcast()
}

// EOF makes Read return io.EOF once the fed chunks are consumed (peer closed).
func (s *Stream) EOF() {
	s.mu.Lock()
	s.eof = true
	s.mu.Unlock()
	s.cond.Broadcast()
}

func (s *Stream) Read(p []byte) (int, error) {
	s.Reads.Add(1)
	s.mu.Lock()
	defer s.mu.Unlock()
	for len(s.chunks) == 0 && !s.eof && !s.closed {
		s.Waiting.Store(true)
		s.cond.Wait()
	}
	s.Waiting.Store(false)
	if len(s.chunks) > 0 {
		c := s.chunks[0]
		n := copy(p, c)
		if n < len(c) {
			s.chunks[0] = c[n:]
		} else {
			s.chunks = s.chunks[1:]
		}
		return n, nil
	}
	if s.closed {
		return 0, net.ErrClosed
	}
	return 0, io.EOF
}

// Idle reports that every fed chunk was consumed and the reader is blocked in Read again.
func (s *Stream) Idle() bool {
	s.mu.Lock()
	defer s.mu.Unlock()
	return len(s.chunks) == 0 && s.Waiting.Load()
}

func (s *Stream) Write(p []byte) (int, error) {
	s.mu.Lock()
	if s.WriteErr != nil && !s.closed {
		err := s.WriteErr
		s.mu.Unlock()
		return 0, err
	}
	if s.stalled && !s.closed {
		s.Parked.Add(1)
		for !s.closed && (s.wdl.IsZero() || time.Now().Before(s.wdl)) {
			if !s.wdl.IsZero() {
				time.AfterFunc(time.Until(s.wdl)+time.Millisecond, s.cond.Broadcast)
			}
			s.cond.Wait()
		}
		s.Parked.Add(-1)
		if !s.closed {
			s.mu.Unlock()
			return 0, os.ErrDeadlineExceeded
		}
	}
	if s.closed {
		s.mu.Unlock()
		return 0, net.ErrClosed
	}
	s.out = append(s.out, p...)
	cb := s.OnWrite
	s.mu.Unlock()
	if cb != nil {
		cb(append([]byte(nil), p...))
	}
	return len(p), nil
}

// Written returns everything written so far from offset `from`.
func (s *Stream) Written(from int) []byte {
	s.mu.Lock()
	defer s.mu.Unlock()
	if from >= len(s.out) {
		return nil
	}
	return append([]byte(nil), s.out[from:]...)
}

func (s *Stream) Close() error {
	s.mu.Lock()
	s.closed = true
	s.mu.Unlock()
	s.cond.Broadcast()
	return nil
}

func (s *Stream) IsClosed() bool {
	s.mu.Lock()
	defer s.mu.Unlock()
	return s.closed
}

type addr string

func (a addr) Network() string { return "mem" }
func (a addr) String() string  { return string(a) }

func (s *Stream) LocalAddr() net.Addr             { return addr("local") }
func (s *Stream) RemoteAddr() net.Addr            { return addr("remote") }
func (s *Stream) SetDeadline(time.Time) error     { return nil }
func (s *Stream) SetReadDeadline(time.Time) error { return nil }
func (s *Stream) SetWriteDeadline(t time.Time) error {
	s.mu.Lock()
	s.wdl = t
	s.mu.Unlock()
	s.cond.Broadcast()
	return nil
}
