// Package memnet provides in-memory transports for driving real go-coap connections without sockets.
package memnet

import (
	"context"
	"net"
	"sync"
	"sync/atomic"
	"syscall"

	"github.com/plgd-dev/go-coap/v3/message"
	"github.com/plgd-dev/go-coap/v3/message/pool"
	coapNet "github.com/plgd-dev/go-coap/v3/net"
	"github.com/plgd-dev/go-coap/v3/udp/client"
	"github.com/plgd-dev/go-coap/v3/udp/coder"
)

// UDPSess is an in-memory udp/client.Session: every datagram the connection writes is appended to Out.
type UDPSess struct {
	ctx     context.Context
	cancel  context.CancelFunc
	done    chan struct{}
	mu      sync.Mutex
	onClose []func()
	closed  bool
	out     [][]byte
	MaxMsg  uint32
	// OnWrite, if set, is called (outside the lock) with a copy of every written datagram.
	OnWrite func(raw []byte)
	// FailWrites makes WriteMessage return an error (after logging nothing).
	FailWrites error
	// FailNext makes the next n writes fail with a transient network error (nothing reaches the wire); later writes work.
	FailNext atomic.Int64
	Mcast    [][]byte
}

func NewUDPSess() *UDPSess {
	ctx, cancel := context.WithCancel(context.Background())
	return &UDPSess{ctx: ctx, cancel: cancel, done: make(chan struct{}), MaxMsg: 64 * 1024}
}

func (s *UDPSess) Context() context.Context { return s.ctx }
func (s *UDPSess) MaxMessageSize() uint32   { return s.MaxMsg }
func (s *UDPSess) RemoteAddr() net.Addr {
	return &net.UDPAddr{IP: net.IPv4(127, 0, 0, 1), Port: 5683}
}

func (s *UDPSess) LocalAddr() net.Addr {
	return &net.UDPAddr{IP: net.IPv4(127, 0, 0, 1), Port: 40000}
}
func (s *UDPSess) NetConn() net.Conn     { return nil }
func (s *UDPSess) Done() <-chan struct{} { return s.done }
func (s *UDPSess) SetContextValue(key interface{}, val interface{}) {
	s.mu.Lock()
	s.ctx = context.WithValue(s.ctx, key, val)
	s.mu.Unlock()
}

func (s *UDPSess) AddOnClose(f client.EventFunc) {
	s.mu.Lock()
	s.onClose = append(s.onClose, f)
	s.mu.Unlock()
}

func (s *UDPSess) Close() error {
	s.cancel()
	s.mu.Lock()
	if s.closed {
		s.mu.Unlock()
		return nil
	}
	s.closed = true
	fs := s.onClose
	s.onClose = nil
	s.mu.Unlock()
	for _, f := range fs {
		f()
	}
	close(s.done)
	return nil
}

func (s *UDPSess) Run(*client.Conn) error {
	<-s.ctx.Done()
	return s.Close()
}

func (s *UDPSess) WriteMessage(req *pool.Message) error {
	if s.FailWrites != nil {
		return s.FailWrites
	}
	if s.FailNext.Load() > 0 && s.FailNext.Add(-1) >= 0 {
		return syscall.ENETUNREACH
	}
	data, err := req.MarshalWithEncoder(coder.DefaultCoder)
	if err != nil {
		return err
	}
	select { // as net.UDPConn.writeWithCfg: a write under a finished context is refused
	case <-req.Context().Done():
		return req.Context().Err()
	default:
	}
	cp := append([]byte(nil), data...)
	s.mu.Lock()
	s.out = append(s.out, cp)
	cb := s.OnWrite
	s.mu.Unlock()
	if cb != nil {
		cb(cp)
	}
	return nil
}

func (s *UDPSess) WriteMulticastMessage(req *pool.Message, _ *net.UDPAddr, _ ...coapNet.MulticastOption) error {
	data, err := req.MarshalWithEncoder(coder.DefaultCoder)
	if err != nil {
		return err
	}
	s.mu.Lock()
	s.Mcast = append(s.Mcast, append([]byte(nil), data...))
	s.mu.Unlock()
	return nil
}

// Out returns the datagrams written so far, from index `from`.
func (s *UDPSess) Out(from int) [][]byte {
	s.mu.Lock()
	defer s.mu.Unlock()
	if from >= len(s.out) {
		return nil
	}
	return append([][]byte(nil), s.out[from:]...)
}

func (s *UDPSess) OutLen() int {
	s.mu.Lock()
	defer s.mu.Unlock()
	return len(s.out)
}

// Dgram is a decoded datagram (independent of pooled messages).
type Dgram struct {
	Type    message.Type
	Code    int
	MID     int32
	Token   []byte
	Opts    message.Options
	Payload []byte
	Raw     []byte
}

// Parse decodes a datagram with the library's own datagram decoder (used only to READ what the
// connection emitted; judgement of the codec itself is C01/C02).
func Parse(raw []byte) (Dgram, error) {
	var m message.Message
	m.Options = make(message.Options, 0, 32)
	_, err := coder.DefaultCoder.Decode(raw, &m)
	if err != nil {
		return Dgram{}, err
	}
	d := Dgram{Type: m.Type, Code: int(m.Code), MID: m.MessageID, Token: append([]byte(nil), m.Token...), Payload: append([]byte(nil), m.Payload...), Raw: raw}
	for _, o := range m.Options {
		d.Opts = append(d.Opts, message.Option{ID: o.ID, Value: append([]byte(nil), o.Value...)})
	}
	return d, nil
}

// Build encodes a datagram.
func Build(t message.Type, code int, mid int32, token []byte, opts message.Options, payload []byte) []byte {
	m := message.Message{Type: t, Code: codesCode(code), MessageID: mid, Token: token, Options: opts, Payload: payload}
	size, err := coder.DefaultCoder.Size(m)
	if err != nil {
		panic(err)
	}
	buf := make([]byte, size)
	n, err := coder.DefaultCoder.Encode(m, buf)
	if err != nil {
		panic(err)
	}
	return buf[:n]
}
