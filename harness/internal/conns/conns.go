// Package conns builds real go-coap client connections over the in-memory transports.
package conns

import (
	"sync"
	"time"

	"github.com/plgd-dev/go-coap/v3/message"
	"github.com/plgd-dev/go-coap/v3/message/pool"
	coapNet "github.com/plgd-dev/go-coap/v3/net"
	"github.com/plgd-dev/go-coap/v3/net/blockwise"
	tcpclient "github.com/plgd-dev/go-coap/v3/tcp/client"
	tcpcoder "github.com/plgd-dev/go-coap/v3/tcp/coder"
	udpclient "github.com/plgd-dev/go-coap/v3/udp/client"

	"verifharness/internal/hooks"
	"verifharness/internal/memnet"
)

const WD = 5 * time.Second // watchdog of the failure path only

// Errs collects what the connection reported through its Errors callback.
type Errs struct {
	mu sync.Mutex
	L  []string
}

func (e *Errs) Add(err error) {
	e.mu.Lock()
	e.L = append(e.L, err.Error())
	e.mu.Unlock()
}

func (e *Errs) Len() int {
	e.mu.Lock()
	defer e.mu.Unlock()
	return len(e.L)
}

type UDP struct {
	CC   *udpclient.Conn
	Sess *memnet.UDPSess
	Errs *Errs
	Pool *pool.Pool
}

// NewUDP creates a real udp/client.Conn over an in-memory session. mod may adjust the config.
func NewUDP(mod func(cfg *udpclient.Config), opts ...udpclient.Option) *UDP {
	u := &UDP{Sess: memnet.NewUDPSess(), Errs: &Errs{}}
	cfg := udpclient.DefaultConfig
	cfg.MessagePool = pool.New(64, 2048)
	cfg.Errors = u.Errs.Add
	cfg.LimitClientParallelRequests = 0
	cfg.LimitClientEndpointParallelRequests = 0
	cfg.BlockwiseEnable = false
	if mod != nil {
		mod(&cfg)
	}
	u.Pool = cfg.MessagePool
	if cfg.BlockwiseEnable {
		to := cfg.BlockwiseTransferTimeout
		opts = append(opts, udpclient.WithBlockWise(func(cc *udpclient.Conn) *blockwise.BlockWise[*udpclient.Conn] {
			return blockwise.New(cc, to, cfg.Errors, func(token message.Token) (*pool.Message, bool) {
				return cc.GetObservationRequest(token)
			})
		}))
	}
	u.CC = udpclient.NewConnWithOpts(u.Sess, &cfg, opts...)
	return u
}

// Inject hands one datagram to the connection the way the socket reader does, then waits until
// everything it queued has been processed.
func (u *UDP) Inject(raw []byte) error {
	err := u.CC.Process(nil, raw)
	if !hooks.Quiesce(u.CC, WD) {
		return errQuiesce
	}
	return err
}

// InjectNoWait hands one datagram over and returns without waiting for the dispatch.
func (u *UDP) InjectNoWait(raw []byte) error { return u.CC.Process(nil, raw) }

func (u *UDP) Quiesce() bool { return hooks.Quiesce(u.CC, WD) }

func (u *UDP) Close() {
	_ = u.CC.Close()
	hooks.Forget(u.CC)
}

type quiesceErr struct{}

func (quiesceErr) Error() string { return "harness: connection did not quiesce (watchdog)" }

var errQuiesce = quiesceErr{}

// IsQuiesceErr tells a harness watchdog apart from a library error.
func IsQuiesceErr(err error) bool { _, ok := err.(quiesceErr); return ok }

type TCP struct {
	CC     *tcpclient.Conn
	Stream *memnet.Stream
	Errs   *Errs
	RunErr chan error
}

// NewTCP creates a real tcp/client.Conn over a scripted stream and starts its Run loop.
func NewTCP(mod func(cfg *tcpclient.Config), opts ...tcpclient.Option) *TCP {
	t := &TCP{Stream: memnet.NewStream(), Errs: &Errs{}, RunErr: make(chan error, 1)}
	cfg := tcpclient.DefaultConfig
	cfg.MessagePool = pool.New(64, 2048)
	cfg.Errors = t.Errs.Add
	cfg.LimitClientParallelRequests = 0
	cfg.LimitClientEndpointParallelRequests = 0
	cfg.BlockwiseEnable = false
	cfg.CloseSocket = true
	if mod != nil {
		mod(&cfg)
	}
	if cfg.BlockwiseEnable {
		to := cfg.BlockwiseTransferTimeout
		opts = append(opts, tcpclient.WithBlockWise(func(cc *tcpclient.Conn) *blockwise.BlockWise[*tcpclient.Conn] {
			return blockwise.New(cc, to, cfg.Errors, func(token message.Token) (*pool.Message, bool) {
				return cc.GetObservationRequest(token)
			})
		}))
	}
	t.CC = tcpclient.NewConnWithOpts(coapNet.NewConn(t.Stream), &cfg, opts...)
	go func() { t.RunErr <- t.CC.Run() }()
	return t
}

// Feed gives the connection's reader exactly these bytes as one read and waits until they were
// consumed and every message they completed has been processed.
func (t *TCP) Feed(b []byte) bool {
	t.Stream.Feed(b)
	return t.Settle()
}

func (t *TCP) Settle() bool {
	ok := hooks.WaitFor(WD, func() bool {
		select {
		case <-t.CC.Done():
			return true
		default:
		}
		return t.Stream.Idle()
	})
	if !ok {
		return false
	}
	return hooks.Quiesce(t.CC, WD)
}

func (t *TCP) Close() {
	_ = t.CC.Close()
	hooks.Forget(t.CC)
}

// Frame encodes one stream frame.
func Frame(code int, token []byte, opts message.Options, payload []byte) []byte {
	m := message.Message{Code: memnet.Code(code), Token: token, Options: opts, Payload: payload}
	size, err := tcpcoder.DefaultCoder.Size(m)
	if err != nil {
		panic(err)
	}
	buf := make([]byte, size)
	n, err := tcpcoder.DefaultCoder.Encode(m, buf)
	if err != nil {
		panic(err)
	}
	return buf[:n]
}

// TFrame is a decoded stream frame.
type TFrame struct {
	Code    int
	Token   []byte
	Opts    message.Options
	Payload []byte
}

// Frames splits a written byte stream into frames (reading what the connection emitted).
func Frames(b []byte) ([]TFrame, []byte) {
	var out []TFrame
	for len(b) > 0 {
		var m message.Message
		m.Options = make(message.Options, 0, 32)
		var h tcpcoder.MessageHeader
		if _, err := tcpcoder.DefaultCoder.DecodeHeader(b, &h); err != nil || int(h.MessageLength) > len(b) {
			return out, b
		}
		n, err := tcpcoder.DefaultCoder.Decode(b[:h.MessageLength], &m)
		if err != nil {
			return out, b
		}
		f := TFrame{Code: int(m.Code), Token: append([]byte(nil), m.Token...), Payload: append([]byte(nil), m.Payload...)}
		for _, o := range m.Options {
			f.Opts = append(f.Opts, message.Option{ID: o.ID, Value: append([]byte(nil), o.Value...)})
		}
		out = append(out, f)
		b = b[n:]
	}
	return out, nil
}
