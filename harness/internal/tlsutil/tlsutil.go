// Package tlsutil: the credentials the drivers use for DTLS (PSK) and TLS (a self-signed certificate) on loopback sockets.
package tlsutil

import (
	"crypto/ecdsa"
	"crypto/elliptic"
	"crypto/rand"
	"crypto/tls"
	"crypto/x509"
	"crypto/x509/pkix"
	"math/big"
	"net"
	"sync"
	"time"

	piondtls "github.com/pion/dtls/v3"
)

func PSK() *piondtls.Config {
	return &piondtls.Config{
		PSK:             func([]byte) ([]byte, error) { return []byte{0xAB, 0xC1, 0x23}, nil },
		PSKIdentityHint: []byte("verif"),
		CipherSuites:    []piondtls.CipherSuiteID{piondtls.TLS_PSK_WITH_AES_128_CCM_8},
	}
}

var (
	once sync.Once
	cert tls.Certificate
)

func Cert() tls.Certificate {
	once.Do(func() {
		key, _ := ecdsa.GenerateKey(elliptic.P256(), rand.Reader)
		tpl := &x509.Certificate{SerialNumber: big.NewInt(1), Subject: pkix.Name{CommonName: "localhost"}, NotBefore: time.Now().Add(-time.Hour), NotAfter: time.Now().Add(time.Hour),
			KeyUsage: x509.KeyUsageDigitalSignature | x509.KeyUsageCertSign, ExtKeyUsage: []x509.ExtKeyUsage{x509.ExtKeyUsageServerAuth}, IsCA: true, BasicConstraintsValid: true,
			IPAddresses: []net.IP{net.IPv4(127, 0, 0, 1)}, DNSNames: []string{"localhost"}}
		der, _ := x509.CreateCertificate(rand.Reader, tpl, tpl, &key.PublicKey, key)
		cert = tls.Certificate{Certificate: [][]byte{der}, PrivateKey: key}
	})
	return cert
}
