// Package track turns the pool's verif hooks (acquire from the pool / release) into an ordered event log per
// message object, and lets a driver mark the periods during which the APPLICATION legitimately holds a message
// (response returned from a request call, request inside a handler, notification inside a callback), with a
// content snapshot that is re-checked when the period ends. It records; TLC (Lifecycle.tla) judges.
package track

import (
	"bytes"
	"fmt"
	"sync"

	"github.com/plgd-dev/go-coap/v3/message/pool"

	"verifharness/internal/hooks"
)

type Event struct {
	Seq int    `json:"seq"`
	O   int    `json:"o"`  // object number (order of first appearance)
	Ev  string `json:"ev"` // release | apprelease | acquire | hold | unhold | changedHeld | changedReleased
	G   int64  `json:"g"`  // goroutine
}

type Tracker struct {
	off      bool // disabled: no hooks, no locking (the race-detector pass: the tracker's mutex would order the accesses it is looking for)
	mu       sync.Mutex
	ids      map[*pool.Message]int
	log      []Event
	appRel   map[*pool.Message]bool
	snaps    map[*pool.Message][]byte // content when released / when the hold began
	released map[*pool.Message]bool
}

var (
	cur   *Tracker
	curMu sync.Mutex
)

func init() {
	pool.VerifHook = func(ev string, obj any) {
		curMu.Lock()
		t := cur
		curMu.Unlock()
		if t == nil {
			return
		}
		m, ok := obj.(*pool.Message)
		if !ok {
			return
		}
		t.onHook(ev, m)
	}
}

// StartOff returns a tracker that does nothing (and installs nothing).
func StartOff() *Tracker { return &Tracker{off: true} }

// Start installs a fresh tracker (one at a time).
func Start() *Tracker {
	t := &Tracker{ids: map[*pool.Message]int{}, appRel: map[*pool.Message]bool{}, snaps: map[*pool.Message][]byte{}, released: map[*pool.Message]bool{}}
	curMu.Lock()
	cur = t
	curMu.Unlock()
	return t
}

func Stop() {
	curMu.Lock()
	cur = nil
	curMu.Unlock()
}

func (t *Tracker) id(m *pool.Message) int {
	if n, ok := t.ids[m]; ok {
		return n
	}
	n := len(t.ids) + 1
	t.ids[m] = n
	return n
}

func (t *Tracker) add(m *pool.Message, ev string) {
	t.log = append(t.log, Event{Seq: len(t.log) + 1, O: t.id(m), Ev: ev, G: hooks.GID()})
}

// Snapshot renders the application-visible content of a message without changing it.
func Snapshot(m *pool.Message) []byte {
	var b bytes.Buffer
	fmt.Fprintf(&b, "%d|%d|%d|%x|", m.Code(), m.Type(), m.MessageID(), m.Token())
	for _, o := range m.Options() {
		fmt.Fprintf(&b, "%d=%x,", o.ID, o.Value)
	}
	b.WriteByte('|')
	if r, ok := m.Body().(*bytes.Reader); ok && r != nil {
		// bytes.Reader: read the content without moving the read position
		buf := make([]byte, r.Size())
		n, _ := r.ReadAt(buf, 0)
		b.Write(buf[:n])
	} else if m.Body() != nil {
		b.WriteString("<body>")
	}
	return b.Bytes()
}

func (t *Tracker) onHook(ev string, m *pool.Message) {
	t.mu.Lock()
	defer t.mu.Unlock()
	switch ev {
	case "release":
		if t.appRel[m] {
			delete(t.appRel, m)
			t.add(m, "apprelease")
		} else {
			t.add(m, "release")
		}
		t.released[m] = true
		t.snaps[m] = Snapshot(m)
	case "acquire":
		t.add(m, "acquire")
		delete(t.released, m)
		delete(t.snaps, m)
	}
}

// Hold marks the start of a period in which the application holds m.
func (t *Tracker) Hold(m *pool.Message) {
	if t.off {
		return
	}
	t.mu.Lock()
	t.add(m, "hold")
	t.snaps[m] = Snapshot(m)
	t.mu.Unlock()
}

// Own marks the start of a period in which the application owns m but lends it to the library (a request passed to a request
// call): the library may fill in fields, it must not give the message back to the pool. Ended by AppRelease / Unhold.
func (t *Tracker) Own(m *pool.Message) {
	if t.off {
		return
	}
	t.mu.Lock()
	t.add(m, "hold")
	delete(t.snaps, m)
	t.mu.Unlock()
}

// Check compares the held message with its snapshot (content must not change while the application holds it).
func (t *Tracker) Check(m *pool.Message) {
	if t.off {
		return
	}
	t.mu.Lock()
	if s, ok := t.snaps[m]; ok && !t.released[m] && !bytes.Equal(s, Snapshot(m)) {
		t.add(m, "changedHeld")
	}
	t.mu.Unlock()
}

// Unhold ends a hold without releasing (a handler / callback returned).
func (t *Tracker) Unhold(m *pool.Message) {
	if t.off {
		return
	}
	t.Check(m)
	t.mu.Lock()
	t.add(m, "unhold")
	delete(t.snaps, m)
	t.mu.Unlock()
}

// AppRelease announces that the application itself is about to release m.
func (t *Tracker) AppRelease(m *pool.Message) {
	if t.off {
		return
	}
	t.Check(m)
	t.mu.Lock()
	t.appRel[m] = true
	t.mu.Unlock()
}

// Finish returns the log. With quarantine (pool size 0: a released message is neither reset nor handed out again)
// every released message is compared with the snapshot taken when it was released: a difference is a write
// after release.
func (t *Tracker) Finish(quarantine bool) []Event {
	if t.off {
		return []Event{}
	}
	t.mu.Lock()
	defer t.mu.Unlock()
	for m := range t.released {
		if !quarantine {
			break
		}
		if s, ok := t.snaps[m]; ok && !bytes.Equal(s, Snapshot(m)) {
			t.add(m, "changedReleased")
		}
	}
	return append([]Event(nil), t.log...)
}
