// drv: the Go side of the verification pipeline. It only drives the real go-coap code and records
// what happened as ndjson; every judgement is made by TLC on those records.
package main

import (
	"fmt"
	"os"
	"strconv"

	"verifharness/drv/c03"
	"verifharness/drv/c04"
	"verifharness/drv/c05"
	"verifharness/drv/c06"
	"verifharness/drv/c07"
	"verifharness/drv/c08"
	"verifharness/drv/c09"
	"verifharness/drv/c10"
	"verifharness/drv/c11"
	"verifharness/drv/c12"
	"verifharness/drv/c13"
	"verifharness/drv/c14"
	"verifharness/drv/c15"
	"verifharness/drv/c16"
	"verifharness/drv/c17"
	"verifharness/drv/c18"
	"verifharness/drv/c19"
	"verifharness/drv/c20"
	"verifharness/drv/wire"
)

func atoi(s string) int {
	n, err := strconv.Atoi(s)
	if err != nil {
		fmt.Fprintln(os.Stderr, "bad int", s)
		os.Exit(3)
	}
	return n
}

func main() {
	if len(os.Args) < 3 {
		fmt.Fprintln(os.Stderr, "usage: drv <family> <out> [args]")
		os.Exit(3)
	}
	switch os.Args[1] {
	case "c19":
		c19.Run(os.Args[2])
	case "c20":
		c20.Run(os.Args[2])
	case "c01":
		wire.RunC01(os.Args[2])
	case "c02":
		wire.RunC02(os.Args[2])
	case "c15":
		c15.Run(os.Args[2], os.Args[3])
	case "c17":
		c17.Run(os.Args[3], os.Args[2])
	case "c17conc":
		c17.RunConc(os.Args[3], os.Args[2])
	case "c14":
		c14.Run(os.Args[2], os.Args[3])
	case "c14excl":
		c14.RunExcl(os.Args[2])
	case "c14stress":
		c14.Stress(os.Args[2], atoi(os.Args[3]))
	case "c16":
		c16.Run(os.Args[2], os.Args[3])
	case "c11":
		c11.Run(os.Args[2], os.Args[3])
	case "c11nested":
		c11.RunNested(os.Args[2])
	case "c05":
		c05.Run(os.Args[2], os.Args[3])
	case "c06":
		c06.Run(os.Args[2], os.Args[3])
	case "c03":
		c03.Run(os.Args[2], os.Args[3])
	case "c03stress":
		n, _ := strconv.Atoi(os.Args[3])
		c03.Stress(os.Args[2], n)
	case "c18":
		c18.Run(os.Args[2], os.Args[3])
	case "c07":
		c07.Run(os.Args[2], os.Args[3])
	case "c12park":
		c12.RunPark(os.Args[2])
	case "c07sig":
		c07.RunSignals(os.Args[2], os.Args[3])
	case "c08":
		c08.Run(os.Args[2], os.Args[3])
	case "c18hs":
		c18.RunHandshake(os.Args[2])
	case "c08stress":
		n, _ := strconv.Atoi(os.Args[3])
		c08.Stress(os.Args[2], n)
	case "c04":
		c04.Run(os.Args[2], os.Args[3])
	case "c13":
		c13.Run(os.Args[2], os.Args[3])
	case "c12":
		c12.Run(os.Args[2], os.Args[3])
	case "c10":
		c10.Run(os.Args[2], os.Args[3])
	case "c09":
		c09.Run(os.Args[2], os.Args[3])
	case "c09srv":
		n, _ := strconv.Atoi(os.Args[3])
		c09.RunServers(os.Args[2], n)
	case "c19x":
		a := os.Args
		c19.Explicit(a[2], a[3], atoi(a[4]), atoi(a[5]), atoi(a[6]), a[7] == "1")
	default:
		fmt.Fprintln(os.Stderr, "unknown family", os.Args[1])
		os.Exit(3)
	}
}
