"""Shared orchestration for the go-coap TLA+ verification checks.

Pipeline (DESIGN.md section 1.2):  TLC on the specification M  ->  stimuli  ->  Go driver on the
REAL code (build tag `verif`)  ->  recorded ndjson  ->  TLC on the trace/record module  ->  verdict.

Exit codes: 0 held (maybe KNOWN-FINDING lines), 1 VIOLATION printed, 2 machinery failure.
"""
import hashlib
import json
import os
import re
import shutil
import subprocess
import sys
import time

VERIF = os.path.dirname(os.path.dirname(os.path.abspath(__file__)))
REPO = os.environ.get("VERIF_REPO", "/repo")
SPECS = os.path.join(VERIF, "specs")
WORK = os.path.join(VERIF, "work")
# VERIF_EVIDENCE_DIR / VERIF_REPO: used only by bin/seedrun to try a check against a scratch copy of the repository
# without touching /repo or the committed evidence; the registered commands never set them.
EVID = os.environ.get("VERIF_EVIDENCE_DIR", os.path.join(VERIF, "evidence"))
TLA_CP = "/opt/veriftools/tla/tla2tools.jar:/opt/veriftools/tla/CommunityModules-deps.jar"
NCPU = os.cpu_count() or 4


class Machinery(Exception):
    """The check itself failed (never a violation)."""


def log(*a):
    print("[check]", *a, file=sys.stderr, flush=True)


class Ctx:
    def __init__(self, pid, tier, seed):
        self.id = pid
        self.tier = tier
        self.seed = seed
        self.t0 = time.time()
        self.work = os.path.join(WORK, "%s-%s-%d" % (pid, tier, os.getpid()))
        shutil.rmtree(self.work, ignore_errors=True)
        os.makedirs(self.work)
        self.cov = {"states": 0, "transitions": 0, "traces_validated_against_impl": 0, "samples": []}
        self.assumptions = []
        self.violations = []   # dicts {clause, signature, what, replay}
        self.known_hits = []
        self.drift = []
        self.notes = []
        self._tlc_n = 0
        self.drv = None

    # ---- evidence bookkeeping -------------------------------------------------------------
    def add(self, key, n):
        self.cov[key] = self.cov.get(key, 0) + n

    def sample(self, s, cap=6):
        if len(self.cov["samples"]) < cap:
            self.cov["samples"].append(s)

    def elapsed(self):
        return time.time() - self.t0

    def subdir(self, name):
        d = os.path.join(self.work, name)
        os.makedirs(d, exist_ok=True)
        return d


# ------------------------------------------------------------------------------------------
# processes
# ------------------------------------------------------------------------------------------
def goenv():
    env = dict(os.environ)
    env["GOFLAGS"] = "-mod=mod"
    env["GOPROXY"] = "off"
    env.pop("GOSUMDB", None)      # GOSUMDB=off / GOTOOLCHAIN=local break the cached 1.24.0 toolchain here
    env.pop("GOTOOLCHAIN", None)
    env.setdefault("GOCACHE", os.path.join(os.path.expanduser("~"), ".cache", "go-build"))
    return env


def _die_with_parent():
    # children (TLC, drivers, go build) must not outlive a check that is killed
    try:
        import ctypes
        import signal
        ctypes.CDLL("libc.so.6").prctl(1, signal.SIGKILL)      # PR_SET_PDEATHSIG
    except Exception:
        pass


def run(cmd, cwd=None, env=None, timeout=None, stdin=None):
    try:
        p = subprocess.run(cmd, cwd=cwd, env=env, timeout=timeout, input=stdin, preexec_fn=_die_with_parent,
                           stdout=subprocess.PIPE, stderr=subprocess.PIPE, text=True, errors="replace")
        return p.returncode, p.stdout, p.stderr
    except subprocess.TimeoutExpired as e:
        out = e.stdout.decode(errors="replace") if isinstance(e.stdout, bytes) else (e.stdout or "")
        err = e.stderr.decode(errors="replace") if isinstance(e.stderr, bytes) else (e.stderr or "")
        return -9, out, err + "\nTIMEOUT after %ss" % timeout


def build_driver(ctx, race=False):
    """Builds the Go driver against /repo's current working tree with the hook tag on."""
    hdir = os.path.join(VERIF, "harness")
    # an alternate go.mod (+ .sum) in the check's own work directory: the replace directive points at the tree under test and
    # go.sum is that tree's (it must cover the repo's deps). Nothing shared is written, so checks can run side by side.
    modfile = os.path.join(ctx.work, "alt.mod")
    with open(os.path.join(hdir, "go.mod")) as f:
        gm = f.read()
    with open(modfile, "w") as f:
        f.write(gm.replace("=> /repo", "=> " + REPO))
    shutil.copyfile(os.path.join(REPO, "go.sum"), os.path.join(ctx.work, "alt.sum"))
    bindir = os.path.join(WORK, "bin")
    os.makedirs(bindir, exist_ok=True)
    out = os.path.join(bindir, "drv-%s-%d%s" % (ctx.id, os.getpid(), "-race" if race else ""))
    cmd = ["go", "build", "-tags", "verif"]
    if race:
        cmd.append("-race")
    if modfile:
        cmd.append("-modfile=" + modfile)
    cmd += ["-o", out, "./cmd/drv"]
    env = goenv()
    rc, so, se = run(cmd, cwd=hdir, env=env, timeout=900)
    if rc != 0:
        raise Machinery("driver build failed (does /repo compile with -tags verif?):\n" + se[-4000:])
    if race:
        ctx.drv_race = out
    else:
        ctx.drv = out
    return out


class LibraryCrash(Exception):
    """The driver process died with a Go panic / fatal error whose innermost non-runtime frame is library code:
    the real code crashed under the stimulus. bin/check reports it as a violation (<ID>_NoCrash)."""

    def __init__(self, func, head, dump, args):
        Exception.__init__(self, "%s in %s" % (head, func))
        self.func, self.head, self.dump, self.args_ = func, head, dump, args


_LIB = "github.com/plgd-dev/go-coap/v3"


def library_crash(stderr):
    """(function, headline) if stderr is a Go crash dump whose innermost non-runtime frame is in the library."""
    m = re.search(r"^(panic: .*|fatal error: .*)$", stderr, re.M)
    if not m:
        return None
    lines = stderr[m.start():].splitlines()
    seen_goroutine = False
    for ln in lines:
        if ln.startswith("goroutine "):
            if seen_goroutine:
                break
            seen_goroutine = True
            continue
        if not seen_goroutine or ln.startswith(("\t", " ")) or not ln.strip():
            continue
        fn = ln.rsplit("(", 1)[0].strip()
        if fn.startswith(("runtime.", "sync.", "sync/", "internal/", "panic", "created by", "reflect.", "testing.")):
            continue
        first = fn.split("/", 1)[0] if "/" in fn else ""
        if "." not in first and not fn.startswith(("verifharness", "main.")):
            # a standard-library function (its import path has no domain): whoever called it with these arguments is the next frame
            continue
        if fn.startswith("verifharness/internal/memnet."):
            # the in-memory stand-ins for the socket layer: what they are handed comes straight from the library (a
            # released message whose context is nil crashes the real net.UDPConn.writeWithCfg in the same way)
            continue
        if fn.startswith(_LIB):
            return fn, m.group(1)[:200]
        # generic instantiations called through the driver keep the driver's package in their name: look at the file
        return (fn, m.group(1)[:200]) if _LIB in ln else None
    return None


def drv(ctx, args, timeout=600, env_extra=None, race=False, ok_codes=(0,)):
    exe = ctx.drv_race if race else ctx.drv
    env = dict(os.environ)
    env["VERIF_SEED"] = str(ctx.seed)
    env["VERIF_TIER"] = ctx.tier
    if env_extra:
        env.update(env_extra)
    rc, so, se = run([exe] + args, cwd=ctx.work, env=env, timeout=timeout)
    if rc not in ok_codes and rc == 2:
        lc = library_crash(se)
        if lc:
            raise LibraryCrash(lc[0], lc[1], se[-12000:], args)
    if rc not in ok_codes:
        raise Machinery("driver %s failed rc=%s\nstdout:%s\nstderr:%s" % (args, rc, so[-3000:], se[-6000:]))
    return rc, so, se


# ------------------------------------------------------------------------------------------
# TLC
# ------------------------------------------------------------------------------------------
class TLCResult:
    def __init__(self):
        self.rc = None
        self.out = ""
        self.generated = 0
        self.distinct = 0
        self.inv = []        # violated invariants (names, in order of appearance, de-duplicated)
        self.props = []      # violated action/temporal properties
        self.ok = False      # finished without any error
        self.errors = []     # other Error: lines (machinery)
        self.coverage0 = []
        self.printed = []    # lines printed by PrintT that start with the marker
        self.wall = 0.0
        self.dir = None
        self.violation_states = {}  # inv -> list of state dumps (text)


_RE_STATES = re.compile(r"(\d+) states generated, (\d+) distinct states found")
_RE_SIM = re.compile(r"The number of states generated: (\d+)")


def run_tlc(ctx, family, module, cfg, workers=None, env=None, timeout=600, extra=None, files=None,
            heap=None, simulate=None, depth=None, deadlock=False, cont=True, deque=False, seed=None,
            coverage=False, javaopts=None):
    """Runs TLC in a scratch copy of specs/<family> (+ specs/common). Never raises on property
    violations; raises Machinery on timeouts."""
    ctx._tlc_n += 1
    d = os.path.join(ctx.work, "tlc%02d-%s" % (ctx._tlc_n, module))
    os.makedirs(d)
    for src in (os.path.join(SPECS, "common"), os.path.join(SPECS, family)):
        if os.path.isdir(src):
            for f in os.listdir(src):
                if f.endswith((".tla", ".cfg")):
                    shutil.copy(os.path.join(src, f), d)
    for f in files or []:
        shutil.copy(f, d)
    # (TLC leaves an empty directory under java.io.tmpdir on every start: keep it inside the run's own directory, which goes
    # away with the check's work directory, instead of littering /tmp)
    jtmp = os.path.join(d, "jtmp")
    os.makedirs(jtmp, exist_ok=True)
    cmd = ["java", "-XX:+UseParallelGC", "-Djava.io.tmpdir=" + jtmp]
    if heap:
        cmd.append("-Xmx" + heap)
    cmd.append("-Xss64m")
    if not heap:
        cmd.append("-Xmx8g")
    if deque:
        cmd.append("-Dtlc2.tool.queue.IStateQueue=StateDeque")
    for o in javaopts or []:
        cmd.append(o)
    cmd += ["-cp", TLA_CP, "tlc2.TLC", "-config", cfg, "-metadir", os.path.join(d, "meta"),
            "-noGenerateSpecTE", "-workers", str(workers or "auto")]
    if not deadlock:
        cmd.append("-deadlock")     # -deadlock DISABLES deadlock checking
    if cont:
        cmd.append("-continue")
    if coverage:
        cmd += ["-coverage", "1"]
    if simulate:
        cmd += ["-simulate", simulate]
        if depth:
            cmd += ["-depth", str(depth)]
    if seed is not None:
        cmd += ["-seed", str(seed)]
    cmd += extra or []
    cmd.append(module)
    e = dict(os.environ)
    e.pop("JAVA_TOOL_OPTIONS", None)
    if env:
        e.update({k: str(v) for k, v in env.items()})
    t0 = time.time()
    rc, so, se = run(cmd, cwd=d, env=e, timeout=timeout)
    r = TLCResult()
    r.rc, r.out, r.wall, r.dir = rc, so + ("\n" + se if se.strip() else ""), time.time() - t0, d
    with open(os.path.join(d, "tlc.out"), "w") as f:
        f.write(" ".join(cmd) + "\n" + r.out)
    if rc == -9:
        raise Machinery("TLC timeout (%ss) on %s/%s %s" % (timeout, family, module, cfg))
    for m in _RE_STATES.finditer(so):
        r.generated, r.distinct = int(m.group(1)), int(m.group(2))
    m = _RE_SIM.search(so)
    if m and not r.generated:
        r.generated = int(m.group(1))
    cur = None
    for line in so.splitlines():
        m = re.match(r"Error: Invariant (\S+) is violated", line)
        if m:
            cur = m.group(1)
            if cur not in r.inv:
                r.inv.append(cur)
            continue
        m = re.match(r"Error: Action property (\S+) is violated", line)
        if m:
            cur = None
            if m.group(1) not in r.props:
                r.props.append(m.group(1))
            continue
        if line.startswith("Error: Temporal properties were violated"):
            if "TEMPORAL" not in r.props:
                r.props.append("TEMPORAL")
            continue
        m = re.match(r"Error: Temporal properties (.+) were violated", line)
        if m:
            cur = None
            for name in re.split(r",\s*|\s+and\s+", m.group(1)):
                if name and name not in r.props:
                    r.props.append(name)
            continue
        m = re.match(r"Error: Temporal property (\S+) was violated", line)
        if m:
            cur = None
            if m.group(1) not in r.props:
                r.props.append(m.group(1))
            continue
        if line.startswith("Error: "):
            if "The behavior up to this point is" in line or "The following behavior constitutes" in line:
                continue
            r.errors.append(line)
            continue
        if cur and (line.startswith("/\\ ") or re.match(r"^\w+ = ", line)):
            r.violation_states.setdefault(cur, []).append(line)
    r.ok = ("No error has been found" in so or (simulate and rc == 0)) and not r.inv and not r.props and not r.errors
    if coverage:
        for line in so.splitlines():
            m = re.match(r"^<(\w+) line .*>: (\d+):(\d+)$", line.strip())
            if m and m.group(2) == "0" and m.group(3) == "0" and m.group(1) not in ("Init",):
                r.coverage0.append(m.group(1))
    return r


def tlc_must_finish(r, what):
    """A TLC run whose only acceptable outcomes are clean / invariant violations."""
    if r.errors:
        raise Machinery("TLC error in %s: %s\n%s" % (what, r.errors[:3], tail(r.out)))
    if not r.ok and not r.inv and not r.props:
        raise Machinery("TLC did not complete in %s:\n%s" % (what, tail(r.out)))


def tail(s, n=3000):
    return s[-n:]


# ------------------------------------------------------------------------------------------
# files
# ------------------------------------------------------------------------------------------
def read_ndjson(path):
    out = []
    with open(path) as f:
        for line in f:
            line = line.strip()
            if line:
                out.append(json.loads(line))
    return out


def write_ndjson(path, recs):
    with open(path, "w") as f:
        for r in recs:
            f.write(json.dumps(r, separators=(",", ":")) + "\n")


def sha(s):
    return hashlib.sha256(s.encode() if isinstance(s, str) else s).hexdigest()[:16]


# ------------------------------------------------------------------------------------------
# known findings, verdicts, evidence
# ------------------------------------------------------------------------------------------
def load_findings():
    p = os.path.join(VERIF, "known_findings.json")
    if not os.path.exists(p):
        return []
    with open(p) as f:
        return json.load(f).get("findings", [])


def sig_matches(pattern, sig):
    """A finding's signature is a dict; every key must be present in the violation's signature with
    an equal value (lists in the pattern mean 'one of')."""
    for k, v in pattern.items():
        if k not in sig:
            return False
        if isinstance(v, list) and not isinstance(sig[k], list):
            if sig[k] not in v:
                return False
        elif sig[k] != v:
            return False
    return True


def report(ctx, clause, signature, what, replay_obj):
    """Registers a property failure observed on the REAL code. Known findings are suppressed
    (exactly that signature), everything else is a violation."""
    for f in load_findings():
        if f.get("status") == "known" and f.get("property") == ctx.id and f.get("clause") == clause \
                and sig_matches(f.get("signature", {}), signature):
            key = (clause, json.dumps(f.get("signature"), sort_keys=True))
            if key not in [k for k, _ in ctx.known_hits]:
                ctx.known_hits.append((key, f))
            return "known"
    rdir = os.path.join(EVID, "replays", ctx.id)
    os.makedirs(rdir, exist_ok=True)
    body = {"property": ctx.id, "clause": clause, "signature": signature, "what": what,
            "tier": ctx.tier, "seed": ctx.seed, "replay": replay_obj}
    h = sha(json.dumps([clause, signature], sort_keys=True))
    path = os.path.join(rdir, "%s-%s.json" % (clause, h))
    if not any(v["path"] == path for v in ctx.violations):
        with open(path, "w") as f:
            json.dump(body, f, indent=1, default=str)
        ctx.violations.append({"clause": clause, "signature": signature, "what": what, "path": path})
    return "violation"


def finish(ctx, level="model_checking", extra_cov=None):
    cov = ctx.cov
    if extra_cov:
        cov.update(extra_cov)
    if ctx.drift:
        cov["conformance_drift"] = ctx.drift[:20]
    if ctx.notes:
        cov["notes"] = ctx.notes
    cov["known_findings_hit"] = [f.get("what") for _, f in ctx.known_hits]
    if not cov.get("samples"):
        cov["samples"] = ["(no sample recorded)"]
    ev = {"property_id": ctx.id, "tier": ctx.tier, "seed": ctx.seed, "level": level, "coverage": cov,
          "assumptions": ctx.assumptions, "wall_s": round(ctx.elapsed(), 2), "violations": len(ctx.violations)}
    os.makedirs(EVID, exist_ok=True)
    with open(os.path.join(EVID, ctx.id + ".json"), "w") as f:
        json.dump(ev, f, indent=1, default=str)
    for _, f in ctx.known_hits:
        print("KNOWN-FINDING: property=%s %s" % (ctx.id, f.get("what")))
    for v in ctx.violations:
        print("VIOLATION property=%s replay=%s" % (ctx.id, v["path"]))
        print("  clause=%s %s" % (v["clause"], v["what"]))
    if os.environ.get("VERIF_KEEP") != "1":
        shutil.rmtree(ctx.work, ignore_errors=True)
        for x in (ctx.drv, getattr(ctx, "drv_race", None)):
            if x and os.path.exists(x):
                os.remove(x)
    sys.stdout.flush()
    return 1 if ctx.violations else 0


# ------------------------------------------------------------------------------------------
# record validation (function-shaped properties and one-state-per-record trace judging)
# ------------------------------------------------------------------------------------------
import concurrent.futures as _cf
import random as _random


def judge_records(ctx, family, module, cfg, recs, shards=None, timeout=900, env=None, var="i", heap=None,
                  extra_files=None):
    """recs: list of dicts (already loaded). Splits into shards, runs TLC on each (module must read
    IOEnv.VF_RECS and have one initial state per record, variable `i`). Returns
    ({invariant: sorted list of 0-based record indices}, generated_states, distinct_states)."""
    n = len(recs)
    if n == 0:
        raise Machinery("no records to judge")
    if shards is None:
        shards = 1 if n < 4000 else min(8, NCPU // 2)
    shards = max(shards, (n + 39999) // 40000)      # a shard of more than 40 000 records does not fit the judge's heap
    # ... nor does one of more than ~64 MB of JSON (TLC holds the deserialised records as TLA+ values, ~20x the text)
    probe = recs[:: max(1, n // 200)][:200]
    avg = sum(len(json.dumps(r, default=str)) for r in probe) / max(1, len(probe))
    shards = max(shards, int(n * avg / 64e6) + 1)
    shards = max(1, min(shards, n))
    per = (n + shards - 1) // shards
    jobs = []
    d = ctx.subdir("recs")
    for s in range(shards):
        lo = s * per
        part = recs[lo:lo + per]
        if not part:
            continue
        ctx._tlc_n += 1
        p = os.path.join(d, "%s-%02d-%d.ndjson" % (module, ctx._tlc_n, s))
        write_ndjson(p, part)
        jobs.append((lo, p))
    # all shards that run at the same time stay below 32 GB of heap: at most `par` TLC processes of `heap` each
    if heap is None:
        heap = "6g"
    par = max(1, min(len(jobs), 32 // max(1, int(heap.rstrip("g")))))
    workers = max(1, NCPU // par)
    bad = {}
    gen = dist = 0

    def one(job):
        lo, p = job
        e = dict(env or {})
        e["VF_RECS"] = p
        return lo, run_tlc(ctx, family, module, cfg, workers=workers, env=e, timeout=timeout, heap=heap,
                           files=extra_files)

    with _cf.ThreadPoolExecutor(max_workers=par) as ex:
        for lo, r in ex.map(one, jobs):
            tlc_must_finish(r, "%s/%s" % (family, module))
            gen += r.generated
            dist += r.distinct
            for inv, lines in r.violation_states.items():
                for ln in lines:
                    m = re.search(r"\b%s = (\d+)" % var, ln)
                    if m:
                        bad.setdefault(inv, set()).add(lo + int(m.group(1)) - 1)
            for inv in r.inv:
                bad.setdefault(inv, set())
    out = {k: sorted(v) for k, v in bad.items()}
    for k, v in out.items():
        if not v:
            raise Machinery("TLC reported %s violated but no record index could be parsed" % k)
    return out, gen, dist


def negative_control(ctx, family, module, cfg, recs, mutate, expect=None, tries=4, env=None, extra_files=None):
    """Binding check: a copy of real records with ONE corrupted field must be rejected by TLC.
    mutate(rec, rng) -> corrupted copy or None if that record is not suitable."""
    if ctx.violations:
        # records of code that breaks the property are not a sound basis for "a corrupted record must be rejected"
        # (the corruption may turn a wrong record into a right one); the verdict does not depend on this control
        ctx.notes.append("negative control skipped: the records already contain property failures")
        return
    rng = _random.Random(ctx.seed * 7919 + 13)
    idx = list(range(len(recs)))
    rng.shuffle(idx)
    done = 0
    for k in idx:
        m = mutate(dict(recs[k]), rng)
        if m is None:
            continue
        bad, _, _ = judge_records(ctx, family, module, cfg, [m], shards=1, env=env, extra_files=extra_files)
        if not bad:
            raise Machinery("negative control ACCEPTED a corrupted record (binding broken): %s" % json.dumps(m)[:400])
        if expect and not (set(bad) & set(expect)):
            raise Machinery("negative control rejected by unexpected clause %s" % list(bad))
        done += 1
        ctx.cov.setdefault("negative_controls_rejected", 0)
        ctx.cov["negative_controls_rejected"] += 1
        if done >= 1:
            return
    raise Machinery("negative control: no suitable record")


def record_property(ctx, family, mc_runs, drv_args, rec_module, rec_cfg, keyfn, mutate, what, shards=None,
                    drv_timeout=900, tlc_timeout=900, conformance_only=(), group=None, env=None):
    """The whole pipeline for a function-shaped property:
    mc_runs: list of (module, cfg) spec-level TLC runs (design theorems; a failure there is a spec bug).
    drv_args: driver argv producing <out> ndjson. Then TLC judges every record with rec_module/rec_cfg.
    conformance_only: invariant names whose failure is drift, not a verdict."""
    if ctx.drv is None:
        build_driver(ctx)
    for module, cfg in mc_runs:
        r = run_tlc(ctx, family, module, cfg, timeout=tlc_timeout)
        tlc_must_finish(r, module)
        if r.inv or r.props:
            raise Machinery("specification theorem failed in %s (spec bug, not a code verdict): %s" % (module, r.inv + r.props))
        ctx.add("states", r.distinct)
        ctx.add("transitions", r.generated)
    out = os.path.join(ctx.work, "records.ndjson")
    drv(ctx, [a if a != "<out>" else out for a in drv_args], timeout=drv_timeout)
    recs = read_ndjson(out)
    bad, gen, dist = judge_records(ctx, family, rec_module, rec_cfg, recs, shards=shards, timeout=tlc_timeout, env=env)
    ctx.add("states", dist)
    ctx.add("transitions", gen)
    ctx.add("traces_validated_against_impl", len(recs))
    for clause, idxs in sorted(bad.items()):
        rs = [recs[i] for i in idxs]
        if clause in conformance_only:
            ctx.drift.append({"clause": clause, "count": len(rs), "first": rs[:3]})
            continue
        groups = {}
        for x in rs:
            groups.setdefault(group(clause, x) if group else "", []).append(x)
        for g, xs in sorted(groups.items()):
            keys = sorted(set(keyfn(x) for x in xs))
            sig = {"group": g, "records": keys[:40], "count": len(keys)} if group else {"records": keys[:40], "count": len(keys)}
            report(ctx, clause, sig, "%d record(s) of the real code differ from %s, e.g. %s" % (len(keys), what, keys[:3]),
                   {"records": xs[:200], "cmd": "bin/check %s --tier %s" % (ctx.id, ctx.tier)})
    negative_control(ctx, family, rec_module, rec_cfg, recs, mutate, env=env)
    ops = {}
    for x in recs:
        ops[x.get("op", "?")] = ops.get(x.get("op", "?"), 0) + 1
    seen = set()
    for x in recs:
        if x.get("op") not in seen:
            seen.add(x.get("op"))
            ctx.sample(x)
    ctx.cov["records_by_op"] = ops
    return recs, bad
