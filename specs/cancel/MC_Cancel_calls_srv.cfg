SPECIFICATION Spec
CONSTANTS
  Sel <- CodeSel
  Calls <- AllCalls
  Datagram = TRUE
  ReleaseOnWriteFail = TRUE
  Cbs <- OneCb
  Closers <- NoShutters
  Shutters <- TwoShutters
  HasReader = FALSE
  ClosesSocket = FALSE
  PopAtomic = TRUE
  WriteWakes = {"ctx", "sock"}
  LockWakes = {"ctx"}
  CloseTakesWriteLock = FALSE
  ParkWakes = "conn"
  Noise = {"silent", "unsolicited", "garbage"}
INVARIANTS NoFalseError SlotsSane OnceEach SockOnce DoneOnceIfReaderOnly
PROPERTIES Ends CloseCompletes
