SPECIFICATION Spec
CONSTANTS
  Sel <- CodeSel
  Calls <- OnlyOp
  Datagram = TRUE
  ReleaseOnWriteFail = TRUE
  Cbs <- ThreeCbs
  Closers <- OneCloser
  Shutters <- TwoShutters
  HasReader = FALSE
  ClosesSocket = FALSE
  PopAtomic = FALSE
  WriteWakes = {"ctx", "sock"}
  LockWakes = {"ctx"}
  CloseTakesWriteLock = FALSE
  ParkWakes = "conn"
  Noise = {"silent", "unsolicited", "garbage"}
INVARIANTS NoFalseError SlotsSane OnceEach SockOnce DoneOnceIfReaderOnly
PROPERTIES CloseCompletes
