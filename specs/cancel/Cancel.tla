------------------------------- MODULE Cancel -------------------------------
(***************************************************************************)
(* Blocking client operations, their interruption, and the close protocol   *)
(* of a connection (C09).                                                   *)
(*                                                                         *)
(* Part 1 - calls.  A blocking call of the client API passes, in order:     *)
(*   before   nothing done yet (context may already be done, the connection *)
(*            may already be closed)                                        *)
(*   queued   limitParallelRequests.acquireEndpoint: select{granted, ctx}   *)
(*            - NOT the connection's context: a queued call is woken by a   *)
(*            close only through the holder of the slot, which returns and  *)
(*            hands the slot on                                             *)
(*   nstart   udp/client.acquireOutstandingInteraction (datagram transports,*)
(*            confirmable requests): semaphore.Acquire(ctx) - same remark   *)
(*   write    session.WriteMessage: refused on a closed socket or under a   *)
(*            finished context; the deferred clean-up gives both slots back *)
(*   wlock | wpark   (stream transports) net.Conn.WriteWithContext: writers  *)
(*            are serialized by a lock; the holder hands the frame to the   *)
(*            socket, and parks there when the peer has stopped reading and *)
(*            its buffers are full ("a half-open stream").  LockWakes /     *)
(*            WriteWakes say what ends the two waits: the code (after the   *)
(*            repair of WriteWithContext) - the writer's context and the    *)
(*            closing of the socket; the pinned tree - the socket only.     *)
(*            A ping is written under the CONNECTION's context (AsyncPing   *)
(*            has no other): finding D22.                                   *)
(*   sent | acked | midbw   the waits for the peer: select over the awaited *)
(*            event and the contexts listed in Sel[kind][point] (read from  *)
(*            udp/client/conn.go: doInternal, waitForAcknowledge;           *)
(*            tcp/client/conn.go: doInternal; net/observation/handler.go;   *)
(*            net/client/client.go: Ping; udp/server/discover.go)           *)
(* Calls: "op" (the operation under test, any kind), "occ" and "w" (plain    *)
(* requests that hold / wait for the same slots).  The peer and the network *)
(* owe nothing (no fairness): they may stay silent for ever.  Only the      *)
(* calls' own steps and the connection's own goroutines are fair.           *)
(*   kinds    do | bwdo (block-wise request) | observe | obscancel | ping |  *)
(*            write (confirmable one-way write) | discover                  *)
(*   interruptions  cancel / deadline (the call's context), close (local    *)
(*            Close from several goroutines), peerclose (stream: EOF)       *)
(*                                                                         *)
(* Part 2 - close.  Close() = cancel the connection context, then close the *)
(* socket behind a once-guard (net.Conn.Close / UDPConn.Close; a server-    *)
(* side datagram session shares the listener's socket and leaves it open).  *)
(* The reader loop (session.Run) wakes on the context, the socket or the    *)
(* peer's EOF, calls Close itself and then shutdown(): pop the on-close     *)
(* list under the mutex, run what it took, complete the done signal.  A     *)
(* server-side datagram connection has no reader of its own: the server     *)
(* calls Close+shutdown through the connection's close function, possibly   *)
(* from several goroutines (Stop, the inactivity tick, a datagram for a      *)
(* closed peer) - these are the Shutters.                                   *)
(***************************************************************************)
EXTENDS Integers, Sequences, FiniteSets, TLC

CONSTANTS Sel,          \* Sel[kind][pt] \subseteq {"ctx", "conn"} for pt \in {"sent", "acked", "midbw"}
          Calls,        \* subset of {"occ", "op", "w"}
          Datagram,     \* datagram transport (NSTART slot, acknowledgements) or stream
          ReleaseOnWriteFail,   \* a refused write gives the NSTART slot back (the code: clean-up deferred before the write)
          Cbs,          \* registered on-close callbacks
          Closers,      \* goroutines calling Close()
          Shutters,     \* goroutines calling Close()+shutdown() (server-side datagram connection), besides the reader
          HasReader,    \* the connection has a reader loop of its own
          ClosesSocket, \* Close() closes the socket (client connections, stream connections)
          PopAtomic,    \* popOnClose takes and clears the list in one critical section (the code)
          WriteWakes,   \* what wakes a write parked on a peer that does not read: subset of {"ctx", "sock"}
          LockWakes,    \* what ends the wait for the write lock besides its release: subset of {"ctx"}
          CloseTakesWriteLock,  \* closing the socket waits for the write lock (the code: it does not)
          ParkWakes     \* what the reader, parked handing a message to a full receive queue, also waits for:
                        \* "conn" = the connection context (the code: Process / pushToReceivedMessageQueue), "done" = the done signal

Ops == {"do", "bwdo", "observe", "obscancel", "ping", "write", "discover"}
Kinds == {"cancel", "deadline", "close", "peerclose"}
WaitPts == {"sent", "acked", "midbw"}
UsesLim(k) == k \in {"do", "bwdo", "observe", "obscancel"}
UsesNS(k)  == Datagram /\ k \in {"do", "bwdo", "observe", "obscancel", "write"}
Waits(k)   == Datagram \/ k # "write"            \* a one-way write on a stream returns once written
\* the points at which a driver can hold an operation, per transport (used to generate the interruption tuples)
Path(k, dg) == <<"before">> \o (IF UsesLim(k) THEN <<"queued">> ELSE <<>>)
               \o (IF dg /\ k \in {"do", "bwdo", "observe", "obscancel", "write"} THEN <<"nstart">> ELSE <<>>)
               \o (IF ~dg /\ k # "discover" THEN <<"wlock", "wpark">> ELSE <<>>)
               \o (IF dg \/ k # "write" THEN <<"sent">> ELSE <<>>)
               \o (IF dg /\ k = "do" THEN <<"acked">> ELSE <<>>) \o (IF k = "bwdo" THEN <<"midbw">> ELSE <<>>)
\* what the code's selects list, after the repair of Ping (net/client/client.go) - every wait for the peer lists both
Both == {"ctx", "conn"}
CodeSel == [o \in Ops |-> [p \in WaitPts |-> Both]]
\* the pinned tree before the repair: Ping waited for the pong and the caller's context only
PinnedSel == [CodeSel EXCEPT !["ping"]["sent"] = {"ctx"}]

Procs == Closers \cup Shutters \cup (IF HasReader THEN {"reader"} ELSE {})
VARIABLES kind, pc, cctx, ret,         \* the calls
          lim, limq, ns, nsq,          \* endpoint slot of the limiter (limit 1) and NSTART slot (1): holder / FIFO of waiters
          closeReq, eof,               \* interruptions of the connection
          connCtx, sock, sockCloses,   \* connection context, socket, executions of the real socket close
          list, taken, ran, done, doneCompletions,
          ppc,
          wlock, stalled,              \* stream: holder of the write lock; the peer has stopped reading and its buffers are full
          rpark                        \* the reader is parked in Process: select{queue <- req, <wake>} with the queue full
cvars == <<kind, pc, cctx, ret, lim, limq, ns, nsq, wlock>>
xvars == <<closeReq, eof, stalled>>
pvars == <<connCtx, sock, sockCloses, list, taken, ran, done, doneCompletions, ppc, rpark>>
vars == <<cvars, xvars, pvars>>

Init == /\ kind \in {f \in [Calls -> Ops] : \A c \in Calls : c # "op" => f[c] = "do"}
        /\ pc = [c \in Calls |-> "idle"] /\ cctx = [c \in Calls |-> FALSE] /\ ret = [c \in Calls |-> "none"]
        /\ lim = "free" /\ limq = <<>> /\ ns = "free" /\ nsq = <<>> /\ wlock = "free" /\ stalled = FALSE
        /\ closeReq = FALSE /\ eof = FALSE /\ connCtx = FALSE /\ sock = "open" /\ sockCloses = 0
        /\ list = Cbs /\ taken = [p \in Procs |-> {}] /\ ran = [c \in Cbs |-> 0] /\ done = FALSE /\ doneCompletions = 0
        /\ ppc = [p \in Procs |-> "idle"] /\ rpark = FALSE

Remove(q, x) == SelectSeq(q, LAMBDA y : y # x)
\* give a slot back: hand it to the head waiter (FIFO) or free it
RelHolder(h, q, c) == IF h # c THEN h ELSE IF q = <<>> THEN "free" ELSE Head(q)
RelQueue(h, q, c)  == IF h # c THEN Remove(q, c) ELSE IF q = <<>> THEN q ELSE Tail(q)
\* c leaves for good with result r, giving back what it holds (the NSTART slot only if relNS)
Leave(c, r, relNS) ==
  /\ pc' = [pc EXCEPT ![c] = "done"] /\ ret' = [ret EXCEPT ![c] = r]
  /\ lim' = RelHolder(lim, limq, c) /\ limq' = RelQueue(lim, limq, c)
  /\ IF relNS THEN ns' = RelHolder(ns, nsq, c) /\ nsq' = RelQueue(ns, nsq, c) ELSE UNCHANGED <<ns, nsq>>
  /\ wlock' = IF wlock = c THEN "free" ELSE wlock
  /\ UNCHANGED <<kind, cctx>>
At(c, p) == pc' = [pc EXCEPT ![c] = p]

(* ------------------------------- environment ----------------------------- *)
Invoke(c) == pc[c] = "idle" /\ At(c, "before") /\ UNCHANGED <<kind, cctx, ret, lim, limq, ns, nsq, wlock>> /\ UNCHANGED <<xvars, pvars>>
CtxDone(c) == ~cctx[c] /\ pc[c] # "done" /\ cctx' = [cctx EXCEPT ![c] = TRUE]
              /\ UNCHANGED <<kind, pc, ret, lim, limq, ns, nsq, wlock>> /\ UNCHANGED <<xvars, pvars>>
LocalClose == ~closeReq /\ closeReq' = TRUE /\ UNCHANGED <<eof, stalled, cvars, pvars>>
PeerClose == HasReader /\ ~Datagram /\ ~eof /\ eof' = TRUE /\ UNCHANGED <<closeReq, stalled, cvars, pvars>>
\* the stream peer stops reading (its buffers are full from now on)
Stall == ~Datagram /\ ~stalled /\ stalled' = TRUE /\ UNCHANGED <<closeReq, eof, cvars, pvars>>
\* the peer gets the call one wait further, or answers it - never obliged to
PeerAck(c) == Datagram /\ pc[c] = "sent" /\ kind[c] = "do" /\ At(c, "acked")
              /\ UNCHANGED <<kind, cctx, ret, lim, limq, ns, nsq, wlock>> /\ UNCHANGED <<xvars, pvars>>
PeerContinue(c) == pc[c] = "sent" /\ kind[c] = "bwdo" /\ At(c, "midbw")
              /\ UNCHANGED <<kind, cctx, ret, lim, limq, ns, nsq, wlock>> /\ UNCHANGED <<xvars, pvars>>
PeerAnswer(c) == pc[c] \in WaitPts /\ kind[c] # "discover" /\ Leave(c, "ok", TRUE) /\ UNCHANGED <<xvars, pvars>>
\* the handler is busy and the peer keeps sending: the receive queue fills up and the reader parks handing the next message over
\* (before any interruption: afterwards it makes no difference to what is claimed)
Flood == HasReader /\ ~rpark /\ ppc["reader"] = "idle" /\ ~closeReq /\ ~eof /\ ~connCtx /\ rpark' = TRUE
         /\ UNCHANGED <<cvars, xvars, connCtx, sock, sockCloses, list, taken, ran, done, doneCompletions, ppc>>
Env == \/ Flood
       \/ \E c \in Calls : Invoke(c) \/ CtxDone(c) \/ PeerAck(c) \/ PeerContinue(c) \/ PeerAnswer(c)
       \/ LocalClose \/ PeerClose \/ Stall

(* ---------------------------- the calls' own steps ------------------------ *)
Enter(c) == /\ pc[c] = "before"
            /\ IF UsesLim(kind[c])
               THEN IF lim = "free" THEN lim' = c /\ At(c, "haveLim") /\ UNCHANGED limq
                    ELSE limq' = Append(limq, c) /\ At(c, "queued") /\ UNCHANGED lim
               ELSE At(c, "haveLim") /\ UNCHANGED <<lim, limq>>
            /\ UNCHANGED <<kind, cctx, ret, ns, nsq, wlock>>
\* select{granted, ctx} of acquireEndpoint - both arms may be ready
QueuedGranted(c) == pc[c] = "queued" /\ lim = c /\ At(c, "haveLim") /\ UNCHANGED <<kind, cctx, ret, lim, limq, ns, nsq, wlock>>
QueuedCtx(c) == pc[c] = "queued" /\ cctx[c] /\ Leave(c, "err", TRUE)
\* limit.Acquire / acquireOutstandingInteraction refuse a finished context at once
TakeNS(c) == /\ pc[c] = "haveLim"
             /\ IF cctx[c] /\ (UsesLim(kind[c]) \/ UsesNS(kind[c])) THEN Leave(c, "err", TRUE)
                ELSE /\ IF UsesNS(kind[c])
                        THEN IF ns = "free" THEN ns' = c /\ At(c, "write") /\ UNCHANGED nsq
                             ELSE nsq' = Append(nsq, c) /\ At(c, "nstart") /\ UNCHANGED ns
                        ELSE At(c, "write") /\ UNCHANGED <<ns, nsq>>
                     /\ UNCHANGED <<kind, cctx, ret, lim, limq, wlock>>
NSGranted(c) == pc[c] = "nstart" /\ ns = c /\ At(c, "write") /\ UNCHANGED <<kind, cctx, ret, lim, limq, ns, nsq, wlock>>
NSCtx(c) == pc[c] = "nstart" /\ cctx[c] /\ Leave(c, "err", TRUE)
\* the write: refused on a closed socket, under a finished context (a ping is written under the connection's context)
WriteRefused(c) == sock = "closed" \/ cctx[c] \/ (connCtx /\ kind[c] = "ping")
\* (a datagram write never parks; a stream write first takes the connection's write lock)
WCtx(c) == IF kind[c] = "ping" THEN connCtx ELSE cctx[c]       \* the context the frame is written under
Wrote(c) == IF ~Waits(kind[c]) THEN Leave(c, "ok", TRUE)
            ELSE At(c, "sent") /\ wlock' = (IF wlock = c THEN "free" ELSE wlock) /\ UNCHANGED <<kind, cctx, ret, lim, limq, ns, nsq>>
Write(c) == /\ pc[c] = "write"
            /\ IF WriteRefused(c) THEN Leave(c, "err", ReleaseOnWriteFail)
               ELSE IF Datagram THEN Wrote(c)
               ELSE IF wlock = "free" THEN wlock' = c /\ At(c, "wpark") /\ UNCHANGED <<kind, cctx, ret, lim, limq, ns, nsq>>
               ELSE At(c, "wlock") /\ UNCHANGED <<kind, cctx, ret, lim, limq, ns, nsq, wlock>>
LockGranted(c) == pc[c] = "wlock" /\ wlock = "free" /\ wlock' = c /\ At(c, "wpark") /\ UNCHANGED <<kind, cctx, ret, lim, limq, ns, nsq>>
LockCtx(c) == pc[c] = "wlock" /\ WCtx(c) /\ "ctx" \in LockWakes /\ Leave(c, "err", ReleaseOnWriteFail)
\* holding the lock: the socket takes the frame unless the peer has stalled; a closed socket or (WriteWakes) the context fails the write
WriteDone(c) == pc[c] = "wpark" /\ sock = "open" /\ ~stalled /\ Wrote(c)
WriteFails(c) == /\ pc[c] = "wpark"
                 /\ \/ sock = "closed" /\ (stalled => "sock" \in WriteWakes)
                    \/ WCtx(c) /\ (stalled => "ctx" \in WriteWakes)
                 /\ Leave(c, "err", ReleaseOnWriteFail)
\* the select of a wait for the peer sees a done context it listens to
Woken(c) == /\ pc[c] \in WaitPts
            /\ \/ cctx[c] /\ "ctx" \in Sel[kind[c]][pc[c]]
               \/ connCtx /\ "conn" \in Sel[kind[c]][pc[c]]
            /\ Leave(c, IF kind[c] = "discover" /\ cctx[c] THEN "ok" ELSE "err", TRUE)
CallStep(c) == (Enter(c) \/ QueuedGranted(c) \/ QueuedCtx(c) \/ TakeNS(c) \/ NSGranted(c) \/ NSCtx(c) \/ Write(c) \/ LockGranted(c) \/ LockCtx(c)
                \/ WriteDone(c) \/ WriteFails(c) \/ Woken(c))
               /\ UNCHANGED <<xvars, pvars>>

(* ------------------------------ the close protocol ------------------------ *)
Go(p, to) == ppc' = [ppc EXCEPT ![p] = to]
\* Close(), two critical sections
StartClose(p) == /\ ppc[p] = "idle"
                 /\ IF p = "reader"
                    THEN IF rpark THEN (IF ParkWakes = "conn" THEN connCtx ELSE done)      \* parked: not in the read call
                         ELSE (connCtx \/ sock = "closed" \/ eof)
                    ELSE closeReq
                 /\ connCtx' = TRUE /\ Go(p, "cancelled")
                 /\ UNCHANGED <<sock, sockCloses, list, taken, ran, done, doneCompletions, rpark>>
CloseSock(p) == /\ ppc[p] = "cancelled"
                /\ (CloseTakesWriteLock /\ ClosesSocket /\ sock = "open") => wlock = "free"
                /\ IF ClosesSocket /\ sock = "open" THEN sock' = "closed" /\ sockCloses' = sockCloses + 1 ELSE UNCHANGED <<sock, sockCloses>>
                /\ Go(p, IF p \in Closers THEN "end" ELSE "closed")
                /\ UNCHANGED <<connCtx, list, taken, ran, done, doneCompletions, rpark>>
\* shutdown()
Pop(p) == /\ ppc[p] = "closed"
          /\ taken' = [taken EXCEPT ![p] = list]
          /\ IF PopAtomic THEN list' = {} /\ Go(p, "run") ELSE UNCHANGED list /\ Go(p, "clear")
          /\ UNCHANGED <<connCtx, sock, sockCloses, ran, done, doneCompletions, rpark>>
Clear(p) == /\ ppc[p] = "clear" /\ list' = {} /\ Go(p, "run")
            /\ UNCHANGED <<connCtx, sock, sockCloses, taken, ran, done, doneCompletions, rpark>>
RunCb(p) == /\ ppc[p] = "run" /\ taken[p] # {}
            /\ \E c \in taken[p] : ran' = [ran EXCEPT ![c] = @ + 1] /\ taken' = [taken EXCEPT ![p] = @ \ {c}]
            /\ UNCHANGED <<connCtx, sock, sockCloses, list, done, doneCompletions, ppc, rpark>>
Complete(p) == /\ ppc[p] = "run" /\ taken[p] = {}
               /\ done' = TRUE /\ doneCompletions' = doneCompletions + 1 /\ Go(p, "end")
               /\ UNCHANGED <<connCtx, sock, sockCloses, list, taken, ran, rpark>>
ProcStep(p) == (StartClose(p) \/ CloseSock(p) \/ Pop(p) \/ Clear(p) \/ RunCb(p) \/ Complete(p)) /\ UNCHANGED <<cvars, xvars>>

Next == Env \/ (\E c \in Calls : CallStep(c)) \/ (\E p \in Procs : ProcStep(p))
Spec == Init /\ [][Next]_vars /\ (\A c \in Calls : WF_vars(CallStep(c))) /\ (\A p \in Procs : WF_vars(ProcStep(p)))

(* ---------------------------------- properties ---------------------------- *)
\* "returns within a bounded delay once its context is cancelled or expires or the connection is closed by either side"
\* (a reader that is parked on a full queue is not reading and cannot see the peer's EOF before the application's
\*  handler makes room: the peer-close claims are made for a reader that is reading)
PeerClosed == eof /\ ~rpark
Interrupted(c) == pc[c] # "idle" /\ (cctx[c] \/ closeReq \/ PeerClosed)
Ends == \A c \in Calls : Interrupted(c) ~> (pc[c] = "done")
\* finding D22: Ping(ctx) hands its frame over under the connection's context (AsyncPing has no other): a ping whose frame is
\* waiting for, or parked in, a write to a stalled peer outlives its caller's context - until the connection is closed
D22(c) == kind[c] = "ping" /\ pc[c] \in {"wlock", "wpark"} /\ stalled
EndsButD22 == \A c \in Calls : Interrupted(c) ~> (pc[c] = "done" \/ D22(c))
NoFalseError == \A c \in Calls : (ret[c] = "err") => (cctx[c] \/ closeReq \/ eof)
\* slots are owned by at most one call and never by one that has returned
SlotsSane == /\ lim \in Calls => pc[lim] \notin {"idle", "done"}
             /\ (ns \in Calls /\ ReleaseOnWriteFail) => pc[ns] \notin {"idle", "done"}
\* "runs every registered on-close callback exactly once", "completes the connection's done signal"
OnceEach == \A c \in Cbs : ran[c] <= 1
SockOnce == sockCloses <= 1
\* a stream connection completes its done signal by closing a channel: twice would panic
DoneOnceIfReaderOnly == (Shutters = {}) => doneCompletions <= 1
CloseCompletes == (closeReq \/ PeerClosed) ~> (done /\ \A c \in Cbs : ran[c] = 1)
\* every (operation, point, kind) at which an interruption can strike, per transport
KindsFor(dg) == IF dg THEN Kinds \ {"peerclose"} ELSE Kinds      \* a datagram peer cannot close
OpsFor(dg) == IF dg THEN Ops ELSE Ops \ {"discover"}              \* discovery is a datagram-server operation
TuplesFor(dg) == UNION {{[op |-> o, pt |-> Path(o, dg)[j], kind |-> k, datagram |-> dg] : j \in 1..Len(Path(o, dg)), k \in KindsFor(dg)} : o \in OpsFor(dg)}
Tuples == TuplesFor(TRUE) \cup TuplesFor(FALSE)
=============================================================================
