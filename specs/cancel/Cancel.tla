------------------------------- MODULE Cancel -------------------------------
(***************************************************************************)
(* Blocking client operations, their interruption, and the close protocol   *)
(* of a connection (C09).                                                   *)
(*                                                                         *)
(* Part 1 - waits.  Every blocking call of the client API is a sequence of  *)
(* waits; each wait is a select over a subset of { the caller's context,    *)
(* the connection's context } plus the awaited event.  Sel[op][pt] is what  *)
(* the code's select at that wait lists (read from udp/client/conn.go:      *)
(* doInternal, waitForAcknowledge; tcp/client/conn.go: doInternal;          *)
(* net/observation/handler.go; net/client/client.go: Ping;                  *)
(* limitParallelRequests.Do; udp/server/discover.go).  The peer and the     *)
(* network owe nothing (no fairness): they may stay silent for ever.  Only  *)
(* the call's own wake-up and the connection's own goroutines are fair.     *)
(*   ops      do | bwdo (block-wise request) | observe | obscancel | ping |  *)
(*            write (confirmable one-way write) | discover                  *)
(*   points   before (context already done / connection already closed) |   *)
(*            queued (behind the parallel-request limiter) | sent | acked   *)
(*            (datagram: ACK seen, response pending) | midbw                *)
(*   kinds    cancel | deadline | close (local Close, from several          *)
(*            goroutines) | peerclose (stream transport: the peer closes)   *)
(*                                                                         *)
(* Part 2 - close.  Close() = cancel the connection context, then close the *)
(* socket behind a once-guard (net.Conn.Close / UDPConn.Close).  The reader *)
(* loop (session.Run) wakes on the context, the socket or the peer's EOF,   *)
(* calls Close itself and then shutdown(): pop the on-close list under the  *)
(* mutex, run what it took, complete the done signal.  A server-side        *)
(* datagram connection has no reader of its own: the server calls           *)
(* Close+shutdown through the connection's close function, possibly from    *)
(* several goroutines (Stop, the inactivity tick, a datagram for a closed    *)
(* peer) - these are the Shutters.                                          *)
(***************************************************************************)
EXTENDS Integers, Sequences, FiniteSets, TLC

CONSTANTS Sel,          \* Sel[op][pt] \subseteq {"ctx", "conn"}
          Cbs,          \* registered on-close callbacks
          Closers,      \* goroutines calling Close()
          Shutters,     \* goroutines calling Close()+shutdown() (server-side datagram connection), besides the reader
          HasReader,    \* the connection has a reader loop of its own
          PopAtomic     \* popOnClose takes and clears the list in one critical section (the code)

Ops == {"do", "bwdo", "observe", "obscancel", "ping", "write", "discover"}
Kinds == {"cancel", "deadline", "close", "peerclose"}
\* the waits an operation goes through, in order (datagram transport; a stream transport has no "acked")
Path(o) == CASE o = "do"        -> <<"before", "queued", "sent", "acked">>
             [] o = "bwdo"      -> <<"before", "queued", "sent", "midbw">>
             [] o = "observe"   -> <<"before", "queued", "sent">>
             [] o = "obscancel" -> <<"before", "queued", "sent">>
             [] o = "ping"      -> <<"before", "sent">>
             [] o = "write"     -> <<"before", "sent">>
             [] o = "discover"  -> <<"before", "sent">>
Points == {"before", "queued", "sent", "acked", "midbw"}
\* what the code's selects list, after the repair of Ping (net/client/client.go) - every wait lists both
Both == {"ctx", "conn"}
CodeSel == [o \in Ops |-> [p \in Points |-> Both]]
\* the pinned tree before the repair: Ping waited for the pong and the caller's context only
PinnedSel == [CodeSel EXCEPT !["ping"]["sent"] = {"ctx"}]

Procs == Closers \cup Shutters \cup (IF HasReader THEN {"reader"} ELSE {})
VARIABLES op, at, opCtx, ret,          \* the blocked call
          closeReq, eof,               \* interruptions of the connection
          connCtx, sock, sockCloses,   \* connection context, socket, executions of the real socket close
          list, taken, ran, done, doneCompletions,
          pc
vars == <<op, at, opCtx, ret, closeReq, eof, connCtx, sock, sockCloses, list, taken, ran, done, doneCompletions, pc>>

Init == /\ op \in Ops /\ at = 1 /\ opCtx = FALSE /\ ret = "none"
        /\ closeReq = FALSE /\ eof = FALSE /\ connCtx = FALSE /\ sock = "open" /\ sockCloses = 0
        /\ list = Cbs /\ taken = [p \in Procs |-> {}] /\ ran = [c \in Cbs |-> 0] /\ done = FALSE /\ doneCompletions = 0
        /\ pc = [p \in Procs |-> "idle"]

Interrupted == opCtx \/ closeReq \/ eof
(* ------------------------------ the blocked call -------------------------- *)
\* the environment lets the call get one wait further (the peer answered something) - never obliged to
Advance == /\ ret = "none" /\ ~Interrupted /\ at < Len(Path(op)) /\ at' = at + 1
           /\ UNCHANGED <<op, opCtx, ret, closeReq, eof, connCtx, sock, sockCloses, list, taken, ran, done, doneCompletions, pc>>
Interrupt(k) == /\ ~Interrupted
                /\ CASE k \in {"cancel", "deadline"} -> opCtx' = TRUE /\ UNCHANGED <<closeReq, eof>>
                     [] k = "close"                 -> closeReq' = TRUE /\ UNCHANGED <<opCtx, eof>>
                     [] k = "peerclose"             -> HasReader /\ eof' = TRUE /\ UNCHANGED <<opCtx, closeReq>>
                /\ UNCHANGED <<op, at, ret, connCtx, sock, sockCloses, list, taken, ran, done, doneCompletions, pc>>
\* the call's own step: its select sees a done context it listens to
Woken == \/ opCtx /\ "ctx" \in Sel[op][Path(op)[at]]
         \/ connCtx /\ "conn" \in Sel[op][Path(op)[at]]
Return == /\ ret = "none" /\ Woken /\ ret' = "err"
          /\ UNCHANGED <<op, at, opCtx, closeReq, eof, connCtx, sock, sockCloses, list, taken, ran, done, doneCompletions, pc>>

(* ------------------------------ the close protocol ------------------------ *)
Go(p, to) == pc' = [pc EXCEPT ![p] = to]
OpU == UNCHANGED <<op, at, opCtx, ret, closeReq, eof>>
\* Close(), two critical sections
StartClose(p) == /\ pc[p] = "idle"
                 /\ IF p = "reader" THEN (connCtx \/ sock = "closed" \/ eof) ELSE closeReq
                 /\ connCtx' = TRUE /\ Go(p, "cancelled")
                 /\ OpU /\ UNCHANGED <<sock, sockCloses, list, taken, ran, done, doneCompletions>>
CloseSock(p) == /\ pc[p] = "cancelled"
                /\ IF sock = "open" THEN sock' = "closed" /\ sockCloses' = sockCloses + 1 ELSE UNCHANGED <<sock, sockCloses>>
                /\ Go(p, IF p \in Closers THEN "end" ELSE "closed")
                /\ OpU /\ UNCHANGED <<connCtx, list, taken, ran, done, doneCompletions>>
\* shutdown()
Pop(p) == /\ pc[p] = "closed"
          /\ taken' = [taken EXCEPT ![p] = list]
          /\ IF PopAtomic THEN list' = {} /\ Go(p, "run") ELSE UNCHANGED list /\ Go(p, "clear")
          /\ OpU /\ UNCHANGED <<connCtx, sock, sockCloses, ran, done, doneCompletions>>
Clear(p) == /\ pc[p] = "clear" /\ list' = {} /\ Go(p, "run")
            /\ OpU /\ UNCHANGED <<connCtx, sock, sockCloses, taken, ran, done, doneCompletions>>
RunCb(p) == /\ pc[p] = "run" /\ taken[p] # {}
            /\ \E c \in taken[p] : ran' = [ran EXCEPT ![c] = @ + 1] /\ taken' = [taken EXCEPT ![p] = @ \ {c}]
            /\ OpU /\ UNCHANGED <<connCtx, sock, sockCloses, list, done, doneCompletions, pc>>
Complete(p) == /\ pc[p] = "run" /\ taken[p] = {}
               /\ done' = TRUE /\ doneCompletions' = doneCompletions + 1 /\ Go(p, "end")
               /\ OpU /\ UNCHANGED <<connCtx, sock, sockCloses, list, taken, ran>>
ProcStep(p) == StartClose(p) \/ CloseSock(p) \/ Pop(p) \/ Clear(p) \/ RunCb(p) \/ Complete(p)

Next == Advance \/ (\E k \in Kinds : Interrupt(k)) \/ Return \/ (\E p \in Procs : ProcStep(p))
Spec == Init /\ [][Next]_vars /\ WF_vars(Return) /\ \A p \in Procs : WF_vars(ProcStep(p))

(* ---------------------------------- properties ---------------------------- *)
\* "returns within a bounded delay once its context is cancelled or expires or the connection is closed by either side"
Ends == Interrupted ~> (ret # "none")
NoFalseReturn == (ret # "none") => Interrupted
\* "runs every registered on-close callback exactly once", "completes the connection's done signal"
OnceEach == \A c \in Cbs : ran[c] <= 1
SockOnce == sockCloses <= 1
\* a stream connection completes its done signal by closing a channel: twice would panic
DoneOnceIfReaderOnly == (Shutters = {}) => doneCompletions <= 1
CloseCompletes == (closeReq \/ eof) ~> (done /\ \A c \in Cbs : ran[c] = 1)
\* every (operation, point, kind) at which an interruption can strike
Tuples == UNION {{[op |-> o, pt |-> Path(o)[j], kind |-> k] : j \in 1..Len(Path(o)), k \in Kinds} : o \in Ops}
=============================================================================
