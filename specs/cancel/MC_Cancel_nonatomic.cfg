SPECIFICATION Spec
CONSTANTS
  Sel <- CodeSel
  Cbs <- TheCbs
  Closers <- TheClosers
  Shutters <- TwoShutters
  HasReader = FALSE
  PopAtomic = FALSE
  Noise = {"silent", "garbage"}
INVARIANTS NoFalseReturn OnceEach SockOnce DoneOnceIfReaderOnly
PROPERTIES Ends CloseCompletes
