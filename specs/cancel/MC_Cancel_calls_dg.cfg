SPECIFICATION Spec
CONSTANTS
  Sel <- CodeSel
  Calls <- AllCalls
  Datagram = TRUE
  ReleaseOnWriteFail = TRUE
  Cbs <- OneCb
  Closers <- OneCloser
  Shutters <- NoShutters
  HasReader = TRUE
  ClosesSocket = TRUE
  PopAtomic = TRUE
  ParkWakes = "conn"
  Noise = {"silent", "unsolicited", "garbage"}
INVARIANTS NoFalseError SlotsSane OnceEach SockOnce DoneOnceIfReaderOnly
PROPERTIES Ends CloseCompletes
