------------------------------- MODULE RecC09 -------------------------------
(* Judges what happened when every blocking operation of REAL udp / tcp client connections, and discovery on a *)
(* real udp server, was interrupted at every point of specs/cancel/Cancel.tla (harness/drv/c09), and what      *)
(* happened when real udp / tcp / dtls / tls servers with requests in flight were stopped from several          *)
(* goroutines.  A record is one (operation, point, kind, noise) tuple on one transport, or one server scenario.  *)
EXTENDS Integers, Sequences, FiniteSets, TLC, Json, IOUtils
Recs == ndJsonDeserialize(IOEnv.VF_RECS)
VARIABLES i, ph
Init == i \in 1..Len(Recs) /\ ph = 0
Next == ph = 0 /\ ph' = 1 /\ UNCHANGED i
J == ph = 1
R == Recs[i]
IsOp == "op" \in DOMAIN R
IsSrv == "order" \in DOMAIN R
IsFlood == "flood" \in DOMAIN R
All(q, v) == \A k \in 1..Len(q) : q[k] = v

\* Cancel!Ends: once interrupted, the call returns (the watchdog stands for "bounded delay")
C09_Ends == J => (IsOp /\ R.reached => R.returned)
\* ... and so does every other call in flight on the connection once the connection is closed
C09_OthersEnd == J => (IsOp /\ R.reached /\ R.closing => R.others)
\* Cancel!CloseCompletes: closing - by whichever side, from however many goroutines - completes the done signal
C09_DoneCompletes == J => (IsOp /\ R.reached /\ R.closing /\ R.transport # "udpserver" => R.done)
\* Cancel!OnceEach + CloseCompletes: every registered on-close callback ran exactly once
C09_OnCloseOnce == J => (IsOp /\ R.reached /\ R.closing /\ R.transport # "udpserver" => (Len(R.onclose) = 3 /\ All(R.onclose, 1)))
\* "closing ... is idempotent and safe while operations are in flight": every Close() call returns
C09_CloseReturns == J => (IsOp /\ R.reached /\ R.kind = "close" => R.closeret)
\* "closing ... is idempotent and safe while operations are in flight"
C09_NoPanic == J => R.panics = 0
\* stopping a server: Serve returns, every connection's done signal completes, callbacks once, clients' calls end
Steered == IsSrv /\ R.inflight = R.clients /\ R.conns = R.clients
C09_StopServes == J => (Steered => R.served)
C09_StopDone == J => (Steered => R.srvdone = R.conns)
C09_StopOnCloseOnce == J => (Steered => \A k \in 1..Len(R.srvonclose) : All(R.srvonclose[k], 1))
C09_ClientEnds == J => (Steered => (R.cliret = R.clients /\ R.clidone = R.clients /\ All(R.clionclose, 1)))
\* closing while the handler is busy, the receive queue is full and the reader is parked handing a message over
C09_FloodClose == J => (IsFlood /\ R.busy => (R.done /\ Len(R.onclose) = 3 /\ All(R.onclose, 1) /\ R.panics = 0))
\* conformance only: an interrupted call reports an error (nothing was ever answered); callbacks do not run unless closed;
\* a stream peer notices the server's stop by itself
K09_ErrReported == J => (IsOp /\ R.reached /\ R.returned /\ R.op # "discover" => R.err)
K09_NoCallbackWithoutClose == J => (IsOp /\ R.reached /\ ~R.closing /\ R.noise # "garbage" => All(R.onclose, 0))
K09_StreamPeerNotices == J => (Steered /\ R.order = "stop-first" /\ R.transport # "udp" => R.selfclosed = R.clients)
=============================================================================
