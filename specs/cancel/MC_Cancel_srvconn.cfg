SPECIFICATION Spec
CONSTANTS
  Sel <- CodeSel
  Cbs <- TheCbs
  Closers <- TheClosers
  Shutters <- TwoShutters
  HasReader = FALSE
  PopAtomic = TRUE
  Noise = {"silent", "garbage"}
INVARIANTS NoFalseReturn OnceEach SockOnce DoneOnceIfReaderOnly
PROPERTIES Ends CloseCompletes
