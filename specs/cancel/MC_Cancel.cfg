SPECIFICATION Spec
CONSTANTS
  Sel <- CodeSel
  Cbs <- TheCbs
  Closers <- TheClosers
  Shutters <- NoShutters
  HasReader = TRUE
  PopAtomic = TRUE
  Noise = {"silent", "garbage"}
INVARIANTS NoFalseReturn OnceEach SockOnce DoneOnceIfReaderOnly
PROPERTIES Ends CloseCompletes
