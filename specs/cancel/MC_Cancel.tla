---------------------------- MODULE MC_Cancel ----------------------------
EXTENDS Cancel, Json, SequencesExt
CONSTANT Noise
ThreeCbs == {"f1", "f2", "f3"}
OneCb == {"f1"}
TwoClosers == {"c1", "c2"}
OneCloser == {"c1"}
NoShutters == {}
TwoShutters == {"s1", "s2"}
AllCalls == {"occ", "op", "w"}
OnlyOp == {"op"}
TwoCalls == {"occ", "op"}
ASSUME JsonSerialize("tuples.json", SetToSeq({[op |-> t.op, pt |-> t.pt, kind |-> t.kind, datagram |-> t.datagram, noise |-> z] : t \in Tuples, z \in Noise}))
==========================================================================
