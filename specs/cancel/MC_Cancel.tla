---------------------------- MODULE MC_Cancel ----------------------------
EXTENDS Cancel, Json, SequencesExt
CONSTANT Noise
TheCbs == {"f1", "f2", "f3"}
TheClosers == {"c1", "c2"}
NoShutters == {}
TwoShutters == {"s1", "s2"}
ASSUME JsonSerialize("tuples.json", SetToSeq({[op |-> t.op, pt |-> t.pt, kind |-> t.kind, noise |-> z] : t \in Tuples, z \in Noise}))
==========================================================================
