INIT Init
NEXT Next
INVARIANTS C09_CloseReturns C09_FloodClose C09_Ends C09_OthersEnd C09_DoneCompletes C09_OnCloseOnce C09_NoPanic C09_StopServes C09_StopDone C09_StopOnCloseOnce C09_ClientEnds K09_ErrReported K09_NoCallbackWithoutClose K09_StreamPeerNotices
