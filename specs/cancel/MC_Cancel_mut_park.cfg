SPECIFICATION Spec
CONSTANTS
  Sel <- CodeSel
  Calls <- OnlyOp
  Datagram = FALSE
  ReleaseOnWriteFail = TRUE
  Cbs <- ThreeCbs
  Closers <- TwoClosers
  Shutters <- NoShutters
  HasReader = TRUE
  ClosesSocket = TRUE
  PopAtomic = TRUE
  WriteWakes = {"ctx", "sock"}
  LockWakes = {"ctx"}
  CloseTakesWriteLock = FALSE
  ParkWakes = "done"
  Noise = {"silent", "unsolicited", "garbage"}
INVARIANTS NoFalseError SlotsSane OnceEach SockOnce DoneOnceIfReaderOnly
PROPERTIES CloseCompletes
