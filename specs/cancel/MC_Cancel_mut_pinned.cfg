SPECIFICATION Spec
CONSTANTS
  Sel <- PinnedSel
  Calls <- OnlyOp
  Datagram = FALSE
  ReleaseOnWriteFail = TRUE
  Cbs <- OneCb
  Closers <- OneCloser
  Shutters <- NoShutters
  HasReader = TRUE
  ClosesSocket = TRUE
  PopAtomic = TRUE
  WriteWakes = {"ctx", "sock"}
  LockWakes = {"ctx"}
  CloseTakesWriteLock = FALSE
  ParkWakes = "conn"
  Noise = {"silent", "unsolicited", "garbage"}
INVARIANTS NoFalseError SlotsSane OnceEach SockOnce DoneOnceIfReaderOnly
PROPERTIES EndsButD22
