INIT Init
NEXT Next
CONSTANTS
  Good = {1, 2}
  Bad = {3, 4}
  MaxReq = 4
  Walks = 0
  MaxEvents = 5
INVARIANTS Inv
