INIT Init
NEXT Next
CONSTANTS
  Good = {1, 2}
  Bad = {3, 4}
  MaxReq = 6
  Walks = 40
  MaxEvents = 18
INVARIANTS Emit
