------------------------------- MODULE Server -------------------------------
(***************************************************************************)
(* A server and its peers (C10): udp/server, tcp/server, dtls/server.      *)
(* Peers are identified by their remote address; the server keeps one      *)
(* logical connection per (remote, local) address pair.                    *)
(*   good(p)          well-behaved peer p sends its next request; the      *)
(*                    server answers with (connection id, n-th request on  *)
(*                    that connection)                                     *)
(*   bad(q, class)    adversary q sends: "garbage" (arbitrary bytes),      *)
(*                    "trunc" (truncated message), "oversize", "unktok"    *)
(*                    (response with an unknown token), "ack" / "rst"      *)
(*                    (unsolicited), "stall" (connects, sends nothing),    *)
(*                    "close" (closes its end)                             *)
(* What the library does with the adversary's own connection is its         *)
(* business (it may close it); the good peers must not notice.              *)
(***************************************************************************)
EXTENDS Integers, Sequences, FiniteSets, TLC

CONSTANTS Good, Bad, MaxReq
Classes == {"garbage", "trunc", "oversize", "unktok", "ack", "rst", "stall", "close"}
V0 == [n |-> [p \in Good |-> 0],            \* requests sent by p so far
       conn |-> [p \in Good |-> 0],         \* how many logical connections the server has created for p
       served |-> [p \in Good |-> <<>>],    \* what p received: <<connection generation, k-th on it>>
       up |-> TRUE]
GoodReq(s, p) == IF s.n[p] = MaxReq THEN {}
                 ELSE {[s EXCEPT !.n[p] = s.n[p] + 1,
                                 !.conn[p] = IF s.conn[p] = 0 THEN 1 ELSE s.conn[p],
                                 !.served[p] = Append(s.served[p], <<1, s.n[p] + 1>>)]}
BadEv(s, q, c) == {s}                        \* no effect on anything a good peer can observe
\* "messages from one remote address are handled by one logical connection ... in arrival order"
D10_OneConnInOrder(s) == \A p \in Good : s.conn[p] <= 1 /\ \A k \in 1..Len(s.served[p]) : s.served[p][k] = <<1, k>>
=============================================================================
