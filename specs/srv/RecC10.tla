------------------------------- MODULE RecC10 -------------------------------
(* Judges what well-behaved peers received from REAL servers on loopback sockets while adversarial peers were   *)
(* active, and discovery routing (harness/drv/c10).                                                               *)
EXTENDS Integers, Sequences, FiniteSets, TLC, Json, IOUtils
Traces == ndJsonDeserialize(IOEnv.VF_RECS)
VARIABLES i, ph
Init == i \in 1..Len(Traces) /\ ph = 0
Next == ph = 0 /\ ph' = 1 /\ UNCHANGED i
J == ph = 1
T == Traces[i]
Srv == T.op = "server"
Ev == T.ev
GoodIdx(p) == SelectSeq([k \in 1..Len(Ev) |-> k], LAMBDA k : Ev[k].e = "good" /\ Ev[k].p = p)
\* "it never crashes, deadlocks or stops accepting": every request of a well-behaved peer, after any prefix of
\* hostile input, is answered - with its own token and echo
\* ... and a peer that has sent garbage (its connection was closed for it) is served again when it sends a proper request - the very
\* next datagram included
C10_ServedAgain == (J /\ Srv) => \A k \in 1..Len(Ev) : (Ev[k].e = "bad" /\ Ev[k].c = "wellformed") => Ev[k].answered
C10_Alive == (J /\ Srv) => (T.serving /\ \A k \in 1..Len(Ev) : Ev[k].e = "good" => (Ev[k].answered /\ Ev[k].tokok /\ Ev[k].echook))
\* "messages from one remote address are handled by one logical connection per (remote, local) address pair in
\*  arrival order": the k-th request of peer p is the k-th request of ONE server-side connection
C10_OneConnInOrder == (J /\ Srv) => \A p \in {1, 2} : LET g == GoodIdx(p) IN
                        \A j \in 1..Len(g) : (Ev[g[j]].answered => (Ev[g[j]].nth = j /\ Ev[g[j]].conn = Ev[g[1]].conn))
\* "garbage ... or the closure of one peer never change what other peers receive": the answers to a good peer are
\* a function of its own requests only (the echo is of its own request, the connection is its own)
C10_NonInterference == (J /\ Srv) => \A a, b \in 1..Len(Ev) :
                        (Ev[a].e = "good" /\ Ev[b].e = "good" /\ Ev[a].p # Ev[b].p /\ Ev[a].answered /\ Ev[b].answered) => Ev[a].conn # Ev[b].conn
C10_NewConnOnce == (J /\ Srv) => \A p \in {1, 2} : (GoodIdx(p) # <<>>) => T.newconns[p + 1] = 1     \* (the recorded list is indexed from peer 0)
\* "never ... stops accepting": a connection that is never dismantled keeps its socket and goroutines; every connection the server
\* announced - also those of peers that sent garbage, reset or failed the handshake - is done once the peers are gone and the server stopped
C10_AllDismantled == (J /\ Srv) => T.undone = 0
\* discovery: "responses to a discovery request are delivered only to the receiver registered for their token, each
\*  with the connection of the peer that sent it"
Dsc == T.op = "discover"
C10_DiscoveryRouting == (J /\ Dsc) => \A k \in 1..Len(T.got) :
                        (T.got[k].tok = T.got[k].receiver /\ T.got[k].fromport = T.got[k].ccport)
C10_DiscoveryComplete == (J /\ Dsc) => (T.expected = Len(T.got) /\ T.strays = T.handlerStrays)
\* a discovery issued with the token of one that is still pending is refused (and, by the two clauses above, does not
\* take over or remove the pending one's registration)
C10_DiscoveryDupRefused == (J /\ Dsc) => (T.dupRefused /\ ~T.dupOnWire)   \* ... and a refused request is not transmitted either
\* a peer whose handler is stuck and whose receive queue is full parks the server's read loop; once that peer's connection
\* is closed the other peers are served again, and the server can still be stopped
Stk == T.op = "stuck"
C10_StuckPeerClosed == (J /\ Stk /\ T.busy /\ T.bBefore) => (T.answeredB /\ T.stopped)
\* a server bound to the wildcard address: one remote socket talking to three local addresses of the host has three
\* connections - each request executed and answered on its own (same message ID towards all three), from the address
\* contacted; closing one leaves the others alone (Conn.LocalAddr() reports the listener's address by design, and a closed
\* server-side connection is only dismantled by the next housekeeping run: neither is judged)
Wld == T.op = "wild"
WD == T.d
C10_PerLocalAddress == (J /\ Wld /\ T.usable) =>
                         /\ T.newconns = Len(WD)
                         /\ \A k \in 1..Len(WD) : /\ WD[k].answered /\ WD[k].tokok /\ WD[k].echook
                                                   /\ WD[k].from = WD[k].dst
                                                   /\ WD[k].conn > 0 /\ WD[k].nth = 1
                         /\ \A a, b \in 1..Len(WD) : a # b => WD[a].conn # WD[b].conn
                         /\ \A k \in 2..Len(WD) : ~WD[k].closed /\ WD[k].again /\ WD[k].againNth = 2
\* ... and a connection the server opens itself (NewConn) is that peer's connection whatever local addresses other peers have been
\* talking to: the answer to a request sent on it reaches the request
C10_ServerInitiated == (J /\ Wld /\ T.usable /\ T.srvAsked /\ T.srvReqSeen) => (T.srvAnswered /\ T.afterCloseServed)   \* and once it is closed the peer is served again
\* a tcp server that probes idle peers (keep-alive): a peer that stalls is dropped - and only that peer: the well-behaved
\* one, idle meanwhile and answering its own probes, keeps its connection and its answers
C10_StalledPeerAlone == (J /\ T.op = "kastall" /\ T.gBefore /\ T.xDropped) => (T.gDropped = 0 /\ ~T.gClosed /\ T.gAfter)
\* ... and the arrival of other peers does not take a stalled peer out of the server's housekeeping: the one that stalled before
\* the well-behaved peer arrived is dropped like the one that stalled after it
C10_EveryStalledPeerDropped == (J /\ T.op = "kastall" /\ T.gBefore) => (T.xDropped /\ T.x0Dropped)
=============================================================================
