INIT Init
NEXT Next
INVARIANTS C10_Alive C10_ServedAgain C10_OneConnInOrder C10_NonInterference C10_NewConnOnce C10_DiscoveryRouting C10_DiscoveryComplete C10_DiscoveryDupRefused C10_StuckPeerClosed C10_PerLocalAddress C10_ServerInitiated C10_StalledPeerAlone C10_EveryStalledPeerDropped C10_AllDismantled
