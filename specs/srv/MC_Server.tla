------------------------------ MODULE MC_Server ------------------------------
EXTENDS Server, Json, SequencesExt
CONSTANTS Walks, MaxEvents
VARIABLES s, hist, w
Init == s = V0 /\ hist = <<>> /\ w \in (IF Walks = 0 THEN {0} ELSE 1..Walks)
Evs == {[e |-> "good", p |-> p, c |-> "req"] : p \in Good} \cup {[e |-> "bad", p |-> q, c |-> c] : q \in Bad, c \in Classes}
App(ev) == IF ev.e = "good" THEN GoodReq(s, ev.p) ELSE BadEv(s, ev.p, ev.c)
Next == /\ Len(hist) < MaxEvents
        /\ IF Walks = 0 THEN \E ev \in Evs : \E t \in App(ev) : s' = t /\ hist' = Append(hist, ev)
           ELSE \E ev \in {RandomElement({x \in Evs : App(x) # {}})} : \E t \in App(ev) : s' = t /\ hist' = Append(hist, ev)
        /\ w' = w
Inv == D10_OneConnInOrder(s)
\* directed interleavings: every hostile class (i) before any well-behaved peer has connected, (ii) between the requests
\* of connected peers and the arrival of a new one, (iii) twice in a row from both adversaries
G(p) == [e |-> "good", p |-> p, c |-> "req"]
B(q, c) == [e |-> "bad", p |-> q, c |-> c]
Directed == UNION {{<<B(3, c), G(1), G(2), G(1), G(2)>>,
                    <<G(1), B(3, c), G(2), G(1), B(4, c), G(2), G(1)>>,
                    <<B(3, c), B(4, c), B(3, c), G(1), G(2), G(1)>>} : c \in Classes}
ASSUME JsonSerialize("directed.json", SetToSeq(Directed))
Emit == (Walks > 0 /\ Len(hist) = MaxEvents) => PrintT(<<"HIST", ToJson(hist)>>)
=============================================================================
