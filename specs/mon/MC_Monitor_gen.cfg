INIT Init
NEXT Next
CONSTANTS
  P = 4
  KeepAlive = TRUE
  MaxRetries = 1
  Horizon = 40
  Walks = 100
  MaxEvents = 14
INVARIANTS Emit
