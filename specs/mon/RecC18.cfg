INIT Init
NEXT Next
INVARIANTS C18_OnlyIfIdle C18_FirstTick C18_KA_NotEarly C18_KA_NotLate C18_CloseOnce K18_Conforms
