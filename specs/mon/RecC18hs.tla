------------------------------ MODULE RecC18hs ------------------------------
(* Judges the slow-handshake records of a REAL DTLS server (harness/drv/c18/handshake.go): the inactivity period of a      *)
(* connection starts when the connection exists, i.e. when the handshake is over - not when the peer first knocked.        *)
EXTENDS Integers, Sequences, TLC, Json, IOUtils
Recs == ndJsonDeserialize(IOEnv.VF_RECS)
VARIABLES i, ph
Init == i \in 1..Len(Recs) /\ ph = 0
Next == ph = 0 /\ ph' = 1 /\ UNCHANGED i
R == Recs[i]
\* "closed by the monitor only if no message was received from the peer for a full configured period": afterMs counts from an
\* instant BEFORE the connection existed (the server's key lookup, after the peer's slow step) - and the silent peer IS closed
C18_PeriodStartsWhenEstablished == (ph = 1 /\ R.established) => (R.closed /\ R.afterMs >= R.periodMs - 2)
=============================================================================
