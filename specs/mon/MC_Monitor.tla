----------------------------- MODULE MC_Monitor -----------------------------
(* The monitor as a state machine over event histories: design-level checks and generator of the histories   *)
(* replayed on the real Monitor / KeepAlive objects and on real connections.                                  *)
EXTENDS Monitor, Json
CONSTANTS P, KeepAlive, MaxRetries, Horizon, Walks, MaxEvents
VARIABLES m, now, hist, w, lastRecv, unanswered
Init == m = M0(0) /\ now = 0 /\ hist = <<>> /\ lastRecv = 0 /\ unanswered = 0 /\ w \in (IF Walks = 0 THEN {0} ELSE 1..Walks)
\* "a message arrives": whatever it is - g is the kind the driver injects (0 NON request, 1 CON request, 2 ping = empty CON,
\* 3 empty ACK nobody waits for, 4 RST nobody waits for, 5 response nobody waits for); the model does not distinguish them
Evs == {[e |-> "recv", g |-> k] : k \in 0..5} \cup {[e |-> "tick", g |-> 0]} \cup {[e |-> "pong", g |-> g] : g \in 1..(MaxRetries + 3)}
Guard(ev, d) == now + d <= Horizon /\ ~m.closed /\ (ev.e = "pong" => ev.g \in 1..m.gen)
Pairs == {p \in Evs \X {0, 1, 2, 3, 5} : Guard(p[1], p[2])}
Apply(ev, d) ==
  LET t == now + d
      e == [e |-> ev.e, g |-> ev.g, t |-> t]
      m2 == Step(m, e, P, KeepAlive, MaxRetries, TRUE, TRUE) IN
  /\ Guard(ev, d)
  /\ m' = m2 /\ now' = t /\ hist' = Append(hist, e)
  /\ lastRecv' = IF ev.e \in {"recv", "pong"} THEN t ELSE lastRecv
  /\ unanswered' = IF ev.e = "recv" \/ (ev.e = "pong" /\ ev.g = m.gen /\ ev.g = m.pending) THEN 0
                   ELSE IF m2.pings > m.pings \/ (m2.closed /\ ~m.closed) THEN unanswered + 1 ELSE unanswered
Next == /\ (Walks = 0 \/ Len(hist) < MaxEvents)
        /\ IF Walks = 0 THEN \E ev \in Evs, d \in {0, 1, 2, 5} : Apply(ev, d)
           ELSE Pairs # {} /\ \E p \in {RandomElement(Pairs)} : Apply(p[1], p[2])
        /\ w' = w
View == <<m, now, lastRecv, unanswered, w>>
\* design: the statement's reading of the monitor
Inv_OnlyIfIdle == m.closed => now > lastRecv + P
Inv_OnlyAfterN == (KeepAlive /\ m.closed) => unanswered > MaxRetries
Emit == (Walks > 0 /\ (Len(hist) >= MaxEvents \/ Pairs = {})) => PrintT(<<"HIST", ToJson(hist)>>)
=============================================================================
