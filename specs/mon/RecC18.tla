------------------------------- MODULE RecC18 -------------------------------
(* Judges what the REAL inactivity.Monitor / KeepAlive (bare objects and a real udp/client.Conn) did on  *)
(* each event history (harness/drv/c18), against Monitor.tla.                                              *)
EXTENDS Monitor, Json, IOUtils
Traces == ndJsonDeserialize(IOEnv.VF_RECS)
VARIABLES i, ph
Init == i \in 1..Len(Traces) /\ ph = 0
Next == ph = 0 /\ ph' = 1 /\ UNCHANGED i
J == ph = 1
T == Traces[i]
N == Len(T.events)
\* the statement's reading: any received message resets the count (late pongs are just messages)
Stmt == Run(M0(0), T.events, 1, T.p, T.keepAlive, T.maxRetries, TRUE, TRUE)
\* the same, but "a late answer to an earlier ping is not credited to a later one": it refreshes the idle timer only
Mid == Run(M0(0), T.events, 1, T.p, T.keepAlive, T.maxRetries, TRUE, FALSE)
\* the code's reading: only the matching pong resets the count
Code == Run(M0(0), T.events, 1, T.p, T.keepAlive, T.maxRetries, FALSE, FALSE)
Closed(k) == T.obs[k].closed
FirstClosed == IF \E k \in 1..N : Closed(k) THEN CHOOSE k \in 1..N : Closed(k) /\ \A j \in 1..(k - 1) : ~Closed(j) ELSE 0
LastRecvBefore(k) == LET S == {j \in 1..k : T.events[j].e \in {"recv", "pong"}} IN
                     IF S = {} THEN 0 ELSE T.events[CHOOSE j \in S : \A x \in S : x <= j].t

\* "closed by the monitor only if no message was received from the peer for a full configured period"
C18_OnlyIfIdle == (J /\ FirstClosed # 0) => (T.events[FirstClosed].e = "tick" /\ T.events[FirstClosed].t > LastRecvBefore(FirstClosed) + T.p)
\* "and it is closed at the first housekeeping tick after such a period" (inactivity monitor without keep-alive)
C18_FirstTick  == (J /\ ~T.keepAlive) => \A k \in 1..N :
                     (T.events[k].e = "tick" /\ T.events[k].t > LastRecvBefore(k) + T.p) => Closed(k)
\* "closed only after more than the configured number of consecutive pings went unanswered; any answered ping or
\*  other received message resets the count": not earlier than the statement's reading allows
C18_KA_NotEarly == (J /\ T.keepAlive /\ FirstClosed # 0) => Stmt[FirstClosed].closed
\* "a late answer to an earlier ping is not credited to a later one": not later than any reading allows that
\* resets on traffic and on the matching pong but never on a late pong
C18_KA_NotLate  == (J /\ T.keepAlive) => \A k \in 1..N : Mid[k].closed => Closed(k)
C18_CloseOnce   == J => T.closes <= 1
\* conformance only: exactly the code-shaped model (closing and number of pings after every event)
K18_Conforms    == J => \A k \in 1..N : (Closed(k) = Code[k].closed /\ (~Closed(k) => T.obs[k].pings = Code[k].pings))
=============================================================================
