------------------------------ MODULE Monitor ------------------------------
(***************************************************************************)
(* net/monitor/inactivity (C18): Monitor.Notify / CheckInactivity and      *)
(* KeepAlive.OnInactive.  Time is an integer; the period is P.             *)
(*   recv     a message arrives                     Notify: last = now     *)
(*   pong(g)  the answer to ping generation g       Notify, then the ping's*)
(*            callback if that ping is still pending (a newer ping cancels *)
(*            the older one): fails = 0 iff g is the current generation    *)
(*   tick     housekeeping: if now > last + P -> OnInactive:               *)
(*              plain monitor: close                                        *)
(*              keep-alive:    fails++, cancel the pending ping,            *)
(*                             (tick with g = 1: the new ping cannot be    *)
(*                              written - counted, nothing on the wire)    *)
(*                             fails > MaxRetries -> close, else new ping   *)
(* ResetOnTraffic selects what a non-pong message does to the fail count:   *)
(* TRUE = the statement of C18 ("any answered ping or other received        *)
(* message resets the count"), FALSE = the code (only the matching pong).   *)
(* LateIsTraffic: whether a late answer to a superseded ping counts as such  *)
(* a message (most permissive reading) or is "not credited to a later ping". *)
(***************************************************************************)
EXTENDS Integers, Sequences, FiniteSets, TLC

M0(t0) == [last |-> t0, fails |-> 0, gen |-> 0, pending |-> 0, pings |-> 0, closed |-> FALSE]

Step(m, ev, P, keepAlive, maxRetries, resetOnTraffic, lateIsTraffic) ==
  IF m.closed THEN m
  ELSE CASE ev.e = "recv" -> [m EXCEPT !.last = ev.t, !.fails = IF resetOnTraffic THEN 0 ELSE m.fails]
         [] ev.e = "pong" -> IF ev.g = m.pending /\ ev.g # 0      \* still pending (not superseded): callback runs
                             THEN [m EXCEPT !.last = ev.t, !.pending = 0, !.fails = IF ev.g = m.gen THEN 0 ELSE m.fails]
                             ELSE [m EXCEPT !.last = ev.t, !.fails = IF resetOnTraffic /\ lateIsTraffic THEN 0 ELSE m.fails]  \* late answer
         [] ev.e = "tick" -> IF ev.t > m.last + P
                             THEN IF ~keepAlive THEN [m EXCEPT !.closed = TRUE]
                                  ELSE IF m.fails + 1 > maxRetries THEN [m EXCEPT !.fails = m.fails + 1, !.pending = 0, !.closed = TRUE]
                                  \* (a tick with g = 1: the ping cannot be written - a transient error of the socket; the expired
                                  \*  period is counted, nothing is on the wire and nothing is pending)
                                  ELSE IF ev.g = 1 THEN [m EXCEPT !.fails = m.fails + 1, !.pending = 0]
                                  ELSE [m EXCEPT !.fails = m.fails + 1, !.gen = m.gen + 1, !.pending = m.gen + 1, !.pings = m.pings + 1]
                             ELSE m
RECURSIVE Run(_, _, _, _, _, _, _, _)
\* the sequence of monitor states after each event
Run(m, evs, k, P, ka, mr, rot, lit) == IF k > Len(evs) THEN <<>>
                                  ELSE LET m2 == Step(m, evs[k], P, ka, mr, rot, lit) IN <<m2>> \o Run(m2, evs, k + 1, P, ka, mr, rot, lit)
=============================================================================
