INIT Init
NEXT Next
VIEW View
CONSTANTS
  P = 4
  KeepAlive = TRUE
  MaxRetries = 1
  Horizon = 24
  Walks = 0
  MaxEvents = 0
INVARIANTS Inv_OnlyIfIdle Inv_OnlyAfterN
