INIT Init
NEXT Next
INVARIANTS C18_PeriodStartsWhenEstablished
