------------------------------ MODULE MC_Reader ------------------------------
EXTENDS Reader, Json, SequencesExt
CONSTANTS Walks, MaxEvents
VARIABLES s, w, hist
Init == s = S0 /\ hist = <<>> /\ w \in (IF Walks = 0 THEN {0} ELSE 1..Walks)
Fine == /\ \E t \in EnvSucc(s) \cup IntSucc(s) : s' = t
        /\ UNCHANGED <<w, hist>>
\* generator: external replace only when no loop is parked at the gate (see DESIGN C11); prefer progress
GenActs == {a \in EnvActs : /\ EnvApply(s, a) # {}
                            /\ (a.a = "replace" => /\ Gated(s) = {} /\ ~s.closed
                                                    /\ (a.m # 0 => a.m \in BusyMsgs(s))       \* from inside a running handler
                                                    /\ (a.m = 0 => BusyMsgs(s) = {}))          \* or from outside when none runs
                            /\ (a.a = "close" => Len(hist) > MaxEvents - 3)}
Coarse == /\ Len(hist) < MaxEvents /\ GenActs # {}
          /\ \E a \in {RandomElement(GenActs)} :
               LET Q == UNION {Quiesce(u) : u \in EnvApply(s, a)} IN
               \E t \in {RandomElement(Q)} :
                 s' = t /\ hist' = Append(hist, [act |-> a, alts |-> {Proj(x) : x \in Q}])
          /\ w' = w
Next == IF Walks = 0 THEN Fine ELSE Coarse
View == <<s, w>>
Inv_AtMostOnce == D11_AtMostOnce(s)
Inv_InOrder    == D11_InOrder(s)
Inv_NoDrop     == D11_NoDrop(s)
Inv_NoStall    == D11_NoStall(s)
\* directed histories (overlapping, non-LIFO handlers that call back): predicted observable alternatives per step
A(x, m) == [a |-> x, m |-> m]
RECURSIVE Predict(_, _, _)
Predict(acts, k, SS) == IF k > Len(acts) THEN <<>>
                        ELSE LET Q == UNION {UNION {Quiesce(u) : u \in EnvApply(st, acts[k])} : st \in SS} IN
                             <<[act |-> acts[k], alts |-> {Proj(x) : x \in Q}]>> \o Predict(acts, k + 1, Q)
DirectedActs == {
  \* handler 1 calls back and keeps running; handler 2 starts on the replacement loop; 1 returns; 2 calls back; a message arrives
  <<A("push", 0), A("start", 1), A("replace", 1), A("push", 0), A("start", 2), A("ret", 1), A("replace", 2), A("push", 0), A("start", 3), A("ret", 3), A("ret", 2)>>,
  \* the same with the message already queued when handler 2 calls back
  <<A("push", 0), A("start", 1), A("replace", 1), A("push", 0), A("start", 2), A("ret", 1), A("push", 0), A("replace", 2), A("start", 3), A("ret", 3), A("ret", 2)>>,
  \* strictly nested (LIFO) depth 3
  <<A("push", 0), A("start", 1), A("replace", 1), A("push", 0), A("start", 2), A("replace", 2), A("push", 0), A("start", 3), A("replace", 3), A("push", 0), A("start", 4), A("ret", 4), A("ret", 3), A("ret", 2), A("ret", 1)>>,
  \* three overlapping handlers returning in arrival order, the last one calls back
  <<A("push", 0), A("start", 1), A("replace", 1), A("push", 0), A("start", 2), A("replace", 2), A("push", 0), A("start", 3), A("ret", 1), A("ret", 2), A("replace", 3), A("push", 0), A("start", 4), A("ret", 4), A("ret", 3)>>,
  \* a handler calls back twice
  <<A("push", 0), A("start", 1), A("replace", 1), A("push", 0), A("start", 2), A("ret", 2), A("replace", 1), A("push", 0), A("start", 3), A("ret", 3), A("ret", 1)>>,
  \* the older handler returns while the younger one is parked at the gate, then the younger calls back
  <<A("push", 0), A("start", 1), A("replace", 1), A("push", 0), A("ret", 1), A("start", 2), A("replace", 2), A("push", 0), A("start", 3), A("ret", 3), A("ret", 2)>>}
Directed == {Predict(q, 1, {S0}) : q \in DirectedActs}
ASSUME Walks = 0 \/ JsonSerialize("directed.json", SetToSeq(Directed))
Emit == (Walks > 0 /\ (Len(hist) = MaxEvents \/ GenActs = {})) => PrintT(<<"HIST", ToJson(hist)>>)
=============================================================================
