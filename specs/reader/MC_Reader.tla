------------------------------ MODULE MC_Reader ------------------------------
EXTENDS Reader, Json
CONSTANTS Walks, MaxEvents
VARIABLES s, w, hist
Init == s = S0 /\ hist = <<>> /\ w \in (IF Walks = 0 THEN {0} ELSE 1..Walks)
Fine == /\ \E t \in EnvSucc(s) \cup IntSucc(s) : s' = t
        /\ UNCHANGED <<w, hist>>
\* generator: external replace only when no loop is parked at the gate (see DESIGN C11); prefer progress
GenActs == {a \in EnvActs : /\ EnvApply(s, a) # {}
                            /\ (a.a = "replace" => /\ Gated(s) = {} /\ ~s.closed
                                                    /\ (a.m # 0 => a.m \in BusyMsgs(s))       \* from inside a running handler
                                                    /\ (a.m = 0 => BusyMsgs(s) = {}))          \* or from outside when none runs
                            /\ (a.a = "close" => Len(hist) > MaxEvents - 3)}
Coarse == /\ Len(hist) < MaxEvents /\ GenActs # {}
          /\ \E a \in {RandomElement(GenActs)} :
               LET Q == UNION {Quiesce(u) : u \in EnvApply(s, a)} IN
               \E t \in {RandomElement(Q)} :
                 s' = t /\ hist' = Append(hist, [act |-> a, alts |-> {Proj(x) : x \in Q}])
          /\ w' = w
Next == IF Walks = 0 THEN Fine ELSE Coarse
View == <<s, w>>
Inv_AtMostOnce == D11_AtMostOnce(s)
Inv_InOrder    == D11_InOrder(s)
Inv_NoDrop     == D11_NoDrop(s)
Inv_NoStall    == D11_NoStall(s)
Emit == (Walks > 0 /\ (Len(hist) = MaxEvents \/ GenActs = {})) => PrintT(<<"HIST", ToJson(hist)>>)
=============================================================================
