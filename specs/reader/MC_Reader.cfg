INIT Init
NEXT Next
VIEW View
CONSTANTS
  NMsgs = 4
  QCap = 2
  MaxLoops = 4
  ExitWhenReplaced = TRUE
  Walks = 0
  MaxEvents = 0
INVARIANTS Inv_AtMostOnce Inv_InOrder Inv_NoDrop Inv_NoStall
