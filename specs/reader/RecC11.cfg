INIT Init
NEXT Next
CONSTANTS
  NMsgs = 8
  QCap = 2
  MaxLoops = 8
  ExitWhenReplaced = TRUE
INVARIANTS C11_NoStallReader C11_AtMostOnce C11_InOrder C11_ExactlyOnce C11_ClosedAtMostOnce K11_Conforms C11_NoStall C11_NestedOnce
