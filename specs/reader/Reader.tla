------------------------------- MODULE Reader -------------------------------
(***************************************************************************)
(* net/client.ReceivedMessageReader (C11), line by line:                   *)
(*                                                                         *)
(*  loop(loopDone, reading):  for { select {                               *)
(*     case <-loopDone:        return                    SelDone           *)
(*     case req := <-queue:    reading.Store(false)      SelQueue          *)
(*                             [verif hook "dequeued" = the gate]           *)
(*                             ProcessReceivedMessage    Start .. Ret       *)
(*                             mutex{ reading.Store(true) }   Relock        *)
(*     case <-cc.Done():       return                    SelClosed         *)
(*  }}                                                                     *)
(*  TryToReplaceLoop: mutex{ if reading(cur) return; close(loopDone(cur));  *)
(*                           start a new loop, cur = new }     Replace      *)
(*                                                                         *)
(* Go's select picks at random among ready cases, so SelQueue, SelDone and  *)
(* SelClosed are separately enabled.  State = one record (same definitions  *)
(* for exhaustive search, behaviour generation and trace validation).       *)
(***************************************************************************)
EXTENDS Integers, Sequences, FiniteSets, TLC

CONSTANTS NMsgs, QCap, MaxLoops,
          ExitWhenReplaced     \* the loop leaves after Relock when its loopDone was closed (the repaired code)

Loops == 1..MaxLoops
S0 == [queue |-> <<>>, pushed |-> 0,
       pc  |-> [l \in Loops |-> IF l = 1 THEN "select" ELSE "none"],
       msg |-> [l \in Loops |-> 0],
       dn  |-> [l \in Loops |-> FALSE],     \* loopDone closed
       rd  |-> [l \in Loops |-> l = 1],      \* readingMessages of that loop
       nl  |-> 1, cur |-> 1, closed |-> FALSE,
       started |-> <<>>, fin |-> {},
       rep |-> <<>>]                          \* ghost: for every Replace that took effect, the pc of the replaced loop

(* ------------------------------ environment ------------------------------ *)
Push(s)      == IF ~s.closed /\ s.pushed < NMsgs /\ Len(s.queue) < QCap
                THEN {[s EXCEPT !.queue = Append(s.queue, s.pushed + 1), !.pushed = s.pushed + 1]} ELSE {}
Start(s, l)  == IF s.pc[l] = "deq" THEN {[s EXCEPT !.pc[l] = "busy", !.started = Append(s.started, s.msg[l])]} ELSE {}
Ret(s, l)    == IF s.pc[l] = "busy" THEN {[s EXCEPT !.pc[l] = "relock", !.fin = s.fin \cup {s.msg[l]}]} ELSE {}
Replace(s)   == IF s.closed \/ s.rd[s.cur] \/ s.nl = MaxLoops THEN {s}        \* reading (or out of model loops): no effect
                ELSE {[s EXCEPT !.dn[s.cur] = TRUE, !.nl = s.nl + 1, !.cur = s.nl + 1,
                                !.pc[s.nl + 1] = "select", !.rd[s.nl + 1] = TRUE, !.rep = Append(s.rep, s.pc[s.cur])]}
Close(s)     == IF s.closed THEN {} ELSE {[s EXCEPT !.closed = TRUE]}

(* -------------------------------- internal ------------------------------- *)
SelQueue(s, l)  == IF s.pc[l] = "select" /\ s.queue # <<>>
                   THEN {[s EXCEPT !.pc[l] = "deq", !.msg[l] = Head(s.queue), !.queue = Tail(s.queue), !.rd[l] = FALSE]} ELSE {}
SelDone(s, l)   == IF s.pc[l] = "select" /\ s.dn[l] THEN {[s EXCEPT !.pc[l] = "exited"]} ELSE {}
SelClosed(s, l) == IF s.pc[l] = "select" /\ s.closed THEN {[s EXCEPT !.pc[l] = "exited"]} ELSE {}
Relock(s, l)    == IF s.pc[l] = "relock"
                   THEN {[s EXCEPT !.rd[l] = TRUE, !.pc[l] = IF ExitWhenReplaced /\ s.dn[l] THEN "exited" ELSE "select"]} ELSE {}
IntSucc(s) == UNION {SelQueue(s, l) \cup SelDone(s, l) \cup SelClosed(s, l) \cup Relock(s, l) : l \in Loops}

\* actions are keyed by the message a loop holds (that is what a driver sees at the gate / in a handler)
LoopOf(s, m, pc) == {l \in Loops : s.msg[l] = m /\ s.pc[l] = pc}
EnvApply(s, a) == CASE a.a = "push"    -> Push(s)
                    [] a.a = "start"   -> UNION {Start(s, l) : l \in LoopOf(s, a.m, "deq")}
                    [] a.a = "ret"     -> UNION {Ret(s, l) : l \in LoopOf(s, a.m, "busy")}
                    [] a.a = "replace" -> Replace(s)       \* m = the handler it is called from (0: an outside goroutine)
                    [] a.a = "close"   -> Close(s)
EnvActs == {[a |-> "push", m |-> 0], [a |-> "close", m |-> 0]}
           \cup {[a |-> "replace", m |-> m] : m \in 0..NMsgs}
           \cup {[a |-> x, m |-> m] : x \in {"start", "ret"}, m \in 1..NMsgs}
EnvSucc(s) == UNION {EnvApply(s, a) : a \in EnvActs}
RECURSIVE Quiesce(_)
Quiesce(s) == IF IntSucc(s) = {} THEN {s} ELSE UNION {Quiesce(t) : t \in IntSucc(s)}

(* ------------------------- what a driver can observe ---------------------- *)
Gated(s) == {l \in Loops : s.pc[l] = "deq"}
Busy(s)  == {l \in Loops : s.pc[l] = "busy"}
BusyMsgs(s) == {s.msg[l] : l \in Busy(s)}
Proj(s) == [qlen |-> Len(s.queue), gated |-> {s.msg[l] : l \in Gated(s)}, busy |-> BusyMsgs(s),
            started |-> s.started, fin |-> s.fin]

(* ---------------------------------- C11 ---------------------------------- *)
Seen(q, x) == \E k \in 1..Len(q) : q[k] = x
D11_AtMostOnce(s) == \A a, b \in 1..Len(s.started) : a # b => s.started[a] # s.started[b]
\* replacement happened only while the replaced loop was inside a handler (nested requests): arrival order
OnlyNested(s) == \A k \in 1..Len(s.rep) : s.rep[k] = "busy"
D11_InOrder(s) == OnlyNested(s) => \A k \in 1..Len(s.started) : s.started[k] = k
\* nothing is lost while open: once the library is quiescent and nobody is parked or blocked, everything pushed was started
D11_NoDrop(s) == (~s.closed /\ IntSucc(s) = {} /\ Gated(s) = {} /\ Busy(s) = {}) => (s.queue = <<>> /\ Len(s.started) = s.pushed)
\* a blocked handler whose loop was replaced does not stall later messages: some loop is (or will be) reading
D11_NoStall(s) == (~s.closed /\ s.queue # <<>> /\ IntSucc(s) = {}) => (Gated(s) # {} \/ s.rd[s.cur] = FALSE)
\* at most one loop is between "dequeued" and the end of Relock... (design clause of the repaired code)
SingleReader(s) == Cardinality({l \in Loops : s.pc[l] = "select"}) <= (IF ExitWhenReplaced THEN 2 ELSE MaxLoops)
=============================================================================
