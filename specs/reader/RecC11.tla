------------------------------- MODULE RecC11 -------------------------------
(* Judges traces recorded from the REAL ReceivedMessageReader (op "reader") and from real udp/tcp     *)
(* connections whose handlers issue nested blocking requests (op "nested") - harness/drv/c11.         *)
(* One behaviour per trace: the set S of model states (Reader.tla, repaired design) compatible with    *)
(* what was observed so far is advanced event by event (conformance); the clauses of C11 are stated    *)
(* on the recorded observations alone.                                                                  *)
EXTENDS Reader, Json, IOUtils
Traces == ndJsonDeserialize(IOEnv.VF_RECS)
VARIABLES i, l, S, drift
vars == <<i, l, S, drift>>
T == Traces[i]
IsReader == T.op = "reader"
E == T.ev[l]
SetOf(q) == {q[k] : k \in 1..Len(q)}
NoDup(q) == \A a, b \in 1..Len(q) : a # b => q[a] # q[b]
ProjRec(st) == [qlen |-> st.qlen, gated |-> SetOf(st.gated), busy |-> SetOf(st.busy), started |-> st.started, fin |-> SetOf(st.fin)]

Init == i \in 1..Len(Traces) /\ l = 0 /\ S = {S0} /\ drift = FALSE
Step(ev) == IF ~ev.applied THEN S
            ELSE {t \in UNION {UNION {Quiesce(u) : u \in EnvApply(s, ev.act)} : s \in S} : Proj(t) = ProjRec(ev.st)}
Next == /\ IsReader /\ l < Len(T.ev)
        /\ l' = l + 1 /\ i' = i
        /\ LET NX == Step(T.ev[l + 1]) IN
           IF drift \/ NX = {} THEN S' = S /\ drift' = TRUE ELSE S' = NX /\ drift' = FALSE

\* ------------------------------- reader clauses ---------------------------------
R == IsReader /\ l > 0
\* "never processed twice"
C11_AtMostOnce == R => NoDup(E.st.started)
\* "as long as handlers return without blocking [nested requests apart], in arrival order": in runs in which the
\* loop was only ever replaced from inside a running handler or while nothing was in flight
Nested == \A k \in 1..Len(T.ev) : (T.ev[k].act.a = "replace" /\ T.ev[k].applied) => ~T.ev[k].gatedAtReplace
C11_InOrder == (R /\ Nested) => \A k \in 1..Len(E.st.started) : E.st.started[k] = k
\* "never dropped while the connection is open": after the drain everything pushed was started and finished once
AtEnd == IsReader /\ l = Len(T.ev)
C11_ExactlyOnce == (AtEnd /\ ~T.closed) => (T.drained /\ NoDup(T.final.started) /\ SetOf(T.final.started) = 1..T.pushed
                                             /\ SetOf(T.final.fin) = 1..T.pushed /\ T.final.qlen = 0)
C11_ClosedAtMostOnce == (AtEnd /\ T.closed) => (NoDup(T.final.started) /\ SetOf(T.final.started) \subseteq 1..T.pushed)
\* "a handler may itself issue blocking requests ... without stalling": TryToReplaceLoop leaves a loop that is reading, so
\* as long as nothing new has been dequeued since an (applied) replace, the queue cannot hold a message at quiescence
Dq(n) == IF n = 0 THEN {} ELSE SetOf(T.ev[n].st.started) \cup SetOf(T.ev[n].st.gated)
ClosedBy(n) == \E j \in 1..n : T.ev[j].act.a = "close" /\ T.ev[j].applied
C11_NoStallReader == (R /\ ~ClosedBy(l)) =>
                       \A k \in 1..l : (T.ev[k].act.a = "replace" /\ T.ev[k].applied /\ Dq(l) = Dq(k - 1)) => E.st.qlen = 0
\* conformance only
K11_Conforms == ~drift

\* ------------------------------- nested requests on real connections ---------------
Nst == T.op = "nested" /\ l = 0
\* "a handler may itself issue blocking requests on the same connection, to any nesting depth, without stalling"
C11_NoStall      == Nst => (T.completed /\ ~T.watchdog)
\* every injected message was dispatched exactly once
C11_NestedOnce   == Nst => \A k \in 1..Len(T.dispatch) : T.dispatch[k].n = 1
=============================================================================
