INIT Init
NEXT Next
CONSTANTS
  NMsgs = 5
  QCap = 2
  MaxLoops = 6
  ExitWhenReplaced = FALSE
  Walks = 150
  MaxEvents = 18
INVARIANTS Emit
