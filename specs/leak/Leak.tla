-------------------------------- MODULE Leak --------------------------------
(***************************************************************************)
(* What a connection may still hold after its exchanges have ended (C13).  *)
(* Every completed exchange - whatever its kind and outcome - must leave   *)
(* the per-exchange tables (token and message-ID continuations, per-ID     *)
(* locks, block-wise send/reassembly buffers of exchanges that finished,   *)
(* limiter queues) empty.  Only these remain, each with a deadline:        *)
(*   obs      live observations (until cancelled)                          *)
(*   rcache   cached replies to the peer's requests (exchange lifetime)    *)
(*   bwRecv   reassembly state of a transfer the peer abandoned            *)
(*   bwSend   a response body the peer fetched only partly  (both until    *)
(*            the block-wise transfer timeout)                              *)
(* An exchange is one atomic step here (the driver runs it to the end and   *)
(* waits for quiescence); ticks are the housekeeping sweep at chosen times. *)
(***************************************************************************)
EXTENDS Integers, Sequences, FiniteSets, TLC

CONSTANTS MaxObs

L0 == [obs |-> 0, rcache |-> 0, bwRecv |-> 0, bwSend |-> 0]
Kinds == {"plainOK", "plainSepCon", "plainBadToken", "plainCtxWrite", "plainCancel", "plainExpire", "plainRst", "plainBodyFail", "dupToken",
          "bwUpOK", "bwUpCancel", "bwUpRefused", "bwDownOK", "bwDownAbandon", "bwDownStall",
          "obsOK", "obsCancel", "obsCancelRefused", "obsCancelGiveUp", "obsFail", "obsSilentCancel", "obsAckedCancel", "obsNotifyEtag", "obsNoObs205", "obsNoObs203",
          "pingOK", "pingCancel", "pingAsyncOK", "pingForget", "pingForgetNoRoute", "pingWriteFail", "kaMissed", "oneWay",
          "srvReq", "srvReqDup", "srvReqNon", "srvReqNoResp", "srvReqHijack", "srvBwUpAbandon", "srvBwDownAbandon", "srvBwDownRetry", "srvBwDownBadCont",
          "tickEarly", "tickBw", "tickLate"}
Enabled(s, k) == CASE k = "obsOK" -> s.obs < MaxObs
                   [] k \in {"obsCancel", "obsCancelRefused", "obsCancelGiveUp", "obsNotifyEtag"} -> s.obs > 0
                   [] OTHER -> TRUE
Step(s, k) ==
  CASE k = "obsOK" -> [s EXCEPT !.obs = s.obs + 1]
    \* (the application has cancelled: the observation is forgotten whether the peer confirms the deregistration, refuses it
    \*  or never answers it)
    [] k \in {"obsCancel", "obsCancelRefused", "obsCancelGiveUp"} -> [s EXCEPT !.obs = s.obs - 1]
    [] k = "bwDownAbandon" -> [s EXCEPT !.bwRecv = s.bwRecv + 1]
    \* (a confirmable separate response is acknowledged, and the acknowledgement is remembered for its message ID)
    [] k \in {"srvReq", "srvReqDup", "srvReqNon", "srvReqNoResp", "srvReqHijack", "plainSepCon"} -> [s EXCEPT !.rcache = s.rcache + 1]
    [] k = "srvBwUpAbandon" -> [s EXCEPT !.bwRecv = s.bwRecv + 1, !.rcache = s.rcache + 1]
    [] k = "srvBwDownAbandon" -> [s EXCEPT !.bwSend = s.bwSend + 1, !.rcache = s.rcache + 1]
    \* (the same request twice with one token, the transfer abandoned: one held response, two remembered replies)
    \* (a continuation that cannot be served ends the transfer by error: the held response is dropped at once; two replies remembered)
    [] k = "srvBwDownBadCont" -> [s EXCEPT !.rcache = s.rcache + 2]
    [] k = "srvBwDownRetry" -> [s EXCEPT !.bwSend = s.bwSend + 1, !.rcache = s.rcache + 2]
    \* (the driver lets a request run out of retransmissions by sweeping up to 9 s ahead, past the transfer timeout)
    [] k \in {"tickBw", "plainExpire"} -> [s EXCEPT !.bwRecv = 0, !.bwSend = 0]
    [] k = "tickLate" -> [s EXCEPT !.bwRecv = 0, !.bwSend = 0, !.rcache = 0]
    [] OTHER -> s
=============================================================================
