INIT Init
NEXT Next
CONSTANTS
  MaxObs = 2
INVARIANTS C13_AllEnded C13_Tok C13_Mid C13_Locks C13_Lim C13_Queue C13_Bw C13_Obs C13_RCache K13_Conforms
