INIT Init
NEXT Next
CONSTANTS
  MaxObs = 2
  Walks = 60
  MaxEvents = 14
INVARIANTS Emit
