INIT Init
NEXT Next
VIEW View
CONSTANTS
  MaxObs = 2
  Walks = 0
  MaxEvents = 3
INVARIANTS Inv_Bounded
