------------------------------- MODULE RecC13 -------------------------------
(* Judges the table sizes recorded from a REAL udp/client.Conn after every exchange / tick (harness/drv/c13). *)
EXTENDS Leak, Json, IOUtils
Traces == ndJsonDeserialize(IOEnv.VF_RECS)
VARIABLES i, ph
Init == i \in 1..Len(Traces) /\ ph = 0
Next == ph = 0 /\ ph' = 1 /\ UNCHANGED i
J == ph = 1
T == Traces[i]
N == Len(T.ev)
RECURSIVE Model(_)
\* (a kind that does not exist on a stream connection is recorded as "skipped" there: nothing happened)
Model(n) == IF n = 0 THEN L0 ELSE IF T.ev[n].outcome = "skipped" THEN Model(n - 1) ELSE Step(Model(n - 1), T.ev[n].kind)
Tb(n) == T.ev[n].t
\* every exchange ran to its end: all calls involved returned (C09 territory, but nothing can be judged otherwise)
C13_AllEnded == J => \A n \in 1..N : T.ev[n].done
\* "no waiting token or message-ID continuations, ... no limiter queue entries, no per-ID locks"
C13_Tok   == J => \A n \in 1..N : Tb(n).tokens = 0
C13_Mid   == J => \A n \in 1..N : Tb(n).mids = 0
C13_Locks == J => \A n \in 1..N : Tb(n).midLocks = 0
C13_Lim   == J => \A n \in 1..N : Tb(n).limq = 0
C13_Queue == J => \A n \in 1..N : Tb(n).queue = 0
\* "no block-wise reassembly or send buffers" beyond those of transfers the peer abandoned, and none after the transfer timeout
C13_Bw    == J => \A n \in 1..N : (Tb(n).bwRecv <= Model(n).bwRecv /\ Tb(n).bwSend <= Model(n).bwSend)
\* "no observation entries other than observations that are still live"
C13_Obs   == J => \A n \in 1..N : Tb(n).obs = Model(n).obs
\* "cached replies disappear after the exchange lifetime"
C13_RCache == J => \A n \in 1..N : Tb(n).rcache <= Model(n).rcache
\* conformance only: exactly what the specification predicts is held
K13_Conforms == (J /\ T.transport = "udp") => \A n \in 1..N : (Tb(n).bwRecv = Model(n).bwRecv /\ Tb(n).bwSend = Model(n).bwSend /\ Tb(n).rcache = Model(n).rcache)
=============================================================================
