------------------------------- MODULE MC_Leak -------------------------------
EXTENDS Leak, Json
CONSTANTS Walks, MaxEvents
VARIABLES s, hist, w
Init == s = L0 /\ hist = <<>> /\ w \in (IF Walks = 0 THEN {0} ELSE 1..Walks)
Next == /\ Len(hist) < MaxEvents
        /\ IF Walks = 0 THEN \E k \in Kinds : Enabled(s, k) /\ s' = Step(s, k) /\ hist' = Append(hist, k)
           ELSE \E k \in {RandomElement({x \in Kinds : Enabled(s, x)})} : s' = Step(s, k) /\ hist' = Append(hist, k)
        /\ w' = w
\* bounded by live work: what is held never exceeds what is live or within its deadline
Inv_Bounded == s.obs <= MaxObs /\ s.obs >= 0
EmitAll == (Walks = 0 /\ Len(hist) >= 1) => PrintT(<<"HIST", ToJson(hist)>>)
Emit == (Walks > 0 /\ Len(hist) = MaxEvents) => PrintT(<<"HIST", ToJson(hist)>>)
=============================================================================
