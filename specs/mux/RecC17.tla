------------------------------- MODULE RecC17 -------------------------------
(* Judges what the REAL mux.Router did (harness/drv/c17) against the Router model.                *)
(* "dispatch" records: one sequential ServeCOAP on a fresh router.  "conc" records: a call/return   *)
(* stamped history of concurrent Handle / HandleRemove / DefaultHandle / ServeCOAP on one router.   *)
EXTENDS RouterCat, Json, IOUtils
Recs == ndJsonDeserialize(IOEnv.VF_RECS)
VARIABLES i, ph
Init == i \in 1..Len(Recs) /\ ph = 0
Next == ph = 0 /\ ph' = 1 /\ UNCHANGED i
J == ph = 1
R == Recs[i]
D == J /\ R.op = "dispatch"
Routes == {Cat[R.routes[k]] : k \in 1..Len(R.routes)}
Chosen == Cat[R.called[1]]
Tk(p) == IF p = <<>> THEN <<[k |-> "lit", s |-> <<Slash>>]>> ELSE p

C17_NoCrash    == D => ~R.panic
\* "dispatch invokes exactly one handler"
C17_ExactlyOne == (D /\ ~R.panic) => Len(R.called) = 1
\* "a registered one whose pattern matches the entire path and for which no other matching pattern is
\*  longer, or the default handler exactly when nothing matches"
C17_Admissible == (D /\ ~R.panic /\ Len(R.called) = 1) =>
                     IF R.called[1] = 0 THEN DefaultExpected(Routes, R.segs)
                     ELSE R.called[1] \in {R.routes[k] : k \in 1..Len(R.routes)} /\ Chosen \in Admissible(Routes, R.segs)
\* "the route variables passed to the handler equal the corresponding substrings of the path"
C17_Vars == (D /\ ~R.panic /\ Len(R.called) = 1 /\ R.called[1] # 0) =>
               LET sp == Splits(Tk(Chosen), ReqPath(R.segs))
                   ns == VarNames(Chosen) IN
               (Cardinality(sp) = 1 /\ Cardinality({ns[k] : k \in 1..Len(ns)}) = Len(ns)) =>
                  LET only == CHOOSE x \in sp : TRUE IN
                  {<<R.vars[k].name, R.vars[k].val>> : k \in 1..Len(R.vars)} = {<<ns[k], only[k]>> : k \in 1..Len(ns)}
C17_Params == (D /\ ~R.panic /\ Len(R.called) = 1 /\ R.called[1] # 0) =>
               (R.path = ReqPath(R.segs) /\ R.template = Filter(Template(Chosen)))
\* "middlewares wrap the handler in registration order"
C17_MwOrder == (D /\ ~R.panic /\ Len(R.called) = 1) => R.events = <<"mw1", "mw2", "h">>

\* ---- concurrent histories -------------------------------------------------------------------------
C == J /\ R.op = "conc"
Ev == R.ev
Serves == {k \in 1..Len(Ev) : Ev[k].kind = "serve"}
Handles(x) == {k \in 1..Len(Ev) : Ev[k].kind = "handle" /\ Ev[k].idx = x /\ ~Ev[k].err}
Removes(x) == {k \in 1..Len(Ev) : Ev[k].kind = "remove" /\ Ev[k].idx = x /\ ~Ev[k].err}
\* x may have been registered at some instant of the dispatch e
MaybeReg(x, e) == \E h \in Handles(x) : /\ Ev[h].call < Ev[e].ret
                                        /\ ~\E r \in Removes(x) : Ev[r].call > Ev[h].ret /\ Ev[r].ret < Ev[e].call
\* x was certainly registered during the whole dispatch e
SurelyReg(x, e) == \E h \in Handles(x) : /\ Ev[h].ret < Ev[e].call
                                         /\ ~\E r \in Removes(x) : Ev[r].ret > Ev[h].call /\ Ev[r].call < Ev[e].ret
MatchesReq(x, e) == Matches(Tk(Cat[x]), ReqPath(Ev[e].segs))
C17_ConcOne   == C => \A e \in Serves : Ev[e].calls = 1
\* "never dispatches to a pattern that does not match" (and only to one that could be registered)
C17_ConcMatch == C => \A e \in Serves : Ev[e].idx >= 1 => (MatchesReq(Ev[e].idx, e) /\ MaybeReg(Ev[e].idx, e))
\* a pattern that certainly was registered and matches rules out the default and every shorter pattern
C17_ConcBest  == C => \A e \in Serves : \A x \in 1..Len(Cat) :
                        (SurelyReg(x, e) /\ MatchesReq(x, e)) =>
                           (Ev[e].idx >= 1 /\ PatLen(Cat[Ev[e].idx]) >= PatLen(Cat[x]))
=============================================================================
