------------------------------- MODULE Router -------------------------------
(***************************************************************************)
(* Reference model of mux.Router dispatch (C17).                           *)
(* A pattern is a sequence of tokens                                       *)
(*    [k |-> "lit", s |-> bytes]                                           *)
(*    [k |-> "var", name |-> bytes, cls |-> "seg" | "dig" | "low" | "any"] *)
(* ("seg" is the default {name}; the others are {name:[0-9]+},             *)
(*  {name:[a-z]+}, {name:.*}).  Paths and literals are byte strings; a      *)
(* literal is taken literally, whatever regular-expression metacharacters   *)
(* it contains.  A pattern matches a path iff the WHOLE path can be split   *)
(* into its tokens.                                                         *)
(***************************************************************************)
EXTENDS Integers, Sequences, FiniteSets, TLC

Sub(b, i, j) == IF j < i THEN <<>> ELSE SubSeq(b, i, j)
Slash == 47
InClass(cls, c) == CASE cls = "seg" -> c # Slash
                     [] cls = "dig" -> c \in 48..57
                     [] cls = "low" -> c \in 97..122
                     [] cls = "any" -> TRUE
MinLen(cls) == IF cls = "any" THEN 0 ELSE 1
AllIn(cls, s) == \A i \in 1..Len(s) : InClass(cls, s[i])
StartsWith(s, pre) == Len(s) >= Len(pre) /\ Sub(s, 1, Len(pre)) = pre

\* all ways to split path along the tokens: a set of sequences of variable values (one per var token)
RECURSIVE Splits(_, _)
Splits(toks, path) ==
  IF toks = <<>> THEN (IF path = <<>> THEN {<<>>} ELSE {})
  ELSE LET t == Head(toks) IN
       IF t.k = "lit"
       THEN (IF StartsWith(path, t.s) THEN Splits(Tail(toks), Sub(path, Len(t.s) + 1, Len(path))) ELSE {})
       ELSE UNION {{<<Sub(path, 1, n)>> \o rest : rest \in Splits(Tail(toks), Sub(path, n + 1, Len(path)))}
                   : n \in {m \in MinLen(t.cls)..Len(path) : AllIn(t.cls, Sub(path, 1, m))}}
Matches(toks, path) == Splits(toks, path) # {}
VarNames(toks) == LET vs == SelectSeq(toks, LAMBDA t : t.k = "var") IN [i \in 1..Len(vs) |-> vs[i].name]

\* the template string the application registers
ClsText(cls) == CASE cls = "seg" -> <<>>
                  [] cls = "dig" -> <<58, 91, 48, 45, 57, 93, 43>>      \* :[0-9]+
                  [] cls = "low" -> <<58, 91, 97, 45, 122, 93, 43>>     \* :[a-z]+
                  [] cls = "any" -> <<58, 46, 42>>                      \* :.*
RECURSIVE Template(_)
Template(toks) == IF toks = <<>> THEN <<>>
                  ELSE LET t == Head(toks) IN
                       (IF t.k = "lit" THEN t.s ELSE <<123>> \o t.name \o ClsText(t.cls) \o <<125>>) \o Template(Tail(toks))
\* an empty pattern or request path means "/"
Filter(p) == IF p = <<>> THEN <<Slash>> ELSE p
PatLen(toks) == Len(Filter(Template(toks)))

\* request path from the Uri-Path segments of the request
RECURSIVE JoinSegs(_)
JoinSegs(segs) == IF segs = <<>> THEN <<>> ELSE <<Slash>> \o Head(segs) \o JoinSegs(Tail(segs))
ReqPath(segs) == Filter(JoinSegs(segs))

\* dispatch: the set of admissible outcomes for a set of registered patterns and a request
Matching(routes, segs) == {p \in routes : Matches(IF p = <<>> THEN <<[k |-> "lit", s |-> <<Slash>>]>> ELSE p, ReqPath(segs))}
Admissible(routes, segs) == LET M == Matching(routes, segs) IN {p \in M : \A q \in M : PatLen(q) <= PatLen(p)}
DefaultExpected(routes, segs) == Matching(routes, segs) = {}
=============================================================================
