----------------------------- MODULE MC_Router -----------------------------
(* The pattern catalogue and request-path set of C17, sanity theorems of the matcher, and the   *)
(* generator output (catalogue with template strings, path set) that the Go driver consumes.    *)
EXTENDS RouterCat, Json, SequencesExt
\* generator output, written into the run directory
ASSUME JsonSerialize("catalogue.json", [i \in 1..Len(Cat) |-> [idx |-> i, template |-> Template(Cat[i]), names |-> VarNames(Cat[i])]])
ASSUME JsonSerialize("paths.json", SetToSeq(SegLists))

VARIABLES p, segs
Init == p \in 1..Len(Cat) /\ segs \in SegLists
Next == UNCHANGED <<p, segs>>
Toks == Cat[p]
IsLit == \A i \in 1..Len(Toks) : Toks[i].k = "lit"
\* a pattern without variables matches exactly its own text
T_LitOnly == (IsLit /\ Toks # <<>>) => (Matches(Toks, ReqPath(segs)) <=> Template(Toks) = ReqPath(segs))
\* every split re-assembles to the path
T_SplitsSound == \A sp \in Splits(Toks, ReqPath(segs)) : Len(sp) = Len(VarNames(Toks))
\* the catch-all matches everything, the default is expected only when nothing matches
T_CatchAll == Matches(Cat[10], ReqPath(segs))
T_Admissible == (Admissible({Cat[p]}, segs) = {}) <=> DefaultExpected({Cat[p]}, segs)
T_TemplatesDistinct == \A a, b \in 1..Len(Cat) : a # b => Template(Cat[a]) # Template(Cat[b])
=============================================================================
