INIT Init
NEXT Next
INVARIANTS C17_NoCrash C17_ExactlyOne C17_Admissible C17_Vars C17_Params C17_MwOrder C17_ConcOne C17_ConcMatch C17_ConcBest
