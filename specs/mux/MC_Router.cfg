INIT Init
NEXT Next
INVARIANTS T_LitOnly T_SplitsSound T_CatchAll T_Admissible T_TemplatesDistinct
