INIT Init
NEXT Next
INVARIANTS C16_ConnLimits C16_ConnIdleAtEnd C16_Total C16_PerPath C16_FIFO C16_NoStolenSlot C16_CancelledNeverRuns C16_IdleAtEnd K16_Conforms
