------------------------------- MODULE RecC16 -------------------------------
(* Judges traces recorded from the REAL LimitParallelRequests (harness/drv/c16). One initial state *)
(* per recorded event; the clauses of C16 speak about the observed state after the event, the      *)
(* state before it, and the gauges measured inside the wrapped do function.                        *)
EXTENDS Integers, Sequences, FiniteSets, TLC, Json, IOUtils
Traces == ndJsonDeserialize(IOEnv.VF_RECS)
VARIABLES i, l, ph
IsConn(k) == "op" \in DOMAIN Traces[k] /\ Traces[k].op = "conn"        \* a record of a real connection with configured limits
Init == i \in 1..Len(Traces) /\ l \in (IF IsConn(i) THEN {1} ELSE 1..Len(Traces[i].ev)) /\ ph = 0
Next == ph = 0 /\ ph' = 1 /\ UNCHANGED <<i, l>>
JJ == ph = 1
J == JJ /\ ~IsConn(i)
T == Traces[i]
E == T.ev[l]
N == Len(T.pathOf)
SetOf(q) == {q[k] : k \in 1..Len(q)}
InSeq(q, x) == \E k \in 1..Len(q) : q[k] = x
Pos(q, x) == CHOOSE k \in 1..Len(q) : q[k] = x
Prev == IF l = 1 THEN [inDo |-> <<>>, ret |-> [r \in 1..N |-> "none"], dos |-> <<>>] ELSE T.ev[l - 1].st
Arrivals == SelectSeq([k \in 1..l |-> T.ev[k].act], LAMBDA a : a.a = "arrive")
ArrOrder == [k \in 1..Len(Arrivals) |-> Arrivals[k].r]
Cancelled(r) == \E k \in 1..l : (T.ev[k].act.a = "cancel" /\ T.ev[k].act.r = r) \/ (T.ev[k].act.a = "fincan" /\ T.ev[k].act.c = r)
Last == l = Len(T.ev)

\* "at every instant the number of requests in flight is at most the total limit and, per path, the endpoint limit"
C16_Total   == J => (E.maxTotal <= T.l /\ Len(E.st.inDo) <= T.l)
C16_PerPath == J => (E.maxPerPath <= T.el
                     /\ \A p \in SetOf(T.pathOf) : Cardinality({r \in SetOf(E.st.inDo) : r <= N /\ T.pathOf[r] = p}) <= T.el)
\* "requests waiting for the same path are admitted in arrival order" (decidable from outside for endpoint limit 1)
C16_FIFO    == (J /\ T.el = 1) =>
                 \A a, b \in SetOf(E.st.dos) :
                    (a # b /\ T.pathOf[a] = T.pathOf[b] /\ ~Cancelled(a) /\ ~Cancelled(b))
                       => ((Pos(ArrOrder, a) < Pos(ArrOrder, b)) <=> (Pos(E.st.dos, a) < Pos(E.st.dos, b)))
\* "a cancelled waiter neither takes nor gives away a slot it does not own": cancelling a request that is waiting
\* (not inside do, not returned) lets nobody into do - not the waiter, not anyone else - and the waiter's call fails
Arrived(r) == \E k \in 1..l : T.ev[k].act.a = "arrive" /\ T.ev[k].act.r = r
DeadBeforeArrival(r) == \E k \in 1..(l - 1) : T.ev[k].act.a = "cancel" /\ T.ev[k].act.r = r /\ ~(\E j \in 1..k : T.ev[j].act.a = "arrive" /\ T.ev[j].act.r = r)
C16_NoStolenSlot == /\ (J /\ E.act.a = "cancel" /\ Arrived(E.act.r) /\ E.act.r \notin SetOf(Prev.inDo) /\ Prev.ret[E.act.r] = "none" /\ E.settled) =>
                         (E.st.dos = Prev.dos /\ E.st.ret[E.act.r] = "err")
                    \* a request that arrives with a context that is already done: its call fails, it never runs, and nobody else is let in
                    /\ (J /\ E.act.a = "arrive" /\ DeadBeforeArrival(E.act.r) /\ E.settled) =>
                         (E.st.dos = Prev.dos /\ E.st.ret[E.act.r] = "err")
                    \* (cancelling a context before the request is issued changes nothing)
                    /\ (J /\ E.act.a = "cancel" /\ ~Arrived(E.act.r) /\ E.settled) => (E.st.dos = Prev.dos /\ E.st.ret = Prev.ret)
C16_CancelledNeverRuns == J => \A r \in 1..N : (E.st.ret[r] = "err") => (T.ev[Len(T.ev)].st.ret[r] = "err")
\* "once all calls have returned the limiter is idle again so that a new request is admitted immediately"
C16_IdleAtEnd == (J /\ Last) => (T.allReturned /\ T.hung = <<>> /\ T.queueObjects = 0 /\ T.probeAdmitted
                                 /\ \A k \in 1..Len(T.finalQ) : T.finalQ[k].processed = 0 /\ T.finalQ[k].waiting = 0)
\* the limits as configured on a real udp / tcp client connection (option plumbing included): with the peer withholding its
\* answers, the requests on the wire never exceed the configured total / per-path limit (0 = unlimited), and all calls end
C16_ConnLimits == (JJ /\ IsConn(i)) => /\ (T.l > 0 => T.maxTotal <= T.l)
                                       /\ (T.el > 0 => T.maxPerPath <= T.el)
                                       /\ T.allReturned
\* ... and after a storm of cancellations (all waiters of a path give up at the same instant) the limiter is idle: no entry is
\* left in its table and fresh requests for the path are admitted at once
C16_ConnIdleAtEnd == (JJ /\ IsConn(i)) => T.idle
\* conformance only: the observed state is the one the specification predicts for this event
K16_Conforms  == J => (E.settled /\ \E k \in 1..Len(E.exps) : E.st = E.exps[k])
=============================================================================
