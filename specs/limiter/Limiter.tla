------------------------------ MODULE Limiter ------------------------------
(***************************************************************************)
(* net/client/limitParallelRequests (C16), one action per critical section *)
(* or blocking point of LimitParallelRequests.Do:                           *)
(*   Arrive      acquireEndpoint: the LoadOrStoreWithFunc critical section *)
(*               (admit: counter++ / close own channel, or enqueue)        *)
(*   WakeAdm     select arm  <-reqChan                                      *)
(*   WakeCan     select arm  <-ctx.Done()  (cancel path of acquireEndpoint) *)
(*   TrySem      limit.Acquire (fails at once on a cancelled context)       *)
(*   CanSem      a waiter of the semaphore gives up on ctx.Done()           *)
(*   RelSem      deferred limit.Release (wakes semaphore waiters in order)  *)
(*   RelEP       deferred releaseEndpoint (hand the slot to the head        *)
(*               waiter, else counter--, delete the queue at 0)             *)
(* and the environment: Cancel(r) (context cancelled), Finish(r) (the       *)
(* wrapped do function returns), FinCan(r, c) (both at the same instant).   *)
(* The state is one record so that the same definitions serve TLC's         *)
(* exhaustive search, behaviour generation and trace validation.            *)
(***************************************************************************)
EXTENDS Integers, Sequences, FiniteSets, TLC

CONSTANTS Reqs,          \* request ids 1..N (arrival is an environment action)
          PathOf,        \* PathOf[r] : the endpoint (path) of request r
          EL, L,         \* per-endpoint limit, total limit
          OwnWaiter      \* the cancel path removes the caller's OWN waiter (repaired code) instead of popping the head

Paths == {PathOf[r] : r \in Reqs}
Remove(q, x) == SelectSeq(q, LAMBDA y : y # x)
InSeq(q, x)  == \E i \in 1..Len(q) : q[i] = x

S0 == [ep  |-> [p \in Paths |-> [cnt |-> 0, q |-> <<>>]],     \* cnt = 0 means "no queue object"
       sem |-> L, semq |-> <<>>,
       pc  |-> [r \in Reqs |-> "idle"],
       adm |-> [r \in Reqs |-> FALSE],        \* own channel closed: an endpoint slot is owned
       can |-> [r \in Reqs |-> FALSE],        \* context cancelled
       ok  |-> [r \in Reqs |-> FALSE],        \* Do returned without error
       arr |-> <<>>,                          \* ghost: order of Arrive critical sections
       dos |-> <<>>]                          \* ghost: order in which requests entered the wrapped do function

\* releaseEndpoint(p) applied to state s
ReleaseEP(s, p) ==
  LET e == s.ep[p] IN
  IF e.cnt = 0 THEN s
  ELSE IF e.q # <<>> THEN [s EXCEPT !.ep[p].q = Tail(e.q), !.adm[Head(e.q)] = TRUE]
  ELSE [s EXCEPT !.ep[p].cnt = e.cnt - 1]
\* limit.Release(1): wake the head semaphore waiter if any
ReleaseSem(s) ==
  IF s.semq # <<>> THEN [s EXCEPT !.semq = Tail(s.semq), !.pc[Head(s.semq)] = "inDo", !.dos = Append(s.dos, Head(s.semq))]
  ELSE [s EXCEPT !.sem = s.sem + 1]

(* ------------------------------ environment ------------------------------ *)
Arrive(s, r) ==
  IF s.pc[r] # "idle" THEN {}
  ELSE LET p == PathOf[r]
           e == s.ep[p] IN
       {IF e.cnt < EL THEN [s EXCEPT !.ep[p].cnt = e.cnt + 1, !.adm[r] = TRUE, !.pc[r] = "waitEP", !.arr = Append(s.arr, r)]
        ELSE [s EXCEPT !.ep[p].q = Append(e.q, r), !.pc[r] = "waitEP", !.arr = Append(s.arr, r)]}
\* (also before the request arrives: a request may be issued with a context that is already done)
Cancel(s, r) == IF s.pc[r] = "done" \/ s.can[r] THEN {} ELSE {[s EXCEPT !.can[r] = TRUE]}
Finish(s, r) == IF s.pc[r] = "inDo" THEN {[s EXCEPT !.pc[r] = "relSem", !.ok[r] = TRUE]} ELSE {}
\* the wrapped do function of r returns at the very instant the context of c, which waits for the same endpoint, is
\* cancelled: the library's steps that follow see both at once (c's select finds its channel closed AND its context done)
FinCan(s, r, c) == IF r # c /\ s.pc[r] = "inDo" /\ s.pc[c] = "waitEP" /\ ~s.can[c] /\ PathOf[r] = PathOf[c]
                   THEN {[s EXCEPT !.pc[r] = "relSem", !.ok[r] = TRUE, !.can[c] = TRUE]} ELSE {}

(* -------------------------------- internal ------------------------------- *)
WakeAdm(s, r) == IF s.pc[r] = "waitEP" /\ s.adm[r] THEN {[s EXCEPT !.pc[r] = "haveEP"]} ELSE {}
WakeCan(s, r) ==
  IF s.pc[r] = "waitEP" /\ s.can[r]
  THEN LET p == PathOf[r] IN
       {IF OwnWaiter /\ InSeq(s.ep[p].q, r)
        THEN [s EXCEPT !.ep[p].q = Remove(s.ep[p].q, r), !.pc[r] = "done"]          \* never admitted: just leave the queue
        ELSE [ReleaseEP(s, p) EXCEPT !.pc[r] = "done"]}                              \* the code: releaseEndpoint
  ELSE {}
TrySem(s, r) ==
  IF s.pc[r] # "haveEP" THEN {}
  ELSE IF s.can[r] THEN {[s EXCEPT !.pc[r] = "relEP"]}                               \* Acquire fails, deferred releaseEndpoint runs
  ELSE IF s.sem > 0 /\ s.semq = <<>> THEN {[s EXCEPT !.sem = s.sem - 1, !.pc[r] = "inDo", !.dos = Append(s.dos, r)]}
  ELSE {[s EXCEPT !.semq = Append(s.semq, r), !.pc[r] = "waitSem"]}
CanSem(s, r) == IF s.pc[r] = "waitSem" /\ s.can[r] THEN {[s EXCEPT !.semq = Remove(s.semq, r), !.pc[r] = "relEP"]} ELSE {}
RelSem(s, r) == IF s.pc[r] = "relSem" THEN {[ReleaseSem(s) EXCEPT !.pc[r] = "relEP"]} ELSE {}
RelEP(s, r)  == IF s.pc[r] = "relEP" THEN {[ReleaseEP(s, PathOf[r]) EXCEPT !.pc[r] = "done"]} ELSE {}

IntSucc(s) == UNION {WakeAdm(s, r) \cup WakeCan(s, r) \cup TrySem(s, r) \cup CanSem(s, r) \cup RelSem(s, r) \cup RelEP(s, r) : r \in Reqs}
EnvApply(s, a) == CASE a.a = "arrive" -> Arrive(s, a.r) [] a.a = "cancel" -> Cancel(s, a.r) [] a.a = "finish" -> Finish(s, a.r)
                     [] a.a = "fincan" -> FinCan(s, a.r, a.c)
EnvActs == {[a |-> x, r |-> r, c |-> 0] : x \in {"arrive", "cancel", "finish"}, r \in Reqs}
           \cup {[a |-> "fincan", r |-> r, c |-> c] : r \in Reqs, c \in Reqs}
EnvSucc(s) == UNION {EnvApply(s, a) : a \in EnvActs}
\* all states in which the library has nothing left to do on its own
RECURSIVE Quiesce(_)
Quiesce(s) == IF IntSucc(s) = {} THEN {s} ELSE UNION {Quiesce(t) : t \in IntSucc(s)}

(* ------------------------- what a driver can observe ---------------------- *)
InDo(s) == {r \in Reqs : s.pc[r] = "inDo"}
Proj(s) == [inDo |-> InDo(s),
            ret  |-> [r \in Reqs |-> IF s.pc[r] # "done" THEN "none" ELSE IF s.ok[r] THEN "ok" ELSE "err"],
            q    |-> [p \in Paths |-> [processed |-> s.ep[p].cnt, waiting |-> Len(s.ep[p].q)]],
            dos  |-> s.dos]

(* ---------------------------------- C16 ---------------------------------- *)
C16_Total(s)   == Cardinality(InDo(s)) <= L
C16_PerPath(s) == \A p \in Paths : Cardinality({r \in InDo(s) : PathOf[r] = p}) <= EL
\* per path, requests that were never cancelled enter do in arrival order (only claimed for EL = 1)
Pos(q, x) == CHOOSE i \in 1..Len(q) : q[i] = x
C16_FIFO(s) == EL = 1 => \A a, b \in Reqs :
                 (a # b /\ PathOf[a] = PathOf[b] /\ ~s.can[a] /\ ~s.can[b] /\ InSeq(s.dos, a) /\ InSeq(s.dos, b))
                   => ((Pos(s.arr, a) < Pos(s.arr, b)) <=> (Pos(s.dos, a) < Pos(s.dos, b)))
\* a slot is only ever held by a request that entered do or is on its way out: nobody is in do without owning one
C16_IdleAtEnd(s) == (\A r \in Reqs : s.pc[r] \in {"idle", "done"}) =>
                      (s.sem = L /\ s.semq = <<>> /\ \A p \in Paths : s.ep[p].cnt = 0 /\ s.ep[p].q = <<>>)
\* nobody waits for ever once everything that was going to finish has finished (no lost wake-up):
C16_NoLostSlot(s) == (IntSucc(s) = {} /\ InDo(s) = {} /\ s.semq = <<>>) => \A r \in Reqs : s.pc[r] # "waitEP" \/ s.can[r]
=============================================================================
