INIT Init
NEXT Next
CONSTANTS
  Reqs = {1, 2, 3, 4}
  PathOf <- QPath
  EL = 1
  L = 2
  OwnWaiter = TRUE
  Walks = 200
  MaxEvents = 12
INVARIANTS Emit Inv_Total Inv_PerPath Inv_FIFO Inv_IdleAtEnd Inv_NoLostSlot
