INIT Init
NEXT Next
VIEW View
CONSTANTS
  Reqs = {1, 2, 3, 4}
  PathOf <- QPath
  EL = 1
  L = 2
  OwnWaiter = TRUE
  Walks = 0
  MaxEvents = 0
INVARIANTS Inv_Total Inv_PerPath Inv_FIFO Inv_IdleAtEnd Inv_NoLostSlot
