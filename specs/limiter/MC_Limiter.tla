----------------------------- MODULE MC_Limiter -----------------------------
(* Exhaustive exploration of the limiter (every order of arrive / cancel / finish and of the      *)
(* library's own steps) and generator of the quiescence-granularity behaviours replayed on the     *)
(* real LimitParallelRequests.                                                                     *)
EXTENDS Limiter, Json, SequencesExt
CONSTANTS Walks, MaxEvents      \* Walks = 0: exhaustive, fine-grained; > 0: random walks at quiescence granularity
VARIABLES s, w, hist
Init == s = S0 /\ hist = <<>> /\ w \in (IF Walks = 0 THEN {0} ELSE 1..Walks)
Fine == /\ \E t \in EnvSucc(s) \cup IntSucc(s) : s' = t
        /\ UNCHANGED <<w, hist>>
Enabled == {a \in EnvActs : EnvApply(s, a) # {}}
Coarse == /\ Len(hist) < MaxEvents /\ Enabled # {}
          /\ \E a \in {RandomElement(Enabled)} :          \* (bound once: a LET would re-evaluate RandomElement at each use)
               \E t \in {RandomElement(UNION {Quiesce(u) : u \in EnvApply(s, a)})} :
                 s' = t /\ hist' = Append(hist, [act |-> a, exp |-> Proj(t), alts |-> Cardinality({Proj(x) : x \in UNION {Quiesce(u) : u \in EnvApply(s, a)}}),
                                               exps |-> SetToSeq({Proj(x) : x \in UNION {Quiesce(u) : u \in EnvApply(s, a)}})])
          /\ w' = w
Next == IF Walks = 0 THEN Fine ELSE Coarse
View == <<s, w>>
Inv_Total      == C16_Total(s)
Inv_PerPath    == C16_PerPath(s)
Inv_FIFO       == C16_FIFO(s)
Inv_IdleAtEnd  == C16_IdleAtEnd(s)
Inv_NoLostSlot == C16_NoLostSlot(s)
\* directed histories: all requests arrive (in every order), then each is finished in that order - with an endpoint limit
\* of 1 the waiters must be admitted one by one in arrival order; the model predicts the observable state after each step
EA(x, r) == [a |-> x, r |-> r, c |-> 0]
RECURSIVE Predict(_, _, _)
Predict(acts, k, SS) == IF k > Len(acts) THEN <<>>
                        ELSE LET Q0 == UNION {UNION {Quiesce(u) : u \in EnvApply(st, acts[k])} : st \in SS}
                                 Q == IF Q0 = {} THEN SS ELSE Q0
                                 P == {Proj(x) : x \in Q} IN
                             <<[act |-> acts[k], exp |-> CHOOSE x \in P : TRUE, alts |-> Cardinality(P), exps |-> SetToSeq(P)]>> \o Predict(acts, k + 1, Q)
Perms == {f \in [1..Cardinality(Reqs) -> Reqs] : \A a, b \in 1..Cardinality(Reqs) : a # b => f[a] # f[b]}
DirectedActs == {[k \in 1..(2 * Cardinality(Reqs)) |-> IF k <= Cardinality(Reqs) THEN EA("arrive", f[k]) ELSE EA("finish", f[k - Cardinality(Reqs)])] : f \in Perms}
ASSUME Walks = 0 \/ JsonSerialize("directed.json", SetToSeq({Predict(q, 1, {S0}) : q \in DirectedActs}))
Emit == (Walks > 0 /\ (Len(hist) = MaxEvents \/ Enabled = {})) => PrintT(<<"HIST", ToJson(hist)>>)
QPath == [r \in 1..4 |-> IF r = 3 THEN 2 ELSE 1]
QPath1 == [r \in 1..4 |-> 1]          \* one path: up to three waiters behind the request in flight
QPath5 == [r \in 1..5 |-> IF r \in {2, 5} THEN 2 ELSE 1]
=============================================================================
