--------------------------- MODULE MC_Retransmit ---------------------------
EXTENDS Retransmit, Json
VARIABLES s, hist, stopAt
\* (a deadline is an absolute time fixed when the call starts; a NEAR one is only combined with an unqueued request, so
\*  that "dl ticks after the first transmission" and "dl seconds after the call" coincide within the driver's 50 ms slack)
Init == \E q \in QueuedMs : \E d \in {x \in Deadlines : q = 0 \/ x = 0 \/ x > Horizon} :
          /\ s = SQD(q, d) /\ stopAt = 0
          /\ hist = (IF q = 0 THEN <<>> ELSE <<[a |-> "queue", t |-> q]>>) \o (IF d = 0 THEN <<>> ELSE <<[a |-> "deadline", t |-> d]>>)
\* every history of events; after an ack / rst / cancel / return no further copy may appear
Next == /\ \E a \in EnvActs : \E t \in EnvApply(s, a) : s' = t /\ hist' = Append(hist, a)
        /\ stopAt' = IF stopAt = 0 /\ (s'.acked \/ s'.rst \/ s'.cancelled \/ s'.pc \in {"ok", "err"}) THEN Len(s'.copies) ELSE stopAt
        /\ Len(hist) < 9 + (IF s.queued > 0 THEN 1 ELSE 0) + (IF s.dl > 0 THEN 1 ELSE 0)
View == <<s, stopAt, Len(hist)>>
Inv_Bound == D06_Bound(s)
Inv_Spacing == D06_Spacing(s)
Inv_StopAfter == stopAt # 0 => Len(s.copies) = stopAt
Inv_NoFalseSuccess == D06_NoFalseSuccess(s)
\* generator: every history is a stimulus
Emit == Len(hist) >= 1 => PrintT(<<"HIST", ToJson(hist)>>)
=============================================================================
