INIT Init
NEXT Next
VIEW View
CONSTANTS
  MAXR = 2
  QueuedMs = {0, 150}
  Deadlines = {0, 3, 1000}
  AT = 2
  Horizon = 9
  RespStopsWait = TRUE
INVARIANTS Inv_Bound Inv_Spacing Inv_StopAfter Inv_NoFalseSuccess
