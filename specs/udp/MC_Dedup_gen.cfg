INIT Init
NEXT Next
CONSTANTS
  Reqs <- MCReqs
  G = 2
  Own0 = 10
  KeyByRequest = FALSE
  Near = 3
  Jump = 100
  Walks = 150
  MaxEvents = 12
INVARIANTS Emit
