INIT Init
NEXT Next
INVARIANTS C03_StressOwn C03_OwnToken C03_AtMostOneCaller C03_NotAlsoToHandler C03_DupTokenRejected C03_RejectedOnlyIfDup C03_AnswerCompletes C03_AllReturned C03_TablesEmpty
