------------------------------ MODULE MC_Dedup ------------------------------
EXTENDS Dedup, Json
CONSTANTS Walks, MaxEvents
VARIABLES s, w, hist
\* distinct message IDs (the same ID within the lifetime IS the same request); requests 3 and 4 carry IDs the connection will itself use next
MCReqs == <<[mid |-> 1, typ |-> "CON"], [mid |-> 2, typ |-> "NON"], [mid |-> 10, typ |-> "CON"], [mid |-> 11, typ |-> "NON"]>>
Init == s = S0 /\ hist = <<>> /\ w \in (IF Walks = 0 THEN {0} ELSE 1..Walks)
Bound == Len(s.log) < 6 /\ s.epoch < 2
Fine == /\ Bound /\ \E t \in EnvSucc(s) \cup IntSucc(s) : s' = t
        /\ UNCHANGED <<w, hist>>
GenActs == {a \in EnvActs : EnvApply(s, a) # {}}
Coarse == /\ Len(hist) < MaxEvents /\ GenActs # {}
          /\ \E a \in {RandomElement(GenActs)} :
               \E t \in {RandomElement(UNION {Quiesce(u) : u \in EnvApply(s, a)})} :
                 s' = t /\ hist' = Append(hist, a)
          /\ w' = w
Next == IF Walks = 0 THEN Fine ELSE Coarse
View == <<s, w>>
Inv_NoForeignReply == D05_NoForeignReply(s)
Inv_Once == D05_Once(s)
Emit == (Walks > 0 /\ (Len(hist) = MaxEvents \/ GenActs = {})) => PrintT(<<"HIST", ToJson(hist)>>)
=============================================================================
