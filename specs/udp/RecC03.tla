------------------------------- MODULE RecC03 -------------------------------
(* Judges what every request call returned on REAL udp and tcp client connections (harness/drv/c03).   *)
EXTENDS Integers, Sequences, FiniteSets, TLC, Json, IOUtils
Traces == ndJsonDeserialize(IOEnv.VF_RECS)
VARIABLES i, ph
Init == i \in 1..Len(Traces) /\ ph = 0
Next == ph = 0 /\ ph' = 1 /\ UNCHANGED i
J == ph = 1
T == Traces[i]
IsStress == "op" \in DOMAIN T /\ T.op = "stress"
JH == J /\ ~IsStress                 \* a replayed history (not a stress burst)
Ev == T.ev
N == Len(Ev)
NC == Len(T.tok)
FinalRes == Ev[N].res
\* token ids 1..3 are realised as byte strings that differ only in leading zero bytes (01, 00 01, 00 00 01): distinct
\* tokens that a sloppy table key would confuse; the others as E0 <id>
TokBytes(id) == CASE id = 1 -> <<1>> [] id = 2 -> <<0, 1>> [] id = 3 -> <<0, 0, 1>> [] OTHER -> <<224, id>>
Tok(c) == TokBytes(T.tok[c])
SetOf(q) == {q[k] : k \in 1..Len(q)}

\* free-running callers that release their responses at once (op "stress"): every successful call got its own token and the
\* content produced for its own request
C03_StressOwn == (J /\ IsStress) => T.wrong = 0
\* "every request call that returns successfully returns a response carrying its own token and the content the
\*  peer produced for that request"
C03_OwnToken == JH => \A k \in 1..N : \A c \in 1..NC :
                   Ev[k].res[c].pc = "ok" => (Ev[k].res[c].tok = Tok(c) /\ Ev[k].res[c].forc = c /\ Ev[k].res[c].code = 69
                                               /\ Ev[k].res[c].serial \in SetOf(T.answers[c]))
\* "a response is never delivered to a different caller or to two callers"
C03_AtMostOneCaller == JH => \A a, b \in 1..NC :
                   (a # b /\ FinalRes[a].pc = "ok" /\ FinalRes[b].pc = "ok") => <<FinalRes[a].forc, FinalRes[a].serial>> # <<FinalRes[b].forc, FinalRes[b].serial>>
\* ... nor to a caller AND to the connection's own handler (where messages nobody waits for end up): of the n copies of an answer
\* instance the peer put on the wire, those that reached the handler plus the one a caller got back are at most n
Returned(c, sr) == Cardinality({a \in 1..NC : FinalRes[a].pc = "ok" /\ FinalRes[a].forc = c /\ FinalRes[a].serial = sr})
SentN(c, sr) == LET m == {k \in 1..Len(T.sent) : T.sent[k][1] = c /\ T.sent[k][2] = sr} IN IF m = {} THEN 0 ELSE T.sent[CHOOSE k \in m : TRUE][3]
C03_NotAlsoToHandler == JH => \A k \in 1..Len(T.stray) : T.stray[k][3] + Returned(T.stray[k][1], T.stray[k][2]) <= SentN(T.stray[k][1], T.stray[k][2])
\* "a second request issued with a token that is still outstanding is rejected rather than displacing the first"
OutBefore(k, c) == k > 1 /\ Ev[k - 1].res[c].pc = "out"
C03_DupTokenRejected == JH => \A k \in 1..N :
                   (Ev[k].act.a = "start" /\ Ev[k].applied /\ \E d \in 1..NC : d # Ev[k].act.c /\ T.tok[d] = T.tok[Ev[k].act.c] /\ OutBefore(k, d))
                      => (Ev[k].res[Ev[k].act.c].pc = "rejected"
                          /\ \A d \in 1..NC : (d # Ev[k].act.c /\ OutBefore(k, d)) => Ev[k].res[d].pc = "out")
\* a request is rejected only for that reason
C03_RejectedOnlyIfDup == JH => \A k \in 1..N : \A c \in 1..NC :
                   (Ev[k].res[c].pc = "rejected" /\ (k = 1 \/ Ev[k - 1].res[c].pc # "rejected"))
                      => \E d \in 1..NC : d # c /\ T.tok[d] = T.tok[c] /\ OutBefore(k, d)
\* an answer for an outstanding request completes exactly that request
C03_AnswerCompletes == JH => \A k \in 1..N :
                   (Ev[k].act.a = "answer" /\ Ev[k].applied /\ Ev[k].act.y # "dup" /\ OutBefore(k, Ev[k].act.c))
                      => (Ev[k].res[Ev[k].act.c].pc = "ok" /\ \A d \in 1..NC : d # Ev[k].act.c => Ev[k].res[d].pc = Ev[k - 1].res[d].pc)
\* after the end nothing is left waiting (C09) and no continuation is left behind (C13)
C03_AllReturned == JH => T.hung = <<>>
C03_TablesEmpty == JH => (T.endTokens = 0 /\ T.endMids = 0)
=============================================================================
