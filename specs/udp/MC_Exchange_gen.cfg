INIT Init
NEXT Next
CONSTANTS
  Callers = {1, 2, 3, 4}
  TokOf <- MCTok
  Walks = 150
  MaxEvents = 14
INVARIANTS Emit
