INIT Init
NEXT Next
VIEW View
CONSTANTS
  Reqs <- MCReqs
  G = 2
  Own0 = 10
  KeyByRequest = TRUE
  Near = 3
  Jump = 100
  Walks = 0
  MaxEvents = 0
INVARIANTS Inv_NoForeignReply Inv_Once
