------------------------------ MODULE Exchange ------------------------------
(***************************************************************************)
(* Request/response matching by token on one connection (C03):             *)
(* udp/client.Conn and tcp/client.Conn doInternal / handle.                *)
(*   Start(c)    Do: tokenHandlerContainer.LoadOrStore(token) - rejected   *)
(*               if the token is outstanding - then the request is written *)
(*   Answer(c,y) the peer answers the outstanding request of caller c in   *)
(*               style y: "piggy" (ACK carrying the response), "sep"       *)
(*               (empty ACK, then the response on its own), "bare" (the    *)
(*               response on its own, no ACK seen), "dup" (the previous    *)
(*               answer datagrams again)                                   *)
(*   Deliver     handle: tokenHandlerContainer.LoadAndDelete(token) and    *)
(*               hand-over to the caller's one-slot channel                *)
(*   Cancel(c)   the caller's context is cancelled                         *)
(***************************************************************************)
EXTENDS Integers, Sequences, FiniteSets, TLC

CONSTANTS Callers, TokOf     \* TokOf[c] : the token caller c uses (collisions allowed)

S0 == [pc   |-> [c \in Callers |-> "idle"],      \* idle | out (outstanding) | ok | err | rejected
       reg  |-> {},                               \* outstanding tokens
       own  |-> [c \in Callers |-> 0],            \* which caller an outstanding token belongs to: reg token -> caller, kept per caller
       got  |-> [c \in Callers |-> <<>>],         \* the response the call returned: <<producedFor, serial>>
       nans |-> [c \in Callers |-> 0],            \* answers produced for c so far
       last |-> [c \in Callers |-> "none"]]       \* style of the last answer (for "dup")

Start(s, c) == IF s.pc[c] # "idle" THEN {}
               ELSE IF TokOf[c] \in s.reg THEN {[s EXCEPT !.pc[c] = "rejected"]}
               ELSE {[s EXCEPT !.pc[c] = "out", !.reg = s.reg \cup {TokOf[c]}]}
\* an answer produced for c reaches the connection: the token table decides who gets it
Answer(s, c, y) ==
  IF s.pc[c] # "out" \/ (y = "dup" /\ s.last[c] = "none") THEN {}
  ELSE IF y = "dup" THEN {s}                                   \* c is still outstanding only if nothing was delivered; a dup of
                                                               \* an answer that was delivered finds no token and is dropped
  ELSE {[s EXCEPT !.pc[c] = "ok", !.reg = s.reg \ {TokOf[c]}, !.got[c] = <<c, s.nans[c] + 1>>, !.nans[c] = s.nans[c] + 1, !.last[c] = y]}
\* duplicates of an answer whose caller already returned are dropped - provided nobody re-used the token in the
\* meantime (a stale answer that meets a re-used token is delivered to the new request: that is the application's
\* token-reuse hazard, RFC 7252 5.3.1, and is kept out of the generated histories)
Late(s, c, y) == IF s.pc[c] \in {"ok", "err"} /\ s.last[c] # "none" /\ y = "dup"
                    /\ \A d \in Callers : (d # c /\ TokOf[d] = TokOf[c]) => s.pc[d] # "out"
                 THEN {s} ELSE {}
Cancel(s, c) == IF s.pc[c] = "out" THEN {[s EXCEPT !.pc[c] = "err", !.reg = s.reg \ {TokOf[c]}]} ELSE {}

EnvActs == {[a |-> "start", c |-> c, y |-> "none"] : c \in Callers}
           \cup {[a |-> "answer", c |-> c, y |-> y] : c \in Callers, y \in {"piggy", "sep", "bare", "dup"}}
           \cup {[a |-> "cancel", c |-> c, y |-> "none"] : c \in Callers}
EnvApply(s, a) == CASE a.a = "start" -> Start(s, a.c)
                    [] a.a = "answer" -> Answer(s, a.c, a.y) \cup Late(s, a.c, a.y)
                    [] a.a = "cancel" -> Cancel(s, a.c)
D03_OwnAnswer(s) == \A c \in Callers : s.pc[c] = "ok" => s.got[c][1] = c
D03_OneOwner(s)  == \A a, b \in Callers : (a # b /\ s.pc[a] = "out" /\ s.pc[b] = "out") => TokOf[a] # TokOf[b]
Proj(s) == [pc |-> s.pc]
=============================================================================
