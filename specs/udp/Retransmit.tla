----------------------------- MODULE Retransmit -----------------------------
(***************************************************************************)
(* Retransmission of one confirmable request issued through the client API *)
(* of udp/client.Conn (C06).  Time is in half ACK_TIMEOUT units... no: in   *)
(* TICK units, ACK_TIMEOUT = AT ticks.  The housekeeping sweep              *)
(* Conn.CheckExpirations(now) is the only thing that retransmits:           *)
(*   SweepEntry:  if retransmit >= MAX_RETRANSMIT -> drop the entry         *)
(*                elif now > start + AT*(retransmit+1) -> retransmit++,     *)
(*                     send one copy (one per sweep, however late)          *)
(* Peer/network: Ack (empty ACK), Piggy (ACK carrying the response), Sep    *)
(* (separate response matched by token), Rst.  Caller: Cancel.              *)
(***************************************************************************)
EXTENDS Integers, Sequences, FiniteSets, TLC

CONSTANTS MAXR, AT, Horizon, QueuedMs, Deadlines,
          RespStopsWait     \* a response that arrives before the ACK completes the call (RFC 7252 4.2 / 5.2.2 reading)

\* The request may first have waited behind the NSTART limit (queued > 0, in milliseconds of real time): the clock of
\* the exchange starts at its FIRST TRANSMISSION (the entry's start stamp is taken when the entry is stored, after the
\* slot was acquired), so the time spent queued changes nothing below.
\* The caller's context may carry a deadline (dl ticks after the first transmission, 0 = none): the sweep drops the entry
\* once it has passed (midElement.IsExpired) - and otherwise changes nothing: attempts are still bounded by MAX_RETRANSMIT.
SQD(q, dl) == [queued |-> q, dl |-> dl, clock |-> 0, entry |-> TRUE, retr |-> 0, copies |-> <<0>>,   \* the first copy goes out at time 0
       pc |-> "waitAck",            \* waitAck | waitResp | ok | err
       got |-> FALSE,               \* a response sits in the call's one-slot channel
       acked |-> FALSE, rst |-> FALSE, cancelled |-> FALSE, exhausted |-> FALSE]
SQ(q) == SQD(q, 0)
\* the first transmission is refused by the network (a transient write error while context and connection stay alive):
\* nothing is stored, nothing went out, the call returns the error - Tick leaves such a state alone for ever
SWF == [SQD(0, 0) EXCEPT !.entry = FALSE, !.copies = <<>>, !.pc = "err"]
S0 == SQ(0)

Waiting(s) == s.pc \in {"waitAck", "waitResp"}
Tick(s, t) ==
  IF t <= s.clock \/ t > Horizon THEN {}
  ELSE IF ~s.entry THEN {[s EXCEPT !.clock = t]}
  ELSE IF s.dl # 0 /\ t > s.dl THEN {[s EXCEPT !.clock = t, !.entry = FALSE, !.exhausted = TRUE]}
  ELSE IF s.retr >= MAXR THEN {[s EXCEPT !.clock = t, !.entry = FALSE, !.exhausted = TRUE]}
  ELSE IF t > AT * (s.retr + 1) THEN {[s EXCEPT !.clock = t, !.retr = s.retr + 1, !.copies = Append(s.copies, t)]}
  ELSE {[s EXCEPT !.clock = t]}
Ack(s) == IF s.entry /\ Waiting(s)
          THEN {[s EXCEPT !.entry = FALSE, !.acked = TRUE, !.pc = IF s.pc = "waitAck" THEN (IF s.got THEN "ok" ELSE "waitResp") ELSE s.pc]}
          ELSE {s}
Rst(s) == IF s.entry /\ Waiting(s)
          THEN {[s EXCEPT !.entry = FALSE, !.rst = TRUE, !.pc = IF s.pc = "waitAck" THEN (IF s.got THEN "ok" ELSE "waitResp") ELSE s.pc]}
          ELSE {s}
Piggy(s) == IF ~Waiting(s) THEN {s}
            ELSE {[s EXCEPT !.entry = FALSE, !.acked = TRUE, !.got = TRUE, !.pc = "ok"]}
Sep(s) == IF ~Waiting(s) \/ s.got THEN {s}
          ELSE IF s.pc = "waitResp" \/ RespStopsWait THEN {[s EXCEPT !.got = TRUE, !.pc = "ok", !.entry = FALSE]}
          ELSE {[s EXCEPT !.got = TRUE]}
Cancel(s) == IF Waiting(s) THEN {[s EXCEPT !.pc = "err", !.entry = FALSE, !.cancelled = TRUE]} ELSE {}

EnvActs == {[a |-> "tick", t |-> t] : t \in 1..Horizon} \cup {[a |-> x, t |-> 0] : x \in {"ack", "rst", "piggy", "sep", "cancel"}}
EnvApply(s, a) == CASE a.a = "tick" -> Tick(s, a.t) [] a.a = "ack" -> Ack(s) [] a.a = "rst" -> Rst(s)
                    [] a.a = "piggy" -> Piggy(s) [] a.a = "sep" -> Sep(s) [] a.a = "cancel" -> Cancel(s)
EnvSucc(s) == UNION {EnvApply(s, a) : a \in EnvActs}

(* ---------------------------------- C06 ---------------------------------- *)
D06_Bound(s)   == Len(s.copies) <= 1 + MAXR
D06_Spacing(s) == \A k \in 2..Len(s.copies) : s.copies[k] > (k - 1) * AT
D06_NoFalseSuccess(s) == s.pc = "ok" => s.got
Proj(s) == [copies |-> Len(s.copies), pc |-> s.pc, entry |-> s.entry]
=============================================================================
