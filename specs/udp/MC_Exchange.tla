---------------------------- MODULE MC_Exchange ----------------------------
EXTENDS Exchange, Json
CONSTANTS Walks, MaxEvents
VARIABLES s, w, hist
MCTok == <<1, 2, 1, 3>>      \* callers 1 and 3 use the same token
Init == s = S0 /\ hist = <<>> /\ w \in (IF Walks = 0 THEN {0} ELSE 1..Walks)
Fine == /\ \E a \in EnvActs : \E t \in EnvApply(s, a) : s' = t
        /\ UNCHANGED <<w, hist>>
GenActs == {a \in EnvActs : EnvApply(s, a) # {}}
Coarse == /\ Len(hist) < MaxEvents /\ GenActs # {}
          /\ \E a \in {RandomElement(GenActs)} : \E t \in {RandomElement(EnvApply(s, a))} :
                 s' = t /\ hist' = Append(hist, [act |-> a, exp |-> Proj(t)])
          /\ w' = w
Next == IF Walks = 0 THEN Fine ELSE Coarse
View == <<s, w>>
Inv_OwnAnswer == D03_OwnAnswer(s)
Inv_OneOwner == D03_OneOwner(s)
Emit == (Walks > 0 /\ (Len(hist) = MaxEvents \/ GenActs = {})) => PrintT(<<"HIST", ToJson(hist)>>)
=============================================================================
