INIT Init
NEXT Next
INVARIANTS C06_Bound C06_Spacing C06_Identical C06_StopAfter C06_Success C06_SuccessRespOnly C06_NoFalseSuccess C06_NoFalseSuccessEnd C06_FailedWriteSilent C06_FailedCopyKeepsExchange C06_SweepReturns
