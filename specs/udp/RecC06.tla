------------------------------- MODULE RecC06 -------------------------------
(* Judges recorded retransmission histories of a REAL udp/client.Conn (harness/drv/c06).  One initial   *)
(* state per trace; S is the set of Retransmit.tla states compatible with the events (conformance).     *)
EXTENDS Integers, Sequences, FiniteSets, TLC, Json, IOUtils
Traces == ndJsonDeserialize(IOEnv.VF_RECS)
VARIABLES i, ph
Init == i \in 1..Len(Traces) /\ ph = 0
Next == ph = 0 /\ ph' = 1 /\ UNCHANGED i
J == ph = 1 /\ ~Traces[i].slow       \* (runs that came too close to a near real-time deadline are not judged)
T == Traces[i]
Ev == T.ev
N == Len(Ev)
C == T.copies
Act(k) == Ev[k].act.a
WaitingBefore(k) == IF k = 1 THEN TRUE ELSE Ev[k - 1].waiting
EntryBefore(k) == IF k = 1 THEN TRUE ELSE Ev[k - 1].entry
\* first event after which no further copy is allowed: an ACK / RST / piggybacked response that found the
\* exchange still open, the caller's cancellation, or the return of the call
Stops == {k \in 1..N : \/ (Act(k) \in {"ack", "rst", "piggy"} /\ EntryBefore(k) /\ WaitingBefore(k))
                       \/ Act(k) = "cancel" \/ Ev[k].ret # "none"}
FirstStop == IF Stops = {} THEN N + 1 ELSE CHOOSE k \in Stops : \A j \in Stops : k <= j
RespEvents == {k \in 1..N : Act(k) \in {"piggy", "sep"} /\ WaitingBefore(k)}
FirstResp == IF RespEvents = {} THEN 0 ELSE CHOOSE k \in RespEvents : \A j \in RespEvents : k <= j
Acked == \E k \in 1..N : Act(k) \in {"ack", "piggy"} /\ EntryBefore(k) /\ WaitingBefore(k)
Exhausted(k) == \E j \in 1..k : Act(j) \in {"tick", "tickfail"} /\ EntryBefore(j) /\ ~Ev[j].entry
PayOf(k) == IF Act(k) = "piggy" THEN <<80>> ELSE <<83>>        \* "P" / "S"
FinalRet == T.final.ret

\* "at most MAX_RETRANSMIT further copies"
C06_Bound     == J => Len(C) <= 1 + T.maxr
\* "the k-th copy no earlier than k x ACK_TIMEOUT after the first" (a copy written during tick t went out at t - 50 ms)
C06_Spacing   == J => \A k \in 2..Len(C) : C[k].at > (k - 1) * T.at
\* "every copy byte-identical"
C06_Identical == J => \A k \in 1..Len(C) : C[k].same /\ C[k].con
\* "no copy after an acknowledgement, a reset, the caller's cancellation or the return of the call"
C06_StopAfter == J => \A k \in 1..Len(C) : C[k].after <= FirstStop
\* "if any one copy reaches the peer and the matching acknowledgement/response gets back before the attempts are
\*  exhausted, the request call succeeds with that response": acknowledged (or piggybacked) and answered while waiting
C06_Success   == (J /\ FirstResp # 0 /\ ((Act(FirstResp) = "piggy" /\ EntryBefore(FirstResp)) \/ \E a \in 1..N : Act(a) = "ack" /\ EntryBefore(a) /\ WaitingBefore(a)
                                                                        /\ \A c \in 1..N : Act(c) = "cancel" => c > FirstResp /\ c > a))
                   => (FinalRet = "ok" /\ T.final.pay = PayOf(FirstResp))
\* the response overtook a lost acknowledgement: it alone should complete the call too
C06_SuccessRespOnly == (J /\ FirstResp # 0 /\ Act(FirstResp) = "sep" /\ ~Acked /\ ~Exhausted(FirstResp)
                          /\ \A c \in 1..N : Act(c) # "cancel") => (FinalRet = "ok" /\ T.final.pay = <<83>>)
\* "exhaustion of the attempts or a reset never produces a successful response"
C06_NoFalseSuccess == J => \A k \in 1..N : Ev[k].ret = "ok" =>
                        (FirstResp # 0 /\ FirstResp <= k /\ Ev[k].pay = PayOf(FirstResp) /\ Ev[k].code = 69)
\* the first transmission is refused by the network (a transient write error; context and connection stay alive): the call
\* returns the error, so "no copy after ... the return of the call" - no later sweep sends anything for it - and the
\* connection's next request is transmitted (the exchange gave back what it held)
C06_FailedWriteSilent == (J /\ T.wfail) => (Len(C) = 0 /\ FinalRet = "err" /\ ~T.final.entry /\ T.nextSent)
\* a copy that cannot be written (event tickfail: a transient error of the network) spends an attempt and nothing else: while
\* attempts remain the exchange stays open - later copies go out, the answer still completes the call (C06_Success)
C06_FailedCopyKeepsExchange == J => \A k \in 1..N : (Act(k) = "tickfail" /\ EntryBefore(k) /\ WaitingBefore(k) /\ Ev[k].copies + k <= T.maxr + 1) => Ev[k].entry
\* the housekeeping sweep that retransmits and gives up always returns
C06_SweepReturns == (ph = 1) => ~T.sweepHung
C06_NoFalseSuccessEnd == J => (FinalRet = "ok" => FirstResp # 0)
=============================================================================
