INIT Init
NEXT Next
INVARIANTS C05_NoHang C05_Once C05_SameReply C05_NoForeignReply K05_Attributed C05_Lifetime C05_FreshAgain C05_LocksReleased
