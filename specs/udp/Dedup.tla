------------------------------- MODULE Dedup -------------------------------
(***************************************************************************)
(* Message-ID de-duplication of udp/client.Conn (C05): handleReq, one       *)
(* action per critical section.                                             *)
(*   Lock     msgIDMutex.Lock(mid)                                          *)
(*   Check    checkResponseCache: hit -> the cached reply is re-sent with   *)
(*            the duplicate's MID; miss -> the application handler runs     *)
(*   (the handler itself is the environment: HandlerDone(g, behaviour))     *)
(*   Respond  processResponse: reply type / MID assignment and THE KEY      *)
(*            UNDER WHICH THE REPLY IS STORED; bare ACK for CON without     *)
(*            response; own message-ID counter                              *)
(*   Unlock                                                                 *)
(* checkMyMessageID (Process, before dispatch) moves the connection's own   *)
(* counter away from the MID of a confirmable request.                      *)
(* A logical request q has a message ID and a type; copies of it may be     *)
(* processed by several goroutines.  State is one record.                   *)
(***************************************************************************)
EXTENDS Integers, Sequences, FiniteSets, TLC

CONSTANTS Reqs,        \* logical requests: Reqs[q] = [mid, typ] , typ \in {"CON", "NON"}
          G,           \* number of processing goroutines
          Own0,        \* the connection's next own message ID at the start
          KeyByRequest,\* replies are stored under the REQUEST's MID (repaired code); FALSE: under the reply's own MID
          Near, Jump   \* checkMyMessageID: peer MID within Near ahead of the own counter -> counter += Jump

Gs == 1..G
QIds == DOMAIN Reqs
None == [q |-> 0]

S0 == [rc |-> [m \in {} |-> None],          \* response cache: mid -> [q (request that produced the reply), kind]
       lk |-> {}, own |-> Own0,
       pc |-> [g \in Gs |-> "idle"], rq |-> [g \in Gs |-> 0], beh |-> [g \in Gs |-> "none"],
       log |-> <<>>,                         \* ghost, in order: [e |-> "run", q] handler invoked for request q;
                                             \*   [e |-> "reply", q (request answered), src (request whose handler produced it), kind, mid, cached]
       epoch |-> 0]                          \* number of lifetime expiries so far

InCache(s, m) == m \in DOMAIN s.rc
Store(s, m, e) == IF InCache(s, m) THEN s.rc ELSE [x \in DOMAIN s.rc \cup {m} |-> IF x = m THEN e ELSE s.rc[x]]   \* LoadOrStore keeps a live entry

(* ------------------------------ environment ------------------------------ *)
\* a copy of request q reaches Process and is dispatched on goroutine g
Inject(s, g, q) ==
  IF s.pc[g] # "idle" THEN {}
  ELSE LET m == Reqs[q].mid
           \* checkMyMessageID runs in Conn.Process only (goroutine 1 is the socket reader path)
           own2 == IF g = 1 /\ Reqs[q].typ = "CON" /\ (m - s.own) \in 0..Near THEN s.own + Jump ELSE s.own IN
       {[s EXCEPT !.pc[g] = "lock", !.rq[g] = q, !.own = own2]}
HandlerDone(s, g, b) == IF s.pc[g] = "handler" THEN {[s EXCEPT !.pc[g] = "respond", !.beh[g] = b]} ELSE {}
\* housekeeping sweep after the exchange lifetime of everything stored so far
Expire(s) == {[s EXCEPT !.rc = [m \in {} |-> None], !.epoch = s.epoch + 1]}

(* -------------------------------- internal ------------------------------- *)
Lock(s, g) == IF s.pc[g] = "lock" /\ Reqs[s.rq[g]].mid \notin s.lk
              THEN {[s EXCEPT !.pc[g] = "check", !.lk = s.lk \cup {Reqs[s.rq[g]].mid}]} ELSE {}
Check(s, g) ==
  IF s.pc[g] # "check" THEN {}
  ELSE LET q == s.rq[g]
           m == Reqs[q].mid IN
       IF InCache(s, m)
       THEN {[s EXCEPT !.pc[g] = "unlock", !.log = Append(s.log, [e |-> "reply", q |-> q, src |-> s.rc[m].q, kind |-> s.rc[m].kind, mid |-> m, cached |-> TRUE])]}
       ELSE {[s EXCEPT !.pc[g] = "handler", !.log = Append(s.log, [e |-> "run", q |-> q, src |-> q, kind |-> "run", mid |-> m, cached |-> FALSE])]}
Respond(s, g) ==
  IF s.pc[g] # "respond" THEN {}
  ELSE LET q == s.rq[g]
           m == Reqs[q].mid
           con == Reqs[q].typ = "CON" IN
       IF s.beh[g] = "piggy"
       THEN IF con
            THEN {[s EXCEPT !.pc[g] = "unlock", !.rc = Store(s, m, [q |-> q, kind |-> "resp"]),
                            !.log = Append(s.log, [e |-> "reply", q |-> q, src |-> q, kind |-> "resp", mid |-> m, cached |-> FALSE])]}
            ELSE LET rm == s.own          \* reply to a NON request: own fresh message ID
                     key == IF KeyByRequest THEN m ELSE rm IN
                 {[s EXCEPT !.pc[g] = "unlock", !.own = s.own + 1, !.rc = Store(s, key, [q |-> q, kind |-> "resp"]),
                            !.log = Append(s.log, [e |-> "reply", q |-> q, src |-> q, kind |-> "resp", mid |-> rm, cached |-> FALSE])]}
       ELSE IF con
            THEN {[s EXCEPT !.pc[g] = "unlock", !.rc = Store(s, m, [q |-> q, kind |-> "ack"]),
                            !.log = Append(s.log, [e |-> "reply", q |-> q, src |-> q, kind |-> "ack", mid |-> m, cached |-> FALSE])]}
            ELSE {[s EXCEPT !.pc[g] = "unlock"]}
Unlock(s, g) == IF s.pc[g] = "unlock" THEN {[s EXCEPT !.pc[g] = "idle", !.lk = s.lk \ {Reqs[s.rq[g]].mid}]} ELSE {}

IntSucc(s) == UNION {Lock(s, g) \cup Check(s, g) \cup Respond(s, g) \cup Unlock(s, g) : g \in Gs}
EnvActs == {[a |-> "inject", g |-> g, q |-> q, b |-> "none"] : g \in Gs, q \in QIds}
           \cup {[a |-> "done", g |-> g, q |-> 0, b |-> b] : g \in Gs, b \in {"piggy", "none"}}
           \cup {[a |-> "expire", g |-> 0, q |-> 0, b |-> "none"], [a |-> "lapse", g |-> 0, q |-> 0, b |-> "none"]}
EnvApply(s, a) == CASE a.a = "inject" -> Inject(s, a.g, a.q)
                    [] a.a = "done"   -> HandlerDone(s, a.g, a.b)
                    \* "lapse": the lifetime of everything stored so far elapses and NO sweep has run yet - the entries still sit in the
                    \* table, expired: a look-up reports them absent and a store replaces them, so the abstract cache is empty as after a sweep
                    [] a.a \in {"expire", "lapse"} -> IF s.rc # [m \in {} |-> None] /\ \A g \in Gs : s.pc[g] \in {"idle", "handler", "lock"} THEN Expire(s) ELSE {}
EnvSucc(s) == UNION {EnvApply(s, a) : a \in EnvActs}
RECURSIVE Quiesce(_)
Quiesce(s) == IF IntSucc(s) = {} THEN {s} ELSE UNION {Quiesce(t) : t \in IntSucc(s)}

(* ---------------------------------- C05 ---------------------------------- *)
\* a request is never answered from a cache entry that was created for a different request
D05_NoForeignReply(s) == \A k \in 1..Len(s.log) : s.log[k].e = "reply" => s.log[k].src = s.log[k].q
\* within one lifetime: once a confirmable request was handed to the handler, or a reply was produced for a
\* non-confirmable one, no later copy of it reaches the handler
D05_Once(s) == s.epoch = 0 => \A a, b \in 1..Len(s.log) :
                 (a < b /\ s.log[b].e = "run" /\ s.log[a].q = s.log[b].q)
                    => ~((Reqs[s.log[a].q].typ = "CON" /\ s.log[a].e = "run") \/ (s.log[a].e = "reply" /\ ~s.log[a].cached))
=============================================================================
