------------------------------- MODULE RecC05 -------------------------------
(* Judges the ordered log of handler runs and emitted datagrams recorded from a REAL udp/client.Conn   *)
(* (harness/drv/c05).  One initial state per trace.                                                     *)
EXTENDS Integers, Sequences, FiniteSets, TLC, Json, IOUtils
Traces == ndJsonDeserialize(IOEnv.VF_RECS)
VARIABLES i, ph
Init == i \in 1..Len(Traces) /\ ph = 0
Next == ph = 0 /\ ph' = 1 /\ UNCHANGED i
J == ph = 1
T == Traces[i]
Lg == T.log
N == Len(Lg)
Typ(q) == T.reqs[q].typ
\* epoch of a log position: number of expiries before it
\* (a log event "age": part of a lifetime passes, no sweep - it changes nothing: the lifetime of an entry counts from the exchange that
\*  stored it, an answered duplicate does not extend it; the "lapse" that follows completes the lifetime)
Elapsed(j) == Lg[j].e \in {"expire", "lapse"}      \* the lifetime elapsed: followed by a sweep / not swept yet
Epoch(k) == Cardinality({j \in 1..k : Elapsed(j)})
IsReply(k) == Lg[k].e = "reply"
IsRun(k) == Lg[k].e = "run"
Attributed(k) == Lg[k].q # 0
\* the first reply a request got in an epoch
FirstReply(q, ep) == LET S == {k \in 1..N : IsReply(k) /\ Lg[k].q = q /\ Epoch(k) = ep} IN
                     IF S = {} THEN 0 ELSE CHOOSE k \in S : \A j \in S : k <= j
Expected(q) == <<114, 101, 115, 112, 45, 113, 48 + q>>         \* "resp-q<q>" : the handler's payload starts with it
Prefix(p, x) == Len(p) >= Len(x) /\ SubSeq(p, 1, Len(x)) = x
Tok(q) == <<192, q>>
TokOK(k, q) == Len(Lg[k].tok) >= 2 /\ SubSeq(Lg[k].tok, 1, 2) = Tok(q)

C05_NoHang == J => ~T.hung
\* "is not handed to the application handler a second time" within the lifetime
C05_Once == J => \A a, b \in 1..N :
              (a < b /\ IsRun(b) /\ Lg[a].q = Lg[b].q /\ Epoch(a) = Epoch(b) /\ ~Elapsed(a))
                 => ~(\/ (Typ(Lg[a].q) = "CON" /\ IsRun(a)) \/ (IsReply(a) /\ Lg[a].ran)
                      \* "even when the copies are processed concurrently": a run whose copy went on to produce a reply (the reply may
                      \* be logged after the second run started - copies of one message ID are processed one after the other)
                      \/ (IsRun(a) /\ \E k \in 1..N : IsReply(k) /\ Lg[k].ran /\ Lg[k].q = Lg[a].q /\ Lg[k].copy = Lg[a].copy /\ Epoch(k) = Epoch(a)))
\* "each duplicate is instead answered with a reply of the same code, token, options and payload as the first one
\*  (a bare acknowledgement if that is what the first copy got), matched to the duplicate's message ID"
\* The reply that the processing of the first copy produced goes on the wire after the message-ID lock is released, so a
\* duplicate that waited for the lock may be answered from the cache a moment EARLIER than the first copy - the order on
\* the wire is not part of the statement; the reference is the reply of the copy whose handler ran (else the first one).
RefReply(q, ep) == LET R == {k \in 1..N : IsReply(k) /\ Lg[k].q = q /\ Epoch(k) = ep /\ Lg[k].ran /\ Lg[k].kind = "resp"} IN
                   IF R # {} THEN CHOOSE k \in R : \A j \in R : k <= j ELSE FirstReply(q, ep)
C05_SameReply == J => \A k \in 1..N :
              (IsReply(k) /\ Attributed(k) /\ ~Lg[k].ran) =>
                 LET f == IF Lg[k].kind = "ack" THEN FirstReply(Lg[k].q, Epoch(k)) ELSE RefReply(Lg[k].q, Epoch(k)) IN
                 /\ f # 0
                 /\ Lg[k].code = Lg[f].code /\ Lg[k].tok = Lg[f].tok /\ Lg[k].opts = Lg[f].opts /\ Lg[k].pay = Lg[f].pay
                 /\ Lg[k].mid = Lg[k].rmid
\* a request is never answered with a reply that was produced for another request
C05_NoForeignReply == J => \A k \in 1..N :
              (IsReply(k) /\ Attributed(k)) =>
                 IF Lg[k].kind = "ack" THEN Lg[k].mid = Lg[k].rmid
                 ELSE TokOK(k, Lg[k].q) /\ Prefix(Lg[k].pay, Expected(Lg[k].q))
\* conformance only: every emitted datagram belongs to the processing of some copy (a confirmable response that the
\* sweep retransmits is written by the sweep's goroutine and is not attributed)
K05_Attributed == J => \A k \in 1..N : IsReply(k) => Attributed(k)
\* "once the lifetime has elapsed the ID is treated as fresh again" - and not before: the housekeeping sweep
\* 50 ms before the first deadline removes nothing, the one 50 ms after the last removes everything; 247 s lifetime
\* (the remaining lifetime is only meaningful while the driver has not aged the entries itself)
C05_Lifetime == J => \A k \in 1..N : Lg[k].e = "expire" => (Lg[k].copy = Lg[k].q /\ Lg[k].code = 0
                                                              /\ ((\A j \in 1..k : Lg[j].e \notin {"lapse", "age"}) => Lg[k].mid \in 245..247))
\* ... whether or not a sweep has removed the old entry: a reply that did not come from a handler run of its own was
\* produced from something stored IN THIS lifetime (a run, or a reply that ran, for the same request)
C05_FreshAgain == J => \A k \in 1..N : (IsReply(k) /\ Attributed(k) /\ ~Lg[k].ran /\ Epoch(k) > 0) =>
                    \* (a handler that was entered before the lifetime elapsed may deliver afterwards; the order of two replies
                    \*  on the wire is not part of the statement - see C05_SameReply)
                    \E a \in 1..N : /\ Epoch(a) = Epoch(k) /\ ~Elapsed(a) /\ Lg[a].q = Lg[k].q
                                    /\ ((IsRun(a) /\ a < k) \/ (IsReply(a) /\ Lg[a].ran))
\* nothing is left locked
C05_LocksReleased == J => T.midLocks = 0
=============================================================================
