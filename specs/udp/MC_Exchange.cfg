INIT Init
NEXT Next
VIEW View
CONSTANTS
  Callers = {1, 2, 3, 4}
  TokOf <- MCTok
  Walks = 0
  MaxEvents = 0
INVARIANTS Inv_OwnAnswer Inv_OneOwner
