INIT Init
NEXT Next
CONSTANTS
  Ids = {1, 4, 11, 12, 14, 60, 258, 2000, 65535}
  Lens = {0, 1, 12, 13, 14, 268, 269, 270}
  PayLens = {0, 1, 12, 13, 268, 269}
  MaxOpts = 2
  Codes = {69, 225}
INVARIANTS T_UDP T_TCP T_TCPPrefix T_TCPTail
