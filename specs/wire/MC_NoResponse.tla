--------------------------- MODULE MC_NoResponse ---------------------------
(* Design-level sanity of the RFC 7967 predicate over the whole 32 x 256 table. *)
EXTENDS NoResponse, TLC
VARIABLES v, code
Init == v \in 0..255 /\ code \in 0..255
Next == UNCHANGED <<v, code>>
\* only classes 2,4,5 can be suppressed; requests (class 0), 1.xx, 3.xx, 6.xx, 7.xx never are
T_OnlyResponseClasses == Suppressed(v, code) => Class(code) \in {2, 4, 5}
\* value 0 (and any value without bits 1,3,4) suppresses nothing; 26 suppresses all three classes
T_Zero  == (v % 32) \in {0, 1, 4, 5} => ~Suppressed(v, code)
T_All   == (Bit(v, 1) /\ Bit(v, 3) /\ Bit(v, 4) /\ Class(code) \in {2, 4, 5}) => Suppressed(v, code)
\* bits above 4 are irrelevant
T_HighBitsIgnored == Suppressed(v, code) = Suppressed(v % 32, code)
=============================================================================
