INIT Init
NEXT Next
CONSTANTS
  Ids = {1, 11, 12, 35, 258, 2000, 65535}
  Lens = {0, 1, 13, 269, 1034}
  PayLens = {0, 1, 12, 13, 268, 269}
  MaxOpts = 3
  Codes = {69, 225}
INVARIANTS T_UDP T_TCP T_TCPPrefix T_TCPTail
