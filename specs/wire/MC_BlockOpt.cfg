INIT Init
NEXT Next
INVARIANTS T_DecEnc T_EncDec T_Ranges T_Bert
