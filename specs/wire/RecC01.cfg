INIT Init
NEXT Next
INVARIANTS C01_EncodeOK C01_RefParse C01_RoundTrip C01_Size C01_SizePool C01_TooSmall C01_Refuse C01_NoPanic K01_Bytes
