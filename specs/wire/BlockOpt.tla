------------------------------ MODULE BlockOpt ------------------------------
(***************************************************************************)
(* RFC 7959 section 2.2: the value of a Block1/Block2 option is an         *)
(* unsigned integer of 0..3 bytes,  NUM (up to 20 bits) | M (1) | SZX (3). *)
(* Written from the RFC text, not from net/blockwise/blockwise.go.         *)
(***************************************************************************)
EXTENDS Integers, Functions

MaxValue == 16777215          \* 2^24 - 1 : three bytes
MaxNum   == 1048575           \* 2^20 - 1

InDecDomain(v) == v \in 0..MaxValue
Dec(v) == [szx |-> v % 8, more |-> ((v \div 8) % 2 = 1), num |-> v \div 16]

InEncDomain(s, n) == s \in 0..7 /\ n \in 0..MaxNum
Enc(s, n, m) == n * 16 + (IF m THEN 8 ELSE 0) + s

\* block size in bytes for exponent s; 7 is BERT (RFC 8323 section 6): multiples of 1024
Size(s) == IF s = 7 THEN 1024 ELSE 2 ^ (s + 4)

\* RFC 8323 section 6: a BERT block carries a whole multiple of 1024 bytes that fits the
\* maximum message size (net/blockwise: the sender's buffer for SZX 7)
BertBuf(mms) == (mms \div 1024) * 1024

\* ---- digests used to cover the complete domain through the real code (DESIGN 5 C19) ----
P1 == 32749
P2 == 32719
HDec(v)  == IF ~InDecDomain(v) THEN 1 ELSE LET d == Dec(v) IN 2 + d.szx * 3 + (IF d.more THEN 5 ELSE 0) + (d.num % 30011) * 7 + (d.num \div 30011)
HEnc(s, n, m) == IF ~InEncDomain(s, n) THEN 1 ELSE LET e == Enc(s, n, m) IN 2 + (e % 30011) * 3 + (e \div 30011)
SumDec(lo, j0, n, p) == FoldFunctionOnSet(LAMBDA a, b : (a + b) % p, 0, [j \in 0..(n-1) |-> ((j + 1) % p) * (HDec(lo + j) % p)], 0..(n-1))
SumEnc(s, m, lo, j0, n, p) == FoldFunctionOnSet(LAMBDA a, b : (a + b) % p, 0, [j \in 0..(n-1) |-> ((j + 1) % p) * (HEnc(s, lo + j, m) % p)], 0..(n-1))
=============================================================================
