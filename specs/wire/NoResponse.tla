----------------------------- MODULE NoResponse -----------------------------
(***************************************************************************)
(* RFC 7967 section 2.1: the No-Response option value is a bit map; a set  *)
(* bit says the client is not interested in that response CLASS:           *)
(*   2 (bit 1) -> 2.xx,  8 (bit 3) -> 4.xx,  16 (bit 4) -> 5.xx.           *)
(* A response code byte is class(3 bits).detail(5 bits).                   *)
(***************************************************************************)
EXTENDS Integers
Bit(v, k)  == (v \div (2 ^ k)) % 2 = 1
Class(code) == code \div 32
Suppressed(v, code) ==
    \/ Class(code) = 2 /\ Bit(v, 1)
    \/ Class(code) = 4 /\ Bit(v, 3)
    \/ Class(code) = 5 /\ Bit(v, 4)
=============================================================================
