------------------------------- MODULE RecC01 -------------------------------
(* Judges records of the REAL udp/coder, tcp/coder and pooled-message marshal API (harness/drv/wire) *)
(* against CoapWire. One initial state per record, one invariant per clause of C01.                 *)
EXTENDS CoapWire, Json, IOUtils
Recs == ndJsonDeserialize(IOEnv.VF_RECS)
VARIABLES i, ph
Init == i \in 1..Len(Recs) /\ ph = 0
Next == ph = 0 /\ ph' = 1 /\ UNCHANGED i
J == ph = 1
R == Recs[i]
Udp == R.tr = "udp"
Pre == IF Udp THEN PreUDP(R.m) ELSE PreTCP(R.m)
Same(a, b) == /\ a.code = b.code /\ a.tok = b.tok /\ a.opts = b.opts /\ a.pay = b.pay
              /\ (Udp => (a.type = b.type /\ a.mid = b.mid))
Bytes == R.enc.bytes

\* a well-formed message is encoded ...
C01_EncodeOK  == (J /\ Pre) => (~R.panic /\ ~R.enc.err)
\* ... into bytes that an independent RFC parser reads back as the same message, consuming all of them
C01_RefParse  == (J /\ Pre /\ ~R.panic /\ ~R.enc.err) =>
                   IF Udp THEN LET p == ParseUDP(Bytes) IN p.ok /\ Same(p.m, R.m) /\ p.n = Len(Bytes)
                          ELSE LET p == ParseTCP(Bytes) IN p.st = "ok" /\ Same(p.m, R.m) /\ p.n = Len(Bytes)
\* ... and the library's own decoder yields an equal message and consumes exactly the bytes produced
C01_RoundTrip == (J /\ Pre /\ ~R.panic /\ ~R.enc.err) => (~R.dec.err /\ Same(R.dec.m, R.m) /\ R.dec.n = Len(Bytes))
\* the size reported in advance equals the number of bytes written
C01_Size      == (J /\ Pre /\ R.api = "raw" /\ ~R.panic) => (~R.size.err /\ ~R.enc.err /\ R.size.n = R.enc.n /\ R.enc.n = Len(Bytes))
C01_SizePool  == (J /\ Pre /\ R.api # "raw" /\ ~R.panic /\ ~R.enc.err) => R.enc.n = Len(Bytes)
\* a too-small buffer: error, the same size, nothing written beyond the buffer
C01_TooSmall  == (J /\ Pre /\ R.api = "raw" /\ ~R.panic) =>
                   \A k \in 1..Len(R.small) : LET s == R.small[k] IN s.err /\ ~s.panic /\ s.canary /\ s.n = R.size.n
\* outside the preconditions for one of the named reasons: refused, not truncated
C01_Refuse    == (J /\ (IF Udp THEN MustRefuseUDP(R.m) ELSE MustRefuseTCP(R.m))) => (R.panic \/ R.enc.err)
C01_NoPanic   == J => ~R.panic
\* conformance only: the bytes are the canonical (shortest) RFC encoding
K01_Bytes     == (J /\ Pre /\ ~R.panic /\ ~R.enc.err) => Bytes = (IF Udp THEN EncUDP(R.m) ELSE EncTCP(R.m))
=============================================================================
