INIT Init
NEXT Next
INVARIANTS T_OnlyResponseClasses T_Zero T_All T_HighBitsIgnored
