------------------------------- MODULE RecC02 -------------------------------
(* Judges what the REAL decoders did with arbitrary byte strings (harness/drv/wire) against the   *)
(* reference parser of CoapWire. One initial state per record, one invariant per clause of C02.   *)
EXTENDS CoapWire, Json, IOUtils
Recs == ndJsonDeserialize(IOEnv.VF_RECS)
VARIABLES i, ph
Init == i \in 1..Len(Recs) /\ ph = 0
Next == ph = 0 /\ ph' = 1 /\ UNCHANGED i
J == ph = 1
R == Recs[i]
Udp == R.tr = "udp"
Same(a, b) == /\ a.code = b.code /\ a.tok = b.tok /\ a.opts = b.opts /\ a.pay = b.pay
              /\ (Udp => (a.type = b.type /\ a.mid = b.mid))
Done == ~R.panic /\ ~R.timeout
RefU == ParseUDP(R.b)
RefT == ParseTCP(R.b)
RefOK == IF Udp THEN RefU.ok ELSE RefT.st = "ok"
RefM  == IF Udp THEN RefU.m ELSE RefT.m
RefN  == IF Udp THEN RefU.n ELSE RefT.n

\* "return in bounded time without crashing"
C02_Total     == J => Done
\* "accept or reject exactly as the reference parser does, yielding the same fields"
\* (a stream buffer that holds MORE than the first frame may also be refused as a whole: the statement
\* fixes the fields of what is accepted, not whether a decoder tolerates trailing bytes)
Trailing == ~Udp /\ RefT.st = "ok" /\ Len(R.b) > RefT.n
C02_Accept    == (J /\ Done /\ RefOK)  => ((Trailing /\ R.d1.err) \/ (~R.d1.err /\ Same(R.d1.m, RefM) /\ R.d1.n = RefN))
C02_Reject    == (J /\ Done /\ ~RefOK) => R.d1.err
\* stream decoders: an incomplete frame is "need more bytes", not a format error, and vice versa
\* (a reserved token length in a header that is still incomplete may be reported either way)
ReservedTkl == ~Udp /\ R.b # <<>> /\ R.b[1] % 16 > 8
\* (a declared frame of 2^32 bytes or more may be waited for or refused)
\* (decided as soon as the length field is complete, whether or not the rest of the header has arrived)
HugeFrame == ~Udp /\ Len(R.b) >= 5 /\ R.b[1] \div 16 = 15
             /\ (R.b[2] * 256 + R.b[3]) + ((65805 + 6 + (R.b[1] % 16) + R.b[4] * 256 + R.b[5]) \div 65536) >= 65536
C02_Short     == (J /\ Done /\ ~Udp /\ R.api = "raw" /\ ~ReservedTkl /\ ~HugeFrame) => ((RefT.st = "short") <=> (R.d1.err /\ R.d1.short))
\* "whatever they accept can be re-encoded, and re-encoding then decoding gives the same message again"
C02_Reencode  == (J /\ Done /\ ~R.d1.err) => ~R.re.err
C02_Idem      == (J /\ Done /\ ~R.d1.err /\ ~R.re.err) => (~R.d2.err /\ Same(R.d2.m, R.d1.m))
\* "never aliases the caller's receive buffer"
C02_NoAlias   == (J /\ Done /\ R.api # "raw" /\ ~R.d1.err) => Same(R.after, R.d1.m)
\* stream header pre-parsing
HRef == ParseTCPHeader(R.b)
C02_HdrAccept == (J /\ Done /\ ~Udp /\ R.api = "raw" /\ HRef.st = "ok" /\ HRef.totHi < 65536) =>
                   (~R.hdr.err /\ R.hdr.len = HRef.hlen /\ R.hdr.n = HRef.hlen /\ R.hdr.code = HRef.code /\ R.hdr.tok = HRef.tok
                    /\ R.hdr.mlhi = HRef.totHi /\ R.hdr.mllo = HRef.totLo)
\* a declared frame length that does not fit 32 bits must not be reported as a small one
C02_HdrHuge   == (J /\ Done /\ ~Udp /\ R.api = "raw" /\ HRef.st = "ok" /\ HRef.totHi >= 65536) =>
                   (R.hdr.err \/ (R.hdr.mlhi = 65535 /\ R.hdr.mllo = 65535))
HdrComplete  == R.b # <<>> /\ Len(R.b) >= 1 + ExtN(R.b[1] \div 16) + 1 + (R.b[1] % 16)
C02_HdrReject == (J /\ Done /\ ~Udp /\ R.api = "raw" /\ HRef.st = "reject") => (R.hdr.err /\ (HdrComplete => ~R.hdr.short))
C02_HdrShort  == (J /\ Done /\ ~Udp /\ R.api = "raw" /\ HRef.st = "short") => (R.hdr.err /\ (R.hdr.short \/ HugeFrame))
\* conformance only: re-encoding gives the canonical bytes of the decoded message
K02_Canon     == (J /\ Done /\ ~R.d1.err /\ ~R.re.err) => R.re.bytes = (IF Udp THEN EncUDP(R.d1.m) ELSE EncTCP(R.d1.m))
=============================================================================
