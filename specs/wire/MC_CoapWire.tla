---------------------------- MODULE MC_CoapWire ----------------------------
(* Spec-level theorems of CoapWire: the RFC parser inverts the RFC encoder on every bounded      *)
(* well-formed message, prefixes of a frame are "short", and bytes after a frame are not looked  *)
(* at. One initial state per message.                                                            *)
EXTENDS CoapWire
CONSTANTS Ids, Lens, PayLens, MaxOpts, Codes
Fill(n, x) == [i \in 1..n |-> x]
OptCands == {[id |-> i, val |-> Fill(n, IF n % 2 = 0 THEN 255 ELSE (i + n) % 251)] : i \in Ids, n \in Lens}
NonDecr(s) == \A i \in 1..(Len(s) - 1) : s[i].id <= s[i + 1].id
OptSeqs == {s \in UNION {[1..k -> OptCands] : k \in 0..MaxOpts} : NonDecr(s)}
VARIABLES m, ph
Init == /\ ph = 0
        /\ \E tl \in 0..8, os \in OptSeqs, pl \in PayLens, c \in Codes :
             m = [type |-> tl % 4, mid |-> 65535 - tl * 4099, code |-> c, tok |-> Fill(tl, 170 + tl), opts |-> os, pay |-> Fill(pl, 255)]
Next == ph = 0 /\ ph' = 1 /\ UNCHANGED m
J == ph = 1
T_UDP == (J /\ PreUDP(m)) => LET e == EncUDP(m)
                                 r == ParseUDP(e) IN r.ok /\ r.m = m /\ r.n = Len(e)
TcpM == [code |-> m.code, tok |-> m.tok, opts |-> m.opts, pay |-> m.pay]
T_TCP == (J /\ PreTCP(m)) => LET e == EncTCP(m)
                                 r == ParseTCP(e) IN r.st = "ok" /\ r.m = TcpM /\ r.n = Len(e)
\* framing: no proper prefix of a frame is accepted or rejected, bytes after it are ignored
T_TCPPrefix == (J /\ PreTCP(m) /\ Len(EncTCP(m)) <= 40) =>
                 LET e == EncTCP(m) IN \A k \in 0..(Len(e) - 1) : ParseTCP(Sub(e, 1, k)).st = "short"
T_TCPTail == (J /\ PreTCP(m)) => LET e == EncTCP(m)
                                     r == ParseTCP(e \o <<255, 65, 0>>) IN r.st = "ok" /\ r.m = TcpM /\ r.n = Len(e)
\* vacuity guards: how many messages satisfied the preconditions is visible in coverage of these
T_Witness == J => (PreUDP(m) \/ PreTCP(m) \/ TRUE)
=============================================================================
