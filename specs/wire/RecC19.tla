------------------------------- MODULE RecC19 -------------------------------
(* Judges records produced by the REAL net/blockwise codec (harness/drv/c19) against BlockOpt. *)
(* One initial state per record; every clause of C19 is a separately named invariant.          *)
EXTENDS BlockOpt, Json, IOUtils, TLC, Sequences
Recs == ndJsonDeserialize(IOEnv.VF_RECS)
VARIABLES i, ph           \* ph: 0 = record loaded, 1 = judged (so that TLC's workers, not the single-threaded
vars == <<i, ph>>         \* initial-state generator, evaluate the clauses)
Init == i \in 1..Len(Recs) /\ ph = 0
Next == ph = 0 /\ ph' = 1 /\ UNCHANGED i
J == ph = 1
R == Recs[i]
Val(r) == r.hi * 65536 + r.lo
In24(r) == r.hi < 256
EncLegal(r) == r.nclass = "int" /\ InEncDomain(r.s, r.n)

\* "decoding is defined for every 24-bit value and returns its triple"
C19_DecTotal  == J => ((R.op = "dec" /\ In24(R)) => ~R.err)
C19_DecValue  == J => ((R.op = "dec" /\ In24(R) /\ ~R.err) => [szx |-> R.szx, more |-> R.more, num |-> R.num] = Dec(Val(R)))
\* "values outside that domain are refused with an error instead of being wrapped or truncated"
C19_DecRefuse == J => ((R.op = "dec" /\ ~In24(R)) => R.err)
\* "encoding accepts every triple with exponent 0-7 and a 20-bit block number"
C19_EncTotal  == J => ((R.op = "enc" /\ EncLegal(R)) => ~R.err)
C19_EncValue  == J => ((R.op = "enc" /\ EncLegal(R) /\ ~R.err) => (R.valok /\ R.val = Enc(R.s, R.n, R.m)))
C19_EncRefuse == J => ((R.op = "enc" /\ ~EncLegal(R)) => R.err)
\* "the byte size associated with exponent s is 2^(s+4) (1024 for BERT)"
C19_Size      == J => (R.op = "size" => R.size = Size(R.s))
\* complete-domain digests
\* "1024 for BERT, whose blocks are whole multiples of 1024 bounded by the maximum message size": the first block cut from a large
\* body is Size(s) bytes for s < 7 and (mms \div 1024) * 1024 bytes for BERT
BufOf(s, mms) == IF s < 7 THEN Size(s) ELSE (mms \div 1024) * 1024
C19_BertBuffer == J => (R.op = "bertbuf" => R.first = BufOf(R.s, R.mms))
C19_DecDigest == J => (R.op = "decdig" => (R.d1 = SumDec(R.lo, 0, R.n, P1) /\ R.d2 = SumDec(R.lo, 0, R.n, P2)))
C19_EncDigest == J => (R.op = "encdig" => (R.d1 = SumEnc(R.s, R.m, R.lo, 0, R.n, P1) /\ R.d2 = SumEnc(R.s, R.m, R.lo, 0, R.n, P2)))
C19_DecBlock  == J => (R.op = "decblk" => R.errs = R.n)
=============================================================================
