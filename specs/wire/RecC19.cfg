INIT Init
NEXT Next
INVARIANTS C19_DecTotal C19_DecValue C19_DecRefuse C19_EncTotal C19_EncValue C19_EncRefuse C19_Size C19_BertBuffer C19_DecDigest C19_EncDigest C19_DecBlock
