INIT Init
NEXT Next
CONSTANT Dom <- Full
INVARIANTS T_DecEnc T_EncDec T_Ranges T_Bert
