---------------------------- MODULE MC_BlockOpt ----------------------------
(* Spec-level theorems of BlockOpt, checked by TLC over the domain Dom (one initial state per  *)
(* value; the thorough tier uses the whole 24-bit domain).                                     *)
EXTENDS BlockOpt, TLC
VARIABLES v, ph
Full  == 0..MaxValue
Quick == (0..70000) \cup ((MaxValue - 70000)..MaxValue) \cup {k * 4099 : k \in 0..4000}
Dom   == Quick
Init == v \in Dom /\ ph = 0
Next == ph = 0 /\ ph' = 1 /\ UNCHANGED v
\* decode then encode is the identity on every 24-bit value, and the triple is in the encoder domain
T_DecEnc == LET d == Dec(v) IN InEncDomain(d.szx, d.num) /\ Enc(d.szx, d.num, d.more) = v
\* encode lands in the 24-bit domain and decode gives the triple back (v re-read as szx/num/more)
T_EncDec == LET s == v % 8  m == (v \div 8) % 2 = 1  n == v \div 16 IN
            /\ InDecDomain(Enc(s, n, m))
            /\ Dec(Enc(s, n, m)) = [szx |-> s, more |-> m, num |-> n]
T_Ranges == LET d == Dec(v) IN d.szx \in 0..7 /\ d.num \in 0..MaxNum /\ Size(d.szx) \in {16,32,64,128,256,512,1024}
T_Bert   == \A mms \in {1152, 2047, 2048, 2500, 65536} : BertBuf(mms) % 1024 = 0 /\ BertBuf(mms) <= mms /\ BertBuf(mms) + 1024 > mms
=============================================================================
