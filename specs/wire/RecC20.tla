------------------------------- MODULE RecC20 -------------------------------
(* Judges records of the REAL noresponse.IsNoResponseCode, ResponseWriter.SetResponse and of    *)
(* end-to-end exchanges (harness/drv/c20) against RFC 7967.  v = vhi*65536 + vlo; only the low  *)
(* half carries the class bits.                                                                  *)
EXTENDS NoResponse, Json, IOUtils, TLC, Sequences
Recs == ndJsonDeserialize(IOEnv.VF_RECS)
VARIABLES i, ph
Init == i \in 1..Len(Recs) /\ ph = 0
Next == ph = 0 /\ ph' = 1 /\ UNCHANGED i
J == ph = 1
R == Recs[i]
Sup(r) == Suppressed(r.vlo, r.code)

\* the pure predicate over the whole table
C20_TableRefuse == J => ((R.op = "isnr" /\ Sup(R)) => R.refused)
C20_TableAccept == J => ((R.op = "isnr" /\ ~Sup(R)) => ~R.refused)
\* "a handler's attempt to set a response through the response writer is refused exactly when ..."
C20_SetRefused  == J => ((R.op = "setresp" /\ R.has /\ Sup(R)) => (R.refused /\ ~R.changed))
C20_SetAccepted == J => ((R.op = "setresp" /\ (~R.has \/ ~Sup(R))) => (~R.refused /\ R.codeAfter = R.code))
\* ... also when the handler has already touched the response: prepared it through Message() (first = 0) or set an accepted response
\* before: a refused attempt leaves what was there, an accepted one replaces it
C20_SetAgain == J => (R.op = "setagain" => (R.refused = Sup(R) /\ R.codeAfter = (IF Sup(R) THEN R.first ELSE R.code)))
\* wire level: "a suppressed response is never put on the wire (a confirmable request still gets its
\* bare acknowledgement) and a response of a class that was not suppressed is never dropped"
C20_NotOnWire   == J => ((R.op = "wire" /\ Sup(R)) => (R.responses = 0 /\ (R.con => R.acks = 1)))
C20_NotDropped  == J => ((R.op = "wire" /\ ~Sup(R)) => (R.responses = 1 /\ R.respCode = R.code /\ R.respTokOK))
C20_HandlerRan  == J => (R.op = "wire" => R.handlerRuns = 1)
=============================================================================
