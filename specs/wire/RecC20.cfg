INIT Init
NEXT Next
INVARIANTS C20_TableRefuse C20_TableAccept C20_SetRefused C20_SetAccepted C20_SetAgain C20_NotOnWire C20_NotDropped C20_HandlerRan
