INIT Init
NEXT Next
INVARIANTS C02_Total C02_Accept C02_Reject C02_Short C02_Reencode C02_Idem C02_NoAlias C02_HdrAccept C02_HdrHuge C02_HdrReject C02_HdrShort K02_Canon
