INIT Init
NEXT Next
INVARIANTS C07_Exact C07_Monotone C07_Oversize C07_NoSpuriousClose C07_AllFed
