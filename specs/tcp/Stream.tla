------------------------------- MODULE Stream -------------------------------
(***************************************************************************)
(* tcp/client.Session.Run / processBuffer (C07): bytes arrive in reads of   *)
(* arbitrary size (at most the connection cache size); after every read the *)
(* buffer is processed:                                                     *)
(*   header incomplete          -> wait for more bytes                      *)
(*   header is a format error   -> close with an error                      *)
(*   declared length > MaxSize  -> close with an error (at once, the body   *)
(*                                 is neither awaited nor buffered)         *)
(*   frame incomplete           -> wait                                     *)
(*   else decode exactly the frame, deliver it, drop it from the buffer,    *)
(*        continue with the rest                                            *)
(* Frame syntax comes from CoapWire (RFC 8323 3.2).                         *)
(***************************************************************************)
EXTENDS CoapWire

\* the declared frame is longer than the configured maximum message size (16-bit halves: no 32-bit overflow in TLC)
Over(h, max) == h.totHi >= 16384 \/ h.totHi * 65536 + h.totLo > max
\* what processing a buffer does: [buf (what is left), out (delivered messages), closed]
RECURSIVE Proc(_, _, _)
Proc(buf, out, max) ==
  IF buf = <<>> THEN [buf |-> buf, out |-> out, closed |-> FALSE]
  ELSE LET h == ParseTCPHeader(buf) IN
       IF h.st = "short" THEN [buf |-> buf, out |-> out, closed |-> FALSE]
       ELSE IF h.st = "reject" THEN [buf |-> <<>>, out |-> out, closed |-> TRUE]
       ELSE IF Over(h, max) THEN [buf |-> <<>>, out |-> out, closed |-> TRUE]
       ELSE IF Len(buf) < Total(h) THEN [buf |-> buf, out |-> out, closed |-> FALSE]
       ELSE LET p == ParseTCP(Sub(buf, 1, Total(h))) IN
            IF p.st # "ok" THEN [buf |-> <<>>, out |-> out, closed |-> TRUE]
            ELSE Proc(Sub(buf, Total(h) + 1, Len(buf)), Append(out, p.m), max)
\* the frames of a whole stream (what any segmentation must deliver), and whether it ends in a close
Whole(stream, max) == Proc(stream, <<>>, max)
IsPrefix(a, b) == Len(a) <= Len(b) /\ Sub(b, 1, Len(a)) = a
=============================================================================
