------------------------------- MODULE RecC07 -------------------------------
(* Judges what a REAL tcp/client.Conn delivered for a byte stream cut into reads (harness/drv/c07).       *)
EXTENDS StreamCat, Json, IOUtils, Functions
Recs == ndJsonDeserialize(IOEnv.VF_RECS)
VARIABLES i, ph
Init == i \in 1..Len(Recs) /\ ph = 0
Next == ph = 0 /\ ph' = 1 /\ UNCHANGED i
J == ph = 1
R == Recs[i]
Bytes == BytesOf(Cat[R.si])
W == Whole(Bytes, R.max)
IsSig(m) == m.code \in 225..229
Sum(s) == FoldFunction(LAMBDA a, b : (a + b) % 65521, 0, s)
Summ(m) == [code |-> m.code, tok |-> m.tok, paylen |-> Len(m.pay), paysum |-> Sum(m.pay), nopts |-> Len(m.opts)]
ExpMsgs == LET s == SelectSeq(W.out, LAMBDA m : ~IsSig(m) /\ ~Refused(m)) IN [k \in 1..Len(s) |-> Summ(s[k])]
ExpSigs == LET s == SelectSeq(W.out, LAMBDA m : IsSig(m)) IN [k \in 1..Len(s) |-> s[k].code]
\* bytes needed before the connection must be closed: up to and including the header of the first bad frame
RECURSIVE CloseAt(_, _)
CloseAt(buf, off) == LET h == ParseTCPHeader(buf) IN
                     IF h.st # "ok" THEN off + Len(buf) + 1     \* never (short) - beyond the stream
                     ELSE IF Over(h, R.max) THEN off + h.hlen
                     ELSE IF Len(buf) < Total(h) THEN off + Len(buf) + 1
                     ELSE CloseAt(Sub(buf, Total(h) + 1, Len(buf)), off + Total(h))
MustCloseAt == CloseAt(Bytes, 0)

\* "delivers exactly the sent messages, each once, complete and in order" (ordinary messages to the handler,
\*  signalling messages to the signal callback), whatever the segmentation and the read-buffer size
\* (when the stream ends in a forced close, messages that were complete but still queued at that moment may be
\*  discarded with the connection: then what was delivered is a prefix)
C07_Exact     == J => IF W.closed THEN IsPrefix(R.msgs, ExpMsgs) /\ IsPrefix(R.sigs, ExpSigs)
                      ELSE R.msgs = ExpMsgs /\ R.sigs = ExpSigs
\* ... and at no time more than that or out of order
C07_Monotone  == J => \A k \in 1..Len(R.reads) : R.reads[k].nmsgs + R.reads[k].nsigs <= Len(W.out)
\* "a frame whose declared length exceeds the configured maximum message size is never delivered, nor is anything
\*  that follows it: the connection is closed with an error as soon as the offending header is seen"
C07_Oversize  == (J /\ W.closed) => (R.closed /\ \A k \in 1..Len(R.reads) : R.reads[k].pos >= MustCloseAt => R.reads[k].closed)
C07_NoSpuriousClose == (J /\ ~W.closed) => ~R.closed
C07_AllFed    == (J /\ ~W.closed) => (R.reads # <<>> /\ R.reads[Len(R.reads)].pos = Len(Bytes))
=============================================================================
