INIT Init
NEXT Next
INVARIANTS K07_SigPongs K07_SigPings K07_SigCallbacks K07_SigGating K07_SigLive
