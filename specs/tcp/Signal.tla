------------------------------- MODULE Signal -------------------------------
(* RFC 8323 section 5 signalling as tcp/client.Conn implements it (handleSignals, sendPong, AsyncPing, the gating of the   *)
(* block-wise layer by the peer's CSM in do / WriteMessage / handle). One connection; the peer's signals and the local     *)
(* application's pings and large requests are events.                                                                       *)
(*   csm(size, bw)  a Capabilities and Settings message: Max-Message-Size present (size > 0) or not, Block-Wise-Transfer  *)
(*                  present or not. Settings persist: a later CSM without an option changes nothing (RFC 8323 5.3: "the   *)
(*                  value persists"), Block-Wise-Transfer cannot be taken back.                                            *)
(*   ping(t)        the peer pings with token t: one Pong with the same token (5.4).                                       *)
(*   aping          the local application starts an asynchronous ping: a Ping with a fresh token is written and waits.    *)
(*   pong(g)        a Pong with the token of the g-th own ping (g = 0: a token nobody waits for): completes exactly that   *)
(*                  ping, once; any other Pong only reaches the signal callback.                                           *)
(*   release/abort  reach the signal callback; the connection does nothing else with them (the code has TODOs there).      *)
(*   bigreq         the local application issues a request with a body of several blocks: it goes out block-wise iff the  *)
(*                  connection has the block-wise layer AND the peer has announced Block-Wise-Transfer.                    *)
EXTENDS Integers, Sequences, FiniteSets
S0 == [bw |-> FALSE, max |-> 0, issued |-> 0, pend |-> {}, done |-> <<>>, pongs |-> <<>>, cbs |-> <<>>, reqs |-> <<>>]
Events == {[e |-> "csm", a |-> s, b |-> b] : s \in {0, 1152, 70000}, b \in {0, 1}}
          \cup {[e |-> "ping", a |-> t, b |-> 0] : t \in 1..2}
          \cup {[e |-> x, a |-> 0, b |-> 0] : x \in {"aping", "release", "abort", "bigreq"}}
          \cup {[e |-> "pong", a |-> g, b |-> 0] : g \in 0..3}
Enabled(s, ev) == CASE ev.e = "pong" -> ev.a <= s.issued
                    [] ev.e = "aping" -> s.issued < 3
                    [] OTHER -> TRUE
Step(s, ev) ==
  CASE ev.e = "csm" -> [s EXCEPT !.bw = s.bw \/ ev.b = 1, !.max = IF ev.a > 0 THEN ev.a ELSE s.max, !.cbs = Append(s.cbs, "csm")]
    [] ev.e = "ping" -> [s EXCEPT !.pongs = Append(s.pongs, ev.a), !.cbs = Append(s.cbs, "ping")]
    [] ev.e = "aping" -> [s EXCEPT !.issued = s.issued + 1, !.pend = s.pend \cup {s.issued + 1}]
    [] ev.e = "pong" -> [s EXCEPT !.pend = s.pend \ {ev.a}, !.done = IF ev.a \in s.pend THEN Append(s.done, ev.a) ELSE s.done,
                                  !.cbs = Append(s.cbs, "pong")]
    [] ev.e = "release" -> [s EXCEPT !.cbs = Append(s.cbs, "release")]
    [] ev.e = "abort" -> [s EXCEPT !.cbs = Append(s.cbs, "abort")]
    [] ev.e = "bigreq" -> [s EXCEPT !.reqs = Append(s.reqs, s.bw)]
RECURSIVE Run(_, _, _)
Run(s, h, k) == IF k > Len(h) THEN s ELSE Run(Step(s, h[k]), h, k + 1)

(* design-level *)
SetOf(q) == {q[k] : k \in 1..Len(q)}
\* every own ping is waiting, or has been completed exactly once - never both, never twice
PingsSane(s) == /\ s.pend \cap SetOf(s.done) = {}
                /\ \A a, b \in 1..Len(s.done) : a # b => s.done[a] # s.done[b]
                /\ s.pend \cup SetOf(s.done) \subseteq 1..s.issued
\* a request goes out block-wise only after the peer has announced the capability
GatedByCSM(s, h) == \A k \in 1..Len(s.reqs) : s.reqs[k] => \E j \in 1..Len(h) : h[j].e = "csm" /\ h[j].b = 1
=============================================================================
