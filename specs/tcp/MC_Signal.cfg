INIT Init
NEXT Next
CONSTANTS
  Walks = 0
  MaxEvents = 5
INVARIANTS Inv_PingsSane Inv_Gated
PROPERTIES BwStays
CHECK_DEADLOCK FALSE
