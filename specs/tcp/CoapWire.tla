------------------------------ MODULE CoapWire ------------------------------
(***************************************************************************)
(* CoAP message formats as TLA+ operators, written from                    *)
(*   RFC 7252 section 3 / 3.1 (datagram format, option format),           *)
(*   RFC 8323 section 3.2 / 3.3 (stream format, length field) and 5.x      *)
(*   (signalling option tables),                                           *)
(* NOT from udp/coder, tcp/coder or message/options.go.                    *)
(* A byte string is a sequence over 0..255. A message is                   *)
(*   [type, mid, code, tok, opts, pay], opts a sequence of [id, val].      *)
(* The library's three documented leniencies are separate, named           *)
(* predicates (KeepOption, EmptyPayloadAfterMarker).                       *)
(***************************************************************************)
EXTENDS Integers, Sequences, FiniteSets, TLC

Sub(b, i, j) == IF j < i THEN <<>> ELSE SubSeq(b, i, j)

(* ------------------------- option registries --------------------------- *)
\* id :> <<min length, max length>>   (RFC 7252 5.10, 7641, 7959, 7967)
CoapDefs ==
  (1 :> <<0, 8>>) @@ (3 :> <<1, 255>>) @@ (4 :> <<1, 8>>) @@ (5 :> <<0, 0>>) @@ (6 :> <<0, 3>>) @@
  (7 :> <<0, 2>>) @@ (8 :> <<0, 255>>) @@ (11 :> <<0, 255>>) @@ (12 :> <<0, 2>>) @@ (14 :> <<0, 4>>) @@
  (15 :> <<0, 255>>) @@ (17 :> <<0, 2>>) @@ (20 :> <<0, 255>>) @@ (23 :> <<0, 3>>) @@ (27 :> <<0, 3>>) @@
  (28 :> <<0, 4>>) @@ (35 :> <<1, 1034>>) @@ (39 :> <<1, 255>>) @@ (60 :> <<0, 4>>) @@ (258 :> <<0, 1>>)
\* RFC 8323 5.3 .. 5.6: options of signalling messages are scoped by the code
CsmDefs      == (2 :> <<0, 4>>) @@ (4 :> <<0, 0>>)
PingPongDefs == (2 :> <<0, 0>>)
ReleaseDefs  == (2 :> <<1, 255>>) @@ (4 :> <<0, 3>>)
AbortDefs    == (2 :> <<0, 2>>)
DefsFor(transport, code) ==
  IF transport = "tcp" /\ code = 225 THEN CsmDefs
  ELSE IF transport = "tcp" /\ code \in {226, 227} THEN PingPongDefs
  ELSE IF transport = "tcp" /\ code = 228 THEN ReleaseDefs
  ELSE IF transport = "tcp" /\ code = 229 THEN AbortDefs
  ELSE CoapDefs
LegalLen(defs, id, n) == id \notin DOMAIN defs \/ (n >= defs[id][1] /\ n <= defs[id][2])

(* ----------------------------- encoding -------------------------------- *)
\* RFC 7252 3.1: delta / length nibble 0..12 literal, 13: one more byte (value-13), 14: two (value-269)
Nib(x) == IF x < 13 THEN x ELSE IF x < 269 THEN 13 ELSE 14
Ext(x) == IF x < 13 THEN <<>> ELSE IF x < 269 THEN <<x - 13>> ELSE <<(x - 269) \div 256, (x - 269) % 256>>
EncOpt(prev, o) == <<Nib(o.id - prev) * 16 + Nib(Len(o.val))>> \o Ext(o.id - prev) \o Ext(Len(o.val)) \o o.val
RECURSIVE EncOpts(_, _)
EncOpts(prev, opts) == IF opts = <<>> THEN <<>> ELSE EncOpt(prev, Head(opts)) \o EncOpts(Head(opts).id, Tail(opts))
PayPart(m) == IF m.pay = <<>> THEN <<>> ELSE <<255>> \o m.pay
EncUDP(m) == <<64 + m.type * 16 + Len(m.tok), m.code, m.mid \div 256, m.mid % 256>> \o m.tok \o EncOpts(0, m.opts) \o PayPart(m)
\* RFC 8323 3.2: Len nibble 0..12 literal, 13: 8-bit (len-13), 14: 16-bit (len-269), 15: 32-bit (len-65805)
LenNib(n) == IF n < 13 THEN n ELSE IF n < 269 THEN 13 ELSE IF n < 65805 THEN 14 ELSE 15
LenExt(n) == IF n < 13 THEN <<>> ELSE IF n < 269 THEN <<n - 13>>
             ELSE IF n < 65805 THEN <<(n - 269) \div 256, (n - 269) % 256>>
             ELSE LET e == n - 65805 IN <<e \div 16777216, (e \div 65536) % 256, (e \div 256) % 256, e % 256>>
EncTCP(m) == LET body == EncOpts(0, m.opts) \o PayPart(m) IN
             <<LenNib(Len(body)) * 16 + Len(m.tok)>> \o LenExt(Len(body)) \o <<m.code>> \o m.tok \o body

(* --------------------------- preconditions ----------------------------- *)
RECURSIVE Ascending(_, _)
Ascending(prev, opts) == opts = <<>> \/ (Head(opts).id >= prev /\ Ascending(Head(opts).id, Tail(opts)))
OptsOK(defs, opts) == /\ Ascending(1, opts)              \* ascending, numbers non-zero
                      /\ \A i \in 1..Len(opts) : /\ opts[i].id \in 1..65535
                                                 /\ Len(opts[i].val) <= 65804
                                                 /\ LegalLen(defs, opts[i].id, Len(opts[i].val))
PreCommon(transport, m) == Len(m.tok) <= 8 /\ m.code \in 0..255 /\ OptsOK(DefsFor(transport, m.code), m.opts)
PreUDP(m) == PreCommon("udp", m) /\ m.type \in 0..3 /\ m.mid \in 0..65535
PreTCP(m) == PreCommon("tcp", m)
\* the three refusals the statement names
MustRefuseUDP(m) == Len(m.tok) > 8 \/ m.type \notin 0..3 \/ m.mid \notin 0..65535
MustRefuseTCP(m) == Len(m.tok) > 8

(* ------------------------------ parsing -------------------------------- *)
Bad == [ok |-> FALSE]
ExtVal(b, p, end, nib) ==
  IF nib < 13 THEN [ok |-> TRUE, val |-> nib, next |-> p]
  ELSE IF nib = 13 THEN (IF p > end THEN Bad ELSE [ok |-> TRUE, val |-> b[p] + 13, next |-> p + 1])
  ELSE (IF p + 1 > end THEN Bad ELSE [ok |-> TRUE, val |-> b[p] * 256 + b[p + 1] + 269, next |-> p + 2])

\* documented leniencies 1 and 2: an option numbered 0, or whose length is outside the registry
\* bounds of the table in force, is dropped (the rest of the message is still parsed)
KeepOption(defs, id, n) == id # 0 /\ LegalLen(defs, id, n)

RECURSIVE POpts(_, _, _, _, _, _)
POpts(b, p, end, prev, acc, defs) ==
  IF p > end THEN [ok |-> TRUE, opts |-> acc, marker |-> FALSE, next |-> p]
  ELSE IF b[p] = 255 THEN [ok |-> TRUE, opts |-> acc, marker |-> TRUE, next |-> p + 1]
  ELSE LET dn == b[p] \div 16
           ln == b[p] % 16 IN
       IF dn = 15 \/ ln = 15 THEN Bad                       \* 15 is reserved (RFC 7252 3.1)
       ELSE LET d == ExtVal(b, p + 1, end, dn) IN
            IF ~d.ok THEN Bad
            ELSE LET l == ExtVal(b, d.next, end, ln) IN
                 IF ~l.ok THEN Bad
                 ELSE LET id   == prev + d.val
                          vend == l.next + l.val - 1 IN
                      IF vend > end THEN Bad                 \* value runs past the end
                      ELSE IF id > 65535 THEN Bad            \* option number is a 16-bit unsigned integer
                      ELSE POpts(b, vend + 1, end, id,
                                 IF KeepOption(defs, id, l.val) THEN Append(acc, [id |-> id, val |-> Sub(b, l.next, vend)]) ELSE acc,
                                 defs)

\* leniency 3: a payload marker followed by nothing means "no payload" (RFC 7252 calls it a format error)
EmptyPayloadAfterMarker == TRUE
PayOK(r, end) == ~r.marker \/ r.next <= end \/ EmptyPayloadAfterMarker

Rej == [ok |-> FALSE]
ParseUDP(b) ==
  IF Len(b) < 4 THEN Rej
  ELSE IF b[1] \div 64 # 1 THEN Rej                          \* version must be 1
  ELSE LET tkl == b[1] % 16 IN
       IF tkl > 8 THEN Rej                                   \* lengths 9-15 are reserved
       ELSE IF Len(b) < 4 + tkl THEN Rej
       ELSE LET r == POpts(b, 5 + tkl, Len(b), 0, <<>>, CoapDefs) IN
            IF ~r.ok \/ ~PayOK(r, Len(b)) THEN Rej
            ELSE [ok |-> TRUE, n |-> Len(b),
                  m |-> [type |-> (b[1] \div 16) % 4, code |-> b[2], mid |-> b[3] * 256 + b[4],
                         tok |-> Sub(b, 5, 4 + tkl), opts |-> r.opts, pay |-> Sub(b, r.next, Len(b))]]

\* Stream header (RFC 8323 3.2). st: "short" = more bytes needed, "reject" = format error, "ok".
\* The total frame length can exceed 2^31, so it is kept as 16-bit halves <<hi, lo>>; hi >= 65536
\* means the declared frame does not fit 32 bits.
ExtN(lenNib) == IF lenNib < 13 THEN 0 ELSE IF lenNib = 13 THEN 1 ELSE IF lenNib = 14 THEN 2 ELSE 4
ParseTCPHeader(b) ==
  IF Len(b) = 0 THEN [st |-> "short"]
  ELSE LET lenNib == b[1] \div 16
           tkl    == b[1] % 16
           extN   == ExtN(lenNib)
           hlen   == 1 + extN + 1 + tkl IN
       IF tkl > 8 THEN [st |-> "reject"]                     \* RFC 8323 3.2: 9-15 reserved, format error
       ELSE IF Len(b) < hlen THEN [st |-> "short"]
       ELSE LET base == IF lenNib < 13 THEN lenNib
                        ELSE IF lenNib = 13 THEN 13 + b[2]
                        ELSE IF lenNib = 14 THEN 269 + b[2] * 256 + b[3]
                        ELSE 65805 + b[4] * 256 + b[5]
                eHi  == IF lenNib = 15 THEN b[2] * 256 + b[3] ELSE 0
                s    == base + hlen IN
            [st |-> "ok", hlen |-> hlen, code |-> b[1 + extN + 1], tok |-> Sub(b, 1 + extN + 2, hlen),
             totHi |-> eHi + s \div 65536, totLo |-> s % 65536]
HdrFits(h, n) == h.totHi < 16384 /\ h.totHi * 65536 + h.totLo <= n
Total(h) == h.totHi * 65536 + h.totLo

\* Stream decoder on a buffer that starts with a frame: only the declared frame is looked at.
ParseTCP(b) ==
  LET h == ParseTCPHeader(b) IN
  IF h.st # "ok" THEN h
  ELSE IF ~HdrFits(h, Len(b)) THEN [st |-> "short"]
  ELSE LET end == Total(h)
           r   == POpts(b, h.hlen + 1, end, 0, <<>>, DefsFor("tcp", h.code)) IN
       IF ~r.ok \/ ~PayOK(r, end) THEN [st |-> "reject"]
       ELSE [st |-> "ok", n |-> end,
             m |-> [code |-> h.code, tok |-> h.tok, opts |-> r.opts, pay |-> Sub(b, r.next, end)]]
=============================================================================
