------------------------------ MODULE MC_Stream ------------------------------
(* Streams of C07 (built with the RFC encoder of CoapWire), every segmentation of the small ones, and the        *)
(* generator output: the streams as bytes and one schedule (sequence of read sizes) per maximal behaviour.         *)
EXTENDS StreamCat, Json
CONSTANTS SI, Cache, Explore
Bytes == BytesOf(Cat[SI])
Max == Cat[SI].max
ASSUME JsonSerialize("stream.json", [si |-> SI, max |-> Max, bytes |-> Bytes, nframes |-> Len(Cat[SI].frames)])
\* directed schedules for streams too long for exhaustive segmentation (expanded by the driver):
\* single bytes; reads of c bytes; a first read of k bytes (a cut inside / right after every header position) then c-byte reads
ASSUME JsonSerialize("directed.json",
  <<[kind |-> "ones", k |-> 0, c |-> 1]>> \o [c \in 1..3 |-> [kind |-> "chunks", k |-> 0, c |-> <<7, 2048, 65535>>[c]]]
  \o [k \in 1..24 |-> [kind |-> "split", k |-> k, c |-> 2048]] \o [k \in 1..12 |-> [kind |-> "split", k |-> k, c |-> 7]])

VARIABLES pos, buf, out, closed, cuts
Init == pos = 0 /\ buf = <<>> /\ out = <<>> /\ closed = FALSE /\ cuts = <<>>
Read(n) == /\ ~closed /\ pos + n <= Len(Bytes)
           /\ LET r == Proc(buf \o Sub(Bytes, pos + 1, pos + n), out, Max) IN
              buf' = r.buf /\ out' = r.out /\ closed' = r.closed
           /\ pos' = pos + n /\ cuts' = Append(cuts, n)
Next == Explore /\ \E n \in 1..Cache : Read(n)
W == Whole(Bytes, Max)
\* "delivers exactly the sent messages, each once, complete and in order", whatever the segmentation
Inv_Prefix == IsPrefix(out, W.out)
Inv_Final  == (pos = Len(Bytes) \/ closed) => (out = W.out /\ closed = W.closed)
\* an oversize or malformed frame closes the connection as soon as its header is complete - nothing after it is delivered
Inv_NothingAfterClose == closed => out = W.out
Emit == (closed \/ pos = Len(Bytes)) => PrintT(<<"CUTS", cuts>>)
=============================================================================
