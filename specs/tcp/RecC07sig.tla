------------------------------ MODULE RecC07sig ------------------------------
(* Conformance of a REAL tcp/client.Conn with Signal.tla (RFC 8323 section 5 as the connection implements it): every       *)
(* recorded history (harness/drv/c07/signal.go) is run through the specification and what the connection did is compared.  *)
(* Signalling is not part of the statement of C07 (or of any listed property): these clauses are conformance-only (K).      *)
EXTENDS Signal, TLC, Json, IOUtils
Traces == ndJsonDeserialize(IOEnv.VF_RECS)
VARIABLES i, ph
Init == i \in 1..Len(Traces) /\ ph = 0
Next == ph = 0 /\ ph' = 1 /\ UNCHANGED i
J == ph = 1
T == Traces[i]
MF == Run(S0, T.ev, 1)
\* one Pong per Ping of the peer, with the Ping's token, in order
K07_SigPongs == J => T.pongs = MF.pongs
\* a Pong completes the own ping that carries its token, once; nothing else
K07_SigPings == J => (T.done = MF.done /\ T.twice = 0)
\* every signal reaches the signal callback, in arrival order
K07_SigCallbacks == J => T.cbs = MF.cbs
\* a large request goes out block-wise iff the peer has announced Block-Wise-Transfer (and never stops being so)
K07_SigGating == J => T.reqs = MF.reqs
K07_SigLive == J => T.stuck = 0
=============================================================================
