------------------------------ MODULE StreamCat ------------------------------
(* The byte streams of C07, built with the RFC encoder of CoapWire (shared by generator and judge). *)
EXTENDS Stream
Msg(code, tok, opts, pay) == [code |-> code, tok |-> tok, opts |-> opts, pay |-> pay]
Rep(n, x) == [k \in 1..n |-> x]
Cat == <<
  [max |-> 1000, tail |-> <<>>, frames |-> <<Msg(1, <<>>, <<>>, <<>>), Msg(2, <<7>>, <<>>, <<1, 2>>), Msg(69, <<>>, <<[id |-> 11, val |-> <<97>>]>>, <<>>)>>],
  [max |-> 1000, tail |-> <<>>, frames |-> <<Msg(225, <<>>, <<[id |-> 2, val |-> <<4, 0>>]>>, <<>>), Msg(226, <<>>, <<>>, <<>>), Msg(1, <<>>, <<[id |-> 11, val |-> <<97>>]>>, <<>>)>>],
  \* a frame longer than MaxSize between two good ones (MaxSize = 5)
  [max |-> 5, tail |-> <<>>, frames |-> <<Msg(1, <<>>, <<>>, <<>>), Msg(2, <<7>>, <<>>, <<1, 2>>), Msg(3, <<>>, <<>>, <<>>)>>],
  \* larger streams: length classes 13 / 14 / 15, token lengths, signalling; directed + random schedules only
  [max |-> 70000, tail |-> <<>>, frames |-> <<Msg(2, Rep(8, 9), <<>>, Rep(12, 255)), Msg(1, <<>>, <<>>, <<>>), Msg(3, <<1>>, <<[id |-> 11, val |-> Rep(13, 97)]>>, Rep(254, 7))>>],
  [max |-> 70000, tail |-> <<>>, frames |-> <<Msg(2, <<1, 2>>, <<>>, Rep(300, 255)), Msg(227, <<5>>, <<>>, <<>>), Msg(2, <<>>, <<>>, Rep(65804, 1)), Msg(1, <<9>>, <<>>, <<>>)>>],
  \* oversize in the 14 and 15 classes
  [max |-> 100, tail |-> <<>>, frames |-> <<Msg(1, <<>>, <<>>, <<>>), Msg(2, <<7>>, <<>>, Rep(200, 3)), Msg(3, <<>>, <<>>, <<>>)>>],
  [max |-> 1152, tail |-> <<>>, frames |-> <<Msg(1, <<4>>, <<>>, Rep(5, 5)), Msg(2, <<>>, <<>>, Rep(66000, 3)), Msg(3, <<>>, <<>>, <<>>)>>],
  \* the top of the two-byte length class (declared lengths 65536 .. 65804, extension 0xFEF3 .. 0xFFFF): delivered whole under a
  \* large limit, refused on the header under the default one
  [max |-> 70000, tail |-> <<>>, frames |-> <<Msg(1, <<3>>, <<>>, <<>>), Msg(2, <<>>, <<>>, Rep(65803, 2)), Msg(2, <<8>>, <<>>, Rep(65535, 4)), Msg(2, <<>>, <<>>, Rep(65700, 6)), Msg(1, <<9>>, <<>>, <<>>)>>],
  [max |-> 65536, tail |-> <<>>, frames |-> <<Msg(1, <<3>>, <<>>, <<>>), Msg(2, <<>>, <<>>, Rep(65803, 2)), Msg(1, <<9>>, <<>>, <<>>)>>],
  \* a message the application's request monitor refuses (token DD, see Refused) between messages it lets through: every segmentation
  [max |-> 1000, tail |-> <<>>, frames |-> <<Msg(1, <<>>, <<>>, <<>>), Msg(1, <<221>>, <<>>, <<>>), Msg(2, <<7>>, <<>>, <<1>>), Msg(3, <<>>, <<>>, <<>>)>>],
  \* a valid frame followed by a header that is wrong in itself (tail: raw bytes - length nibble 15 with an extension that takes the
  \* declared length past 2^32): refused when that header is seen, however the bytes are cut (also inside the valid frame)
  [max |-> 1000, tail |-> <<240, 255, 255, 255, 255, 1>>, frames |-> <<Msg(1, <<5>>, <<[id |-> 11, val |-> Rep(20, 97)]>>, <<>>)>>]
>>
\* the driver's connections run with a request monitor that refuses exactly these messages: they are taken from the stream like any
\* other frame but not dispatched; everything else is
Refused(m) == m.tok = <<221>>
RECURSIVE Concat(_)
Concat(fs) == IF fs = <<>> THEN <<>> ELSE EncTCP(Head(fs)) \o Concat(Tail(fs))
BytesOf(c) == Concat(c.frames) \o c.tail
=============================================================================
