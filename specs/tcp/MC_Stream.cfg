INIT Init
NEXT Next
CONSTANTS
  SI = 1
  Cache = 3
  Explore = TRUE
INVARIANTS Inv_Prefix Inv_Final Inv_NothingAfterClose Emit
