------------------------------ MODULE MC_Signal ------------------------------
(* Signal.tla as a state machine over event histories: design-level checks (every history of <= MaxEvents events when      *)
(* Walks = 0) and generator of the histories replayed on a real tcp/client.Conn (harness/drv/c07/signal.go).               *)
EXTENDS Signal, TLC, Json
CONSTANTS Walks, MaxEvents
VARIABLES s, hist, w
Init == s = S0 /\ hist = <<>> /\ w \in (IF Walks = 0 THEN {0} ELSE 1..Walks)
Poss == {ev \in Events : Enabled(s, ev)}
Next == /\ Len(hist) < MaxEvents
        /\ \E ev \in (IF Walks = 0 THEN Poss ELSE {RandomElement(Poss)}) : s' = Step(s, ev) /\ hist' = Append(hist, ev)
        /\ w' = w
View == <<s, w>>
Inv_PingsSane == PingsSane(s)
Inv_Gated == GatedByCSM(s, hist)
\* once announced, Block-Wise-Transfer stays; Max-Message-Size changes only by a CSM that carries it
BwStays == [][s.bw => s'.bw]_<<s, hist, w>>
Emit == (Walks > 0 /\ Len(hist) >= MaxEvents) => PrintT(<<"HIST", ToJson(hist)>>)
=============================================================================
