----------------------------- MODULE MC_SyncMap -----------------------------
(* The program catalogue of C14 and the configuration hook: one TLC run per program index PI.     *)
(* TLC explores EVERY interleaving of the program at critical-section granularity, checks that all *)
(* complete histories are linearizable, and emits the schedule of every maximal behaviour; the Go   *)
(* driver replays those schedules on the real Map / Cache under a cooperative scheduler.           *)
EXTENDS SyncMap, Json
CONSTANT PI
O(m, k, v) == [m |-> m, k |-> k, v |-> v]
Cat == <<
  \* ---- sync.Map ----
  [keys |-> {1},    init |-> <<>>, prog |-> <<  <<O("los", 1, 10)>>, <<O("los", 1, 20)>>, <<O("load", 1, 0)>>  >>],
  [keys |-> {1},    init |-> <<>>, prog |-> <<  <<O("los", 1, 10), O("load", 1, 0)>>, <<O("lad", 1, 0), O("store", 1, 30)>>  >>],
  [keys |-> {1},    init |-> <<>>, prog |-> <<  <<O("los", 1, 10)>>, <<O("los", 1, 20), O("delete", 1, 0)>>, <<O("los", 1, 30)>>  >>],
  [keys |-> {1},    init |-> <<>>, prog |-> <<  <<O("store", 1, 10), O("lad", 1, 0)>>, <<O("replace", 1, 20), O("load", 1, 0)>>  >>],
  [keys |-> {1, 2}, init |-> <<>>, prog |-> <<  <<O("los", 1, 10), O("los", 2, 12)>>, <<O("los", 2, 20), O("los", 1, 22)>>  >>],
  [keys |-> {1, 2}, init |-> <<>>, prog |-> <<  <<O("losf", 1, 10)>>, <<O("los", 1, 20), O("los", 2, 22)>>, <<O("length", 0, 0), O("length", 0, 0)>>  >>],
  [keys |-> {1},    init |-> <<O("store", 1, 4)>>, prog |-> <<  <<O("lad", 1, 0), O("los", 1, 10)>>, <<O("los", 1, 20)>>, <<O("los", 1, 30), O("load", 1, 0)>>  >>],
  [keys |-> {1, 2}, init |-> <<O("store", 1, 5)>>, prog |-> <<  <<O("ladall", 0, 0), O("los", 1, 10)>>, <<O("store", 2, 20), O("copy", 0, 0)>>, <<O("los", 1, 30)>>  >>],
  [keys |-> {1, 2}, init |-> <<O("store", 1, 5), O("store", 2, 6)>>, prog |-> <<  <<O("replacef", 1, 0), O("loadf", 1, 0)>>, <<O("los", 1, 20), O("range2", 0, 0)>>, <<O("ladf", 2, 0), O("storef", 2, 30)>>  >>],
  [keys |-> {1},    init |-> <<>>, prog |-> <<  <<O("los", 1, 10), O("deletef", 1, 0)>>, <<O("replacef", 1, 20), O("ladall", 0, 0)>>, <<O("los", 1, 30), O("copy", 0, 0)>>  >>],
  \* ---- cache.Cache (odd element ids are expired) ----
  [keys |-> {1},    init |-> <<O("clos", 1, 1)>>, prog |-> <<  <<O("sweep", 0, 0)>>, <<O("clos", 1, 2), O("cload", 1, 0)>>  >>],
  [keys |-> {1, 2}, init |-> <<O("clos", 1, 1), O("clos", 2, 4)>>, prog |-> <<  <<O("sweep", 0, 0)>>, <<O("clos", 1, 2)>>, <<O("cload", 1, 0), O("cload", 2, 0)>>  >>],
  [keys |-> {1},    init |-> <<>>, prog |-> <<  <<O("clos", 1, 2)>>, <<O("clos", 1, 4)>>, <<O("cload", 1, 0)>>  >>],
  [keys |-> {1},    init |-> <<O("clos", 1, 1)>>, prog |-> <<  <<O("clos", 1, 2)>>, <<O("clos", 1, 4)>>, <<O("sweep", 0, 0), O("cload", 1, 0)>>  >>],
  [keys |-> {1, 2}, init |-> <<O("clos", 1, 1), O("clos", 2, 3)>>, prog |-> <<  <<O("sweep", 0, 0)>>, <<O("sweep", 0, 0)>>, <<O("clos", 2, 6), O("cload", 2, 0)>>  >>],
  [keys |-> {1},    init |-> <<O("clos", 1, 2)>>, prog |-> <<  <<O("sweep", 0, 0)>>, <<O("cdelete", 1, 0), O("clos", 1, 3)>>, <<O("cload", 1, 0)>>  >>]
>>
MCProg == Cat[PI].prog
MCInit == Cat[PI].init
MCKeys == Cat[PI].keys
ASSUME PI \in 1..Len(Cat)
ASSUME JsonSerialize("program.json", [keys |-> MCKeys, init |-> MCInit, prog |-> MCProg])
=============================================================================
