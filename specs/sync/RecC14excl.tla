------------------------------ MODULE RecC14excl ------------------------------
(* "callbacks run against the value actually in the map": records of harness/drv/c14/excl.go - while the callback of a           *)
(* ...WithFunc operation of the REAL pkg/sync.Map was running on a key, did a concurrent operation on that key return?            *)
(* In SeqMap an operation and its callback are ONE step; a concurrent operation that returns in the middle of the callback has    *)
(* taken effect inside that step.                                                                                                 *)
EXTENDS Integers, Sequences, TLC, Json, IOUtils
Recs == ndJsonDeserialize(IOEnv.VF_RECS)
VARIABLES i, ph
Init == i \in 1..Len(Recs) /\ ph = 0
Next == ph = 0 /\ ph' = 1 /\ UNCHANGED i
R == Recs[i]
C14_CallbackAtomic == ph = 1 => (R.entered /\ ~R.during /\ R.wdone)
\* records of flipOne: the owner of a live element moves its ValidUntil between "an hour ahead" and "never" (for the sequential
\* cache: nothing happens); no concurrent look-up misses it, no store-if-absent replaces it, no sweep removes it
C14_LiveStaysLive == (ph = 1 /\ "lost" \in DOMAIN R) => R.lost = 0
=============================================================================
