------------------------------- MODULE SeqMap -------------------------------
(* Sequential specification of the map / expiring cache and the linearizability judgement (C14).  *)
(* Values: 0 = absent. Cache elements are ids; odd ids are expired. A result is <<value, flag>>.  *)
EXTENDS Integers, Sequences, FiniteSets, TLC
Exp(e)  == e % 2 = 1
(* --------------------------- sequential specification ------------------- *)
Count(d) == Cardinality({k \in DOMAIN d : d[k] # 0})
Live(d, k) == d[k] # 0 /\ ~Exp(d[k])
\* a whole-map result (LoadAndDeleteAll, CopyData, Range2) as one number: keys 1..3, values < 1024
Pow(n) == IF n = 0 THEN 1 ELSE IF n = 1 THEN 1024 ELSE 1048576
RECURSIVE SnapSum(_, _)
SnapSum(d, S) == IF S = {} THEN 0 ELSE LET k == CHOOSE x \in S : TRUE IN d[k] * Pow(k - 1) + SnapSum(d, S \ {k})
Snap(d) == SnapSum(d, DOMAIN d)
SeqApply(op, d) ==
  CASE op.m = "store"   -> [d |-> [d EXCEPT ![op.k] = op.v], res |-> <<0, FALSE>>]
    [] op.m = "load"    -> [d |-> d, res |-> <<d[op.k], d[op.k] # 0>>]
    [] op.m \in {"los", "losf"} ->
                           IF d[op.k] # 0 THEN [d |-> d, res |-> <<d[op.k], TRUE>>]
                           ELSE [d |-> [d EXCEPT ![op.k] = op.v], res |-> <<op.v, FALSE>>]
    [] op.m = "delete"  -> [d |-> [d EXCEPT ![op.k] = 0], res |-> <<0, FALSE>>]
    [] op.m = "lad"     -> [d |-> [d EXCEPT ![op.k] = 0], res |-> <<d[op.k], d[op.k] # 0>>]
    [] op.m = "replace" -> [d |-> [d EXCEPT ![op.k] = op.v], res |-> <<d[op.k], d[op.k] # 0>>]
    [] op.m = "length"  -> [d |-> d, res |-> <<Count(d), FALSE>>]
    \* the ...WithFunc variants: the callback runs inside the critical section and sees the value in the map
    [] op.m = "storef"  -> [d |-> [d EXCEPT ![op.k] = op.v], res |-> <<0, FALSE>>]
    [] op.m = "loadf"   -> [d |-> d, res |-> <<d[op.k], d[op.k] # 0>>]
    [] op.m = "replacef" -> [d |-> [d EXCEPT ![op.k] = op.v], res |-> <<d[op.k], d[op.k] # 0>>]     \* v = 0: the callback asks for deletion
    [] op.m = "deletef" -> [d |-> [d EXCEPT ![op.k] = 0], res |-> <<d[op.k], d[op.k] # 0>>]
    [] op.m = "ladf"    -> [d |-> [d EXCEPT ![op.k] = 0], res |-> <<d[op.k], d[op.k] # 0>>]
    \* whole-map operations
    [] op.m = "ladall"  -> [d |-> [k \in DOMAIN d |-> 0], res |-> <<Snap(d), FALSE>>]
    [] op.m \in {"copy", "range2"} -> [d |-> d, res |-> <<Snap(d), FALSE>>]
    [] op.m = "clos"    -> IF Live(d, op.k) THEN [d |-> d, res |-> <<d[op.k], TRUE>>]
                           ELSE [d |-> [d EXCEPT ![op.k] = op.v], res |-> <<op.v, FALSE>>]
    [] op.m = "cload"   -> [d |-> d, res |-> <<IF Live(d, op.k) THEN d[op.k] ELSE 0, Live(d, op.k)>>]
    [] op.m = "cdelete" -> [d |-> [d EXCEPT ![op.k] = 0], res |-> <<0, FALSE>>]
    \* one key of an expiry sweep: removes the entry iff it is expired and reports it to the callback
    [] op.m = "sweepkey" -> IF d[op.k] # 0 /\ Exp(d[op.k]) THEN [d |-> [d EXCEPT ![op.k] = 0], res |-> <<d[op.k], TRUE>>]
                            ELSE [d |-> d, res |-> <<0, FALSE>>]
    \* one REPORTED element of a sweep: at that instant the key held exactly this element, expired, and it was removed.
    \* (Range iterates the live Go map with the lock released around the callback: a key that the sweep emptied and that
    \*  was given a new element meanwhile may be produced again, so one sweep can remove two generations of a key.)
    [] op.m = "sweepelem" -> IF d[op.k] = op.v /\ Exp(op.v) THEN [d |-> [d EXCEPT ![op.k] = 0], res |-> <<op.v, TRUE>>]
                             ELSE [d |-> d, res |-> <<0, FALSE>>]

RECURSIVE ApplyAll(_, _)
ApplyAll(ops, d) == IF ops = <<>> THEN d ELSE ApplyAll(Tail(ops), SeqApply(Head(ops), d).d)

(* ------------------------------ linearizability ------------------------- *)
\* a completed operation: [op, res, call, ret] (call/ret are positions in the global event order)
RECURSIVE Lin(_, _)
Lin(todo, d) ==
  \/ todo = {}
  \/ \E o \in todo :
       /\ \A q \in todo : ~(q.ret < o.call)                \* nothing still to do finished before o began
       /\ LET a == SeqApply(o.op, d) IN a.res = o.res /\ Lin(todo \ {o}, a.d)

=============================================================================
