INIT Init
NEXT Next
INVARIANTS C14_NoCrash C14_Linearizable C14_SweepOnlyExpired
