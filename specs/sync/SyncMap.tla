------------------------------ MODULE SyncMap ------------------------------
(***************************************************************************)
(* pkg/sync.Map and pkg/cache.Cache at critical-section granularity (C14). *)
(*                                                                         *)
(* Every thread runs a fixed program (a sequence of method calls).  One    *)
(* step of a thread is one scheduler quantum of the real code: everything  *)
(* it executes up to its next scheduling point.  Scheduling points are     *)
(* the start of a method call and the verif hooks between critical         *)
(* sections:  LoadOrStore.gap  (between the read-locked lookup and the     *)
(* write-locked insert),  Range.unlocked  (before the callback of each     *)
(* iteration),  CheckExpirations.gap  (between the expiry test and the     *)
(* removal).  All other methods are one critical section.                  *)
(*                                                                         *)
(* Values: 0 = absent.  Cache elements are ids; odd ids are expired.       *)
(***************************************************************************)
EXTENDS SeqMap

CONSTANTS Prog,        \* Prog[t] : sequence of [m, k, v]
          InitOps,     \* sequence of ops applied sequentially before the threads start
          Keys,
          Recheck,     \* LoadOrStore looks the key up again under the write lock (the repaired code)
          DeleteSame   \* the sweep removes only the very element it tested (the repaired code)

Threads == DOMAIN Prog

Empty == [k \in Keys |-> 0]
D0 == ApplyAll(InitOps, Empty)
Linearizable(ops) == Lin(ops, D0)

(* ------------------------------ the code-shaped model -------------------- *)
VARIABLES data, th, hist, sched, clk
vars == <<data, th, hist, sched, clk>>
\* th[t] = [i |-> index of the current/next op, ph |-> phase inside it, x |-> scratch, call |-> stamp, seen |-> keys visited by a sweep, cb |-> callbacks]
Op(t) == Prog[t][th[t].i]
Done(t) == th[t].i > Len(Prog[t])
AllDone == \A t \in Threads : Done(t)

Init == /\ data = D0
        /\ th = [t \in Threads |-> [i |-> 1, ph |-> 0, x |-> 0, call |-> 0, seen |-> {}, cb |-> {}]]
        /\ hist = {} /\ sched = <<>> /\ clk = 0

\* finish the current op of t with result r
Finish(t, r, d2) ==
  /\ data' = d2
  /\ hist' = hist \cup {[t |-> t, i |-> th[t].i, op |-> Op(t), res |-> r,
                         call |-> IF th[t].ph = 0 THEN clk + 1 ELSE th[t].call, ret |-> clk + 2]}
  /\ th' = [th EXCEPT ![t] = [i |-> th[t].i + 1, ph |-> 0, x |-> 0, call |-> 0, seen |-> {}, cb |-> {}]]
  /\ clk' = clk + 2
\* park t at a scheduling point inside its op
Park(t, ph, x, d2, seen, cb) ==
  /\ data' = d2
  /\ th' = [th EXCEPT ![t] = [i |-> th[t].i, ph |-> ph, x |-> x, call |-> IF th[t].ph = 0 THEN clk + 1 ELSE th[t].call, seen |-> seen, cb |-> cb]]
  /\ hist' = hist /\ clk' = clk + 2

\* the sweep, one quantum: (re)enter the iteration: pick an unvisited present key or finish
SweepPick(t, d2, seen, cb) ==
  LET cand == {k \in Keys : d2[k] # 0 /\ k \notin seen} IN
  IF cand = {} THEN Finish(t, cb, d2)
  ELSE \E k \in cand : Park(t, 1, <<k, d2[k]>>, d2, seen \cup {k}, cb)    \* Range.unlocked, holding (key, element)

Step(t) ==
  /\ ~Done(t)
  /\ sched' = Append(sched, t)
  /\ LET op == Op(t) IN
     CASE op.m \in {"store", "load", "losf", "delete", "lad", "replace", "length", "clos", "cload", "cdelete",
                       "storef", "loadf", "replacef", "deletef", "ladf", "ladall", "copy", "range2"} ->
            LET a == SeqApply(op, data) IN Finish(t, a.res, a.d)
       [] op.m = "los" ->
            IF th[t].ph = 0
            THEN (IF data[op.k] # 0 THEN Finish(t, <<data[op.k], TRUE>>, data)
                  ELSE Park(t, 1, 0, data, {}, {}))                                   \* LoadOrStore.gap
            ELSE (IF Recheck /\ data[op.k] # 0 THEN Finish(t, <<data[op.k], TRUE>>, data)
                  ELSE Finish(t, <<op.v, FALSE>>, [data EXCEPT ![op.k] = op.v]))
       [] op.m = "sweep" ->
            IF th[t].ph = 0 THEN SweepPick(t, data, {}, {})
            ELSE IF th[t].ph = 1                       \* callback of one iteration: expiry test on the captured element
            THEN (IF Exp(th[t].x[2]) THEN Park(t, 2, th[t].x, data, th[t].seen, th[t].cb)   \* CheckExpirations.gap
                  ELSE SweepPick(t, data, th[t].seen, th[t].cb))
            ELSE LET k == th[t].x[1]
                     e == th[t].x[2]
                     d2 == IF DeleteSame THEN (IF data[k] = e THEN [data EXCEPT ![k] = 0] ELSE data)
                           ELSE [data EXCEPT ![k] = 0]
                     cb2 == IF DeleteSame /\ data[k] # e THEN th[t].cb ELSE th[t].cb \cup {e} IN
                 SweepPick(t, d2, th[t].seen, cb2)
Next == \E t \in Threads : Step(t)
Spec == Init /\ [][Next]_vars

(* --------------------------------- properties ---------------------------- *)
\* the key an element was stored under (elements are unique per program)
ElemKey(e) == LET P == {<<t, j>> \in Threads \X (1..8) : j <= Len(Prog[t]) /\ Prog[t][j].m = "clos" /\ Prog[t][j].v = e} IN
              IF P # {} THEN LET p == CHOOSE x \in P : TRUE IN Prog[p[1]][p[2]].k
              ELSE LET Q == {j \in 1..Len(InitOps) : InitOps[j].v = e} IN InitOps[CHOOSE j \in Q : TRUE].k
\* expand a sweep into one operation per key (each may take effect at its own instant of the sweep)
Expand(h) == IF h.op.m # "sweep" THEN {h}
             ELSE {[t |-> h.t, i |-> h.i, call |-> h.call, ret |-> h.ret, op |-> [m |-> "sweepelem", k |-> ElemKey(e), v |-> e], res |-> <<e, TRUE>>] : e \in h.res}
                  \cup {[t |-> h.t, i |-> h.i, call |-> h.call, ret |-> h.ret, op |-> [m |-> "sweepkey", k |-> k, v |-> 0], res |-> <<0, FALSE>>]
                         : k \in {x \in Keys : \A e \in h.res : ElemKey(e) # x}}
Ops(H) == UNION {Expand(h) : h \in H}
C14_Linearizable == AllDone => Linearizable(Ops(hist))
\* the sweep only ever reports expired elements to the expiry callback
C14_SweepOnlyExpired == \A h \in hist : (h.op.m = "sweep") => \A e \in h.res : Exp(e)
\* generator: the schedule of every maximal behaviour
Emit == AllDone => PrintT(<<"SCHED", sched>>)
=============================================================================
