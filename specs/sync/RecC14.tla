------------------------------- MODULE RecC14 -------------------------------
(* Judges call/return stamped histories recorded from the REAL pkg/sync.Map and pkg/cache.Cache   *)
(* (harness/drv/c14: schedule replay under the cooperative scheduler, and free-running stress).   *)
EXTENDS SeqMap, Json, IOUtils
Recs == ndJsonDeserialize(IOEnv.VF_RECS)
VARIABLES i, ph
Init == i \in 1..Len(Recs) /\ ph = 0
Next == ph = 0 /\ ph' = 1 /\ UNCHANGED i
J == ph = 1
R == Recs[i]
KeysOf == {R.keys[k] : k \in 1..Len(R.keys)}
D0 == ApplyAll(R.init, [k \in KeysOf |-> 0])
ElemKey(e) == LET P == {k \in 1..Len(R.ek) : R.ek[k][1] = e} IN IF P = {} THEN 0 ELSE R.ek[CHOOSE k \in P : TRUE][2]
SetOf(s) == {s[k] : k \in 1..Len(s)}
\* a sweep = one step per reported element (it removed exactly that element of its key) + for every key of which it
\* reported nothing, one step at which that key held no expired element
\* (a key of which the sweep reported nothing while another operation on that key overlapped the sweep is not constrained: the
\*  sweep removes an element only if it is still the one it examined - the repair of D2 -, so when the expired element it looked at
\*  is replaced under it, even by another expired one, it rightly leaves the key alone; the statement forbids removing what has not
\*  expired, it does not promise that one sweep removes everything that has)
Touches(o, x) == o.op.m \in {"clos", "cdelete", "sweep"} /\ (o.op.m = "sweep" \/ o.op.k = x)
Overlapped(h, x) == \E k \in 1..Len(R.ops) : LET o == R.ops[k] IN
                       ~(o.t = h.t /\ o.i = h.i) /\ Touches(o, x) /\ o.call < h.ret /\ h.call < o.ret
Expand(h) == IF h.op.m # "sweep" THEN {[id |-> <<h.t, h.i, 0>>, op |-> h.op, res |-> h.res, call |-> h.call, ret |-> h.ret]}
             ELSE {[id |-> <<h.t, h.i, 1000 + e>>, call |-> h.call, ret |-> h.ret, op |-> [m |-> "sweepelem", k |-> ElemKey(e), v |-> e], res |-> <<e, TRUE>>] : e \in SetOf(h.res)}
                  \cup {[id |-> <<h.t, h.i, k>>, call |-> h.call, ret |-> h.ret, op |-> [m |-> "sweepkey", k |-> k, v |-> 0], res |-> <<0, FALSE>>]
                         : k \in {x \in KeysOf : (\A e \in SetOf(h.res) : ElemKey(e) # x) /\ ~Overlapped(h, x)}}
Ops == UNION {Expand(R.ops[k]) : k \in 1..Len(R.ops)}

C14_NoCrash         == J => (~R.panic /\ ~R.stuck)
\* "each operation takes effect atomically at some instant between its call and its return"
C14_Linearizable    == (J /\ ~R.panic /\ ~R.stuck) => Lin(Ops, D0)
\* "the expiry sweep never removes or replaces an entry that has not expired": the expiry callback only
\* ever sees expired elements, each at most once per sweep
C14_SweepOnlyExpired == (J /\ ~R.panic /\ ~R.stuck) =>
                          \A k \in 1..Len(R.ops) : R.ops[k].op.m = "sweep" =>
                             (\A e \in SetOf(R.ops[k].res) : Exp(e)) /\ Cardinality(SetOf(R.ops[k].res)) = Len(R.ops[k].res)
=============================================================================
