SPECIFICATION Spec
CONSTANTS
  PI = 1
  Prog <- MCProg
  InitOps <- MCInit
  Keys <- MCKeys
  Recheck = TRUE
  DeleteSame = TRUE
INVARIANTS C14_Linearizable C14_SweepOnlyExpired Emit
