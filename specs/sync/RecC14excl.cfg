INIT Init
NEXT Next
INVARIANTS C14_CallbackAtomic C14_LiveStaysLive
