INIT Init
NEXT Next
INVARIANTS C14_CallbackAtomic
