---------------------------- MODULE MC_Lifecycle ----------------------------
(* The object automaton explored over all event sequences of length <= 6: which sequences are legal. *)
EXTENDS Lifecycle
VARIABLES st, n
Evs == {"release", "apprelease", "acquire", "hold", "unhold"}
Init == st = "out" /\ n = 0
Next == n < 6 /\ ~IsBad(st) /\ \E e \in Evs : st' = Step(st, e) /\ n' = n + 1
\* sanity of the automaton: a released object can only come back through acquire; a held one only leaves by apprelease/unhold
T_ReleasedStays == st = "released" => \A e \in Evs \ {"acquire"} : IsBad(Step(st, e)) \/ Step(st, e) = "released" \/ e = "unhold"
T_HeldProtected == st = "held" => IsBad(Step(st, "release"))
=============================================================================
