INIT Init
NEXT Next
INVARIANTS T_ReleasedStays T_HeldProtected
