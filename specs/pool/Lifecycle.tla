----------------------------- MODULE Lifecycle -----------------------------
(***************************************************************************)
(* Ownership of a pooled message object (C12).                             *)
(*   out       handed out: owned by the library or the application         *)
(*   held      the application legitimately holds it (response returned    *)
(*             from a request call, request inside a handler, notification *)
(*             inside a callback)                                          *)
(*   released  given back (to the pool)                                    *)
(* Events: release (by the library), apprelease (by the application that   *)
(* held it), acquire (handed out again from the pool), hold / unhold,      *)
(* changedHeld / changedReleased (the content differed from the snapshot   *)
(* taken when the hold began / when it was released).                      *)
(***************************************************************************)
EXTENDS Integers, Sequences, FiniteSets, TLC

\* next state of one object, "BAD:<reason>" on a forbidden event
Step(st, ev) ==
  CASE ev = "release"    -> IF st = "released" THEN "BAD:double-release" ELSE IF st = "held" THEN "BAD:released-while-held" ELSE "released"
    [] ev = "apprelease" -> IF st = "released" THEN "BAD:double-release" ELSE "released"
    [] ev = "acquire"    -> IF st = "released" THEN "out" ELSE "BAD:handed-out-while-owned"
    [] ev = "hold"       -> IF st = "released" THEN "BAD:held-after-release" ELSE "held"
    [] ev = "unhold"     -> IF st = "held" THEN "out" ELSE st
    [] ev = "changedHeld" -> "BAD:changed-while-held"
    [] ev = "changedReleased" -> "BAD:written-after-release"
    [] OTHER -> st
IsBad(st) == st \notin {"out", "held", "released", "new"}
=============================================================================
