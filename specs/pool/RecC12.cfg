INIT Init
NEXT Next
INVARIANTS C12_NoDoubleRelease C12_AppHeldStable C12_NoUseAfterRelease C12_CopiesIntact C12_Ran
