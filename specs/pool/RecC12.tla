------------------------------- MODULE RecC12 -------------------------------
(* Judges pool event logs recorded from REAL connections (harness/drv/c12): every object's event sequence is run  *)
(* through the Lifecycle automaton.                                                                               *)
EXTENDS Lifecycle, Json, IOUtils
Traces == ndJsonDeserialize(IOEnv.VF_RECS)
VARIABLES i, ph
Init == i \in 1..Len(Traces) /\ ph = 0
Next == ph = 0 /\ ph' = 1 /\ UNCHANGED i
J == ph = 1
T == Traces[i]
Objs == {T.log[k].o : k \in 1..Len(T.log)}
EvsOf(o) == SelectSeq(T.log, LAMBDA e : e.o = o)
RECURSIVE Fold(_, _, _)
Fold(st, es, k) == IF k > Len(es) \/ IsBad(st) THEN st ELSE Fold(Step(st, es[k].ev), es, k + 1)
Final(o) == Fold("out", EvsOf(o), 1)
\* "never returned to the pool twice without being re-acquired in between"
C12_NoDoubleRelease == J => \A o \in Objs : Final(o) # "BAD:double-release"
\* "never recycled while the application legitimately holds it ... content stays unchanged until the application releases it or returns"
C12_AppHeldStable   == J => \A o \in Objs : Final(o) \notin {"BAD:released-while-held", "BAD:changed-while-held", "BAD:handed-out-while-owned", "BAD:held-after-release"}
\* "the library never ... writes a message after releasing it"
C12_NoUseAfterRelease == J => \A o \in Objs : Final(o) # "BAD:written-after-release"
\* "the library never reads a message after releasing it": every copy the retransmission sweep makes of a pending request while
\* the acknowledgement path gives that request back is the request, byte for byte
\* ... and what is remembered for later (the reply kept for a message ID) does not live in a message that went back to the pool: after
\* other exchanges have used the pooled objects, a duplicate is answered with the first reply, byte for byte (mode dupcache)
\* ... and a request handed to a request call is the application's again when the call returns: the library does not go on reading
\* its body (mode bwpark: the call's context ends while the receive path cuts the next block out of the request)
\* ... and an entry the sweep still holds after the acknowledgement path has taken it out of the table and given its pending copy back
\* is not copied from any more (mode sweeprace: nothing but the application's next message goes on the wire; giving the copy back
\* a second time is C12_NoDoubleRelease)
C12_CopiesIntact == J => (T.mode \in {"retx", "dupcache", "bwpark", "sweeprace"} => T.garbled = 0)
C12_Ran == J => (T.done /\ Len(T.log) > 0)
=============================================================================
