----------------------------- MODULE MC_Options -----------------------------
(* The option-list model as a state machine: every history of at most MaxEdits edits over a small *)
(* alphabet. Used (a) to check the model's own invariants, (b) as the generator of the edit        *)
(* histories that the Go driver replays on the real message.Options / pool.Message.               *)
EXTENDS Options, Json
CONSTANTS Ids, Vals, Paths, MaxEdits, OpSet, Walks   \* Walks = 0: exhaustive; > 0: that many random walks
VARIABLES opts, n, act, hist, w     \* hist: the edits so far (generator output of the simulated histories)
QIds   == {4, 11, 15, 2000}
QVals  == {<<>>, <<1>>, <<2, 3>>}
QPaths == {<<>>, <<47>>, <<97>>, <<47, 97, 47>>, <<47, 47, 97, 47, 47, 98>>}
TIds   == {1, 4, 11, 12, 15, 60, 2000}
Ops == {[op |-> "set", id |-> i, val |-> v] : i \in Ids, v \in Vals}
  \cup {[op |-> "add", id |-> i, val |-> v] : i \in Ids, v \in Vals}
  \cup {[op |-> "remove", id |-> i] : i \in Ids}
  \cup {[op |-> "setpath", id |-> 11, path |-> p] : p \in Paths}
  \cup {[op |-> "setu32", id |-> 12, hi |-> 0, lo |-> x] : x \in {0, 255, 256}}
  \cup {[op |-> "addu32", id |-> 15, hi |-> 1, lo |-> 2]}
  \cup {[op |-> "reset"]}
\* the larger alphabet of the simulated long histories: values around the 256-byte inline buffer of a
\* pooled message, 255/256-byte path segments, location paths, reset-to, clone, ETag setters
Rep(cnt, x) == [k \in 1..cnt |-> x]
SIds   == {1, 4, 8, 11, 12, 15, 60, 2000}
SVals  == {<<>>, <<1>>, <<2, 3>>, <<255, 0, 255, 0, 1>>, Rep(9, 9), Rep(100, 5), Rep(250, 6), Rep(255, 7), Rep(256, 8), Rep(300, 3)}
SPaths == {<<>>, <<47>>, <<97>>, <<47, 97>>, <<47, 97, 47>>, <<47, 47, 97, 47, 47, 98>>, <<97, 47, 98, 47, 99>>, Rep(255, 120), <<47>> \o Rep(255, 121) \o <<47, 98>>,
           Rep(256, 122), <<47, 97, 47>> \o Rep(256, 123), Rep(200, 65) \o <<47>> \o Rep(200, 66), <<47, 47, 47>>}
OpsSim == {[op |-> "set", id |-> i, val |-> v] : i \in SIds \ {11}, v \in SVals}
  \cup {[op |-> "add", id |-> i, val |-> v] : i \in SIds \ {11}, v \in SVals}
  \cup {[op |-> o, id |-> 11, val |-> v] : o \in {"set", "add"}, v \in {sv \in SVals : Len(sv) <= 255}}
  \cup {[op |-> "remove", id |-> i] : i \in SIds}
  \cup {[op |-> "setpath", id |-> d, path |-> p] : d \in {8, 11}, p \in SPaths}
  \cup {[op |-> o, id |-> i, hi |-> h, lo |-> x] : o \in {"setu32", "addu32"}, i \in {6, 12, 17, 60}, h \in {0, 1, 255, 256, 65535}, x \in {0, 1, 255, 256, 65535}}
  \cup {[op |-> "resetto", list |-> ls] : ls \in {<<>>, <<[id |-> 11, val |-> <<97>>], [id |-> 4, val |-> <<1>>], [id |-> 11, val |-> <<98>>]>>,
                                                    <<[id |-> 2000, val |-> Rep(300, 1)], [id |-> 1, val |-> <<>>], [id |-> 15, val |-> Rep(40, 2)], [id |-> 15, val |-> <<3>>]>>}}
  \cup {[op |-> o, val |-> v] : o \in {"setetag", "addetag"}, v \in {<<>>, <<1>>, Rep(8, 4), Rep(9, 9)}}
  \cup {[op |-> "reset"], [op |-> "clone"]}
Init == opts = <<>> /\ n = 0 /\ act = [op |-> "init"] /\ hist = <<>> /\ w \in (IF Walks = 0 THEN {0} ELSE 1..Walks)
Next == /\ n < MaxEdits
        /\ \E o \in (IF Walks = 0 THEN OpSet ELSE {RandomElement(OpSet)}) : opts' = Apply(o, opts).opts /\ act' = o
        /\ w' = w
        /\ n' = n + 1
        /\ hist' = Append(hist, act')
View == <<opts, n, w>>
\* model sanity (these are properties of the reference list itself)
M_Sorted    == Sorted(opts)
M_SetUnique == act.op = "set" => Cardinality(Idx(opts, act.id)) = 1
M_AddLast   == act.op = "add" => LET I == Idx(opts, act.id) IN \E i \in I : opts[i].val = act.val /\ \A j \in I : j <= i
M_Removed   == act.op = "remove" => ~Has(opts, act.id)
M_PathRT    == (act.op = "setpath" /\ act.path # <<>> /\ \A k \in 1..Len(Segs(act.path)) : Len(Segs(act.path)[k]) <= 255)
                 => PathOf(opts, act.id) = Join(Segs(act.path))
\* generator: one line per explored transition
Edge == PrintT(<<"EDGE", ToJson([from |-> opts, k |-> n, act |-> act', to |-> opts'])>>)
\* generator of long histories (simulation mode): one line per finished behaviour
Emit == n = MaxEdits => PrintT(<<"HIST", ToJson(hist)>>)
=============================================================================
