INIT Init
NEXT Next
CONSTANTS
  Ids <- QIds
  Vals <- QVals
  Paths <- QPaths
  OpSet <- OpsSim
  Walks = 150
  MaxEdits = 40
INVARIANTS Emit M_Sorted M_SetUnique M_AddLast M_Removed M_PathRT

