INIT Init
NEXT Next
VIEW View
CONSTANTS
  Ids <- QIds
  Vals <- QVals
  Paths <- QPaths
  OpSet <- Ops
  Walks = 0
  MaxEdits = 3
INVARIANTS M_Sorted M_SetUnique M_AddLast M_Removed M_PathRT
ACTION_CONSTRAINT Edge
