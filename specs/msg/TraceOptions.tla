---------------------------- MODULE TraceOptions ----------------------------
(* Validates traces recorded from the REAL message.Options / pool.Message (harness/drv/c15): the   *)
(* model list is advanced by Options!Apply on the recorded operation, and every clause of C15 is   *)
(* an invariant comparing what the real object showed after the step with the model.               *)
(* One behaviour per recorded trace; a behaviour stops at its first failing step.                  *)
EXTENDS Options, Json, IOUtils
Traces == ndJsonDeserialize(IOEnv.VF_RECS)
VARIABLES i, l, opts, r      \* trace index, step index, model list, model verdict of the last step
vars == <<i, l, opts, r>>
E == Traces[i].ev[l]
Raw == Traces[i].api = "raw"

QOK(q) ==
  /\ \A k \in 1..Len(q.find) : LET f == q.find[k]
                                   m == QFind(opts, f.id) IN
        ~f.panic /\ f.found = m.found /\ f.has = m.found /\ (m.found => (f.first = m.first /\ f.last = m.last))
  /\ \A k \in 1..Len(q.u32) : LET u == q.u32[k]
                                  vs == ValsOf(opts, u.id) IN
        /\ ~u.panic
        /\ u.err = ~Has(opts, u.id)
        /\ (Has(opts, u.id) => /\ <<u.v.hi, u.v.lo>> = DecUint(QFirst(opts, u.id))
                               /\ ~u.serr /\ u.sn = Len(vs)
                               /\ Len(u.svals) = Len(vs)
                               /\ \A j \in 1..Len(vs) : <<u.svals[j].hi, u.svals[j].lo>> = DecUint(vs[j])
                               /\ u.zerr /\ u.zn = Len(vs))       \* too-small result buffer: needed count
        /\ (~Has(opts, u.id) => (u.serr /\ u.zerr))
  /\ \A k \in 1..Len(q.bytes) : LET b == q.bytes[k]
                                    vs == ValsOf(opts, b.id) IN
        /\ ~b.panic /\ b.strok
        /\ b.err = ~Has(opts, b.id)
        /\ (Has(opts, b.id) => (b.v = QFirst(opts, b.id) /\ ~b.serr /\ b.sn = Len(vs) /\ b.svals = vs /\ b.zerr /\ b.zn = Len(vs)))
        /\ (~Has(opts, b.id) => (b.serr /\ b.zerr))
  /\ ~q.path.panic /\ q.path.err = ~Has(opts, 11) /\ (Has(opts, 11) => q.path.s = PathOf(opts, 11))
  /\ ~q.locpath.panic /\ q.locpath.err = ~Has(opts, 8) /\ (Has(opts, 8) => q.locpath.s = PathOf(opts, 8))
  /\ ~q.queries.panic /\ q.queries.err = ~Has(opts, 15) /\ (Has(opts, 15) => q.queries.l = ValsOf(opts, 15))
  /\ ~q.cf.panic /\ q.cf.err = ~Has(opts, 12) /\ (Has(opts, 12) => (q.cf.v.hi = 0 /\ q.cf.v.lo = DecUint(QFirst(opts, 12))[2]))
  /\ ~q.observe.panic /\ q.observe.err = ~Has(opts, 6) /\ (Has(opts, 6) => <<q.observe.v.hi, q.observe.v.lo>> = DecUint(QFirst(opts, 6)))
  /\ ~q.accept.panic /\ q.accept.err = ~Has(opts, 17)

\* the clauses, all about the state AFTER step l
C15_NoCrash == l > 0 => ~E.res.panic
C15_Model   == (l > 0 /\ ~E.res.panic) => E.list = opts
C15_Refusal == (l > 0 /\ ~E.res.panic) => E.res.err = r.err
C15_Clone   == (l > 0 /\ ~E.res.panic /\ E.op.op = "clone" /\ ~E.res.err) => E.res.clone = opts
C15_Queries == (l > 0 /\ ~E.res.panic /\ "q" \in DOMAIN E) => QOK(E.q)
Good == C15_NoCrash /\ C15_Model /\ C15_Refusal /\ C15_Clone /\ C15_Queries

Init == i \in 1..Len(Traces) /\ l = 0 /\ opts = <<>> /\ r = [err |-> FALSE]
Next == /\ Good
        /\ l < Len(Traces[i].ev)
        /\ l' = l + 1 /\ i' = i
        /\ LET a == Apply(Traces[i].ev[l + 1].op, opts) IN opts' = a.opts /\ r' = [err |-> a.err]
=============================================================================
