INIT Init
NEXT Next
INVARIANTS C15_NoCrash C15_Model C15_Refusal C15_Clone C15_Queries
