------------------------------ MODULE Options ------------------------------
(***************************************************************************)
(* Reference model of message.Options / the pool.Message option builder:   *)
(* a list of [id, val] kept ascending by id, insertion order kept among    *)
(* equal ids, values byte-exact (C15).  Written from the documented        *)
(* behaviour of the API (doc comments + RFC 7252 5.4.5/6.4 for paths), not *)
(* from the shifting loops of message/options.go.                          *)
(***************************************************************************)
EXTENDS Integers, Sequences, FiniteSets, TLC

Sub(b, i, j) == IF j < i THEN <<>> ELSE SubSeq(b, i, j)
Idx(s, id)   == {i \in 1..Len(s) : s[i].id = id}
Has(s, id)   == Idx(s, id) # {}
Without(s, id) == SelectSeq(s, LAMBDA o : o.id # id)
\* position after the last option whose id is <= id
InsPos(s, id) == Cardinality({i \in 1..Len(s) : s[i].id <= id})
Insert(s, o)  == LET p == InsPos(s, o.id) IN Sub(s, 1, p) \o <<o>> \o Sub(s, p + 1, Len(s))
Set(s, o)     == Insert(Without(s, o.id), o)
RECURSIVE AddAll(_, _)
AddAll(s, os) == IF os = <<>> THEN s ELSE AddAll(Insert(s, Head(os)), Tail(os))
Sorted(s)     == \A i \in 1..(Len(s) - 1) : s[i].id <= s[i + 1].id

\* minimal big-endian encoding of an unsigned integer given as <<hi16, lo16>> (RFC 7252 3.2 "uint")
EncUint(hi, lo) == LET b == <<hi \div 256, hi % 256, lo \div 256, lo % 256>>
                       z == IF hi = 0 /\ lo = 0 THEN 4 ELSE IF hi = 0 /\ lo < 256 THEN 3 ELSE IF hi = 0 THEN 2 ELSE IF hi < 256 THEN 1 ELSE 0
                   IN Sub(b, z + 1, 4)
\* decoding: the first four bytes, big endian, as <<hi16, lo16>>
DecUint(v) == LET w == IF Len(v) > 4 THEN Sub(v, 1, 4) ELSE v
                  p == [k \in 1..(4 - Len(w)) |-> 0] \o w
              IN <<p[1] * 256 + p[2], p[3] * 256 + p[4]>>

\* paths: a byte string split at '/' (47), empty segments dropped
RECURSIVE SegsFrom(_, _, _, _)
SegsFrom(p, i, cur, acc) ==
  IF i > Len(p) THEN (IF cur = <<>> THEN acc ELSE Append(acc, cur))
  ELSE IF p[i] = 47 THEN SegsFrom(p, i + 1, <<>>, IF cur = <<>> THEN acc ELSE Append(acc, cur))
  ELSE SegsFrom(p, i + 1, Append(cur, p[i]), acc)
Segs(p) == SegsFrom(p, 1, <<>>, <<>>)
RECURSIVE Join(_)
Join(segs) == IF segs = <<>> THEN <<>> ELSE <<47>> \o Head(segs) \o Join(Tail(segs))
PathOf(s, id) == Join([k \in 1..Len(SelectSeq(s, LAMBDA o : o.id = id)) |-> SelectSeq(s, LAMBDA o : o.id = id)[k].val])
SegOpts(id, segs) == [k \in 1..Len(segs) |-> [id |-> id, val |-> segs[k]]]
RECURSIVE SumLen(_)
SumLen(q) == IF q = <<>> THEN 0 ELSE Len(Head(q)) + SumLen(Tail(q))

\* ------------------------------------------------------------------------------------------
\* Apply(op, s): the list after the operation and whether the operation is refused.
\* op is a record with field "op" and the arguments below.  bufsz (raw API only) is the size of
\* the caller's value buffer; a too-small buffer is refused and reports the size needed.
\* ------------------------------------------------------------------------------------------
Ok(s)          == [opts |-> s, err |-> FALSE]
Refused(s)     == [opts |-> s, err |-> TRUE]
NeedBuf(op, n) == "bufsz" \in DOMAIN op /\ op.bufsz < n
Apply(op, s) ==
  CASE op.op = "set"    -> IF NeedBuf(op, Len(op.val)) THEN Refused(s) ELSE Ok(Set(s, [id |-> op.id, val |-> op.val]))
    [] op.op = "add"    -> IF NeedBuf(op, Len(op.val)) THEN Refused(s) ELSE Ok(Insert(s, [id |-> op.id, val |-> op.val]))
    [] op.op = "remove" -> Ok(Without(s, op.id))
    [] op.op = "setu32" -> LET v == EncUint(op.hi, op.lo) IN IF NeedBuf(op, Len(v)) THEN Refused(s) ELSE Ok(Set(s, [id |-> op.id, val |-> v]))
    [] op.op = "addu32" -> LET v == EncUint(op.hi, op.lo) IN IF NeedBuf(op, Len(v)) THEN Refused(s) ELSE Ok(Insert(s, [id |-> op.id, val |-> v]))
    [] op.op = "setpath" ->                    \* id 11 (Uri-Path) or 8 (Location-Path)
         LET segs == Segs(op.path) IN
         IF op.path = <<>> THEN Ok(s)                                      \* empty string: nothing to do
         ELSE IF \E k \in 1..Len(segs) : Len(segs[k]) > 255 THEN Refused(s) \* segment too long: refused
         ELSE IF NeedBuf(op, SumLen(segs)) THEN Refused(s)
         ELSE Ok(AddAll(Without(s, op.id), SegOpts(op.id, segs)))
    [] op.op = "resetto" -> Ok(AddAll(<<>>, op.list))
    [] op.op = "reset"   -> Ok(<<>>)
    [] op.op = "clone"   -> Ok(s)
    [] op.op = "setetag" -> IF Len(op.val) \in 1..8 THEN Ok(Set(s, [id |-> 4, val |-> op.val])) ELSE Refused(s)
    [] op.op = "addetag" -> IF Len(op.val) \in 1..8 THEN Ok(Insert(s, [id |-> 4, val |-> op.val])) ELSE Refused(s)

\* ---------------------------------- queries ------------------------------------------
ValsOf(s, id) == LET t == SelectSeq(s, LAMBDA o : o.id = id) IN [k \in 1..Len(t) |-> t[k].val]
FirstIdx(s, id) == CHOOSE i \in Idx(s, id) : \A j \in Idx(s, id) : i <= j
QFind(s, id) == IF Has(s, id) THEN [found |-> TRUE, first |-> FirstIdx(s, id) - 1, last |-> FirstIdx(s, id) - 1 + Cardinality(Idx(s, id))]
                ELSE [found |-> FALSE, first |-> -1, last |-> -1]
QFirst(s, id) == s[FirstIdx(s, id)].val
=============================================================================
