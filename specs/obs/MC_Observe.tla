----------------------------- MODULE MC_Observe -----------------------------
(* Theorems about the RFC 7641 freshness relation on the boundary values, the observation state machine as a     *)
(* generator of event histories for two simultaneous observations.                                                  *)
EXTENDS Observe, Json
CONSTANTS Walks, MaxEvents
Vals == {0, 1, 2, 3, W - 1, W, W + 1, W + 2, 2 * W - 2, 2 * W - 1}
Dts == {0, 1, 127, 128, 129, 300}
Obs == {1, 2}
VARIABLES o, now, hist, w, a, b, dt          \* (a, b, dt): the pair under test for the Fresh theorems
Init == /\ o = [k \in Obs |-> O0] /\ now = 0 /\ hist = <<>>
        /\ w \in (IF Walks = 0 THEN {0} ELSE 1..Walks)
        /\ IF Walks = 0 THEN a \in Vals /\ b \in Vals /\ dt \in Dts ELSE a = 0 /\ b = 0 /\ dt = 0
\* Fresh within the 128 s window: a strict order "ahead by less than half the number space"
T_Irreflexive == dt <= 128 => ~Fresh(a, a, 0, dt)
T_Asymmetric  == (dt <= 128 /\ a # b) => ~(Fresh(a, b, 0, dt) /\ Fresh(b, a, 0, dt))
T_TotalButHalf == (dt <= 128 /\ a # b /\ a - b # W /\ b - a # W) => (Fresh(a, b, 0, dt) \/ Fresh(b, a, 0, dt))
T_TimeoutWins == dt > 128 => Fresh(a, b, 0, dt)
Evs == {[e |-> "register", k |-> k, kind |-> "none", seq |-> 0] : k \in Obs}
       \cup {[e |-> "first", k |-> k, kind |-> kd, seq |-> s] : k \in Obs, kd \in {"ok", "noobs", "err", "err2xx"}, s \in Vals}
       \cup {[e |-> "notify", k |-> k, kind |-> "none", seq |-> s] : k \in Obs, s \in Vals}
       \cup {[e |-> "cancel", k |-> k, kind |-> "none", seq |-> 0] : k \in Obs}
       \cup {[e |-> "cancelgiveup", k |-> k, kind |-> "none", seq |-> 0] : k \in Obs}
       \cup {[e |-> "giveup", k |-> k, kind |-> "none", seq |-> 0] : k \in Obs}
Useful(ev) == CASE ev.e = "register" -> o[ev.k].st = "none"
                [] ev.e = "first" -> o[ev.k].st = "pending"
                [] ev.e = "giveup" -> o[ev.k].st = "pending"
                [] ev.e = "notify" -> o[ev.k].st \in {"live", "dead"}
                [] ev.e \in {"cancel", "cancelgiveup"} -> o[ev.k].st = "live"
Next == /\ Walks > 0 /\ Len(hist) < MaxEvents
        /\ \E ev \in {RandomElement({x \in Evs : Useful(x)} \cup {y \in Evs : y.e = "notify" /\ o[y.k].st = "live"})} :
             \E d \in {RandomElement(Dts)} :
               LET e2 == [e |-> ev.e, k |-> ev.k, kind |-> ev.kind, seq |-> ev.seq, t |-> now + d]
                   r == Step(o[ev.k], e2) IN
               o' = [o EXCEPT ![ev.k] = r.o] /\ now' = now + d /\ hist' = Append(hist, [ev |-> e2, cb |-> r.cb])
        /\ UNCHANGED <<w, a, b, dt>>
Emit == (Walks > 0 /\ Len(hist) = MaxEvents) => PrintT(<<"HIST", ToJson(hist)>>)
=============================================================================
