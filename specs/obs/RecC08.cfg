INIT Init
NEXT Next
INVARIANTS C08_OnlyFresh C08_OwnToken C08_RegisterOnly205_203 C08_SilentAfterCancel C08_NoHang C08_StressNoRedelivery K08_Conforms
