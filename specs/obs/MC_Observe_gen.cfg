INIT Init
NEXT Next
CONSTANTS
  Walks = 200
  MaxEvents = 14
INVARIANTS Emit
