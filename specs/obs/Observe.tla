------------------------------ MODULE Observe ------------------------------
(***************************************************************************)
(* Client side of RFC 7641 (C08): net/observation.Handler / Observation.   *)
(*                                                                         *)
(* Fresh is section 3.4 verbatim: an incoming notification (V2 at T2) is   *)
(* fresher than the freshest one seen so far (V1 at T1) iff                *)
(*    (V1 < V2 and V2 - V1 < 2^23) or (V1 > V2 and V1 - V2 > 2^23)         *)
(*    or (T2 > T1 + 128 seconds).                                          *)
(*                                                                         *)
(* One observation is a small state machine driven by events:              *)
(*   register            Observe() called: the request is written           *)
(*   first(kind,seq,t)   the answer to the registration: "ok" (2.05 with    *)
(*                       Observe), "noobs" (2.05 without: the resource is   *)
(*                       not observable), "err" (an error code), "err2xx" (a  *)
(*                       success-class code that is neither 2.05 nor 2.03,  *)
(*                       e.g. 2.04, even with an Observe option): like err   *)
(*   giveup              the caller's context ends while the registration   *)
(*                       waits for its first answer (datagram: after the    *)
(*                       request was acknowledged): Observe() fails         *)
(*   notify(seq,t)       a notification with this observation's token       *)
(*   cancel              Cancel() called and completed                      *)
(*   cancelgiveup        Cancel() called, the peer never answers the         *)
(*                       deregistration and the caller's context ends:       *)
(*                       Cancel() returns an error - it HAS returned, the    *)
(*                       application is done with the observation            *)
(* The callback is invoked for the first answer too when it is "ok".        *)
(***************************************************************************)
EXTENDS Integers, Sequences, FiniteSets, TLC

W == 8388608      \* 2^23
Fresh(v1, v2, t1, t2) == (v1 < v2 /\ v2 - v1 < W) \/ (v1 > v2 /\ v1 - v2 > W) \/ (t2 > t1 + 128)

O0 == [st |-> "none",      \* none | pending | live | dead   (dead: failed, not observable, or cancelled)
       has |-> FALSE, seq |-> 0, t |-> 0,    \* freshest notification delivered so far
       ret |-> "none"]     \* what Observe() returned: none | ok | err

\* Step returns the new state and whether the callback runs for this event
Deliver(o, seq, t) == [o |-> [o EXCEPT !.has = TRUE, !.seq = seq, !.t = t], cb |-> TRUE]
Keep(o) == [o |-> o, cb |-> FALSE]
Step(o, ev) ==
  CASE ev.e = "register" -> IF o.st = "none" THEN Keep([o EXCEPT !.st = "pending"]) ELSE Keep(o)
    [] ev.e = "first" ->
         IF o.st # "pending" THEN Keep(o)
         ELSE IF ev.kind = "ok" THEN Deliver([o EXCEPT !.st = "live", !.ret = "ok"], ev.seq, ev.t)   \* nothing seen before: fresh
         ELSE IF ev.kind = "noobs" THEN [o |-> [o EXCEPT !.st = "dead", !.ret = "ok"], cb |-> TRUE]   \* plain response handed over once
         \* (the code hands the answer of a FAILED registration to the callback as well, once: Observation.handle
         \*  runs the freshness test, which lets every message without an Observe option through)
         ELSE [o |-> [o EXCEPT !.st = "dead", !.ret = "err"], cb |-> TRUE]
    [] ev.e = "giveup" -> IF o.st = "pending" THEN Keep([o EXCEPT !.st = "dead", !.ret = "err"]) ELSE Keep(o)
    [] ev.e = "notify" ->
         IF o.st # "live" THEN Keep(o)
         ELSE IF ~o.has \/ Fresh(o.seq, ev.seq, o.t, ev.t) THEN Deliver(o, ev.seq, ev.t) ELSE Keep(o)
    [] ev.e \in {"cancel", "cancelgiveup"} -> IF o.st = "live" THEN Keep([o EXCEPT !.st = "dead"]) ELSE Keep(o)
    [] OTHER -> Keep(o)
=============================================================================
