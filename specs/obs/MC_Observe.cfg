INIT Init
NEXT Next
CONSTANTS
  Walks = 0
  MaxEvents = 0
INVARIANTS T_Irreflexive T_Asymmetric T_TotalButHalf T_TimeoutWins
