------------------------------- MODULE RecC08 -------------------------------
(* Judges the callback invocations recorded from REAL udp/tcp client connections (harness/drv/c08).       *)
EXTENDS Observe, Json, IOUtils
Traces == ndJsonDeserialize(IOEnv.VF_RECS)
VARIABLES i, ph
Init == i \in 1..Len(Traces) /\ ph = 0
Next == ph = 0 /\ ph' = 1 /\ UNCHANGED i
T == Traces[i]
IsStress == "op" \in DOMAIN T /\ T.op = "stress"
J == ph = 1 /\ ~IsStress           \* a replayed history
Ev == T.ev
N == Len(Ev)
\* deliveries (callback invocations carrying a sequence number) to observation k up to and including event n, in order
RECURSIVE Deliv(_, _)
Deliv(k, n) == IF n = 0 THEN <<>>
               ELSE Deliv(k, n - 1) \o [j \in 1..Len(SelectSeq(Ev[n].calls, LAMBDA c : c.k = k /\ c.hasseq)) |->
                                           [seq |-> SelectSeq(Ev[n].calls, LAMBDA c : c.k = k /\ c.hasseq)[j].seq, t |-> Ev[n].ev.t]]
\* "the callback is invoked for a notification only if it is fresher than the last one delivered (RFC 7641 3.4)"
C08_OnlyFresh == J => \A k \in {1, 2} : LET d == Deliv(k, N) IN
                    \A j \in 2..Len(d) : Fresh(d[j - 1].seq, d[j].seq, d[j - 1].t, d[j].t)
\* "each registration receives notifications for its own token only"
C08_OwnToken  == J => \A n \in 1..N : \A j \in 1..Len(Ev[n].calls) :
                    (Ev[n].calls[j].k = Ev[n].ev.k /\ Ev[n].calls[j].tokok /\ Ev[n].ev.e \in {"first", "notify"})
\* "registration succeeds only on a 2.05/2.03 answer"
FirstOf(k) == LET S == {n \in 1..N : Ev[n].ev.e = "first" /\ Ev[n].ev.k = k /\ Ev[n].applied} IN IF S = {} THEN 0 ELSE CHOOSE n \in S : TRUE
C08_RegisterOnly205_203 == J => \A n \in 1..N : (Ev[n].ret = "ok") =>
                    (FirstOf(Ev[n].ev.k) # 0 /\ FirstOf(Ev[n].ev.k) <= n /\ Ev[FirstOf(Ev[n].ev.k)].ev.kind \in {"ok", "noobs"})
\* "once cancellation has returned (or registration has failed) no notification arriving later reaches the callback"
DeadBefore(k, n) == \E m \in 1..(n - 1) : Ev[m].ev.k = k /\ Ev[m].applied /\
                       ((Ev[m].ev.e = "cancel" /\ Ev[m].cancel = "ok") \/ (Ev[m].ev.e = "cancelgiveup" /\ Ev[m].cancel \in {"ok", "err"})
                        \/ (Ev[m].ev.e = "first" /\ Ev[m].ev.kind \in {"err", "err2xx"})
                        \/ (Ev[m].ev.e = "giveup" /\ Ev[m].ret = "err"))
C08_SilentAfterCancel == J => \A n \in 1..N : (Ev[n].ev.e = "notify" /\ DeadBefore(Ev[n].ev.k, n)) => Ev[n].calls = <<>>
C08_NoHang == J => ~T.hung
\* free-running: duplicates and reordered copies of every notification while the application's own requests keep replacing
\* the read loop (two loops dispatch at the same time). Fresh is a strict order within 128 s, so a sequence number that
\* was delivered is never delivered again; nothing reaches the callback under a foreign token
C08_StressNoRedelivery == (ph = 1 /\ IsStress /\ T.setup) => (T.twice = 0 /\ T.foreign = 0)
\* conformance only: the callback ran exactly when the observation model says (fresh => delivered, error answers not handed over, ...)
K08_Conforms == J => \A n \in 1..N : Ev[n].applied => ((Ev[n].calls # <<>>) = Ev[n].expcb)
=============================================================================
