INIT Init
NEXT Next
VIEW View
CONSTANTS
  Grid = "quick"
  FaultBudget = 1
  OrphanGuard = TRUE
  Walks = 0
  MaxEvents = 0
  MaxReplay = 3
INVARIANTS Inv_ExactUp Inv_ExactDown Inv_OnceDown Inv_Completes
