------------------------------ MODULE ObsBlock ------------------------------
(***************************************************************************)
(* Observe + block-wise (RFC 7959 2.6) as net/blockwise does it (C04, C08): *)
(* a notification whose representation does not fit one block carries the   *)
(* FIRST block (with the Observe option and the ETag of that               *)
(* representation); the client then fetches the rest with GETs under a NEW  *)
(* token (handleObserveResponse), which the server answers like any GET:    *)
(* the first such request executes the application - the CURRENT            *)
(* representation - and the response is held under that token for the       *)
(* later blocks (startSendingMessage).  The resource may change at any      *)
(* moment.  The client compares the ETag of every block with the one its    *)
(* reassembly started with and starts over from block 0 when it differs     *)
(* (getPayloadFromCachedReceivedMessage).  CheckETag = FALSE is the mutant  *)
(* without that comparison.                                                 *)
(*                                                                         *)
(* A body is NB blocks; block k of version v is <<k, v>>.                   *)
(***************************************************************************)
EXTENDS Integers, Sequences, FiniteSets, TLC

CONSTANTS NB,         \* blocks per representation (>= 2)
          MaxVer,     \* the resource goes through versions 1..MaxVer
          MaxFetch,   \* fetch tokens available
          CheckETag

VARIABLES cur,        \* current version of the resource
          net,        \* messages in flight (a set: any order, no loss - the transfers are confirmable)
          held,       \* server: fetch token -> version held for it (0: none)
          asm,        \* client: fetch token -> [seq, etag, file (sequence of <<block, version>>)]   (Len(file) = 0: unused)
          nfetch,     \* fetch tokens used
          nseq,       \* Observe sequence numbers used
          last,       \* client: Observe value of the last delivery (freshness, C08)
          got         \* deliveries to the observer: sequences of <<block, version>>
vars == <<cur, net, held, asm, nfetch, nseq, last, got>>

Tok == 1..MaxFetch
NoAsm == [seq |-> 0, etag |-> 0, file |-> <<>>]
Init == /\ cur = 1 /\ net = {} /\ held = [t \in Tok |-> 0] /\ asm = [t \in Tok |-> NoAsm]
        /\ nfetch = 0 /\ nseq = 0 /\ last = 0 /\ got = <<>>

\* the resource changes (silently: the notification is a step of its own)
Change == cur < MaxVer /\ cur' = cur + 1 /\ UNCHANGED <<net, held, asm, nfetch, nseq, last, got>>
\* the server sends a notification: first block of the current representation
Notify == /\ nseq < MaxVer + 1
          /\ nseq' = nseq + 1
          /\ net' = net \cup {[k |-> "note", seq |-> nseq + 1, ver |-> cur]}
          /\ UNCHANGED <<cur, held, asm, nfetch, last, got>>
\* the client gets the first block: a reassembly under a new token, and the request for block 1
RecvNote(m) == /\ m.k = "note" /\ nfetch < MaxFetch
               /\ LET t == nfetch + 1 IN
                    /\ nfetch' = t
                    /\ asm' = [asm EXCEPT ![t] = [seq |-> m.seq, etag |-> m.ver, file |-> <<<<0, m.ver>>>>]]
                    /\ net' = (net \ {m}) \cup {[k |-> "get", t |-> t, num |-> 1]}
               /\ UNCHANGED <<cur, held, nseq, last, got>>
\* the server answers a block request: from what it holds for the token, else by executing the application now
Serve(m) == /\ m.k = "get"
            /\ LET v == IF held[m.t] # 0 THEN held[m.t] ELSE cur IN
                 /\ held' = [held EXCEPT ![m.t] = IF m.num = NB - 1 THEN 0 ELSE v]      \* the last block frees the held response
                 /\ net' = (net \ {m}) \cup {[k |-> "blk", t |-> m.t, num |-> m.num, ver |-> v]}
            /\ UNCHANGED <<cur, asm, nfetch, nseq, last, got>>
\* the client gets a block
Fresh(s) == s > last
RecvBlk(m) == /\ m.k = "blk"
              /\ LET a == asm[m.t]
                     changed == CheckETag /\ m.ver # a.etag
                     file == IF changed THEN <<>> ELSE a.file
                     fits == m.num = Len(file)
                     file2 == IF fits THEN Append(file, <<m.num, m.ver>>) ELSE file
                     etag2 == IF changed THEN m.ver ELSE a.etag IN
                   IF fits /\ Len(file2) = NB
                   THEN /\ asm' = [asm EXCEPT ![m.t] = NoAsm]
                        /\ net' = net \ {m}
                        /\ IF Fresh(a.seq) THEN got' = Append(got, file2) /\ last' = a.seq ELSE UNCHANGED <<got, last>>
                   ELSE /\ asm' = [asm EXCEPT ![m.t] = [seq |-> a.seq, etag |-> etag2, file |-> file2]]
                        /\ net' = (net \ {m}) \cup {[k |-> "get", t |-> m.t, num |-> Len(file2)]}
                        /\ UNCHANGED <<got, last>>
              /\ UNCHANGED <<cur, held, nfetch, nseq>>

Next == Change \/ Notify \/ \E m \in net : RecvNote(m) \/ Serve(m) \/ RecvBlk(m)
Spec == Init /\ [][Next]_vars

\* C04: every body handed to the observer is ONE representation, whole and in place
Whole(f) == Len(f) = NB /\ \A k \in 1..NB : f[k][1] = k - 1
OneVersion(f) == \A a, b \in 1..Len(f) : f[a][2] = f[b][2]
NoMix == \A k \in 1..Len(got) : Whole(got[k]) /\ OneVersion(got[k])
\* plans for the driver (harness/drv/c04/obsbw.go): what the environment does, at the granularity the driver can steer
\*   notify      Change, Notify, then everything is delivered
\*   notify2     Change, Notify, Change, Notify back to back, then everything is delivered
\*   change      Change
\*   sendchange  Change, Notify, RecvNote, Change (before the Serve of the first block request), then everything is delivered
\*   midchange   Change, Notify, RecvNote, Serve, Change (while the server holds the response), then everything is delivered
PlanSteps == {"notify", "notify2", "change", "sendchange", "midchange"}
TypeOK == cur \in 1..MaxVer /\ nfetch \in 0..MaxFetch
=============================================================================
