------------------------------ MODULE MC_Mix ------------------------------
EXTENDS Mix, Json
\* every complete interleaving, for the driver
Emit == Done => PrintT(<<"ORDER", ToJson(order)>>)
===========================================================================
