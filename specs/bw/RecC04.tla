------------------------------- MODULE RecC04 -------------------------------
(* Judges block-wise exchanges recorded from the REAL net/blockwise layer (two BlockWise instances joined by the   *)
(* driver's relay: op "layer") and from pairs of real udp / tcp connections (op "e2e") - harness/drv/c04.          *)
EXTENDS Blockwise, Json, IOUtils
Traces == ndJsonDeserialize(IOEnv.VF_RECS)
VARIABLES i, ph
Init == i \in 1..Len(Traces) /\ ph = 0
Next == ph = 0 /\ ph' = 1 /\ UNCHANGED i
J == ph = 1
T == Traces[i]
PP == [L |-> T.p.l, L2 |-> T.p.l2, CS |-> T.p.cs, SS |-> T.p.ss, CMMS |-> T.p.cmms, SMMS |-> T.p.smms, Faults |-> 1000, Guard |-> TRUE]
File(d) == d.pieces              \* request bodies: <<pos, a, b>>; response bodies: <<pos, a, b, version>>
Has(q, x) == \E k \in 1..Len(q) : q[k] = x
Conc == T.op \in {"conc", "obsbw", "mix"}      \* a record of N concurrent exchanges (see C04_NoMix) / of an observation (C04_ObsWhole)
IsConc == T.op = "conc"
IsObs == T.op = "obsbw"
IsMix == T.op = "mix"
Success == T.ret = "ok" /\ T.retcode \in {68, 69}         \* the call returned a 2.04 / 2.05 response

\* "hands the receiving application exactly the bytes the sending application supplied" / "never a partial body
\*  presented as complete" / "never corrupt, truncate or extend a body" - request direction
C04_ExactUp   == (J /\ ~Conc) => \A k \in 1..Len(T.app) : (T.app[k].len = 0 /\ T.p.l = 0) \/ FileIs(File(T.app[k]), T.p.l)
\* - response direction
\*   (every execution of the server application yields a new representation, announced by its ETag: the body handed
\*    over is ONE of the representations produced, whole - never a mixture, never zeros in place of bytes)
\*   (directed "again" schedules: representations from the second on are l2b bytes long)
DownLen(v) == IF v >= 2 /\ T.p.l2b > 0 THEN T.p.l2b ELSE T.p.l2
C04_ExactDown == (J /\ ~Conc /\ Success) => \A k \in 1..Len(T.got) : (T.got[k].len = 0 /\ T.p.l2 = 0)
                                       \/ (Len(File(T.got[k])) > 0 /\ OneVersion(File(T.got[k])) /\ File(T.got[k])[1][4] \in 1..Len(T.app) /\ FileIs(File(T.got[k]), DownLen(File(T.got[k])[1][4])))
\* "with the message's other options preserved"
C04_Options   == (J /\ ~Conc) =>
                   ((\A k \in 1..Len(T.app) : (T.app[k].query /\ Has(T.app[k].opts, 11) /\ (T.p.l > 0 => T.app[k].cf = 42)))
                    /\ (Success => \A k \in 1..Len(T.got) : (Has(T.got[k].opts, 14) /\ T.got[k].cf = 42)))
\* "exactly once": without channel faults one delivery per completed exchange; on datagram connections (message-ID
\* de-duplication underneath) never more than one, whatever is duplicated or replayed
C04_Once      == (J /\ ~Conc) =>
                   (((~T.faulty /\ Success) => (Len(T.app) = 1 /\ Len(T.got) = 1))
                    \* (a request BODY is handed over once; a body-less GET may be served again when a continuation outlives the response)
                    /\ ((T.op = "e2e" /\ T.transport = "udp" /\ T.p.l > 0) => Len(T.app) <= 1))
\* "an exchange that cannot complete ends with an error or timeout - never by hanging", nothing crashes
C04_Ends      == (J /\ ~Conc) => (T.ret \in {"ok", "err", "none"} /\ T.ret # "hung" /\ T.panics = 0)
\* after the transfer timeout neither side holds reassembly or send buffers (shared with C13)
C04_NoLeftovers == (J /\ ~Conc) => (T.rcvSrvX = 0 /\ T.sndSrvX = 0 /\ T.rcvCliX = 0 /\ T.sndCliX = 0)

\* "concurrent transfers with different tokens never mix": N exchanges at the same time on one pair of connections; every
\* request body reaches the application whole, once, as the body of ITS exchange; every caller gets one whole representation,
\* and no two callers the same one
XOK(x) == x.ret = "ok" /\ x.retcode \in {68, 69}
C04_NoMix == (J /\ IsConc) => /\ T.stray = 0
                            /\ \A k \in 1..T.n : LET x == T.x[k] IN
                                 /\ x.ret \in {"ok", "err"}
                                 /\ \A a \in 1..Len(x.app) : (x.app[a].len = 0 /\ x.uplen = 0) \/ FileIs(File(x.app[a]), x.uplen)
                                 /\ XOK(x) => /\ Len(x.app) = 1 /\ Len(x.got) = 1
                                              /\ (x.got[1].len = 0 /\ T.p.l2 = 0) \/ (FileIs(File(x.got[1]), T.p.l2) /\ OneVersion(File(x.got[1])) /\ File(x.got[1])[1][4] \in 1..T.napp)
                            /\ \A a, b \in 1..T.n : (a # b /\ XOK(T.x[a]) /\ XOK(T.x[b]) /\ T.p.l2 > 0) => File(T.x[a].got[1])[1][4] # File(T.x[b].got[1])[1][4]
\* conformance only - fault-free: all of them complete (except the BERT case O1, DESIGN 5 C04)
O1x(l) == T.p.cs = 7 /\ l > 1024 /\ l < Buf(7, T.p.cmms) /\ l % 1024 # 0
K04_ConcCompletes == (J /\ IsConc) => \A k \in 1..T.n : (XOK(T.x[k]) \/ O1x(T.x[k].uplen))

\* two uploads with different tokens reach the server's layer block by block in a given interleaving (Mix.tla): every body
\* handed to the application is the body of the transfer whose token it carries, whole, and each transfer is delivered once
MixOf(w) == {k \in 1..Len(T.app) : T.app[k].who = w}
C04_LayerNoMix == (J /\ IsMix) => /\ T.panics = 0
                                  /\ \A k \in 1..Len(T.app) : T.app[k].who \in {0, 1} /\ T.app[k].len = 16 * T.nb /\ FileIs(T.app[k].own, 16 * T.nb)
                                  /\ \A w \in {0, 1} : Cardinality(MixOf(w)) = 1
                                  /\ T.left = 0
\* observe + block-wise (ObsBlock.tla): every body handed to the observer is ONE representation, whole (never the first
\* block of one and the rest of the next); notifications reach it in Observe order; registration and cancellation end;
\* after the cancellation and the transfer timeout nothing is held on either side
ONote(k) == T.notes[k]
C04_ObsWhole == (J /\ IsObs) => /\ T.reg = "ok" /\ T.cancel \in {"ok", "err"} /\ T.panics = 0
                                /\ Len(T.notes) >= 1
                                /\ \A k \in 1..Len(T.notes) : /\ ONote(k).len = T.p.l2 /\ FileIs(ONote(k).pieces, T.p.l2) /\ OneVersion(ONote(k).pieces)
                                                               /\ ONote(k).pieces[1][4] \in 1..T.nver
                                /\ \A k \in 2..Len(T.notes) : ONote(k).seq > ONote(k - 1).seq
C04_ObsNoLeftovers == (J /\ IsObs /\ T.cancel = "ok") => (T.rcvSrvX = 0 /\ T.sndSrvX = 0 /\ T.rcvCliX = 0 /\ T.sndCliX = 0 /\ T.obsCliX = 0)
\* ... and a completed block-wise notification leaves nothing behind at once, not only after the transfer timeout (the GET under
\* the private token with which the client fetched the rest, its reassembly entry): state is bounded by live work, not by history
C04_ObsCompletedLeavesNothing == (J /\ IsObs /\ T.reg = "ok") => (T.rcvCliNow = 0 /\ T.sndCliNow = 0 /\ T.rcvSrvNow = 0)
\* conformance only: after a plan that ends with a notification the observer has the current representation
K04_ObsCurrent == (J /\ IsObs /\ T.plan[Len(T.plan)] \in {"notify", "notify2", "sendchange"}) => T.lastSeen = T.nver

\* ---- conformance only: the layer followed the specification message by message ---------------------------------
Applied == LET idx == SelectSeq([k \in 1..Len(T.acts) |-> k], LAMBDA k : T.applied[k]) IN [j \in 1..Len(idx) |-> T.acts[idx[j]]]
RECURSIVE RunActs(_, _, _)
RunActs(s, acts, k) == IF k > Len(acts) THEN s
                       ELSE LET S == Apply(PP, s, acts[k]) IN RunActs(IF S = {} THEN s ELSE CHOOSE t \in S : TRUE, acts, k + 1)
MF == RunActs(S0(PP), Applied, 1)
SameMsg(m, r) == /\ m.dir = r.dir /\ m.kind = r.kind /\ m.b1 = r.b1 /\ m.b2 = r.b2 /\ (m.kind = "resp" => m.ver = r.ver)
                 /\ (m.pay[2] - m.pay[1]) = r.plen
                 /\ (r.plen >= 4 /\ r.pay[1] >= 0) => <<r.pay[1], r.pay[2]>> = m.pay
K04_Conforms  == (J /\ T.op = "layer" /\ ~T.concurrent /\ ~T.p.ne /\ T.p.l2b = 0) => (Len(MF.sent) = Len(T.msgs) /\ \A k \in 1..Len(T.msgs) : SameMsg(MF.sent[k], T.msgs[k]))
\* a fault-free exchange that the specification completes is completed by the code
K04_Completes == (J /\ ~Conc /\ ~T.faulty /\ T.quiet /\ T.op = "layer" /\ Completed(MF)) => Success
=============================================================================
