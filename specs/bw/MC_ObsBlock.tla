---------------------------- MODULE MC_ObsBlock ----------------------------
(* Exhaustive check of ObsBlock (NoMix with the ETag comparison, violated without it) and the plan catalogue that the *)
(* driver executes on two real udp connections.                                                                       *)
EXTENDS ObsBlock, Json, SequencesExt
CONSTANT MaxPlan
Seqs(n) == UNION {[1..k -> PlanSteps] : k \in 1..n}
ASSUME JsonSerialize("plans.json", SetToSeq(Seqs(MaxPlan)))
=============================================================================
