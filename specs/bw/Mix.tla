-------------------------------- MODULE Mix --------------------------------
(***************************************************************************)
(* "Concurrent transfers with different tokens never mix" (C04) at the     *)
(* server's block-wise layer: two uploads A and B of NB blocks each reach   *)
(* the layer block by block in any interleaving.  The layer keeps one       *)
(* reassembly entry per KEY of the token (net/blockwise:                    *)
(* receivingMessagesCache keyed by Token.Hash()), appends a block iff its   *)
(* offset equals the bytes held (else it answers 2.31 for the block it      *)
(* got and holds what it has), and hands the body over with the last block. *)
(* SameKey = TRUE is the mutant in which the two tokens share a key (a key  *)
(* function that forgets the token's length: 2a and 00 2a).                 *)
(***************************************************************************)
EXTENDS Integers, Sequences, FiniteSets, TLC
CONSTANTS NB, SameKey
VARIABLES nxt,      \* next block each peer sends
          held,     \* key -> sequence of <<who, block>> held
          app,      \* deliveries: <<who (token of the delivered request), sequence of <<who, block>>>>
          order     \* history: who sent
vars == <<nxt, held, app, order>>
Who == {0, 1}
Key(w) == IF SameKey THEN 0 ELSE w
Init == nxt = [w \in Who |-> 0] /\ held = [k \in {0, 1} |-> <<>>] /\ app = <<>> /\ order = <<>>
Send(w) == /\ nxt[w] < NB
           /\ LET k == Key(w)
                  n == nxt[w]
                  fits == n = Len(held[k])
                  h2 == IF fits THEN Append(held[k], <<w, n>>) ELSE held[k] IN
                /\ nxt' = [nxt EXCEPT ![w] = n + 1]
                /\ order' = Append(order, w)
                /\ IF fits /\ n = NB - 1
                   THEN app' = Append(app, <<w, h2>>) /\ held' = [held EXCEPT ![k] = <<>>]
                   ELSE IF ~fits /\ n = NB - 1 /\ Len(held[k]) = 0
                   THEN UNCHANGED <<app, held>>            \* an orphan final block is refused (4.08)
                   ELSE app' = app /\ held' = [held EXCEPT ![k] = h2]
Next == \E w \in Who : Send(w)
Spec == Init /\ [][Next]_vars
Whole(w, f) == Len(f) = NB /\ \A j \in 1..NB : f[j] = <<w, j - 1>>
NoMix == \A j \in 1..Len(app) : Whole(app[j][1], app[j][2])
Done == \A w \in Who : nxt[w] = NB
\* without faults each transfer is delivered, once
ExactlyOnce == Done => \A w \in Who : Cardinality({j \in 1..Len(app) : app[j][1] = w}) = 1
=============================================================================
