----------------------------- MODULE Blockwise -----------------------------
(***************************************************************************)
(* net/blockwise (C04): both roles of one block-wise exchange, with the    *)
(* code's own arithmetic, over a channel that may duplicate, drop, or       *)
(* replay messages.                                                         *)
(*                                                                         *)
(* A body is the interval [0, L).    A message carries a payload interval     *)
(* <<a, b>> of the sender's body, so block sizes 16..1024 and BERT          *)
(* multiples cost nothing; the receiver's reassembly file is a list of      *)
(* <<position, a, b>> pieces, which makes misplaced or missing bytes        *)
(* visible.                                                                 *)
(*                                                                         *)
(* Upload (Block1, request POST/PUT with a body):                           *)
(*   CliStart     BlockWise.Do: whole body if L <= Size(cs), else first       *)
(*                block of Buf(cs, cmms) bytes, Block1(cs, 0, more = TRUE)  *)
(*   SrvRecvReq   Handle -> processReceivedMessage(Block1): clamp SZX only  *)
(*                when no reassembly state exists, append iff               *)
(*                num * Size(szx) = bytes held, deliver when more is clear, *)
(*                else answer 2.31 Continue with the RECEIVED num           *)
(*   CliRecvCont  Handle -> continueSendingMessage/createSendingMessage:    *)
(*                next offset = num * Size(szx) + Buf(szx, cmms)            *)
(* Download (Block2, response with a body):                                 *)
(*   SrvAnswer    startSendingMessage / createSendingMessage                *)
(*   CliRecvResp  processReceivedMessage(Block2): re-request at             *)
(*                bytesHeld / Size(szx)                                     *)
(*   SrvRecvNext  continueSendingMessage for GET with Block2                *)
(* Representations: every execution of the server application produces a  *)
(* new representation (version = number of executions so far, carried as    *)
(* ETag); the server's send buffer holds one version; "lose" = the buffer   *)
(* times out, so a later block request of a GET executes the application    *)
(* again and is answered from the NEW version.  The client compares the     *)
(* ETag of every block with the one its reassembly started with: a change   *)
(* empties the file (and so re-requests from block 0) - RFC 7959 2.4.       *)
(* Guard is the repair of the final-block replay (D11): a Block1        *)
(* request with num > 0 and no reassembly state is refused with 4.08.       *)
(***************************************************************************)
EXTENDS Integers, Sequences, FiniteSets, TLC

\* Every operator takes the scenario p = [L (upload body length, 0: request without body), L2 (response body
\* length), p.CS, p.SS (client / server maximum SZX, 7 = BERT), p.CMMS, p.SMMS (maximum message sizes: BERT buffer),
\* Faults (fault budget of the channel), Guard (refuse an orphan final block)] so that one TLC run can judge traces of many scenarios.

Size(s) == IF s = 7 THEN 1024 ELSE 2 ^ (s + 4)
Buf(s, mms) == IF s < 7 THEN Size(s) ELSE (mms \div 1024) * 1024
Min(a, b) == IF a < b THEN a ELSE b
NoBlk == [szx |-> -1, num |-> 0, more |-> FALSE]
HasBlk(b) == b.szx # -1
Blk(s, n, m) == [szx |-> s, num |-> n, more |-> m]

\* a message: dir "c2s"/"s2c", kind, Block1 / Block2 option, payload interval of the SENDER's body
MsgV(dir, kind, b1, b2, pay, ver) == [dir |-> dir, kind |-> kind, b1 |-> b1, b2 |-> b2, pay |-> pay, ver |-> ver]
Msg(dir, kind, b1, b2, pay) == MsgV(dir, kind, b1, b2, pay, 0)
None == <<0, 0>>
Piece(pos, iv) == <<pos, iv[1], iv[2]>>
PieceV(pos, iv, ver) == <<pos, iv[1], iv[2], ver>>              \* a piece of version ver of the response body
OneVersion(f) == \A a, b \in 1..Len(f) : f[a][4] = f[b][4]
HeldBytes(f) == IF f = <<>> THEN 0 ELSE f[Len(f)][1] + (f[Len(f)][3] - f[Len(f)][2])
\* the file is exactly [0, n): every piece sits where its content belongs and they are contiguous
RECURSIVE ExactFrom(_, _, _)
ExactFrom(f, k, at) == IF k > Len(f) THEN TRUE
                       ELSE f[k][1] = at /\ f[k][2] = at /\ ExactFrom(f, k + 1, f[k][3])
FileIs(f, n) == ExactFrom(f, 1, 0) /\ HeldBytes(f) = n

S0(p) == [c2s |-> <<>>, s2c |-> <<>>, sent |-> <<>>,       \* channel queues and everything ever sent (for replays)
       faults |-> p.Faults,
       cli |-> [st |-> "idle", file |-> <<>>, rszx |-> -1, etag |-> 0],   \* st: idle | up (sending body) | wait (request done, response pending) | down (receiving) | done | failed
       srv |-> [file |-> <<>>, rcv |-> FALSE, sending |-> FALSE, sver |-> 0],
       app |-> <<>>,       \* server application deliveries: each is the reassembly file handed to the handler
       got |-> <<>>,       \* client application deliveries (response bodies returned from Do)
       dead |-> FALSE]     \* the client side gave up the sending state after an error (the caller will time out)

Send(s, m) == IF m.dir = "c2s" THEN [s EXCEPT !.c2s = Append(s.c2s, m), !.sent = Append(s.sent, m)]
              ELSE [s EXCEPT !.s2c = Append(s.s2c, m), !.sent = Append(s.sent, m)]

(* --------------------------------- client --------------------------------- *)
CliStart(p, s) ==
  IF s.cli.st # "idle" THEN {}
  ELSE IF p.L <= Size(p.CS)
       THEN {Send([s EXCEPT !.cli.st = "wait"], Msg("c2s", "req", NoBlk, NoBlk, <<0, p.L>>))}
       ELSE {Send([s EXCEPT !.cli.st = "up"], Msg("c2s", "req", Blk(p.CS, 0, TRUE), NoBlk, <<0, Min(p.L, Buf(p.CS, p.CMMS))>>))}

\* 2.31 Continue arrives
CliRecvCont(p, s, m) ==
  IF s.cli.st # "up" \/ s.dead THEN s
  ELSE LET szx == Min(m.b1.szx, p.CS)
           off == m.b1.num * Size(szx) + Buf(szx, p.CMMS)
           b   == Min(p.L, off + Buf(szx, p.CMMS)) IN
       IF off > p.L THEN [s EXCEPT !.dead = TRUE]                        \* seek past the end: error, sending state dropped
       ELSE Send(s, Msg("c2s", "req", Blk(szx, off \div Size(szx), b # p.L), NoBlk, <<off, b>>))

\* a response (final 2.xx, possibly with Block2) arrives
CliRecvResp(p, s, m) ==
  IF s.cli.st \notin {"up", "wait", "down"}
  THEN \* nobody is waiting: a block of a response body cannot be paired with a request -> the layer answers 4.08
       IF HasBlk(m.b2) THEN Send(s, Msg("c2s", "incomplete", NoBlk, NoBlk, None)) ELSE s
  ELSE IF ~HasBlk(m.b2) THEN [s EXCEPT !.cli.st = "done", !.got = Append(s.got, <<PieceV(0, m.pay, m.ver)>>)]
  ELSE LET fresh == s.cli.st # "down"
           szx == IF fresh THEN Min(m.b2.szx, p.CS) ELSE m.b2.szx
           changed == ~fresh /\ m.ver # s.cli.etag                    \* the representation changed: drop what is held
           file == IF fresh \/ changed THEN <<>> ELSE s.cli.file
           held == HeldBytes(file)
           off == m.b2.num * Size(szx) IN
       IF fresh /\ ~m.b2.more THEN [s EXCEPT !.cli.st = "done", !.got = Append(s.got, <<PieceV(0, m.pay, m.ver)>>)]
       ELSE LET file2 == IF off = held THEN Append(file, PieceV(off, m.pay, m.ver)) ELSE file
                held2 == HeldBytes(file2)
                rs == Min(szx, p.CS) IN
            IF off = held /\ ~m.b2.more
            THEN [s EXCEPT !.cli.st = "done", !.cli.file = <<>>, !.got = Append(s.got, file2)]
            ELSE Send([s EXCEPT !.cli.st = "down", !.cli.file = file2, !.cli.etag = m.ver],
                      Msg("c2s", "req", NoBlk, Blk(rs, held2 \div Size(rs), m.b2.more), None))

(* --------------------------------- server --------------------------------- *)
\* the application handler ran on a (complete) request: produce the response, block-wise if needed.
\* maxs: the SZX in force (server maximum, lowered to the request's block SZX); num: block asked for by the request
SrvAnswer(p, s, maxs, num) ==
  LET v == Len(s.app) IN          \* every execution of the application yields a new representation
  IF p.L2 < Size(maxs) THEN Send(s, MsgV("s2c", "resp", NoBlk, NoBlk, <<0, p.L2>>, v))
  ELSE LET off == num * Size(maxs)
           b == Min(p.L2, off + Buf(maxs, p.SMMS)) IN
       IF off > p.L2 THEN s                                                  \* cannot seek: error, nothing is sent
       ELSE IF s.srv.sending THEN Send(s, Msg("s2c", "incomplete", NoBlk, NoBlk, None))   \* a response for this token is still held: startSendingMessage fails
       ELSE Send([s EXCEPT !.srv.sending = TRUE, !.srv.sver = v], MsgV("s2c", "resp", NoBlk, Blk(maxs, off \div Size(maxs), b # p.L2), <<off, b>>, v))

SrvRecvReq(p, s, m) ==
  IF HasBlk(m.b2) /\ ~HasBlk(m.b1)
  THEN \* GET-like request with Block2: continue an ongoing download, or a fresh request
       IF s.srv.sending
       THEN LET szx == Min(m.b2.szx, p.SS)
                off == m.b2.num * Size(szx)
                b == Min(p.L2, off + Buf(szx, p.SMMS)) IN
            IF off > p.L2 THEN [s EXCEPT !.srv.sending = FALSE]
            ELSE Send([s EXCEPT !.srv.sending = (b # p.L2)], MsgV("s2c", "resp", NoBlk, Blk(szx, off \div Size(szx), b # p.L2), <<off, b>>, s.srv.sver))
       \* no response is held any more: a GET is simply served again from that block; a POST/PUT (the scenario has a
       \* request body) must not be executed again, with an empty body - the repaired code refuses it with 4.08
       ELSE IF p.Guard /\ p.L > 0 /\ m.b2.num > 0 THEN Send(s, Msg("s2c", "incomplete", NoBlk, NoBlk, None))
       ELSE SrvAnswer(p, [s EXCEPT !.app = Append(s.app, <<>>)], Min(p.SS, m.b2.szx), m.b2.num)
  ELSE IF ~HasBlk(m.b1)
  THEN SrvAnswer(p, [s EXCEPT !.app = Append(s.app, <<Piece(0, m.pay)>>)], p.SS, 0)          \* plain request: straight to the handler
  ELSE LET maxs == Min(p.SS, m.b1.szx)
           cached == s.srv.rcv
           szx0 == IF cached THEN m.b1.szx ELSE Min(m.b1.szx, maxs) IN
       IF ~cached /\ ~m.b1.more
       THEN IF p.Guard /\ m.b1.num > 0
            THEN Send(s, Msg("s2c", "incomplete", NoBlk, NoBlk, None))                  \* 4.08: nothing to complete
            ELSE SrvAnswer(p, [s EXCEPT !.app = Append(s.app, <<Piece(0, m.pay)>>)], maxs, 0)  \* forwarded as it is
       ELSE LET file == IF cached THEN s.srv.file ELSE <<>>
                held == HeldBytes(file)
                off == m.b1.num * Size(szx0)
                file2 == IF off = held THEN Append(file, Piece(off, m.pay)) ELSE file IN
            IF off = held /\ ~m.b1.more
            THEN SrvAnswer(p, [s EXCEPT !.srv.rcv = FALSE, !.srv.file = <<>>, !.app = Append(s.app, file2)], maxs, 0)
            ELSE Send([s EXCEPT !.srv.rcv = TRUE, !.srv.file = file2],
                      Msg("s2c", "cont", Blk(Min(szx0, maxs), m.b1.num, m.b1.more), NoBlk, None))

(* --------------------------------- channel -------------------------------- *)
Recv(p, s, m) == IF m.dir = "c2s" THEN (IF m.kind = "incomplete" THEN s ELSE SrvRecvReq(p, s, m))     \* a stray 4.08 is not a request
              ELSE IF m.kind = "cont" THEN CliRecvCont(p, s, m)
              ELSE IF m.kind = "incomplete" THEN (IF s.cli.st \in {"up", "wait", "down"} THEN [s EXCEPT !.cli.st = "failed"] ELSE s)
              ELSE CliRecvResp(p, s, m)
Deliver(p, s, d) == IF d = "c2s" THEN (IF s.c2s = <<>> THEN {} ELSE {Recv(p, [s EXCEPT !.c2s = Tail(s.c2s)], Head(s.c2s))})
                 ELSE (IF s.s2c = <<>> THEN {} ELSE {Recv(p, [s EXCEPT !.s2c = Tail(s.s2c)], Head(s.s2c))})
Dup(p, s, d) == IF s.faults = 0 THEN {}
             ELSE IF d = "c2s" THEN (IF s.c2s = <<>> THEN {} ELSE {Recv(p, [s EXCEPT !.faults = s.faults - 1], Head(s.c2s))})
             ELSE (IF s.s2c = <<>> THEN {} ELSE {Recv(p, [s EXCEPT !.faults = s.faults - 1], Head(s.s2c))})
Drop(p, s, d) == IF s.faults = 0 THEN {}
              ELSE IF d = "c2s" THEN (IF s.c2s = <<>> THEN {} ELSE {[s EXCEPT !.c2s = Tail(s.c2s), !.faults = s.faults - 1]})
              ELSE (IF s.s2c = <<>> THEN {} ELSE {[s EXCEPT !.s2c = Tail(s.s2c), !.faults = s.faults - 1]})
Replay(p, s, k) == IF s.faults = 0 \/ k > Len(s.sent) THEN {} ELSE {Recv(p, [s EXCEPT !.faults = s.faults - 1], s.sent[k])}

\* the server's buffers time out (block-wise transfer timeout): the held response and any reassembly state are gone
Lose(p, s) == IF s.faults = 0 \/ ~(s.srv.sending \/ s.srv.rcv) THEN {}
              ELSE {[s EXCEPT !.faults = s.faults - 1, !.srv.sending = FALSE, !.srv.rcv = FALSE, !.srv.file = <<>>]}

\* a retry with the same token after an abandoned transfer (three steps, used by directed schedules only):
\*   abandon  the peer goes silent - everything in flight is lost - and the caller gives up (its context ends): the call
\*            returns an error; what the client had reassembled so far stays in its cache, and so do the server's buffers
\*   lapse    the transfer timeout elapses on both sides; one side has swept since, on the other (d = "c2s": the client,
\*            "s2c": the server) NO sweep has run: its entries still sit in the caches, expired - a look-up reports them
\*            absent and a store replaces them, so abstractly they are gone on both sides
\*   restart  the application issues the same request again, with the same token
Abandon(p, s) == IF s.faults = 0 \/ s.cli.st \notin {"up", "wait", "down"} THEN {}
                 ELSE {[s EXCEPT !.faults = s.faults - 1, !.cli.st = "gone", !.c2s = <<>>, !.s2c = <<>>]}
Lapse(p, s) == IF s.cli.st # "gone" THEN {}
               ELSE {[s EXCEPT !.cli.file = <<>>, !.srv.sending = FALSE, !.srv.rcv = FALSE, !.srv.file = <<>>]}
Restart(p, s) == IF s.cli.st # "gone" \/ s.cli.file # <<>> \/ s.srv.sending \/ s.srv.rcv THEN {}
                 ELSE CliStart(p, [s EXCEPT !.cli.st = "idle", !.dead = FALSE])
\*   retry    the same, but at once: the transfer timeout has NOT elapsed, both sides still hold what the abandoned transfer
\*            left (a response that is still held makes the server refuse the new one: SrvAnswer)
Retry(p, s) == IF s.cli.st # "gone" THEN {} ELSE CliStart(p, [s EXCEPT !.cli.st = "idle", !.cli.file = <<>>, !.dead = FALSE])
\*   again    the exchange has completed; the application issues its next request with the same token at once (a response
\*            of exactly one block is still held by the server - nobody ever asks for a second block: SrvAnswer refuses)
Again(p, s) == IF s.cli.st # "done" THEN {} ELSE CliStart(p, [s EXCEPT !.cli.st = "idle"])
\*   stale    the transfer timeout passes on the client while its request is still waiting for the rest of a response body, and no
\*            sweep has run: what it holds of the body sits in the cache, expired - abstractly it is gone; the block that arrives
\*            next finds nothing held (CliRecvResp in state "down": it is not appended and the body is requested again from
\*            block 0 - also when that block is the last one)
Stale(p, s) == IF s.cli.st # "down" \/ s.cli.file = <<>> THEN {} ELSE {[s EXCEPT !.cli.file = <<>>]}
\*   stalesrv the same on the server: its reassembly state and the response it holds expire in place - abstractly Lose without the budget
StaleSrv(p, s) == IF ~(s.srv.sending \/ s.srv.rcv) THEN {} ELSE {[s EXCEPT !.srv.sending = FALSE, !.srv.rcv = FALSE, !.srv.file = <<>>]}
RetryActs == {[a |-> x, d |-> "c2s", k |-> 0] : x \in {"abandon", "lapse", "restart", "retry", "again", "stale", "stalesrv"}}

Acts == {[a |-> "start", d |-> "c2s", k |-> 0], [a |-> "lose", d |-> "c2s", k |-> 0]}
        \cup {[a |-> x, d |-> d, k |-> 0] : x \in {"deliver", "dup", "drop"}, d \in {"c2s", "s2c"}}
        \cup {[a |-> "replay", d |-> "c2s", k |-> k] : k \in 1..12}
Apply(p, s, a) == CASE a.a = "start" -> CliStart(p, s) [] a.a = "deliver" -> Deliver(p, s, a.d) [] a.a = "dup" -> Dup(p, s, a.d)
                 [] a.a = "drop" -> Drop(p, s, a.d) [] a.a = "replay" -> Replay(p, s, a.k) [] a.a = "lose" -> Lose(p, s)
                 [] a.a = "abandon" -> Abandon(p, s) [] a.a = "lapse" -> Lapse(p, s) [] a.a = "restart" -> Restart(p, s) [] a.a = "retry" -> Retry(p, s) [] a.a = "again" -> Again(p, s) [] a.a = "stale" -> Stale(p, s) [] a.a = "stalesrv" -> StaleSrv(p, s)

(* ----------------------------------- C04 ---------------------------------- *)
\* every delivery to the server application is the exact request body; every body returned to the caller is the exact response body
ExactUp(p, s)   == \A k \in 1..Len(s.app) : (s.app[k] = <<>> /\ p.L = 0) \/ FileIs(s.app[k], p.L)
\* ... of ONE representation the application produced (never a mixture of two, never zeros in place of bytes)
ExactDown(p, s) == \A k \in 1..Len(s.got) : FileIs(s.got[k], p.L2) /\ OneVersion(s.got[k]) /\ s.got[k][1][4] \in 1..Len(s.app)
\* at most one delivery per transfer when nothing is replayed or duplicated towards the server
OnceUp(s)    == Len(s.got) <= 1
Completed(s) == s.cli.st = "done"
Quiet(s) == s.c2s = <<>> /\ s.s2c = <<>> /\ s.cli.st # "idle"
\* a fault-free exchange completes
Completes(p, s) == (p.Faults = 0 /\ Quiet(s)) => Completed(s)
=============================================================================
