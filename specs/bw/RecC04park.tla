------------------------------ MODULE RecC04park ------------------------------
(* Judges the blocks a REAL udp connection put on the wire for a block-wise upload whose call ended (context) while the receive  *)
(* path was cutting the next block out of the request, after which the application re-used its request for another upload       *)
(* (harness/drv/c12/bwpark.go): "never corrupt ... a body", "transfers never mix" - every block of the upload carries the         *)
(* upload's own bytes at its offset.                                                                                              *)
EXTENDS Integers, Sequences, TLC, Json, IOUtils
Recs == ndJsonDeserialize(IOEnv.VF_RECS)
VARIABLES i, ph
Init == i \in 1..Len(Recs) /\ ph = 0
Next == ph = 0 /\ ph' = 1 /\ UNCHANGED i
T == Recs[i]
C04_NoForeignBlocks == (ph = 1 /\ T.done) => (T.copies >= 1 /\ T.fails = 0)
=============================================================================
