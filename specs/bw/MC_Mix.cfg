SPECIFICATION Spec
CONSTANTS
  NB = 3
  SameKey = FALSE
INVARIANTS NoMix ExactlyOnce Emit
