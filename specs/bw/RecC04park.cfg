INIT Init
NEXT Next
INVARIANTS C04_NoForeignBlocks
