---------------------------- MODULE MC_Blockwise ----------------------------
(* Scenario grid of C04 (body sizes within +/-1 of block boundaries of both endpoints, SZX pairs incl. BERT with     *)
(* two maximum message sizes, upload / download / both), exhaustive exploration of every channel behaviour within    *)
(* the fault budget for every scenario, and generator of the fault schedules replayed on the real code.              *)
EXTENDS Blockwise, Json, SequencesExt
CONSTANTS Grid, FaultBudget, OrphanGuard, Walks, MaxEvents, MaxReplay,
          LoseAt       \* > 0: directed schedules - everything delivered in order, the server's buffers time out once after LoseAt responses
Pairs == IF Grid = "quick" THEN {<<0, 0>>, <<1, 0>>, <<0, 1>>, <<7, 7>>}
         ELSE IF Grid = "medium" THEN {<<0, 0>>, <<1, 0>>, <<0, 1>>, <<1, 1>>, <<2, 0>>, <<6, 6>>, <<7, 7>>, <<0, 7>>}
         ELSE {<<0, 0>>, <<0, 1>>, <<1, 0>>, <<0, 2>>, <<2, 0>>, <<1, 1>>, <<2, 1>>, <<1, 2>>, <<2, 2>>, <<6, 6>>, <<6, 7>>, <<7, 6>>, <<7, 7>>, <<0, 6>>, <<6, 0>>, <<0, 7>>}
Lens(a, b) == {0, 1} \cup {k * Size(x) + d : x \in {a, b}, k \in (IF Grid \in {"quick", "medium"} THEN {1, 2} ELSE {1, 2, 3}), d \in {-1, 0, 1}}
MMS(a, b) == IF a = 7 \/ b = 7 THEN {1152, 2500} ELSE {2048}
Scen(a, b, cm, sm) ==
  {[L |-> l, L2 |-> 5, CS |-> a, SS |-> b, CMMS |-> cm, SMMS |-> sm, Faults |-> FaultBudget, Guard |-> OrphanGuard] : l \in Lens(a, b) \ {0}}
  \cup {[L |-> 0, L2 |-> l, CS |-> a, SS |-> b, CMMS |-> cm, SMMS |-> sm, Faults |-> FaultBudget, Guard |-> OrphanGuard] : l \in Lens(a, b)}
  \cup {[L |-> 2 * Size(a) + 1, L2 |-> 2 * Size(b) + 1, CS |-> a, SS |-> b, CMMS |-> cm, SMMS |-> sm, Faults |-> FaultBudget, Guard |-> OrphanGuard]}
Params == UNION {UNION {Scen(pr[1], pr[2], cm, sm) : cm \in MMS(pr[1], pr[2]), sm \in MMS(pr[1], pr[2])} : pr \in Pairs}
ParamSeq == SetToSeq(Params)
VARIABLES p, s, w, hist
Init == /\ hist = <<>>
        /\ IF Walks = 0 THEN w = 0 /\ p \in Params ELSE w \in 1..Walks /\ p = ParamSeq[(w % Len(ParamSeq)) + 1]
        /\ s = S0(p)
Enabled == {a \in Acts : Apply(p, s, a) # {} /\ (a.a = "replay" => a.k <= Len(s.sent))}
Fine == /\ \E a \in {x \in Acts : x.a = "replay" => x.k <= MaxReplay} : \E t \in Apply(p, s, a) : s' = t
        /\ Len(s.sent) < 60
        /\ UNCHANGED <<p, w, hist>>
\* prefer progress: deliveries twice as likely as each fault kind
Weighted == Enabled \cup {[a |-> "deliver", d |-> d, k |-> 0] : d \in {"c2s", "s2c"}}
Coarse == /\ Len(hist) < MaxEvents /\ Enabled # {}
          /\ \E a \in {RandomElement(Enabled)} : \E t \in Apply(p, s, a) : s' = t /\ hist' = Append(hist, a)
          /\ UNCHANGED <<p, w>>
\* directed schedule: a fault-free exchange in which the server's buffers time out once, after LoseAt delivered responses
NS2C == Cardinality({k \in 1..Len(hist) : hist[k].a = "deliver" /\ hist[k].d = "s2c"})
Lost == \E k \in 1..Len(hist) : hist[k].a = "lose"
DirAct == IF s.cli.st = "idle" THEN [a |-> "start", d |-> "c2s", k |-> 0]
          ELSE IF NS2C = LoseAt /\ ~Lost /\ Lose(p, s) # {} THEN [a |-> "lose", d |-> "c2s", k |-> 0]
          ELSE IF s.c2s # <<>> THEN [a |-> "deliver", d |-> "c2s", k |-> 0]
          ELSE [a |-> "deliver", d |-> "s2c", k |-> 0]
DirEnabled == Apply(p, s, DirAct) # {}
Directed == /\ Len(hist) < MaxEvents /\ DirEnabled
            /\ \E t \in Apply(p, s, DirAct) : s' = t /\ hist' = Append(hist, DirAct)
            /\ UNCHANGED <<p, w>>
Next == IF Walks = 0 THEN Fine ELSE IF LoseAt > 0 THEN Directed ELSE Coarse
View == <<p, s, w>>
Inv_ExactUp   == ExactUp(p, s)
Inv_ExactDown == ExactDown(p, s)
Inv_OnceDown  == OnceUp(s)
\* fault-free exchanges complete, except the BERT case O1 (DESIGN 5 C04): whole body in the first block but flagged "more"
O1(q) == q.CS = 7 /\ q.L > 1024 /\ q.L < Buf(7, q.CMMS) /\ q.L % 1024 # 0
Inv_Completes == (FaultBudget = 0 /\ ~O1(p)) => Completes(p, s)
Emit == (Walks > 0 /\ (Len(hist) = MaxEvents \/ (IF LoseAt > 0 THEN ~DirEnabled ELSE Enabled = {}))) => PrintT(<<"HIST", ToJson([p |-> p, acts |-> hist])>>)
=============================================================================
